//go:build verif

// Verification hook for the outgoing length limit (C11). Add-only, no behaviour change.

package girc

// VerifResetState puts the tracked state back to what every new connection starts
// from (state.reset(false), the call internalConnect makes before dialing): server
// options emptied, maxLineLength/maxPrefixLength back to their defaults.
func (c *Client) VerifResetState() { c.state.reset(false) }
