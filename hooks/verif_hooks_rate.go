//go:build verif

// Verification hooks for the flood limiter (property C16). Add-only wrappers; nothing in
// here changes behaviour.

package girc

import "time"

// VerifRateZero runs ircConn.rate on a connection that has never written: lastWrite is
// the zero Time, for which time.Since saturates at the largest Duration (1<<63 - 1 ns)
// whatever the clock reads. The result is therefore an exact function of the arguments.
// Returns the new accumulated delay and the delay imposed on this event.
func VerifRateZero(writeDelay time.Duration, chars int) (newDelay, delay time.Duration) {
	c := &ircConn{writeDelay: writeDelay}
	delay = c.rate(chars)
	return c.writeDelay, delay
}

// VerifRateAt runs ircConn.rate on a connection whose last write was stamped sinceWrite
// ago and whose last rate call happened sinceRate ago (a negative duration leaves the
// respective time unset). Returns the new accumulated delay, the delay imposed on this
// event, and whether lastRate was advanced to (at least) the time of this call.
func VerifRateAt(writeDelay, sinceWrite, sinceRate time.Duration, chars int) (newDelay, delay time.Duration, advanced bool) {
	now := time.Now()
	c := &ircConn{writeDelay: writeDelay}
	if sinceWrite >= 0 {
		c.lastWrite = now.Add(-sinceWrite)
	}
	if sinceRate >= 0 {
		c.lastRate = now.Add(-sinceRate)
	}
	delay = c.rate(chars)
	return c.writeDelay, delay, !c.lastRate.Before(now)
}

// VerifRateState returns the accumulated delay of the live connection and how long ago
// its last socket write was stamped; ok is false when the client is not connected.
func (c *Client) VerifRateState() (writeDelay, sinceLastWrite time.Duration, ok bool) {
	c.mu.RLock()
	defer c.mu.RUnlock()
	if c.conn == nil {
		return 0, 0, false
	}
	c.conn.mu.RLock()
	defer c.conn.mu.RUnlock()
	return c.conn.writeDelay, time.Since(c.conn.lastWrite), true
}

// VerifTxLen returns the number of events queued for the send loop.
func (c *Client) VerifTxLen() int { return len(c.tx) }

// VerifSetWriteDelay sets the accumulated delay of the live connection (to start a
// scenario from "the burst allowance is used up" without sending the burst). Returns
// false when the client is not connected.
func (c *Client) VerifSetWriteDelay(d time.Duration) bool {
	c.mu.RLock()
	defer c.mu.RUnlock()
	if c.conn == nil {
		return false
	}
	c.conn.mu.Lock()
	c.conn.writeDelay = d
	c.conn.mu.Unlock()
	return true
}

// VerifLimiterState returns the three fields of the live connection that the flood limiter
// reads and writes, as they are (absolute times); ok is false when not connected.
func (c *Client) VerifLimiterState() (writeDelay time.Duration, lastWrite, lastRate time.Time, ok bool) {
	c.mu.RLock()
	defer c.mu.RUnlock()
	if c.conn == nil {
		return 0, time.Time{}, time.Time{}, false
	}
	c.conn.mu.RLock()
	defer c.conn.mu.RUnlock()
	return c.conn.writeDelay, c.conn.lastWrite, c.conn.lastRate, true
}
