//go:build verif

// Verification hooks for the snapshot-isolation property (C13): read-only identities
// of the memory the tracked state owns. Compiled only with `-tags verif`; nothing in
// here changes behaviour.

package girc

import "reflect"

// VerifHeapIdentities returns the addresses of every object the tracked state owns:
// the User and Channel structs, the backing arrays of their ChannelList / UserList
// (only lists with capacity, an empty list has no storage), the permission maps and the
// backing arrays of the channel mode lists. A snapshot handed out by a getter must not
// share any of them.
func (c *Client) VerifHeapIdentities() (structs, lists, maps, modes []uintptr) {
	c.state.RLock()
	defer c.state.RUnlock()
	for _, u := range c.state.users {
		if u == nil {
			continue
		}
		structs = append(structs, reflect.ValueOf(u).Pointer())
		if cap(u.ChannelList) > 0 {
			lists = append(lists, reflect.ValueOf(u.ChannelList).Pointer())
		}
		if u.Perms != nil && u.Perms.channels != nil {
			maps = append(maps, reflect.ValueOf(u.Perms.channels).Pointer())
		}
	}
	for _, ch := range c.state.channels {
		if ch == nil {
			continue
		}
		structs = append(structs, reflect.ValueOf(ch).Pointer())
		if cap(ch.UserList) > 0 {
			lists = append(lists, reflect.ValueOf(ch.UserList).Pointer())
		}
		if p := ch.Modes.VerifModesData(); p != 0 {
			modes = append(modes, p)
		}
	}
	return structs, lists, maps, modes
}

// VerifPermsIdentity returns the identity of the permission map of a (snapshot or
// tracked) UserPerms, 0 for a nil receiver or a nil map.
func (p *UserPerms) VerifPermsIdentity() uintptr {
	if p == nil {
		return 0
	}
	p.mu.RLock()
	defer p.mu.RUnlock()
	if p.channels == nil {
		return 0
	}
	return reflect.ValueOf(p.channels).Pointer()
}
