//go:build verif

// Verification hooks for the PING / nick-collision property (C17): read and prime the
// flood limiter of the live connection, so that a check can tell which outgoing events
// consulted it.  Add-only; no behaviour change.

package girc

import "time"

// VerifPNPrimeLimiter sets the limiter of the current connection: writeDelay as given and
// lastWrite = now + lastWriteIn (a lastWrite in the future makes the next rate() call add
// more than its own cost, whatever the scheduling). It reports false when disconnected.
func (c *Client) VerifPNPrimeLimiter(writeDelay, lastWriteIn time.Duration) bool {
	c.mu.RLock()
	defer c.mu.RUnlock()

	if c.conn == nil {
		return false
	}

	c.conn.mu.Lock()
	c.conn.writeDelay = writeDelay
	c.conn.lastWrite = time.Now().Add(lastWriteIn)
	c.conn.mu.Unlock()
	return true
}

// VerifPNWriteDelay returns the limiter's accumulated write delay.
func (c *Client) VerifPNWriteDelay() (time.Duration, bool) {
	c.mu.RLock()
	defer c.mu.RUnlock()

	if c.conn == nil {
		return 0, false
	}

	c.conn.mu.Lock()
	defer c.conn.mu.Unlock()
	return c.conn.writeDelay, true
}
