//go:build verif

// Verification hooks for the CTCP handler table (property C14). Add-only wrappers,
// no behaviour change.

package girc

import "sort"

// VerifCTCPParseCmd exposes CTCP.parseCMD: the key a handler name is registered
// under ("" when the name is rejected).
func VerifCTCPParseCmd(cmd string) string { return (&CTCP{}).parseCMD(cmd) }

// VerifCTCPKeys returns the keys of the CTCP handler table, sorted.
func (c *CTCP) VerifCTCPKeys() []string {
	c.mu.RLock()
	defer c.mu.RUnlock()

	keys := make([]string, 0, len(c.handlers))
	for k := range c.handlers {
		keys = append(keys, k)
	}
	sort.Strings(keys)
	return keys
}
