//go:build verif

// Verification hook for the STS scenarios in which the application closes the client while
// server lines are still queued: how many received events wait for execLoop. Add-only.

package girc

// VerifRxQueued returns the number of received events not yet handed to the handlers.
func (c *Client) VerifRxQueued() int { return len(c.rx) }
