//go:build verif

// Verification hooks for the strict-transport (STS) bookkeeping: read-only views of the
// two timestamps, a way to let scripted time pass (both timestamps move into the past),
// and the pure predicates on a free-standing policy value. Add-only; no behaviour change.

package girc

import "time"

// VerifSTSTimes describes persistenceReceived and lastFailed relative to the wall clock.
type VerifSTSTimes struct {
	ReceivedZero bool
	ReceivedAgo  time.Duration
	FailedZero   bool
	FailedAgo    time.Duration
}

// VerifSTSTimes returns how long ago the policy was received / the last fallback happened.
func (c *Client) VerifSTSTimes() VerifSTSTimes {
	c.state.RLock()
	defer c.state.RUnlock()
	s := c.state.sts
	return VerifSTSTimes{
		ReceivedZero: s.persistenceReceived.IsZero(),
		ReceivedAgo:  time.Since(s.persistenceReceived),
		FailedZero:   s.lastFailed.IsZero(),
		FailedAgo:    time.Since(s.lastFailed),
	}
}

// VerifSTSShift lets d of scripted time pass for the policy: both timestamps are moved d
// into the past. Zero timestamps (never set) stay zero.
func (c *Client) VerifSTSShift(d time.Duration) {
	c.state.Lock()
	defer c.state.Unlock()
	if !c.state.sts.persistenceReceived.IsZero() {
		c.state.sts.persistenceReceived = c.state.sts.persistenceReceived.Add(-d)
	}
	if !c.state.sts.lastFailed.IsZero() {
		c.state.sts.lastFailed = c.state.sts.lastFailed.Add(-d)
	}
}

// VerifSetSTSLastFailed records a fallback that happened `ago` ago.
func (c *Client) VerifSetSTSLastFailed(ago time.Duration) {
	c.state.Lock()
	c.state.sts.lastFailed = time.Now().Add(-ago)
	c.state.Unlock()
}

// VerifSTSExpired evaluates strictTransport.expired() on a policy with the given duration
// received `ago` ago. secsBefore/secsAfter are the whole seconds elapsed since the receipt
// measured just before and just after the call: when they are equal the value the
// predicate saw is known exactly.
func VerifSTSExpired(duration int, ago time.Duration) (expired bool, secsBefore, secsAfter int) {
	s := strictTransport{upgradePort: 1, persistenceDuration: duration, persistenceReceived: time.Now().Add(-ago)}
	secsBefore = int(time.Since(s.persistenceReceived).Seconds())
	expired = s.expired()
	secsAfter = int(time.Since(s.persistenceReceived).Seconds())
	return expired, secsBefore, secsAfter
}

// VerifSTSEnabled evaluates strictTransport.enabled() on a policy with the given port.
func VerifSTSEnabled(port int) bool {
	s := strictTransport{upgradePort: port}
	return s.enabled()
}

// VerifSTSServer returns what Client.server() answers for a policy port (the address the
// next connection attempt would dial) without touching the client's own policy.
func VerifSTSServer(cfg Config, port int) string {
	c := &Client{Config: cfg, state: &state{}}
	c.state.sts.upgradePort = port
	return c.server()
}
