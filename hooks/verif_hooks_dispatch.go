//go:build verif

package girc

// Verification hooks for the handler dispatch (property C06). Add-only wrappers around
// unexported code; no behaviour change.

// VerifRegisterInternal registers handler in the internal handler table, exactly as
// registerBuiltins does for the library's own handlers (Caller.register with
// internal = true, under Caller.mu), and returns the cuid.
func (c *Caller) VerifRegisterInternal(bg bool, cmd string, handler Handler) string {
	return c.sregister(true, bg, cmd, handler)
}
