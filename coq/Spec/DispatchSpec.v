(* C06 — what the statement says about registration and routing, without maps, uids or
   cuid strings: the registry is the list of handlers currently registered.

   A handler is identified by the registration call that created it (handler id h);
   [decl h] is what that call said (command as written, background?, ...). *)
Require Import Bytes AMap Names Dispatch.

(* When is a received line an echo of the client's own message?  conn.go readLoop: the
   command is PRIVMSG or NOTICE, the line has a source, and the source's ID equals the
   client's ID — both RFC1459-folded — where the client's nick is the one it has at the
   moment the line is READ (nick changes by 001 / NICK take effect when their handlers have
   run).  [src] = [] stands for a line without a source. *)
Definition PRIVMSG_cmd : str := Eval vm_compute in bs "PRIVMSG".
Definition NOTICE_cmd : str := Eval vm_compute in bs "NOTICE".
Definition is_echo (cmd src nick_at_read : str) : bool :=
  (streqb cmd PRIVMSG_cmd || streqb cmd NOTICE_cmd)
  && negb (match src with [] => true | _ => false end)
  && streqb (to_rfc1459 src) (to_rfc1459 nick_at_read).

(* a received event, from the line and the nick at read time *)
Definition received (cmd src nick_at_read : str) : event :=
  mkEv cmd (is_echo cmd src nick_at_read).

Section Spec.
  Variable decl : N -> hdecl.

  Definition sp_cmd (h : N) : str := go_upper (hd_cmd (decl h)).
  Definition sp_ext (h : N) : bool := negb (hd_int (decl h)).

  Fixpoint remove_id (h : N) (l : list N) : list N :=
    match l with
    | [] => []
    | x :: r => if x =? h then remove_id h r else x :: remove_id h r
    end.

  Fixpoint mem_id (h : N) (l : list N) : bool :=
    match l with [] => false | x :: r => (x =? h) || mem_id h r end.

  (* the user-visible operations on the registry; only external handlers can be removed *)
  Definition sp_add (reg : list N) (h : N) : list N := h :: reg.
  Definition sp_remove (reg : list N) (h : N) : list N * bool :=
    if mem_id h reg && sp_ext h then (remove_id h reg, true) else (reg, false).
  Definition sp_clear (reg : list N) (cmd : str) : list N :=
    filter (fun h => negb (sp_ext h && streqb (sp_cmd h) (go_upper cmd))) reg.
  Definition sp_clear_all (reg : list N) : list N := filter (fun h => negb (sp_ext h)) reg.

  (* routing: handler h is run for event e in phase k (0 bg "*", 1 bg cmd, 2 fg "*",
     3 fg cmd) — registered for the event's command or for "*", command groups skipped
     for an echo.  Received commands are never "*" (hypothesis of the theorems). *)
  Definition route (h : N) (e : event) : option nat :=
    if streqb (sp_cmd h) star then Some (if hd_bg (decl h) then 0 else 2)%nat
    else if streqb (sp_cmd h) (ev_cmd e) && negb (ev_echo e)
         then Some (if hd_bg (decl h) then 1 else 3)%nat
         else None.

  Definition routed (h : N) (e : event) : bool :=
    match route h e with Some _ => true | None => false end.

  (* the handlers the statement says event e must reach, given the registry *)
  Definition sp_targets (reg : list N) (e : event) : list N :=
    filter (fun h => routed h e) reg.

  (* one table operation on the registry; Remove of a string that is not the id of a
     registered handler (TRemoveRaw under the side condition of the theorems) finds nothing *)
  Definition sp_apply (reg : list N) (o : top) : list N * bool :=
    match o with
    | TAdd h => (sp_add reg h, true)
    | TRemove h => sp_remove reg h
    | TRemoveRaw _ => (reg, false)
    | TClear c => (sp_clear reg c, true)
    | TClearAll => (sp_clear_all reg, true)
    end.

  Fixpoint sp_run (reg : list N) (ops : list top) : list N :=
    match ops with
    | [] => reg
    | o :: r => sp_run (fst (sp_apply reg o)) r
    end.
End Spec.
