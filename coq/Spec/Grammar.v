(* The IRC message grammar (RFC 1459 §2.3.1 / RFC 2812 §2.3.1 with IRCv3 message-tags) as
   an abstract syntax, its concrete rendering, and the structure the grammar assigns to
   a line (`meaning`).  Written from the grammar, not from the control flow of
   ParseEvent.  No proofs here.

     message  = ['@' tags SPACE] [':' prefix SPACE] command params [crlf]
     tags     = tag *(';' tag)            tag = key ['=' escaped-value]
     prefix   = name ['!' user] ['@' host]
     command  = 2*letter / 3digit
     params   = *(1*SPACE middle) [1*SPACE ':' trailing] / *(1*SPACE middle) *SPACE
     middle   = nospcrlfcl *(':' / nospcrlfcl)
     trailing = *(':' / ' ' / nospcrlfcl)

   The separator after the tag section and after the prefix is a single SPACE (RFC 2812
   and the IRCv3 specification); between the command and the parameters and between
   parameters any run of SPACE (0x20) is a separator (RFC 1459's <SPACE>).  The number of
   parameters is not bounded. *)
Require Import Bytes AMap Tags Event.

Record ast := mkAst {
  a_tags : option (list (str * option str));  (* key, UNESCAPED value; None = no "=value" *)
  a_src : option (str * option str * option str);   (* name, user, host *)
  a_cmd : str;
  a_middles : list (nat * str);     (* extra SPACEs (beyond the first) before it, middle *)
  a_trailing : option (nat * str);  (* extra SPACEs before " :", trailing text *)
  a_tail : nat;                     (* SPACEs at the end of a line without trailing *)
  a_eol : str                       (* line terminator as received: any run of CR / LF *)
}.

(* ---- concrete syntax ------------------------------------------------------------ *)

Definition spaces (n : nat) : str := repeat 32 n.

Definition render_tag (kv : str * option str) : str :=
  fst kv ++ match snd kv with None => [] | Some v => 61 :: tag_escape v end.

Definition render_tags (l : list (str * option str)) : str :=
  64 :: join semi (List.map render_tag l) ++ [32].

Definition render_src (s : str * option str * option str) : str :=
  let '(n, u, h) := s in
  58 :: n ++ (match u with Some u => 33 :: u | None => [] end)
     ++ (match h with Some h => 64 :: h | None => [] end) ++ [32].

Definition render_middles (l : list (nat * str)) : str :=
  flat_map (fun nm => spaces (S (fst nm)) ++ snd nm) l.

Definition render_trailing (t : option (nat * str)) (tail : nat) : str :=
  match t with
  | Some (n, t) => spaces (S n) ++ 58 :: t
  | None => spaces tail
  end.

Definition render (a : ast) : str :=
  (match a_tags a with Some l => render_tags l | None => [] end)
  ++ (match a_src a with Some s => render_src s | None => [] end)
  ++ a_cmd a
  ++ render_middles (a_middles a)
  ++ render_trailing (a_trailing a) (a_tail a)
  ++ a_eol a.

(* ---- well-formedness: the character classes of the grammar ---------------------- *)

Definition is_nul_cr_lf (b : N) : bool := (b =? 0) || (b =? 13) || (b =? 10).

(* nospcrlfcl plus ':' : any octet except NUL CR LF SPACE *)
Definition middle_byte (b : N) : bool := negb (is_nul_cr_lf b) && negb (b =? 32).
Definition trailing_byte (b : N) : bool := negb (is_nul_cr_lf b).

Definition wf_middle (m : str) : bool :=
  match m with
  | [] => false
  | c :: _ => negb (c =? 58) && forallb middle_byte m
  end.
Definition wf_trailing (t : str) : bool := forallb trailing_byte t.

(* IRCv3 key: ['+'] 1*(letter / digit / '-' / '.' / '/')  (vendor prefixes are host names) *)
Definition key_byte (b : N) : bool := is_alpha b || is_digit b || (b =? 45) || (b =? 46) || (b =? 47).
Definition wf_key (k : str) : bool :=
  match k with
  | [] => false
  | c :: r =>
    if c =? 43 then (match r with [] => false | _ => forallb key_byte r end)
    else forallb key_byte k
  end.
(* unescaped value: any octets except NUL (the five escapable ones are escaped on the wire) *)
Definition wf_value (v : str) : bool := forallb (fun b => negb (b =? 0)) v.
Definition wf_tag (kv : str * option str) : bool :=
  wf_key (fst kv) && match snd kv with None => true | Some v => wf_value v end.

Definition name_byte (b : N) : bool := middle_byte b && negb (b =? 33) && negb (b =? 64).
Definition user_byte (b : N) : bool := middle_byte b && negb (b =? 64).
Definition nonempty (s : str) : bool := match s with [] => false | _ => true end.

Definition wf_src (s : str * option str * option str) : bool :=
  let '(n, u, h) := s in
  nonempty n && forallb name_byte n
  && (match u with Some u => nonempty u && forallb user_byte u | None => true end)
  && (match h with Some h => nonempty h && forallb name_byte h | None => true end).

Definition wf_cmd (c : str) : bool :=
  (Nat.leb 2 (length c) && forallb is_alpha c) || (Nat.eqb (length c) 3 && forallb is_digit c).

Definition wf_astb (a : ast) : bool :=
  (match a_tags a with
   | Some [] => false
   | Some l => forallb wf_tag l
   | None => true
   end)
  && (match a_src a with Some s => wf_src s | None => true end)
  && wf_cmd (a_cmd a)
  && forallb (fun nm => wf_middle (snd nm)) (a_middles a)
  && (match a_trailing a with
      | Some (_, t) => wf_trailing t && Nat.eqb (a_tail a) 0
      | None => true
      end)
  && forallb is_crlf (a_eol a).

Definition wf_ast (a : ast) : Prop := wf_astb a = true.

(* ---- the structure the grammar assigns ------------------------------------------ *)

(* value of tag k: that of its LAST occurrence, unescaped; a tag without "=value" has
   the empty value; None when the key does not occur *)
Fixpoint spec_tag_value (l : list (str * option str)) (k : str) : option str :=
  match l with
  | [] => None
  | (k', v) :: r =>
    match spec_tag_value r k with
    | Some x => Some x
    | None => if streqb k k' then Some (match v with Some v => v | None => [] end) else None
    end
  end.

(* the tag map as girc stores it: wire form of each value, last duplicate wins *)
Definition meaning_tags (l : list (str * option str)) : tagmap :=
  fold_left (fun m kv => aset (fst kv) (match snd kv with Some v => tag_escape v | None => [] end) m) l [].

Definition meaning_src (s : str * option str * option str) : wsource :=
  let '(n, u, h) := s in
  mkWSource n (match u with Some u => u | None => [] end) (match h with Some h => h | None => [] end).

Definition meaning_params (a : ast) : list str :=
  List.map snd (a_middles a) ++ match a_trailing a with Some (_, t) => [t] | None => [] end.

Definition meaning (a : ast) : wevent :=
  mkWEvent (option_map meaning_tags (a_tags a))
           (option_map meaning_src (a_src a))
           (to_upper_ascii (a_cmd a))
           (meaning_params a).
