(* C03's own vocabulary, written from the statement (not from the code):
   what the peer of the socket sees, what a wire line is, what a clean field is. *)
Require Import Bytes Utf8 AMap Tags Event.

(* The peer cuts the byte stream after every LF (bufio.Reader.ReadString('\n')); a
   non-empty remainder without LF is a last, unterminated piece. *)
Fixpoint cut_lf_aux (s cur : str) : list str :=
  match s with
  | [] => match cur with [] => [] | _ => [rev cur] end
  | b :: r => if b =? 10 then rev (b :: cur) :: cut_lf_aux r [] else cut_lf_aux r (b :: cur)
  end.
Definition cut_lf (s : str) : list str := cut_lf_aux s [].

(* `l` is exactly one IRC line: body CR LF with no other CR or LF *)
Definition wire_line (l body : str) : Prop :=
  l = body ++ [13; 10] /\ ~ In 13 body /\ ~ In 10 body.

(* a CR/LF-free, valid UTF-8 string *)
Definition plain (s : str) : Prop := valid_utf8 s = true /\ ~ In 13 s /\ ~ In 10 s.

(* an event all of whose fields are CR/LF-free valid UTF-8 *)
Definition plain_source (s : wsource) : Prop :=
  plain (ws_name s) /\ plain (ws_ident s) /\ plain (ws_host s).
Definition plain_tags (t : wtags) : Prop :=
  match t with
  | None => True
  | Some m => Forall (fun kv : str * str => plain (fst kv) /\ plain (snd kv)) m
  end.
Definition plain_event (e : wevent) : Prop :=
  plain_tags (we_tags e) /\
  match we_src e with Some s => plain_source s | None => True end /\
  plain (we_cmd e) /\ Forall plain (we_params e).

(* the statement's `clean`: invalid UTF-8 removed, then CR and LF removed *)
Definition cleaned (s : str) : str :=
  filter (fun b => negb ((b =? 10) || (b =? 13))) (to_valid_utf8 [] s).

(* the statement's "single-token command" (after cleaning): non-empty, no SPACE, and
   not starting with the tag or prefix marker *)
Definition single_token (c : str) : Prop :=
  c <> [] /\ ~ In 32 c /\ (forall r, c <> 64 :: r) /\ (forall r, c <> 58 :: r).

(* the sections written before the command do not break the line's framing: a written
   tag section is "@x.." without SPACE (an over-limit first tag gives a bare "@"), a
   written source is non-empty without SPACE *)
Definition tags_section_ok (t : wtags) : Prop :=
  tags_write t = [] \/
  (~ In 32 (cleaned (tags_bytes t)) /\ (2 <= length (cleaned (tags_bytes t)))%nat).
Definition source_section_ok (s : option wsource) : Prop :=
  match s with
  | None => True
  | Some s => cleaned (source_write s) <> [] /\ ~ In 32 (cleaned (source_write s))
  end.
