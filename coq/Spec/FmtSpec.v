(* Specification side of C20, written from the statement: a text is a sequence of pieces
   (literal text, a {name} token, a {foreground,background} token); `render` writes the
   sequence down, `expected` is what Fmt must return for it (each token replaced by its
   documented control sequence), `literals` is the text with every token dropped,
   `trim_expected` is what TrimFmt must return.  The token table is the documented one
   (format.go, fmtColors / fmtCodes), shared with the model and compared with the Go maps
   on every run (suite fmt.tables). *)
Require Import Bytes Format.

Inductive piece : Type :=
| Lit (s : str)
| Tok (name : str)
| Tok2 (fg bg : str).

Definition render1 (p : piece) : str :=
  match p with
  | Lit s => s
  | Tok n => fmt_open :: n ++ [fmt_close]
  | Tok2 f b => fmt_open :: (f ++ comma_c :: b) ++ [fmt_close]
  end.

Definition render (ps : list piece) : str := concat (List.map render1 ps).

(* names are matched in any letter case *)
Definition colour_of (n : str) : option N := lookup (to_lower_ascii n) fmt_colors.
Definition code_of (n : str) : option str := lookup (to_lower_ascii n) fmt_codes.

(* "\x03%02d": the colour introducer and the two-digit colour number *)
Definition two_digits (c : N) : str := [48 + c / 10; 48 + c mod 10].
Definition colour_seq (c : N) : str := 3 :: two_digits c.

Definition expected1 (p : piece) : str :=
  match p with
  | Lit s => s
  | Tok n =>
      match colour_of n with
      | Some c => colour_seq c
      | None => match code_of n with Some b => b | None => [] end
      end
  | Tok2 f b =>
      match colour_of f, colour_of b with
      | Some cf, Some cb => colour_seq cf ++ comma_c :: two_digits cb
      | _, _ => []
      end
  end.

Definition expected (ps : list piece) : str := concat (List.map expected1 ps).

Definition literals1 (p : piece) : str := match p with Lit s => s | _ => [] end.
Definition literals (ps : list piece) : str := concat (List.map literals1 ps).

(* ---- side conditions ---- *)
Definition no_open (s : str) : Prop := ~ In fmt_open s.
Definition brace_free (s : str) : Prop := ~ In fmt_open s /\ ~ In fmt_close s.

(* every token of the sequence is a known one (any letter case) *)
Definition known1 (p : piece) : Prop :=
  match p with
  | Lit _ => True
  | Tok n => colour_of n <> None \/ code_of n <> None
  | Tok2 f b => colour_of f <> None /\ colour_of b <> None
  end.

Definition lits_ok (P : str -> Prop) (ps : list piece) : Prop :=
  forall s, In (Lit s) ps -> P s.

(* ---- TrimFmt ---- *)
(* the text between the braces of a token *)
Definition body (p : piece) : str :=
  match p with
  | Lit _ => []
  | Tok n => n
  | Tok2 f b => f ++ comma_c :: b
  end.

Definition is_tok (p : piece) : bool := match p with Lit _ => false | _ => true end.

(* a lower-case known {name} token: the name is, byte for byte, a key of one of the tables *)
Definition lower_known (p : piece) : bool :=
  match p with
  | Tok n => existsb (streqb n) trim_names
  | _ => false
  end.

Definition trim_expected (ps : list piece) : str :=
  concat (List.map (fun p => if lower_known p then [] else render1 p) ps).

(* tokens are delimited by their own braces only *)
Definition tok_wf (p : piece) : Prop :=
  match p with
  | Lit _ => True
  | Tok n => brace_free n
  | Tok2 f b => brace_free f /\ brace_free b
  end.

(* ---- StripRaw ---- *)
(* the seven formatting control bytes: CTCP 01, bold 02, colour 03, reset 0f, reverse 16,
   italic 1d, underline 1f *)
Definition ctrl_bytes : list N := [1; 2; 3; 15; 22; 29; 31].
Definition is_ctrl (b : N) : bool := memb b ctrl_bytes.
Definition ctrl_free (s : str) : Prop := forall b, In b s -> is_ctrl b = false.

(* a token after which a digit or a comma would be read as part of a colour sequence:
   a colour token, a colour pair, and the {c}/{clear} token (whose code is the bare colour
   introducer \x03) *)
Definition colourish (p : piece) : bool :=
  match p with
  | Lit _ => false
  | Tok n => match colour_of n with
             | Some _ => true
             | None => match code_of n with Some b => streqb b [3] | None => false end
             end
  | Tok2 _ _ => true
  end.

(* the colour tokens proper (names of fmtColors and pairs): the literal reading of the
   statement's side condition *)
Definition colour_tok (p : piece) : bool :=
  match p with
  | Lit _ => false
  | Tok n => match colour_of n with Some _ => true | None => false end
  | Tok2 _ _ => true
  end.

Definition starts_digit_or_comma (s : str) : bool :=
  match s with
  | c :: _ => is_digit c || N.eqb c comma_c
  | [] => false
  end.

(* no text following a [sel]-token begins with a digit or a comma ("text following" is
   whatever is rendered after the token: empty literals do not hide a later one) *)
Fixpoint spaced (sel : piece -> bool) (ps : list piece) : Prop :=
  match ps with
  | [] => True
  | p :: r => (sel p = true -> starts_digit_or_comma (render r) = false) /\ spaced sel r
  end.

(* ordinary text: what can never be part of a colour sequence or be a control byte -
   everything but the seven control bytes, the digits and the comma *)
Definition erasable (b : N) : bool := is_ctrl b || is_digit b || N.eqb b comma_c.
Definition plain_text (s : str) : str := filter (fun b => negb (erasable b)) s.

(* a is b with some bytes deleted *)
Inductive subseq : str -> str -> Prop :=
| sub_nil : subseq [] []
| sub_keep c a b : subseq a b -> subseq (c :: a) (c :: b)
| sub_drop c a b : subseq a b -> subseq a (c :: b).

(* tokens: the known ones, or any other {word} made of letters (for which `expected1` is
   the empty string: Fmt deletes it) *)
Definition word_or_known (p : piece) : Prop :=
  match p with
  | Tok n => forallb is_alpha n = true
  | _ => known1 p
  end.

(* the exact shapes that Fmt's output makes ambiguous: ",digit" after a single colour
   token ("\x0304" ",5" reads as foreground 04, background 5) and a digit after {c}/{clear}
   ("\x03" "5" reads as colour 5).  A digit after a colour token is harmless because colour
   numbers are always written with two digits; after a {fg,bg} pair anything is. *)
Definition comma_digit (s : str) : bool :=
  match s with
  | c :: d :: _ => N.eqb c comma_c && is_digit d
  | _ => false
  end.

Definition head_is_digit (s : str) : bool :=
  match s with c :: _ => is_digit c | [] => false end.

Definition single_colour (p : piece) : bool :=
  match p with
  | Tok n => match colour_of n with Some _ => true | None => false end
  | _ => false
  end.

Definition clear_tok (p : piece) : bool :=
  match p with
  | Tok n => match colour_of n with
             | Some _ => false
             | None => match code_of n with Some b => streqb b [3] | None => false end
             end
  | _ => false
  end.

Fixpoint spaced_sharp (ps : list piece) : Prop :=
  match ps with
  | [] => True
  | p :: r => (single_colour p = true -> comma_digit (render r) = false) /\
              (clear_tok p = true -> head_is_digit (render r) = false) /\
              spaced_sharp r
  end.
