(* C04 — the reference model of "what the client has been told".

   No bidirectional bookkeeping: the joined channels (each with its topic, its modes in
   the order they were first set, and ONE membership relation nick |-> privilege flags),
   one record per nick (spelling, ident, host, realname, account, away), the server
   options and the MOTD.  A user's channel list is DERIVED (the channels whose members
   contain the nick) and users are forgotten by `ref_gc` exactly when no joined channel
   lists them.  All maps are keyed by the RFC1459-folded name and kept in canonical
   (key-sorted) form (Lib/SMap.v), so equal contents are equal values.

   `ref_step` gives every message its protocol meaning, written from the protocol
   (RFC 1459/2812, IRCv3 extended-join, account-notify, account-tag, away-notify, chghost,
   multi-prefix, userhost-in-names, WHOX, ISUPPORT CHANMODES/PREFIX), not from the control
   flow of girc.  `conformant r e` says what a correct server may send to a client whose
   told-state is r.  `abs` reads a reference state off the implementation's state. *)
Require Import Bytes AMap SMap Names State.

(* ---------- the told state ---------- *)

Record rchan := mkRChan {
  rc_name : str;                    (* as spelled when we joined *)
  rc_topic : str;
  rc_modes : list (N * str);        (* mode |-> argument ("" = none), in order of first setting *)
  rc_members : amap perms }.        (* folded nick |-> privilege flags *)

Record ruser := mkRUser {
  ru_nick : str; ru_ident : str; ru_host : str; ru_name : str; ru_account : str; ru_away : str }.

Record ref := mkRef {
  r_me : str;                       (* own nick as confirmed by the server; "" before the welcome *)
  r_ident : str; r_host : str;      (* own ident/host as shown by our latest own JOIN *)
  r_chans : amap rchan;             (* folded channel name |-> channel *)
  r_users : amap ruser;             (* folded nick |-> user *)
  r_opts : amap str;                (* server options (004, 005) *)
  r_motd : str }.

Definition ref_init : ref := mkRef [] [] [] [] [] [] [].

Definition key := to_rfc1459.

Definition r_set_me (r : ref) (n : str) : ref := mkRef n (r_ident r) (r_host r) (r_chans r) (r_users r) (r_opts r) (r_motd r).
Definition r_set_ident_host (r : ref) (i h : str) : ref := mkRef (r_me r) i h (r_chans r) (r_users r) (r_opts r) (r_motd r).
Definition r_set_chans (r : ref) (m : amap rchan) : ref := mkRef (r_me r) (r_ident r) (r_host r) m (r_users r) (r_opts r) (r_motd r).
Definition r_set_users (r : ref) (m : amap ruser) : ref := mkRef (r_me r) (r_ident r) (r_host r) (r_chans r) m (r_opts r) (r_motd r).
Definition r_set_opts (r : ref) (m : amap str) : ref := mkRef (r_me r) (r_ident r) (r_host r) (r_chans r) (r_users r) m (r_motd r).
Definition r_set_motd (r : ref) (m : str) : ref := mkRef (r_me r) (r_ident r) (r_host r) (r_chans r) (r_users r) (r_opts r) m.

Definition rc_set_topic (c : rchan) (t : str) : rchan := mkRChan (rc_name c) t (rc_modes c) (rc_members c).
Definition rc_set_modes (c : rchan) (m : list (N * str)) : rchan := mkRChan (rc_name c) (rc_topic c) m (rc_members c).
Definition rc_set_members (c : rchan) (m : amap perms) : rchan := mkRChan (rc_name c) (rc_topic c) (rc_modes c) m.

Definition ru_set_nick (u : ruser) (n : str) : ruser := mkRUser n (ru_ident u) (ru_host u) (ru_name u) (ru_account u) (ru_away u).
Definition ru_set_ident_host (u : ruser) (i h : str) : ruser := mkRUser (ru_nick u) i h (ru_name u) (ru_account u) (ru_away u).
Definition ru_set_name (u : ruser) (n : str) : ruser := mkRUser (ru_nick u) (ru_ident u) (ru_host u) n (ru_account u) (ru_away u).
Definition ru_set_account (u : ruser) (a : str) : ruser := mkRUser (ru_nick u) (ru_ident u) (ru_host u) (ru_name u) a (ru_away u).
Definition ru_set_away (u : ruser) (a : str) : ruser := mkRUser (ru_nick u) (ru_ident u) (ru_host u) (ru_name u) (ru_account u) a.

Definition is_nil {A} (l : list A) : bool := match l with [] => true | _ => false end.
Definition is_some {A} (o : option A) : bool := match o with Some _ => true | None => false end.

Definition is_me (r : ref) (n : str) : bool := streqb (key n) (key (r_me r)).
Definition tracked_chan (r : ref) (c : str) : bool := is_some (alookup (key c) (r_chans r)).
Definition tracked_user (r : ref) (n : str) : bool := is_some (alookup (key n) (r_users r)).
Definition member_of (r : ref) (c n : str) : bool :=
  match alookup (key c) (r_chans r) with
  | Some ch => is_some (alookup (key n) (rc_members ch))
  | None => false
  end.

(* change one user / one channel, if tracked *)
Definition upd_user (r : ref) (n : str) (f : ruser -> ruser) : ref := r_set_users r (sm_adjust (key n) f (r_users r)).
Definition upd_chan (r : ref) (c : str) (f : rchan -> rchan) : ref := r_set_chans r (sm_adjust (key c) f (r_chans r)).

(* users are forgotten exactly when they share no joined channel *)
Definition shares_channel (chans : amap rchan) (kn : str) : bool :=
  existsb (fun kc => is_some (alookup kn (rc_members (snd kc)))) chans.
Definition ref_gc (r : ref) : ref :=
  r_set_users r (sm_filter (fun kn _ => shares_channel (r_chans r) kn) (r_users r)).

(* ---------- privilege flags ---------- *)

Definition is_sym (b : N) : bool := (b =? 126) || (b =? 38) || (b =? 64) || (b =? 37) || (b =? 43).   (* ~ & @ % + *)
Definition perms_of_syms (p : str) : perms :=
  mkPerms (memb 126 p) (memb 38 p) (memb 64 p) (memb 37 p) (memb 43 p).
Definition perm_set_letter (x : N) (on : bool) (p : perms) : perms :=
  mkPerms (if x =? 113 then on else p_owner p) (if x =? 97 then on else p_admin p) (if x =? 111 then on else p_op p)
          (if x =? 104 then on else p_halfop p) (if x =? 118 then on else p_voice p).      (* q a o h v *)

(* ---------- channel modes ---------- *)

Fixpoint mode_set (x : N) (a : str) (l : list (N * str)) : list (N * str) :=
  match l with
  | [] => [(x, a)]
  | (y, b) :: r => if y =? x then (x, a) :: r else (y, b) :: mode_set x a r
  end.
Definition mode_unset (x : N) (l : list (N * str)) : list (N * str) :=
  List.filter (fun yb => negb (fst yb =? x)) l.
Definition mode_has (x : N) (l : list (N * str)) : bool := existsb (fun yb => fst yb =? x) l.
Fixpoint mode_arg (x : N) (l : list (N * str)) : option str :=
  match l with
  | [] => None
  | (y, b) :: r => if y =? x then (match b with [] => None | _ => Some b end) else mode_arg x r
  end.

(* the i-th comma-separated piece of a CHANMODES value *)
Fixpoint piece (i : nat) (v : str) : str :=
  match v with
  | [] => []
  | b :: r =>
      if b =? 44 then match i with O => [] | S j => piece j r end
      else match i with O => b :: piece O r | S _ => piece i r end
  end.

Definition k_CHANMODES : str := Eval vm_compute in bs "CHANMODES".
Definition k_PREFIX : str := Eval vm_compute in bs "PREFIX".
Definition rfc_chanmodes : str := Eval vm_compute in bs "beI,k,l,imnpst".
Definition rfc_prefix : str := Eval vm_compute in bs "(ov)@+".

(* a CHANMODES token is used when it consists of letters and commas; otherwise the RFC default *)
Definition chanmodes_wf (v : str) : bool := negb (is_nil v) && forallb (fun b => (b =? 44) || is_alpha b) v.
Fixpoint before (c : N) (s : str) : str :=
  match s with [] => [] | b :: r => if b =? c then [] else b :: before c r end.
Fixpoint after (c : N) (s : str) : str :=                 (* text after the first c; all of it dropped when c is absent *)
  match s with [] => [] | b :: r => if b =? c then r else after c r end.
Definition count_not (c : N) (s : str) : nat := length (List.filter (fun b => negb (b =? c)) s).
(* "(" modes ")" symbols with as many symbols as modes *)
Definition prefix_wf (v : str) : bool :=
  match v with
  | 40 :: r => Nat.eqb (length (before 41 r)) (count_not 41 (after 41 r))
  | _ => false
  end.

Definition ref_chanmodes (r : ref) : str :=
  match alookup k_CHANMODES (r_opts r) with
  | Some v => if chanmodes_wf v then v else rfc_chanmodes
  | None => rfc_chanmodes
  end.
Definition ref_prefix_modes (r : ref) : str :=
  let v := match alookup k_PREFIX (r_opts r) with
           | Some v => if prefix_wf v then v else rfc_prefix
           | None => rfc_prefix
           end in
  before 41 (tl v).

Inductive mclass := MList | MArg | MSetArg | MPrefix | MFlag.
(* A: list, always an argument; B: setting, always an argument; C: setting, argument when set;
   PREFIX modes: a member's privilege; anything else is a plain flag (class D) *)
Definition mode_class (chanmodes prefix_modes : str) (x : N) : mclass :=
  if memb x (piece 0 chanmodes) then MList
  else if memb x (piece 1 chanmodes) then MArg
  else if memb x (piece 2 chanmodes) then MSetArg
  else if memb x prefix_modes then MPrefix
  else MFlag.

Definition rc_mode_set (x : N) (a : str) (c : rchan) : rchan := rc_set_modes c (mode_set x a (rc_modes c)).
Definition rc_mode_unset (x : N) (c : rchan) : rchan := rc_set_modes c (mode_unset x (rc_modes c)).
Definition rc_member_perm (kn : str) (x : N) (on : bool) (c : rchan) : rchan :=
  rc_set_members c (sm_adjust kn (perm_set_letter x on) (rc_members c)).

(* fold "+x-y..." left to right over one channel *)
Fixpoint mode_walk (cm pm : str) (flags : str) (args : list str) (add : bool) (c : rchan) : rchan :=
  match flags with
  | [] => c
  | f :: fs =>
      if f =? 43 then mode_walk cm pm fs args true c
      else if f =? 45 then mode_walk cm pm fs args false c
      else match mode_class cm pm f with
           | MList => mode_walk cm pm fs (tl args) add c
           | MArg => mode_walk cm pm fs (tl args) add (if add then rc_mode_set f (hd [] args) c else rc_mode_unset f c)
           | MSetArg => if add then mode_walk cm pm fs (tl args) add (rc_mode_set f (hd [] args) c)
                        else mode_walk cm pm fs args add (rc_mode_unset f c)
           | MPrefix => mode_walk cm pm fs (tl args) add (rc_member_perm (key (hd [] args)) f add c)
           | MFlag => mode_walk cm pm fs args add (if add then rc_mode_set f [] c else rc_mode_unset f c)
           end
  end.

(* ---------- NAMES entries ---------- *)

Fixpoint span_syms (s : str) : str * str :=
  match s with
  | [] => ([], [])
  | b :: r => if is_sym b then let '(p, n) := span_syms r in (b :: p, n) else ([], s)
  end.
(* nick or nick!ident@host *)
Definition entry_source (body : str) : source :=
  if memb 33 body then mkSource (before 33 body) (before 64 (after 33 body)) (after 64 (after 33 body))
  else mkSource body [] [].

(* ---------- the meaning of each message ---------- *)

Definition cmdb (e : event) (c : str) : bool := streqb (e_cmd e) c.
Definition c_001 : str := Eval vm_compute in bs "001".
Definition c_004 : str := Eval vm_compute in bs "004".
Definition c_005 : str := Eval vm_compute in bs "005".
Definition c_324 : str := Eval vm_compute in bs "324".
Definition c_332 : str := Eval vm_compute in bs "332".
Definition c_352 : str := Eval vm_compute in bs "352".
Definition c_353 : str := Eval vm_compute in bs "353".
Definition c_354 : str := Eval vm_compute in bs "354".
Definition c_372 : str := Eval vm_compute in bs "372".
Definition c_375 : str := Eval vm_compute in bs "375".
Definition c_JOIN : str := Eval vm_compute in bs "JOIN".
Definition c_PART : str := Eval vm_compute in bs "PART".
Definition c_KICK : str := Eval vm_compute in bs "KICK".
Definition c_QUIT : str := Eval vm_compute in bs "QUIT".
Definition c_NICK : str := Eval vm_compute in bs "NICK".
Definition c_MODE : str := Eval vm_compute in bs "MODE".
Definition c_TOPIC : str := Eval vm_compute in bs "TOPIC".
Definition c_AWAY : str := Eval vm_compute in bs "AWAY".
Definition c_ACCOUNT : str := Eval vm_compute in bs "ACCOUNT".
Definition c_CHGHOST : str := Eval vm_compute in bs "CHGHOST".

(* message tag account=...: the sender is logged in as ... *)
Definition ref_tag (r : ref) (e : event) : ref :=
  match e_src e, e_account_tag e with
  | Some src, Some a => upd_user r (s_name src) (fun u => ru_set_account u a)
  | _, _ => r
  end.

Definition ensure_user (r : ref) (src : source) : ref :=
  match alookup (key (s_name src)) (r_users r) with
  | Some _ => r
  | None => r_set_users r (sm_set (key (s_name src)) (mkRUser (s_name src) (s_ident src) (s_host src) [] [] []) (r_users r))
  end.

(* extended-join: JOIN <channel> <account|*> :<realname>; "*" = not logged in *)
Definition ext_join (rest : list str) (u : ruser) : ruser :=
  match rest with
  | [] => u
  | acct :: rest2 =>
      let u1 := ru_set_account u (if streqb acct [42] then [] else acct) in
      match rest2 with [] => u1 | name :: _ => ru_set_name u1 name end
  end.

(* the prefix nick!ident@host of a JOIN is authoritative for ident and host (a prefix that
   shows neither says nothing) *)
Definition tell_prefix (src : source) (u : ruser) : ruser :=
  if is_nil (s_ident src) && is_nil (s_host src) then u else ru_set_ident_host u (s_ident src) (s_host src).

(* what a JOIN says about the joining user: the prefix, the account tag if any, then the
   extended-join parameters *)
Definition join_tell (src : source) (tag : option str) (rest : list str) (u : ruser) : ruser :=
  ext_join rest (match tag with Some a => ru_set_account (tell_prefix src u) a | None => tell_prefix src u end).

Definition add_member (kn : str) (c : rchan) : rchan :=
  match alookup kn (rc_members c) with
  | Some _ => c
  | None => rc_set_members c (sm_set kn perms0 (rc_members c))
  end.

Definition ref_join (r : ref) (src : source) (tag : option str) (chan : str) (rest : list str) : ref :=
  let kc := key chan in
  let kn := key (s_name src) in
  let r1 := match alookup kc (r_chans r) with
            | Some _ => r
            | None => r_set_chans r (sm_set kc (mkRChan chan [] [] []) (r_chans r))
            end in
  let r2 := upd_user (ensure_user r1 src) (s_name src) (join_tell src tag rest) in
  let r3 := upd_chan r2 chan (add_member kn) in
  if is_me r (s_name src) then r_set_ident_host r3 (s_ident src) (s_host src) else r3.

Definition drop_member (kn : str) (c : rchan) : rchan := rc_set_members c (sm_del kn (rc_members c)).

(* PART / KICK: we leave (the channel is gone) or somebody else does *)
Definition ref_leave (r : ref) (chan nick : str) : ref :=
  if is_me r nick then r_set_chans r (sm_del (key chan) (r_chans r))
  else upd_chan r chan (drop_member (key nick)).

Definition ref_quit (r : ref) (nick : str) : ref :=
  r_set_chans r (sm_map (fun _ c => drop_member (key nick) c) (r_chans r)).

Definition rename_member (kold knew : str) (c : rchan) : rchan :=
  match alookup kold (rc_members c) with
  | Some p => rc_set_members c (sm_set knew p (sm_del kold (rc_members c)))
  | None => c
  end.

Definition ref_nick (r : ref) (old new : str) : ref :=
  let r1 := if is_me r old then r_set_me r new else r in
  match alookup (key old) (r_users r1) with
  | None => r1
  | Some u =>
      let users := sm_set (key new) (ru_set_nick u new) (sm_del (key old) (r_users r1)) in
      r_set_chans (r_set_users r1 users) (sm_map (fun _ c => rename_member (key old) (key new) c) (r_chans r1))
  end.

(* one NAMES entry: the user exists, is a member, and has exactly the listed prefixes *)
Definition ref_names_entry (chan : str) (r : ref) (entry : str) : ref :=
  let '(syms, body) := span_syms entry in
  match body with
  | [] => r
  | _ =>
      let src := entry_source body in
      let kn := key (s_name src) in
      upd_chan (ensure_user r src) chan
        (fun c => rc_set_members c (sm_set kn (perms_of_syms syms) (rc_members c)))
  end.

Definition ref_names (r : ref) (chan names : str) : ref :=
  if tracked_chan r chan then fold_left (ref_names_entry chan) (split_byte 32 names) r else r.

Definition ref_mode (r : ref) (target flags : str) (args : list str) : ref :=
  upd_chan r target (mode_walk (ref_chanmodes r) (ref_prefix_modes r) flags args true).

Definition ref_topic (r : ref) (chan topic : str) : ref := upd_chan r chan (fun c => rc_set_topic c topic).

(* RPL_WHOREPLY: "<hopcount> <realname>" *)
Fixpoint drop_digits (s : str) : str := match s with b :: r => if is_digit b then drop_digits r else s | [] => [] end.
Definition who_realname (last : str) : str :=
  match drop_digits last with
  | b :: r => if b =? 32 then r else b :: r
  | [] => []
  end.

Fixpoint isupport (opts : amap str) (toks : list str) : amap str :=
  match toks with
  | [] => opts
  | t :: r => isupport (if memb 61 t then sm_set (before 61 t) (after 61 t) opts else sm_set t [] opts) r
  end.

Definition k_SERVER : str := Eval vm_compute in bs "SERVER".
Definition k_VERSION : str := Eval vm_compute in bs "VERSION".

Definition nth_param (e : event) (i : nat) : str := nth i (e_params e) [].
Definition last_of (e : event) : str := last (e_params e) [].

(* the meaning of the command itself *)
Definition ref_cmd (r : ref) (e : event) : ref :=
  let ps := e_params e in
  if cmdb e c_001 then match ps with p0 :: _ => r_set_me r p0 | [] => r end
  else if cmdb e c_JOIN then
    match e_src e, ps with Some src, chan :: rest => ref_join r src (e_account_tag e) chan rest | _, _ => r end
  else if cmdb e c_PART then
    match e_src e, ps with Some src, chan :: _ => ref_leave r chan (s_name src) | _, _ => r end
  else if cmdb e c_KICK then
    match ps with chan :: nick :: _ => ref_leave r chan nick | _ => r end
  else if cmdb e c_QUIT then
    match e_src e with Some src => ref_quit r (s_name src) | None => r end
  else if cmdb e c_NICK then
    match e_src e, ps with Some src, _ :: _ => ref_nick r (s_name src) (last_of e) | _, _ => r end
  else if cmdb e c_353 then
    match ps with _ :: _ :: chan :: _ => ref_names r chan (last_of e) | _ => r end
  else if cmdb e c_MODE then
    match ps with target :: flags :: args => ref_mode r target flags args | _ => r end
  else if cmdb e c_324 then
    match ps with _ :: target :: flags :: args => ref_mode r target flags args | _ => r end
  else if cmdb e c_TOPIC then
    match ps with [chan; topic] => ref_topic r chan topic | _ => r end
  else if cmdb e c_332 then
    match ps with [_; chan; topic] => ref_topic r chan topic | _ => r end
  else if cmdb e c_352 then
    match ps with
    | [_; _; ident; host; _; nick; _; hr] =>
        upd_user r nick (fun u => ru_set_name (ru_set_ident_host u ident host) (who_realname hr))
    | _ => r
    end
  else if cmdb e c_354 then
    match ps with
    | [_; _; _; ident; host; nick; acct; real] =>
        upd_user r nick (fun u =>
          ru_set_account (ru_set_name (ru_set_ident_host u ident host) real) (if streqb acct [48] then [] else acct))
    | _ => r
    end
  else if cmdb e c_AWAY then
    match e_src e with Some src => upd_user r (s_name src) (fun u => ru_set_away u (last_of e)) | None => r end
  else if cmdb e c_ACCOUNT then
    match e_src e, ps with
    | Some src, [a] => upd_user r (s_name src) (fun u => ru_set_account u (if streqb a [42] then [] else a))
    | _, _ => r
    end
  else if cmdb e c_CHGHOST then
    match e_src e, ps with
    | Some src, [i; h] => upd_user r (s_name src) (fun u => ru_set_ident_host u i h)
    | _, _ => r
    end
  else if cmdb e c_004 then
    match ps with _ :: srv :: ver :: _ => r_set_opts r (sm_set k_VERSION ver (sm_set k_SERVER srv (r_opts r))) | _ => r end
  else if cmdb e c_005 then
    match ps with _ :: toks => r_set_opts r (isupport (r_opts r) (removelast toks)) | [] => r end
  else if cmdb e c_375 then r_set_motd r []
  else if cmdb e c_372 then r_set_motd r ((match r_motd r with [] => [] | m => m ++ [10] end) ++ last_of e)
  else r.

(* a tagged message first tells its sender's account, then what its command says *)
Definition ref_apply (r : ref) (e : event) : ref := ref_cmd (ref_tag r e) e.
Definition ref_step (r : ref) (e : event) : ref := ref_gc (ref_apply r e).
Definition ref_run (h : list event) : ref := fold_left ref_step h ref_init.

(* ref_cmd does not record again the ident/host a userhost-in-names entry repeats about a user
   we already know. `told_step` does: it is the literal reading, and what the theorems are
   stated with; on conformant messages the two agree (Proofs/ToldEq.v). *)
Definition tell_identity (r : ref) (src : source) : ref :=
  upd_user r (s_name src) (fun u => ru_set_ident_host u (s_ident src) (s_host src)).

Definition told_names_entry (chan : str) (r : ref) (entry : str) : ref :=
  let r1 := ref_names_entry chan r entry in
  let body := snd (span_syms entry) in
  if memb 33 body then tell_identity r1 (entry_source body) else r1.

Definition told_names (r : ref) (chan names : str) : ref :=
  if tracked_chan r chan then fold_left (told_names_entry chan) (split_byte 32 names) r else r.

Definition told_cmd (r : ref) (e : event) : ref :=
  if cmdb e c_353 then
    match e_params e with _ :: _ :: chan :: _ => told_names r chan (last_of e) | _ => r end
  else ref_cmd r e.

Definition told_apply (r : ref) (e : event) : ref := told_cmd (ref_tag r e) e.
Definition told_step (r : ref) (e : event) : ref := ref_gc (told_apply r e).
Definition told_run (h : list event) : ref := fold_left told_step h ref_init.

(* ---------- what a correct server may send ---------- *)

Definition this_server_text : str := Eval vm_compute in bs "this server".

(* userhost-in-names repeats the ident/host of users we may already know: a correct server
   shows a known user under the ident/host it showed before (changes come as CHGHOST) *)
Definition consistent_user (r : ref) (src : source) : bool :=
  match alookup (key (s_name src)) (r_users r) with
  | None => true
  | Some u => streqb (ru_ident u) (s_ident src) && streqb (ru_host u) (s_host src)
  end.

Definition ok_entry (r : ref) (entry : str) : bool :=
  let '(syms, body) := span_syms entry in
  match body with
  | [] => is_nil syms                                            (* only "": a doubled or trailing space *)
  | _ =>
      if memb 33 body then
        is_valid_nick (before 33 body) && memb 64 (after 33 body) && negb (memb 64 (before 33 body))
        && consistent_user r (entry_source body)
      else is_valid_nick body
  end.

(* the entries of one NAMES line name distinct users or repeat them consistently *)
Fixpoint ok_entries (r : ref) (chan : str) (entries : list str) : bool :=
  match entries with
  | [] => true
  | en :: rest => ok_entry r en && ok_entries (ref_names_entry chan r en) chan rest
  end.

Fixpoint ok_modes (r : ref) (target : str) (cm pm : str) (only_set : bool) (flags : str) (args : list str) (add : bool) : bool :=
  match flags with
  | [] => true
  | f :: fs =>
      if f =? 43 then ok_modes r target cm pm only_set fs args true
      else if f =? 45 then negb only_set && ok_modes r target cm pm only_set fs args false
      else
        is_alpha f &&
        match mode_class cm pm f with
        | MList => negb only_set && negb (is_nil args) && negb (tracked_user r (hd [] args))
                   && ok_modes r target cm pm only_set fs (tl args) add
        | MArg => negb (is_nil args) && ok_modes r target cm pm only_set fs (tl args) add
        | MSetArg => if add then negb (is_nil args) && ok_modes r target cm pm only_set fs (tl args) add
                     else ok_modes r target cm pm only_set fs args add
        | MPrefix => negb only_set && negb (is_nil args) && negb (is_nil (hd [] args)) && member_of r target (hd [] args)
                     && ok_modes r target cm pm only_set fs (tl args) add
        | MFlag => ok_modes r target cm pm only_set fs args add
        end
  end.

Definition ok_token (r : ref) (t : str) : bool :=
  match t with
  | [] => false
  | b :: _ =>
      (is_alpha b || is_digit b) &&
      (* the mode classes of a joined channel do not change under its feet *)
      (is_nil (r_chans r) || negb (streqb (before 61 t) k_CHANMODES || streqb (before 61 t) k_PREFIX))
  end.

Definition ok_hopreal (s : str) : bool :=
  match s with
  | [] => false
  | b :: _ =>
      is_digit b && Nat.leb (length s - length (drop_digits s)) 57 &&
      match drop_digits s with
      | b1 :: rest => (b1 =? 32) && negb (match rest with b2 :: _ => b2 =? 32 | [] => false end)
      | [] => false
      end
  end.

Definition cmd_ok (r : ref) (e : event) : bool :=
  let ps := e_params e in
  if cmdb e c_001 then
    is_nil (r_me r) && match ps with p0 :: _ => is_valid_nick p0 | [] => false end
  else
    negb (is_nil (r_me r)) &&
    (if cmdb e c_JOIN then
       match e_src e, ps with
       | Some src, chan :: rest =>
           is_valid_channel chan && is_valid_nick (s_name src) &&
           (if is_me r (s_name src) then negb (tracked_chan r chan)
            else tracked_chan r chan && negb (member_of r chan (s_name src)))
       | _, _ => false
       end
     else if cmdb e c_PART then
       match e_src e, ps with
       | Some src, chan :: _ => negb (is_nil chan) && member_of r chan (s_name src)
       | _, _ => false
       end
     else if cmdb e c_KICK then
       match ps with
       | chan :: nick :: _ => negb (is_nil chan) && member_of r chan nick
       | _ => false
       end
     else if cmdb e c_QUIT then
       match e_src e with Some src => negb (is_me r (s_name src)) | None => false end
     else if cmdb e c_NICK then
       match e_src e, ps with
       | Some src, _ :: _ =>
           let new := last_of e in
           is_valid_nick new &&
           (streqb (key new) (key (s_name src)) ||
            (negb (tracked_user r new) && negb (is_me r new)))
       | _, _ => false
       end
     else if cmdb e c_353 then
       match ps with
       | [_; _; chan; names] => tracked_chan r chan && ok_entries r chan (split_byte 32 names)
       | _ => false
       end
     else if cmdb e c_MODE then
       match ps with
       | target :: flags :: args =>
           if tracked_chan r target then
             is_valid_channel target && ok_modes r target (ref_chanmodes r) (ref_prefix_modes r) false flags args true
           else true
       | _ => false
       end
     else if cmdb e c_324 then
       match ps with
       | _ :: target :: flags :: args =>
           if tracked_chan r target then
             is_valid_channel target && ok_modes r target (ref_chanmodes r) (ref_prefix_modes r) true flags args true
           else true
       | _ => false
       end
     else if cmdb e c_TOPIC then match ps with [_; _] => true | _ => false end
     else if cmdb e c_332 then match ps with [_; _; _] => true | _ => false end
     else if cmdb e c_352 then
       match ps with [_; _; _; _; _; _; _; hr] => ok_hopreal hr | _ => false end
     else if cmdb e c_354 then
       match ps with [_; q; _; _; _; _; _; _] => streqb q [49] | _ => false end
     else if cmdb e c_AWAY then is_some (e_src e)
     else if cmdb e c_ACCOUNT then
       is_some (e_src e) && match ps with [_] => true | _ => false end
     else if cmdb e c_CHGHOST then
       is_some (e_src e) && match ps with [_; _] => true | _ => false end
     else if cmdb e c_004 then Nat.leb 3 (length ps)
     else if cmdb e c_005 then
       match ps with
       | _ :: toks => Nat.leb 2 (length ps) && suffixb this_server_text (last_of e)
                      && forallb (ok_token r) (removelast toks)
       | [] => false
       end
     else true).

(* the account tag is read first; the command must make sense in the told-state after it *)
Definition conformant (r : ref) (e : event) : bool := cmd_ok (ref_tag r e) e.

(* a history is conformant when each message is, in the told-state reached before it *)
Fixpoint conformant_from (r : ref) (h : list event) : bool :=
  match h with
  | [] => true
  | e :: rest => conformant r e && conformant_from (ref_step r e) rest
  end.
Definition conformant_history (h : list event) : bool := conformant_from ref_init h.

(* ---------- the told-state the implementation's state stands for ---------- *)

Definition abs_perm (s : state) (kc kn : str) : perms :=
  match alookup kn (st_users s) with
  | Some u => match alookup kc (u_perms u) with Some p => p | None => perms0 end
  | None => perms0
  end.
Definition abs_chan (s : state) (kc : str) (c : channel) : rchan :=
  mkRChan (c_name c) (c_topic c)
    (List.map (fun m => (m_name m, m_args m)) (cm_modes (c_modes c)))
    (List.map (fun kn => (kn, abs_perm s kc kn)) (c_users c)).
Definition abs_user (u : user) : ruser :=
  mkRUser (u_nick u) (u_ident u) (u_host u) (u_name u) (u_account u) (u_away u).
Definition abs (s : state) : ref :=
  mkRef (st_nick s) (st_ident s) (st_host s)
    (sm_map (abs_chan s) (canon (st_channels s)))
    (sm_map (fun _ u => abs_user u) (canon (st_users s)))
    (canon (st_opts s))
    (st_motd s).

(* ---------- the views of a told-state that the state API exposes ---------- *)

Definition v_nick (cfg : config) (r : ref) : str := match r_me r with [] => cfg_nick cfg | n => n end.
Definition v_ident (cfg : config) (r : ref) : str := match r_ident r with [] => cfg_user cfg | i => i end.
Definition v_host (r : ref) : str := r_host r.
Definition v_channel_list (r : ref) : list str := sort_strs (List.map (fun kc => rc_name (snd kc)) (r_chans r)).
Definition v_user_list (r : ref) : list str := sort_strs (List.map (fun ku => ru_nick (snd ku)) (r_users r)).
Definition v_is_in_channel (r : ref) (name : str) : bool := tracked_chan r name.
Definition v_option (r : ref) (k : str) : option str := alookup k (r_opts r).
Definition v_motd (r : ref) : str := r_motd r.
(* the channels that list a nick *)
Definition v_user_channels (r : ref) (kn : str) : list str :=
  List.map fst (List.filter (fun kc => is_some (alookup kn (rc_members (snd kc)))) (r_chans r)).
Definition v_user_perms (r : ref) (kn : str) : amap perms :=
  flat_map (fun kc => match alookup kn (rc_members (snd kc)) with Some p => [(fst kc, p)] | None => [] end) (r_chans r).
Definition v_lookup_channel (r : ref) (name : str) : option rchan :=
  match name with [] => None | _ => alookup (key name) (r_chans r) end.
Definition v_lookup_user (r : ref) (nick : str) : option ruser :=
  match nick with [] => None | _ => alookup (key nick) (r_users r) end.
Definition v_channel_users (c : rchan) : list str := List.map fst (rc_members c).
(* the privileges of a nick in a channel, if it is a member *)
Definition v_perm (r : ref) (chan nick : str) : option perms :=
  match alookup (key chan) (r_chans r) with
  | Some c => alookup (key nick) (rc_members c)
  | None => None
  end.
(* CModes.String(): "+", the mode letters (Go's string(byte): UTF-8 of the code point), then the arguments *)
Definition v_modes_string (l : list (N * str)) : str :=
  match l with
  | [] => []
  | _ => 43 :: flat_map (fun yb => byte_as_rune (fst yb)) l ++ flat_map (fun yb => match snd yb with [] => [] | a => 32 :: a end) l
  end.
