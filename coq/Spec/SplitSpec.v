(* C11, the statement's own definitions (written from the property, not from the code's
   control flow): the limit formula, and what "the pieces carry the words" means. *)
Require Import Bytes AMap State.

(* ---- the limit a server advertises ---------------------------------- *)

(* an ISUPPORT value that is a (64-bit) decimal number *)
Definition opt_num (opts : amap str) (k : str) : option Z :=
  match alookup k opts with Some v => atoi v | None => None end.

(* ":nick!user@host " estimate: 4 + NICKLEN (MAXNICKLEN if larger; 30 when not advertised)
   + USERLEN (at least 18) + HOSTLEN (at least 63) *)
Definition prefix_estimate (opts : amap str) : Z :=
  let nick0 := match opt_num opts k_NICKLEN with Some t => t | None => 30%Z end in
  let nick := match opt_num opts k_MAXNICKLEN with Some t => Z.max nick0 t | None => nick0 end in
  let user := match opt_num opts k_USERLEN with Some t => Z.max 18 t | None => 18%Z end in
  let host := match opt_num opts k_HOSTLEN with Some t => Z.max 63 t | None => 63%Z end in
  (4 + nick + user + host)%Z.

(* a 005 line the handler takes into account *)
Definition isupport_accepted (e : event) : Prop :=
  suffixb this_server (last_param e) = true /\ (2 <= length (e_params e))%nat.

(* ---- words and pieces ------------------------------------------------ *)

(* One piece = the chunks it carries, each flagged "the word continues in the next piece". *)
Definition token := (str * bool)%type.

(* glue continued chunks back together: the words a token sequence spells.
   None when the sequence ends inside a word. *)
Fixpoint spell (toks : list token) (pending : str) : option (list str) :=
  match toks with
  | [] => match pending with [] => Some [] | _ => None end
  | (c, true) :: r => spell r (pending ++ c)
  | (c, false) :: r => match spell r [] with Some ws => Some ((pending ++ c) :: ws) | None => None end
  end.

(* a chunk that is continued is the last one of its piece *)
Fixpoint cont_only_last (g : list token) : Prop :=
  match g with
  | [] => True
  | [_] => True
  | (_, c) :: r => c = false /\ cont_only_last r
  end.

(* a piece that starts with the continuation of a word follows a piece that ends with a
   continued chunk: with cont_only_last this is implied by `spell`, which glues a
   continued chunk to the very next token. *)

Definition render (g : list token) : str := join [32] (List.map fst g).

(* the layout of words ws into pieces:
   - no piece is empty, no chunk is empty;
   - the chunks, continued ones glued to their successor, spell exactly ws, in order;
   - a continued chunk ends its piece (so its continuation starts the next one);
   - each piece is its chunks separated by single spaces. *)
Definition layout (ws : list str) (pieces : list str) : Prop :=
  exists groups : list (list token),
    pieces = List.map render groups /\
    Forall (fun g => g <> [] /\ Forall (fun t => fst t <> []) g /\ cont_only_last g) groups /\
    spell (concat groups) [] = Some ws.

(* ---- what "the words of a text" are ---------------------------------- *)

(* The separators of the statement: TAB, LF, VT, FF, CR, SPACE, NEL (C2 85), NBSP (C2 A0). *)
Definition sep1 (b : N) : bool :=
  (b =? 9) || (b =? 10) || (b =? 11) || (b =? 12) || (b =? 13) || (b =? 32).
Inductive sep_unit : str -> Prop :=
| su_byte : forall b, sep1 b = true -> sep_unit [b]
| su_nel : sep_unit [194; 133]
| su_nbsp : sep_unit [194; 160].

Section Tokenised.
  Variable U : str -> Prop.      (* the separator units *)

  Definition free_of (w : str) : Prop := forall a u b, U u -> w <> a ++ u ++ b.
  Definition at_unit (s : str) : Prop := s = [] \/ exists u s', U u /\ s = u ++ s'.

  (* s is separators and words: every word is non-empty, contains no separator and is
     followed by a separator or the end (so words are maximal and none is missed) *)
  Inductive tokenisedU : str -> list str -> Prop :=
  | tk_nil : tokenisedU [] []
  | tk_sep : forall u s ws, U u -> tokenisedU s ws -> tokenisedU (u ++ s) ws
  | tk_word : forall w s ws, w <> [] -> free_of w -> at_unit s -> tokenisedU s ws ->
              tokenisedU (w ++ s) (w :: ws).
End Tokenised.

Definition tokenised : str -> list str -> Prop := tokenisedU sep_unit.
