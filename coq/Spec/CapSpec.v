(* What property C08 says, written from its statement and from the IRCv3 capability
   negotiation grammar — not from the control flow of cap.go.

     CAP <nick> LS  [*] :<token> <token> ...      token = name | name=value
     CAP <nick> NEW :<tokens>        CAP <nick> DEL :<names>
     CAP <nick> ACK :<names>         CAP <nick> NAK :<names>

   A reply is recognised by the sub-command in Params[1] and by its parameter count (the
   list is the last parameter; a '*' in front of it marks a continuation line). *)
Require Import Bytes CapLib StsState Cap.

(* ---- reply patterns ------------------------------------------------------- *)
Definition sub_is (ps : list str) (sub : str) : bool := streqb (param1 ps) sub.

Definition is_del (ps : list str) : bool := Nat.leb 2 (length ps) && sub_is ps s_DEL.
Definition is_nak (ps : list str) : bool := Nat.leb 2 (length ps) && sub_is ps s_NAK.
Definition is_ls (ps : list str) : bool :=                 (* LS / NEW carrying a list *)
  Nat.leb 3 (length ps) && (sub_is ps s_LS || sub_is ps s_NEW).
Definition is_final_ls (ps : list str) : bool := is_ls ps && Nat.eqb (length ps) 3.
Definition is_cont_ls (ps : list str) : bool := is_ls ps && negb (Nat.eqb (length ps) 3).
Definition is_ack (ps : list str) : bool := Nat.eqb (length ps) 3 && sub_is ps s_ACK.

(* the replies that close a step of the negotiation and therefore must be answered *)
Definition expects_conclusion (ps : list str) : bool := is_nak ps || is_final_ls ps || is_ack ps.

(* the tokens of the list parameter *)
Definition cap_tokens (ps : list str) : list str := split_byte 32 (last_or_empty ps).

(* name of an LS/NEW/DEL token: the text before the first '=', unless that would be empty *)
Definition cap_token_name (tok : str) : str :=
  match index_byte 61 tok with
  | Some (S j) => firstn (S j) tok
  | _ => tok
  end.

Definition advertised_by (ps : list str) (name : str) : Prop :=
  is_ls ps = true /\ In name (List.map cap_token_name (cap_tokens ps)).

Definition advertised_in (h : list cap_in) (name : str) : Prop :=
  exists i, In i h /\ advertised_by (in_params i) name.

(* ---- what the client supports ---------------------------------------------- *)
(* "supports by default or by configuration (sasl only with SASL configured, sts only on
   a plaintext connection with STS enabled)".  A name the application itself lists in
   Config.SupportedCaps is supported by configuration, whatever it is called. *)
Definition supported_spec (cfg : cap_cfg) (name : str) : Prop :=
  In name builtin_caps \/
  In name (akeys (c_supported cfg)) \/
  (name = s_sasl /\ c_sasl cfg <> None) \/
  (name = s_sts /\ c_disable_sts cfg = false /\ c_ssl cfg = false).

(* ---- conclusions ----------------------------------------------------------- *)
Definition out_END : cap_out := Write s_CAP [s_END].
Definition out_REQ (names : list str) : cap_out := Write s_CAP [s_REQ; join [32] names].
Definition out_AUTH (mech : str) : cap_out := Write s_AUTHENTICATE [mech].

(* Everything handleCAP can emit is one of the five conclusions, so counting outputs is
   counting conclusions. *)
Definition is_conclusion (o : cap_out) : bool :=
  match o with
  | Write cmd [x] => (streqb cmd s_CAP && streqb x s_END) || streqb cmd s_AUTHENTICATE
  | Write cmd [x; _] => streqb cmd s_CAP && streqb x s_REQ
  | Write _ _ => false
  | InjectError _ => true
  | Upgrade => true
  end.

(* ---- the enabled-capability ledger ----------------------------------------- *)
(* The history of acknowledgements and deletions, flattened to one operation per token. *)
Inductive cap_op := OpAdd (k : str) | OpRem (k : str).

(* Meaning of one token of an ACK list.  IRCv3: "name" acknowledges that the capability is
   enabled, "-name" that it has been disabled.  CURRENT girc records every token, "-name"
   included, as an enabled capability and removes nothing (finding ack-removal-ignored):
   ack_removal_aware = false.  With notes/proposed-fixes/cap-ack-removal.diff applied to
   /repo this flag becomes true (and Model/Cap.v ack_step takes the removal branch); every
   theorem below is proven for both values. *)
Definition ack_removal_aware : bool := true.

Definition ack_ops (tok : str) : list cap_op :=
  if ack_removal_aware then
    match ack_removed tok with Some name => [OpRem name] | None => [OpAdd tok] end
  else [OpAdd tok].

Definition event_ops (ps : list str) : list cap_op :=
  if is_del ps then List.map (fun tok => OpRem (cap_token_name tok)) (cap_tokens ps)
  else if is_ack ps then flat_map ack_ops (cap_tokens ps)
  else [].

Definition history_ops (h : list cap_in) : list cap_op :=
  flat_map (fun i => event_ops (in_params i)) h.

(* k is enabled: it was added and has not been removed since *)
Definition enabled_by (ops : list cap_op) (k : str) : Prop :=
  exists pre post, ops = pre ++ OpAdd k :: post /\ ~ In (OpRem k) post.

(* event-level reading *)
Definition adds (i : cap_in) (k : str) : Prop := In (OpAdd k) (event_ops (in_params i)).
Definition removes (i : cap_in) (k : str) : Prop := In (OpRem k) (event_ops (in_params i)).

(* the line ps acknowledges k as enabled: an ACK whose list has the token k (and, when
   removals are understood, k is not itself a removal and no "-k" follows it on the line) *)
Definition acked_by (ps : list str) (k : str) : Prop :=
  is_ack ps = true /\
  exists pre post, cap_tokens ps = pre ++ k :: post /\
    (ack_removal_aware = true -> ack_removed k = None /\ ~ In (45 :: k) post).

(* the line ps takes k away: a DEL naming it, or (removal-aware) an ACK listing "-k" *)
Definition removed_by (ps : list str) (k : str) : Prop :=
  (is_del ps = true /\ In k (List.map cap_token_name (cap_tokens ps))) \/
  (ack_removal_aware = true /\ is_ack ps = true /\ In (45 :: k) (cap_tokens ps)).

(* the server never acknowledges a removal (it has no reason to: girc never sends
   CAP REQ :-name by itself) *)
Definition no_removal_acks (h : list cap_in) : Prop :=
  forall i t, In i h -> is_ack (in_params i) = true -> In t (cap_tokens (in_params i)) ->
              ack_removed t = None.

(* ---- what is on offer in the current round ------------------------------------ *)
(* A negotiation round is a listing (LS lines up to the final one, or a NEW) and its answer.
   The names the client may request are the ones "on offer": listed by an LS/NEW line since
   the last line that concluded a round and not withdrawn by a DEL since.
   CURRENT girc forgets the pending names (tmpCap) only on ACK: a NAK does not conclude the
   round for it and a DEL does not withdraw a pending name (finding tmpcap-not-pruned):
   tmp_prune_aware = false.  With notes/proposed-fixes/cap-tmpcap-prune.diff applied to /repo
   the flag becomes true (and Model/Cap.v handle_cap prunes tmpCap in its DEL and NAK
   branches); the theorems are proven for both values. *)
Definition tmp_prune_aware : bool := true.

Definition names_of (ps : list str) : list str := List.map cap_token_name (cap_tokens ps).

Definition offered_step (acc : list str) (i : cap_in) : list str :=
  let ps := in_params i in
  if is_del ps then
    (if tmp_prune_aware then filter (fun k => negb (existsb (streqb k) (names_of ps))) acc else acc)
  else if is_nak ps then (if tmp_prune_aware then [] else acc)
  else if is_ls ps then acc ++ names_of ps
  else if is_ack ps then []
  else acc.

Definition offered (h : list cap_in) : list str := fold_left offered_step h [].

(* the connection is still there: no line so far made the client close it (STS upgrade,
   injected ERROR for an invalid STS policy) *)
Definition conn_ended (outs : list cap_out) : bool :=
  existsb (fun o => match o with Upgrade | InjectError _ => true | Write _ _ => false end) outs.

Definition alive (cfg : cap_cfg) (st : cap_state) (h : list cap_in) : Prop :=
  Forall (fun outs => conn_ended outs = false) (cap_outs cfg st h).

(* ---- order hypothesis -------------------------------------------------------- *)
(* Go's map iteration yields each key of tmpCap once, in some order. Safety needs only
   "no invented keys"; completeness needs "no dropped keys". *)
Definition ord_sound (ord : list str -> list str) : Prop := forall l x, In x (ord l) -> In x l.
Definition ord_complete (ord : list str -> list str) : Prop := forall l x, In x l -> In x (ord l).

(* ---- tags -------------------------------------------------------------------- *)
Definition has_tags (tags : option (amap str)) : Prop := exists t, tags = Some t /\ t <> [].
