(* Specification side of C09, written from the property statement and the IRCv3 SASL
   document, not from handleSASL's control flow.

   chunked r cs : cs is THE way to deliver the non-empty response r:
     - every chunk but the last carries exactly 400 bytes,
     - the last chunk carries 1..400 bytes,
     - when the last chunk carries exactly 400 bytes a lone "+" follows it,
     - nothing else is sent.
   reassemble   : what an IRCv3 server does with the AUTHENTICATE parameters it receives
     (sasl-3.1: "the response is split into chunks of 400 bytes; a chunk shorter than 400
     bytes, or '+' for the empty chunk, ends the response"). *)
Require Import Bytes Sasl.

Inductive chunked : str -> list chunk -> Prop :=
| ch_short r : (0 < length r < 400)%nat -> chunked r [Payload r]
| ch_exact r : length r = 400%nat -> chunked r [Payload r; Plus]
| ch_full c rest cs :
    length c = 400%nat -> rest <> [] -> chunked rest cs -> chunked (c ++ rest) (Payload c :: cs).

(* the bytes carried by the payload chunks, in order *)
Fixpoint payloads (cs : list chunk) : list str :=
  match cs with
  | [] => []
  | Payload p :: r => p :: payloads r
  | Plus :: r => payloads r
  end.

(* the parameter of the AUTHENTICATE line a chunk becomes on the wire *)
Definition chunk_param (c : chunk) : str :=
  match c with Payload p => p | Plus => c_plus end.

Definition ends_with_plus (cs : list chunk) : Prop := exists pre, cs = pre ++ [Plus].

(* Server side: consume AUTHENTICATE parameters; Some r when the lines form exactly one
   complete response r (terminated by the last line), None when the response is not
   terminated, a line is longer than 400 bytes, or lines follow the terminator. *)
Fixpoint reassemble (acc : str) (lines : list str) : option str :=
  match lines with
  | [] => None
  | l :: rest =>
    if Nat.eqb (length l) 400 then reassemble (acc ++ l) rest
    else if Nat.ltb (length l) 400 then
      match rest with
      | [] => Some (if streqb l c_plus then acc else acc ++ l)
      | _ => None
      end
    else None
  end.

(* the one ambiguity of the wire format: a final short chunk that is literally "+" reads
   as the empty chunk.  Base64 text (length a multiple of 4) can never end that way. *)
Definition last_chunk_is_plus (r : str) : Prop :=
  (length r mod 400 = 1)%nat /\ last r 0 = 43.
