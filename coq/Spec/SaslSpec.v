(* Specification side of C09, written from the property statement and the IRCv3 SASL
   document, not from handleSASL's control flow.

   chunked r cs : cs is THE way to deliver the non-empty response r:
     - every chunk but the last carries exactly 400 bytes,
     - the last chunk carries 1..400 bytes,
     - when the last chunk carries exactly 400 bytes a lone "+" follows it,
     - nothing else is sent.
   reassemble   : what an IRCv3 server does with the AUTHENTICATE parameters it receives
     (sasl-3.1: "the response is split into chunks of 400 bytes; a chunk shorter than 400
     bytes, or '+' for the empty chunk, ends the response"). *)
Require Import Bytes Base64 CapLib.
Require Cap CapSpec.
Require Import Sasl.

Inductive chunked : str -> list chunk -> Prop :=
| ch_short r : (0 < length r < 400)%nat -> chunked r [Payload r]
| ch_exact r : length r = 400%nat -> chunked r [Payload r; Plus]
| ch_full c rest cs :
    length c = 400%nat -> rest <> [] -> chunked rest cs -> chunked (c ++ rest) (Payload c :: cs).

(* the bytes carried by the payload chunks, in order *)
Fixpoint payloads (cs : list chunk) : list str :=
  match cs with
  | [] => []
  | Payload p :: r => p :: payloads r
  | Plus :: r => payloads r
  end.

(* the parameter of the AUTHENTICATE line a chunk becomes on the wire *)
Definition chunk_param (c : chunk) : str :=
  match c with Payload p => p | Plus => c_plus end.

Definition ends_with_plus (cs : list chunk) : Prop := exists pre, cs = pre ++ [Plus].

(* Server side: consume AUTHENTICATE parameters; Some r when the lines form exactly one
   complete response r (terminated by the last line), None when the response is not
   terminated, a line is longer than 400 bytes, or lines follow the terminator. *)
Fixpoint reassemble (acc : str) (lines : list str) : option str :=
  match lines with
  | [] => None
  | l :: rest =>
    if Nat.eqb (length l) 400 then reassemble (acc ++ l) rest
    else if Nat.ltb (length l) 400 then
      match rest with
      | [] => Some (if streqb l c_plus then acc else acc ++ l)
      | _ => None
      end
    else None
  end.

(* the one ambiguity of the wire format: a final short chunk that is literally "+" reads
   as the empty chunk.  Base64 text (length a multiple of 4) can never end that way. *)
Definition last_chunk_is_plus (r : str) : Prop :=
  (length r mod 400 = 1)%nat /\ last r 0 = 43.

(* ---- fail-closed vocabulary ------------------------------------------------
   The alphabet the property quantifies over: AUTHENTICATE and the numerics 900-908, as
   events read from the server (readLoop sets Echo only on PRIVMSG/NOTICE). *)
Definition alphabet_cmds : list str :=
  [c_AUTHENTICATE; n900; n901; n902; n903; n904; n905; n906; n907; n908].
Definition in_alphabet (e : event) : Prop := ev_echo e = false /\ In (ev_cmd e) alphabet_cmds.

(* the events that must end the connection attempt: a SASL failure numeric routed to
   handleSASLError, or a challenge the mechanism answers with the empty response *)
Definition fatalb (m : sasl_mech) (e : event) : bool :=
  is_sasl_error_numeric (ev_cmd e) ||
  (streqb (ev_cmd e) c_AUTHENTICATE && is_nil (mech_encode m (ev_params e))).
(* the text of the ErrEvent Connect returns for it *)
Definition fatal_text (m : sasl_mech) (e : event) : str :=
  if is_sasl_error_numeric (ev_cmd e) then sasl_error_text (ev_last e)
  else sasl_fail_text (mech_method m) (ev_last e).

(* What one event of the alphabet elicits from a client with mechanism m whose Connect
   has not returned: resulting connection record and outputs (ns: negotiation state,
   untouched). *)
Inductive step_spec (m : sasl_mech) (ns : nstate) (e : event) : conn -> list output -> Prop :=
| ss_info :                                  (* 900, 901: informational; 907: not routed *)
    In (ev_cmd e) [n900; n901; n907] -> step_spec m ns e (mkConn ns None) []
| ss_success :
    ev_cmd e = n903 -> step_spec m ns e (mkConn ns None) [Write cap_end]
| ss_failure :
    is_sasl_error_numeric (ev_cmd e) = true ->
    step_spec m ns e (mkConn ns (Some (sasl_error_text (ev_last e))))
              [InjectError (sasl_error_text (ev_last e))]
| ss_giveup :
    ev_cmd e = c_AUTHENTICATE -> mech_encode m (ev_params e) = [] ->
    step_spec m ns e (mkConn ns (Some (sasl_fail_text (mech_method m) (ev_last e))))
              [InjectError (sasl_fail_text (mech_method m) (ev_last e))]
| ss_respond cs :
    ev_cmd e = c_AUTHENTICATE -> mech_encode m (ev_params e) <> [] ->
    chunked (mech_encode m (ev_params e)) cs ->
    step_spec m ns e (mkConn ns None) (List.map (fun ch => Write (chunk_event ch)) cs).

(* ---- log hygiene vocabulary ---------------------------------------------------
   The public view of an event: a Sensitive event without its parameters. *)
Definition redact (e : event) : event := if ev_sensitive e then with_params e [] else e.
Definition redact_out (o : output) : output :=
  match o with Write e => Write (redact e) | InjectError t => InjectError t end.

(* Two mechanisms / configurations that differ only in their secrets: the mechanism's
   responses (compared by length only -- the number of redacted AUTHENTICATE lines shows
   the length of a response divided by 400, nothing else), the server password, every
   WEBIRC field.  Whether a password is configured at all is public. *)
Definition mech_low_eq (m1 m2 : sasl_mech) : Prop :=
  mech_method m1 = mech_method m2 /\
  forall ps, length (mech_encode m1 ps) = length (mech_encode m2 ps).
Definition sasl_low_eq (s1 s2 : option sasl_mech) : Prop :=
  match s1, s2 with
  | None, None => True
  | Some m1, Some m2 => mech_low_eq m1 m2
  | _, _ => False
  end.
Record cfg_low_eq (c1 c2 : config) : Prop := mkLowEq {
  le_sasl : sasl_low_eq (cfg_sasl c1) (cfg_sasl c2);
  le_pass : is_nil (cfg_server_pass c1) = is_nil (cfg_server_pass c2);
  le_webirc : is_nil (w_password (cfg_webirc c1)) = is_nil (w_password (cfg_webirc c2));
  le_track : cfg_tracking c1 = cfg_tracking c2;
  le_nick : cfg_nick c1 = cfg_nick c2;
  le_user : cfg_user c1 = cfg_user c2;
  le_name : cfg_name c1 = cfg_name c2;
  le_ord : cfg_ord c1 = cfg_ord c2 }.

(* ---- CAP lines while the SASL exchange is running -------------------------------
   The server may send CAP lines between AUTHENTICATE <mech> and 903: capabilities
   acknowledged on separate lines, cap-notify NEW / DEL, a repeated LS, a NAK.
   (Reply patterns is_nak / is_del / is_final_ls / is_ack and cap_tokens / cap_token_name are
   Spec/CapSpec.v's reading of the IRCv3 grammar.) *)
Definition cap_event (e : event) : Prop := ev_echo e = false /\ ev_cmd e = c_CAP.

(* authentication can be running only while the server's acknowledgement of sasl stands *)
Definition sasl_enabled (ns : nstate) : Prop := amem c_sasl (Cap.st_enabled ns) = true.

(* a name the client of this model asks for when it is advertised *)
Definition requestable (k : str) : Prop := In k Cap.builtin_caps \/ k = c_sasl.

(* The CAP lines that must NOT end the negotiation while sasl is acknowledged: everything
   except a NAK, a DEL or ACK that takes sasl away ("-sasl"), and a final LS/NEW that
   advertises nothing the client asks for.  What the excepted lines do is stated exactly
   in Properties/C09.v C09_cap_end_iff. *)
Definition cap_quiet (ps : list str) : Prop :=
  CapSpec.is_nak ps = false /\
  (CapSpec.is_del ps = true ->
     ~ In c_sasl (List.map CapSpec.cap_token_name (CapSpec.cap_tokens ps))) /\
  (CapSpec.is_final_ls ps = true ->
     exists k, In k (List.map CapSpec.cap_token_name (CapSpec.cap_tokens ps)) /\ requestable k) /\
  (CapSpec.is_ack ps = true -> ~ In (45 :: c_sasl) (CapSpec.cap_tokens ps)).

(* the alphabet of the fail-closed theorems extended by CAP lines *)
Definition in_alphabet_cap (e : event) : Prop :=
  in_alphabet e \/ (cap_event e /\ cap_quiet (ev_params e)).      (* for "no CAP END" *)
Definition in_alphabet_anycap (e : event) : Prop :=
  in_alphabet e \/ cap_event e.                                   (* for "error iff fatal" *)
