(* What property C14 says, written from its statement (and the CTCP draft the code
   cites), not from the control flow of ctcp.go.

   A CTCP message is a PRIVMSG or NOTICE with exactly two parameters whose second
   parameter is   0x01 TAG [SPACE text] 0x01   with TAG a non-empty string of A-Z / 0-9.
   It is a reply exactly when it is a NOTICE.

   The reply discipline of a client with the default handler table: an automatic
   answer exists only for a request (PRIVMSG) that is CTCP, carries a source and is not
   ACTION; it is one NOTICE to the (RFC1459-folded) nickname of the requester carrying
   a CTCP payload; for a command without handler the answer is ERRMSG and requires the
   source to be a valid nickname.  No proofs here. *)
Require Import Bytes Names Ctcp.

(* ---- the message shape ------------------------------------------------ *)

Definition tag_byte (b : N) : Prop := 65 <= b <= 90 \/ 48 <= b <= 57.     (* A-Z, 0-9 *)

Definition ctcp_tag (cmd : str) : Prop := cmd <> [] /\ Forall tag_byte cmd.

(* p = 0x01 cmd 0x01 (then the text is empty)  or  p = 0x01 cmd SPACE text 0x01 *)
Definition ctcp_payload (p cmd text : str) : Prop :=
  ctcp_tag cmd /\
  ((p = [1] ++ cmd ++ [1] /\ text = []) \/ p = [1] ++ cmd ++ [32] ++ text ++ [1]).

Definition msg_kind (k : str) : Prop := k = PRIVMSG \/ k = NOTICE.

(* event e is the CTCP message c *)
Definition ctcp_message (e : event) (c : ctcp_event) : Prop :=
  msg_kind (ev_command e) /\
  (exists target p, ev_params e = [target; p] /\ ctcp_payload p (c_command c) (c_text c)) /\
  (c_reply c = true <-> ev_command e = NOTICE) /\
  c_source c = ev_source e.

Definition is_ctcp (e : event) : Prop := exists c, ctcp_message e c.

(* ---- the causes the statement lists for "is not CTCP" ------------------- *)

Inductive not_ctcp_cause (e : event) : Prop :=
| nc_params : length (ev_params e) <> 2%nat -> not_ctcp_cause e
| nc_command : ~ msg_kind (ev_command e) -> not_ctcp_cause e
| nc_short : forall t p, ev_params e = [t; p] -> (length p < 3)%nat -> not_ctcp_cause e
| nc_first : forall t p, ev_params e = [t; p] -> hd 0 p <> 1 -> not_ctcp_cause e
| nc_last : forall t p, ev_params e = [t; p] -> last p 0 <> 1 -> not_ctcp_cause e
| nc_empty_tag : forall t r, ev_params e = [t; 1 :: 32 :: r] -> not_ctcp_cause e
| nc_bad_tag : forall t tag r b,
    (* the command part (up to the first SPACE, or everything) holds a byte outside A-Z/0-9 *)
    (ev_params e = [t; [1] ++ tag ++ [1]] \/ ev_params e = [t; [1] ++ tag ++ [32] ++ r ++ [1]]) ->
    ~ In 32 tag -> In b tag -> ~ tag_byte b -> not_ctcp_cause e.

(* ---- the reply discipline (default table) ------------------------------- *)

Definition known_query (cmd : str) : Prop :=
  In cmd [CTCP_PING; CTCP_PONG; CTCP_VERSION; CTCP_SOURCE; CTCP_TIME; CTCP_FINGER].

(* the payload text the default replier of a known query answers with *)
Definition answer_text (v : env) (cmd text : str) : str :=
  if streqb cmd CTCP_PING then text
  else if streqb cmd CTCP_PONG then []
  else if streqb cmd CTCP_VERSION then
    (match cfg_version v with [] => default_version v | ver => ver end)
  else if streqb cmd CTCP_SOURCE then source_url
  else if streqb cmd CTCP_TIME then 58 :: now_text v
  else cfg_name v ++ idle_sep ++ idle_text v.

(* the one default replier that needs the connection: since 187fc3e handleCTCPFinger
   answers nothing when client.conn is nil *)
Definition finger_unanswerable (v : env) (cmd : str) : Prop :=
  cmd = CTCP_FINGER /\ connected v = false.

(* `answers v e outs`: outs is what a client with the default table may write for e *)
Inductive answers (v : env) (e : event) : list event -> Prop :=
| ans_known : forall c name,
    ev_command e = PRIVMSG -> ctcp_message e c -> ev_source e = Some name ->
    known_query (c_command c) -> ~ finger_unanswerable v (c_command c) ->
    answers v e [notice (to_rfc1459 name)
                   (encode_ctcp_raw (c_command c) (answer_text v (c_command c) (c_text c)))]
| ans_unknown : forall c name,
    ev_command e = PRIVMSG -> ctcp_message e c -> ev_source e = Some name ->
    ~ known_query (c_command c) -> c_command c <> CTCP_ACTION ->
    is_valid_nick (to_rfc1459 name) = true ->
    answers v e [notice (to_rfc1459 name) (encode_ctcp_raw CTCP_ERRMSG errmsg_text)]
| ans_silent :
    (ev_command e <> PRIVMSG \/ ~ is_ctcp e \/ ev_source e = None \/
     (exists c, ctcp_message e c /\ finger_unanswerable v (c_command c)) \/
     (exists c name, ctcp_message e c /\ ev_source e = Some name /\ ~ known_query (c_command c) /\
        (c_command c = CTCP_ACTION \/ is_valid_nick (to_rfc1459 name) = false))) ->
    answers v e [].

(* an automatic answer: one NOTICE, without source, to `target`, CTCP encoded *)
Definition is_answer_to (name : str) (o : event) : Prop :=
  ev_command o = NOTICE /\ ev_source o = None /\
  exists cmd text, ctcp_tag cmd /\
    ev_params o = [to_rfc1459 name; encode_ctcp_raw cmd text] /\
    ctcp_payload (encode_ctcp_raw cmd text) cmd text.

(* ---- two clients talking to each other ---------------------------------- *)

(* what the other side receives when a client whose nickname is `nick` sends o *)
Definition as_received (nick : str) (o : event) : event :=
  mk_event (Some nick) (ev_command o) (ev_params o).

(* the CTCP stage over everything in an inbox, outputs in order *)
Fixpoint stage_all (t : table) (inbox : list event) : res (list event) :=
  match inbox with
  | [] => Ok []
  | e :: r => o <- ctcp_stage t e ;; os <- stage_all t r ;; Ok (o ++ os)
  end.

(* Clients A and B (nicknames na, nb; default tables in environments va, vb) are alone on
   a network.  `inbox` arrives at A; whatever A answers automatically is delivered to B,
   whatever B answers to that is delivered to A, and so on for at most `rounds` rounds.
   The result is every automatic answer produced, in order, and whether the exchange has
   ended (false = still messages in flight after `rounds` rounds). *)
Fixpoint volley (rounds : nat) (va vb : env) (na nb : str) (inbox : list event)
  : res (list event * bool) :=
  match inbox with
  | [] => Ok ([], true)
  | _ =>
    match rounds with
    | O => Ok ([], false)
    | S n =>
        outs <- stage_all (default_table va) inbox ;;
        rest <- volley n vb va nb na (List.map (as_received na) outs) ;;
        Ok (outs ++ fst rest, snd rest)
    end
  end.
