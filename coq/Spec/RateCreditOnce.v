(* Reference limiter for C16: the limiter of conn.go with the repair proposed in
   notes/proposed-fixes/rate-credits-elapsed-time-once.diff.  NOT the code as it is (that is
   Model/Rate.v); it exists so that the hold clause which the current code fails
   (C16_hold_refuted) is shown to be attainable by a small change, for every schedule.

     now := time.Now()
     since := c.lastWrite
     if c.lastRate.After(since) { since = c.lastRate }
     c.lastRate = now
     if c.writeDelay += _time - now.Sub(since); c.writeDelay < 0 { c.writeDelay = 0 }
     if c.writeDelay > 8*time.Second { return _time }
     return 0

   Every stretch of time is forgiven at most once, whether or not sendLoop has stamped
   lastWrite in between. *)
Require Import Bytes Rate.
Open Scope Z_scope.

Record cstate : Type := mkC { cwd : Z ; clast : Z ; crate : Z }.   (* writeDelay, lastWrite, lastRate *)

Definition rate1 (s : cstate) (now chars : Z) : cstate * Z :=
  let t := cost chars in
  let since := Z.max (clast s) (crate s) in
  let w := cwd s + (t - (now - since)) in
  let w' := if w <? 0 then 0 else w in
  (mkC w' (clast s) now, if threshold <? w' then t else 0).

(* the same machine as Rate.step, over the repaired limiter *)
Record csys : Type := mkCS { crs : cstate ; ctx : list event ; cwire : list (Z * event) }.

Definition cstep (s : csys) (a : action) : csys * option Z :=
  match a with
  | ARate now e =>
      let '(r, d) := rate1 (crs s) now (ev_len e) in (mkCS r (ctx s) (cwire s), Some d)
  | AEnq e => (mkCS (crs s) (ctx s ++ [e]) (cwire s), None)
  | ADeliver now =>
      match ctx s with
      | [] => (s, None)
      | e :: q => (mkCS (mkC (cwd (crs s)) now (crate (crs s))) q ((now, e) :: cwire s), None)
      end
  end.

Fixpoint cexec (s : csys) (acts : list action) : csys * list Z :=
  match acts with
  | [] => (s, [])
  | a :: rest =>
      let '(s1, o) := cstep s a in
      let '(s2, ds) := cexec s1 rest in
      (s2, match o with Some d => d :: ds | None => ds end)
  end.

Definition csys0 (r : cstate) : csys := mkCS r [] [].
