(* The limiter's arithmetic BEFORE the repair "the flood limiter credits elapsed time only
   once" (/repo 8541615), kept as a documented counter-model: this is not the code as it is
   (that is Model/Rate.v).

     if c.writeDelay += _time - time.Since(c.lastWrite); c.writeDelay < 0 { c.writeDelay = 0 }
     if c.writeDelay > (8 * time.Second) { return _time }
     return 0

   Every call forgave the whole time since lastWrite, and lastWrite moves only when
   sendLoop runs.  The same machine as Rate.step over this arithmetic. *)
Require Import Bytes Rate.
Open Scope Z_scope.

Record ostate : Type := mkO { owd : Z ; olast : Z }.            (* writeDelay, lastWrite *)

Definition orate (s : ostate) (now chars : Z) : ostate * Z :=
  let '(w', d) := rate_core (owd s) (now - olast s) chars in (mkO w' (olast s), d).

Record osys : Type := mkOS { ors : ostate ; otx : list event ; owire : list (Z * event) }.

Definition ostep (s : osys) (a : action) : osys * option Z :=
  match a with
  | ARate now e =>
      let '(r, d) := orate (ors s) now (ev_len e) in (mkOS r (otx s) (owire s), Some d)
  | AEnq e => (mkOS (ors s) (otx s ++ [e]) (owire s), None)
  | ADeliver now =>
      match otx s with
      | [] => (s, None)
      | e :: q => (mkOS (mkO (owd (ors s)) now) q ((now, e) :: owire s), None)
      end
  end.

Fixpoint oexec (s : osys) (acts : list action) : osys * list Z :=
  match acts with
  | [] => (s, [])
  | a :: rest =>
      let '(s1, o) := ostep s a in
      let '(s2, ds) := oexec s1 rest in
      (s2, match o with Some d => d :: ds | None => ds end)
  end.

Definition osys0 (r : ostate) : osys := mkOS r [] [].
