(* C01: what "a well-formed event" is, in the words of the property statement, and what
   "the same event" means after a round trip.  No proofs here. *)
Require Import Bytes Utf8 AMap WireOut Tags Event.

(* a field is free of CR / LF and valid UTF-8 (what Event.Bytes would otherwise strip) *)
Definition no_crlf (s : str) : bool := forallb (fun b => negb (is_crlf b)) s.
Definition clean_field (s : str) : bool := valid_utf8 s && no_crlf s.

(* command token: printable ASCII without SPACE, not starting like a prefix or a tag section *)
Definition wf_command (c : str) : bool :=
  match c with
  | [] => false
  | b :: _ => negb (b =? 58) && negb (b =? 64) && forallb (fun x => (33 <=? x) && (x <=? 126)) c
  end.

(* middle parameter: non-empty, no SPACE, does not start with ':' *)
Definition wf_mid (p : str) : bool :=
  match p with [] => false | b :: _ => negb (b =? 58) && negb (memb 32 p) end && clean_field p.

(* all parameters but the last are middles; the last one is arbitrary *)
Fixpoint wf_params (l : list str) : bool :=
  match l with
  | [] => true
  | [p] => clean_field p
  | p :: r => wf_mid p && wf_params r
  end.

(* nick[!user][@host] *)
Definition wf_wsource (s : wsource) : bool :=
  match ws_name s with [] => false | _ => true end
  && negb (memb 32 (ws_name s)) && negb (memb 33 (ws_name s)) && negb (memb 64 (ws_name s))
  && negb (memb 32 (ws_ident s)) && negb (memb 64 (ws_ident s))
  && negb (memb 32 (ws_host s)) && negb (memb 33 (ws_host s)) && negb (memb 64 (ws_host s))
  && clean_field (ws_name s) && clean_field (ws_ident s) && clean_field (ws_host s).

(* a stored (wire-form) tag value: no ';' and no SPACE; Tags.Set only stores such values *)
Definition wf_wire_value (v : str) : bool := negb (memb 59 v) && negb (memb 32 v) && clean_field v.

(* the complete tag section "@k[=v];k[=v]..." in key order *)
Definition tag_piece (m : tagmap) (k : str) : str :=
  k ++ match alookup k m with Some ((_ :: _) as v) => 61 :: v | _ => [] end.
Definition tag_section (m : tagmap) : str :=
  64 :: join semi (List.map (tag_piece m) (sort_strs (akeys m))).

Definition wf_wtags (t : wtags) : bool :=
  match t with
  | None => true
  | Some m =>
    forallb (fun kv => valid_tag (fst kv) && wf_wire_value (snd kv)) m
    && Nat.leb (length (tag_section m)) max_tag_length
  end.

(* ParseEvent ignores lines shorter than two bytes *)
Definition min_line (e : wevent) : bool :=
  Nat.leb 2 (length (we_cmd e))
  || match we_params e with [] => false | _ => true end
  || match we_src e with None => false | Some _ => true end
  || match we_tags e with Some (_ :: _) => true | _ => false end.

Definition wf_eventb (e : wevent) : bool :=
  wf_command (we_cmd e) && wf_params (we_params e)
  && match we_src e with Some s => wf_wsource s | None => true end
  && wf_wtags (we_tags e) && min_line e.

Definition wf_event (e : wevent) : Prop := wf_eventb e = true.

(* ---- "the same event" ------------------------------------------------------------------ *)

(* stored value of a key *)
Definition tags_lookup (t : wtags) (k : str) : option str :=
  match t with None => None | Some m => alookup k m end.

(* nil and the empty map serialise alike; a parse yields nil for both *)
Definition tags_present (t : wtags) : bool :=
  match t with Some (_ :: _) => true | _ => false end.

(* same key set with the same stored values (hence the same Get results) *)
Definition tags_equiv (t1 t2 : wtags) : Prop :=
  tags_present t1 = tags_present t2 /\ forall k, tags_lookup t1 k = tags_lookup t2 k.

Definition wevent_equiv (e1 e2 : wevent) : Prop :=
  we_cmd e1 = we_cmd e2 /\ we_params e1 = we_params e2 /\ we_src e1 = we_src e2
  /\ tags_equiv (we_tags e1) (we_tags e2).

(* what a round trip normalises: the command is upper-cased *)
Definition canon (e : wevent) : wevent :=
  mkWEvent (we_tags e) (we_src e) (to_upper_ascii (we_cmd e)) (we_params e).
