(* C18 — what the statement says, written from the statement and not from cmd.go's
   control flow: which texts address a command, what "split on single spaces" means,
   which registrations are acceptable.  No proofs here. *)
Require Import Bytes GoLower CmdHandler.

(* lower-case letters, digits, '-' or '_' *)
Definition name_char (b : N) : Prop :=
  (97 <= b /\ b <= 122) \/ (48 <= b /\ b <= 57) \/ b = 45 \/ b = 95.

(* ... at least one, at most 20 *)
Definition name_ok (n : str) : Prop :=
  (1 <= length n)%nat /\ (length n <= 20)%nat /\ Forall name_char n.

(* text = prefix ++ n ++ (nothing | SPACE ++ raw); raw has no newline.  A text that ends
   in the SPACE right after the name has the empty remainder, like one without it. *)
Definition addresses (prefix text n raw : str) : Prop :=
  name_ok n /\ ~ In 10 raw /\
  ((text = prefix ++ n /\ raw = []) \/ text = prefix ++ n ++ 32 :: raw).

(* "the arguments split on single spaces": no remainder, no arguments; otherwise the
   pieces between ALL the spaces, so that two adjacent spaces, a leading or a trailing
   space delimit an empty argument (this is what strings.Split does, and what cmd.go
   hands to the function and counts against MinArgs) *)
Definition args_split (raw : str) (args : list str) : Prop :=
  (raw = [] -> args = []) /\
  (raw <> [] -> args <> [] /\ join [32] args = raw /\ Forall (fun a => ~ In 32 a) args).

Fixpoint count_byte (c : N) (s : str) : nat :=
  match s with
  | [] => 0%nat
  | x :: r => if x =? c then S (count_byte c r) else count_byte c r
  end.

(* plain ASCII without CR or LF *)
Definition clean (s : str) : Prop := is_ascii s = true /\ ~ In 10 s /\ ~ In 13 s.

(* ---- registrations ---------------------------------------------------- *)

(* the keys a registration claims: the lower-cased name, then the lower-cased aliases;
   None when one of them is not a valid name after lower-casing *)
Definition reg_keys (cmd : command) : option (list str) :=
  match lower_valid (c_name cmd), lower_aliases (c_aliases cmd) with
  | Some n, Some als => Some (n :: als)
  | _, _ => None
  end.

(* invalid or duplicate *)
Definition bad_registration (t : cmd_table) (cmd : command) : Prop :=
  match reg_keys cmd with
  | None => True
  | Some ks => ~ NoDup ks \/ exists k, In k ks /\ tbl_mem k t = true
  end.

(* the command as Add stores it *)
Definition stored (cmd : command) (name : str) (als : list str) : command :=
  mk_command (c_id cmd) name als (c_has_help cmd)
             (if (c_minargs cmd <? 0)%Z then 0%Z else c_minargs cmd).

(* tables that Add can build *)
Inductive reachable : cmd_table -> Prop :=
| reach_empty : reachable []
| reach_add t cmd : reachable t -> reachable (fst (add t cmd)).
