(* A recogniser for the lines of Spec/Grammar.v: parse_ast inverts render on well-formed
   ASTs, so wf_lineb decides "l is a line of the grammar".  Spec-level code (simple, not
   fast); no proofs here. *)
Require Import Bytes AMap Tags Event Grammar.

(* line terminator: the maximal CR/LF suffix (body, eol); an empty body means that
   everything seen so far is CR/LF *)
Fixpoint split_eol (l : str) : str * str :=
  match l with
  | [] => ([], [])
  | b :: r =>
    let '(body, eol) := split_eol r in
    match body with
    | [] => if is_crlf b then ([], b :: eol) else ([b], eol)
    | _ => (b :: body, eol)
    end
  end.

(* first occurrence of a byte: (before, after) *)
Fixpoint lcut (c : N) (s : str) : option (str * str) :=
  match s with
  | [] => None
  | x :: r => if x =? c then Some ([], r)
              else match lcut c r with Some (a, b) => Some (x :: a, b) | None => None end
  end.

Definition parse_tag_ast (p : str) : option (str * option str) :=
  match lcut 61 p with
  | None => Some (p, None)
  | Some (k, w) =>
    let v := tag_unescape w in
    if streqb (tag_escape v) w then Some (k, Some v) else None   (* defined escapes only *)
  end.

Fixpoint all_some {A} (l : list (option A)) : option (list A) :=
  match l with
  | [] => Some []
  | Some x :: r => match all_some r with Some xs => Some (x :: xs) | None => None end
  | None :: _ => None
  end.

Definition parse_tags_ast (t : str) : option (list (str * option str)) :=
  all_some (List.map parse_tag_ast (split_byte 59 t)).

Definition parse_src_ast (s : str) : str * option str * option str :=
  match lcut 64 s with
  | Some (a, h) =>
    match lcut 33 a with
    | Some (n, u) => (n, Some u, Some h)
    | None => (a, None, Some h)
    end
  | None =>
    match lcut 33 s with
    | Some (n, u) => (n, Some u, None)
    | None => (s, None, None)
    end
  end.

Fixpoint span_spaces (s : str) : nat * str :=
  match s with
  | b :: r => if b =? 32 then let '(n, r') := span_spaces r in (S n, r') else (0%nat, s)
  | [] => (0%nat, [])
  end.

Fixpoint span_token (s : str) : str * str :=
  match s with
  | b :: r => if b =? 32 then ([], s) else let '(m, r') := span_token r in (b :: m, r')
  | [] => ([], [])
  end.

(* parameters: (1*SPACE middle)* then 1*SPACE ':' trailing, or *SPACE *)
Fixpoint parse_params_ast (fuel : nat) (s : str) : option (list (nat * str) * option (nat * str) * nat) :=
  match fuel with
  | O => match s with [] => Some ([], None, 0%nat) | _ => None end
  | S f =>
    let '(n, r) := span_spaces s in
    match r with
    | [] => Some ([], None, n)
    | c :: r' =>
      match n with
      | O => None
      | S k =>
        if c =? 58 then Some ([], Some (k, r'), 0%nat)
        else
          let '(m, r2) := span_token r in
          match parse_params_ast f r2 with
          | Some (ms, tr, tl) => Some ((k, m) :: ms, tr, tl)
          | None => None
          end
      end
    end
  end.

Definition parse_ast (l : str) : option ast :=
  let '(body, eol) := split_eol l in
  match (match body with
         | c :: _ =>
           if c =? 64 then
             match lcut 32 body with
             | Some (_ :: t, r) => match parse_tags_ast t with Some tl => Some (Some tl, r) | None => None end
             | _ => None
             end
           else Some (None, body)
         | [] => Some (None, body)
         end) with
  | None => None
  | Some (tags, r1) =>
    match (match r1 with
           | c :: _ =>
             if c =? 58 then
               match lcut 32 r1 with
               | Some (_ :: s, r) => Some (Some (parse_src_ast s), r)
               | _ => None
               end
             else Some (None, r1)
           | [] => Some (None, r1)
           end) with
    | None => None
    | Some (src, r2) =>
      let '(cmd, P) := match lcut 32 r2 with Some (c, after) => (c, 32 :: after) | None => (r2, []) end in
      match parse_params_ast (S (length P)) P with
      | Some (ms, tr, tl) => Some (mkAst tags src cmd ms tr tl eol)
      | None => None
      end
    end
  end.

Definition wf_lineb (l : str) : bool :=
  match parse_ast l with Some a => wf_astb a | None => false end.
