(* Vocabulary of the C10 statements: what "the server acknowledges an STS policy" means for
   the negotiation state, which policy values are usable, what a dial log says.  Written
   from the property statement; no proofs here. *)
Require Import Bytes CapLib StsState Cap Sts.

(* the acknowledgement handleCAP reads: exactly three parameters, the second one ACK *)
Definition ack_params (a toks : str) : list str := [a; s_ACK; toks].

(* the capabilities enabled once the acknowledgement `toks` has been recorded *)
Definition ack_enabled (st : cap_state) (toks : str) : capmap :=
  fold_left (ack_step (st_tmp st)) (split_byte 32 toks) (st_enabled st).

(* the server acknowledges sts: the token "sts" is one of the acknowledged tokens (and the
   same line does not also acknowledge its removal, "-sts") *)
Definition s_minus_sts : str := 45 :: s_sts.
Definition acks_sts (toks : str) : Prop :=
  In s_sts (split_byte 32 toks) /\ ~ In s_minus_sts (split_byte 32 toks).

(* the policy value that comes with the acknowledgement: what the final CAP LS advertised
   for sts and the client recorded when it requested it (nil when it never did) *)
Definition advertised_policy (st : cap_state) : capvals :=
  match aget s_sts (st_tmp st) with Some v => v | None => None end.

(* a usable port: the key is present and reads (strconv.Atoi) as a number of at least 21 *)
Definition usable_port (v : capvals) (p : Z) : Prop :=
  exists ps, cv_get s_port v = Some ps /\ atoi_go ps = p /\ (21 <= p)%Z.

(* no usable port: key absent, or its value reads as less than 21 (non-numeric reads as 0) *)
Definition no_usable_port (v : capvals) : Prop :=
  match cv_get s_port v with None => True | Some ps => (atoi_go ps < 21)%Z end.

Definition has_duration (v : capvals) : Prop := exists d, cv_get s_duration v = Some d.
Definition no_duration (v : capvals) : Prop := cv_get s_duration v = None.

(* the regular end of a negotiation round: AUTHENTICATE when sasl was acknowledged and a
   mechanism is configured, CAP END otherwise; tmpCap is re-initialised *)
Definition finish_ack (cfg : cap_cfg) (en1 : capmap) (s : strict_transport) : cap_state * list cap_out :=
  match aget s_sasl en1, c_sasl cfg with
  | Some _, Some mech => (mkSt [] en1 s, [Write s_AUTHENTICATE [mech]])
  | _, _ => (mkSt [] en1 s, [Write s_CAP [s_END]])
  end.

(* handleCAP on an acknowledgement, spelled out *)
Definition ack_result (cfg : cap_cfg) (tls : bool) (now : Z) (st : cap_state) (toks : str)
  : cap_state * list cap_out :=
  let en1 := ack_enabled st toks in
  match aget s_sts en1 with
  | Some v =>
      if negb (c_disable_sts cfg) then
        let r := sts_block tls now v (st_sts st) in
        if snd r then (mkSt (st_tmp st) en1 (sts_reset (fst r)), [InjectError v])
        else if negb tls then (mkSt (st_tmp st) en1 (set_begin_upgrade true (fst r)), [Upgrade])
        else finish_ack cfg en1 (fst r)
      else finish_ack cfg en1 (st_sts st)
  | None => finish_ack cfg en1 (st_sts st)
  end.

(* the preload key, read on TLS connections only *)
Definition with_preload (v : capvals) (s : strict_transport) : strict_transport :=
  match cv_get s_preload v with Some p => set_preload (parse_bool_go p) s | None => s end.

(* outputs *)
Definition no_write (outs : list cap_out) : Prop := forall o, In o outs -> is_write o = false.
Definition only_writes (outs : list cap_out) : Prop := forall o, In o outs -> is_write o = true.

(* the policy is gone: nothing of it is retained *)
Definition policy_dropped (s : strict_transport) : Prop :=
  sts_enabled s = false /\ upgrade_port s = (-1)%Z /\ persistence_duration s = (-1)%Z /\ preload s = false.

(* a dial of the log went to (port, tls) *)
Definition dialled (l : conn_log) (port : Z) (tls : bool) : Prop := l_port l = port /\ l_tls l = tls.

(* the server is honest about an acknowledgement: it acknowledges only what was requested
   (the keys of tmpCap, which is what CAP REQ listed) *)
Definition honest_ack (st : cap_state) (params : list str) : Prop :=
  forall a toks, params = ack_params a toks ->
    forall tok, In tok (split_byte 32 toks) -> amem tok (st_tmp st) = true.

Inductive honest_run (ord : list str -> list str) (cfg : cap_cfg) (tls : bool)
  : cap_state -> list (Z * list str) -> Prop :=
| honest_nil st : honest_run ord cfg tls st []
| honest_cons st now ps r :
    honest_ack st ps ->
    honest_run ord cfg tls (fst (handle_cap ord cfg tls now st ps)) r ->
    honest_run ord cfg tls st ((now, ps) :: r).

(* several Connect calls of one client: each call has its own connection scripts; the
   policy is threaded through *)
Fixpoint connects (ord : list str -> list str) (cfg : cap_cfg) (port : Z) (s : strict_transport)
         (calls : list (list conn_script)) : list (list conn_log * ret_class * strict_transport) :=
  match calls with
  | [] => []
  | c :: r => let res := start_conn ord cfg port s c in res :: connects ord cfg port (snd res) r
  end.

(* the policy held when the k-th of these calls starts *)
Fixpoint policies_before (ord : list str -> list str) (cfg : cap_cfg) (port : Z) (s : strict_transport)
         (calls : list (list conn_script)) : list strict_transport :=
  match calls with
  | [] => []
  | c :: r => s :: policies_before ord cfg port (snd (start_conn ord cfg port s c)) r
  end.


(* the same connection script with another ending *)
Definition with_end (e : conn_end) (c : conn_script) : conn_script :=
  mkConn (cs_dial_ok c) (cs_dial_now c) (cs_hs_ok c) (cs_events c) e.
