(* The documented grammars of format.go's validators, written from the doc comments
   (RFC 2812 section 2.3.1 with girc's stated extensions), independently of the
   control flow of the Go code. *)
Require Import Bytes.

Definition letter (b : N) : Prop := (65 <= b <= 90) \/ (97 <= b <= 122).       (* A-Z / a-z *)
Definition digit (b : N) : Prop := 48 <= b <= 57.
Definition special (b : N) : Prop := (91 <= b <= 96) \/ (123 <= b <= 125).     (* [\]^_` / {|} *)

(* nickname = ( letter / special / "?"(znc) ) *( letter / digit / special / "-" ) ; no length limit *)
Definition nick_first (b : N) : Prop := letter b \/ special b \/ b = 63.
Definition nick_rest (b : N) : Prop := letter b \/ digit b \/ special b \/ b = 45.
Definition nick_grammar (s : str) : Prop :=
  exists c r, s = c :: r /\ nick_first c /\ Forall nick_rest r.

(* user = [ "~" ] ( letter / digit ) *( letter / digit / special / "-" / "." ) *)
Definition user_first (b : N) : Prop := letter b \/ digit b.
Definition user_rest (b : N) : Prop := letter b \/ digit b \/ special b \/ b = 45 \/ b = 46.
Definition user_core (s : str) : Prop :=
  exists c r, s = c :: r /\ user_first c /\ Forall user_rest r.
Definition user_grammar (s : str) : Prop := user_core s \/ exists t, s = 126 :: t /\ user_core t.

(* channel = ( "#" / "+" / "&" / "*" / "~" / ( "!" channelid ) ) chanstring ; 2..50 bytes
   chanstring = 1*( any octet except NUL, BELL, CR, LF, " ", "," and ":" )
   channelid  = 5( A-Z / 0-9 ) *)
Definition chan_prefix (b : N) : Prop := b = 33 \/ b = 35 \/ b = 38 \/ b = 42 \/ b = 126 \/ b = 43.
Definition chanstring_byte (b : N) : Prop :=
  b <> 0 /\ b <> 7 /\ b <> 13 /\ b <> 10 /\ b <> 32 /\ b <> 44 /\ b <> 58.
Definition chanid_byte (b : N) : Prop := (65 <= b <= 90) \/ digit b.
Definition chan_grammar (s : str) : Prop :=
  (2 <= length s <= 50)%nat /\
  exists p r, s = p :: r /\ chan_prefix p /\ Forall chanstring_byte r /\
    (p = 33 -> exists id name, r = id ++ name /\ length id = 5%nat /\ Forall chanid_byte id /\ name <> []).

(* RFC 1459 case folding of one byte: A-Z and [ \ ] ^ map to a-z and { | } ~ *)
Definition fold_spec (b : N) : N := if (65 <=? b) && (b <=? 94) then b + 32 else b.
