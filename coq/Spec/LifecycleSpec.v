(* C07 — what a connection may return, written from the statement of the property, not
   from the machine: the features of one connection's history decide the set of results.

     nil            only when the application asked for it (Close, or a QUIT it sent);
     ErrEvent t     only for an ERROR t the peer sent on this connection;
     I/O error      only when the peer closed its end, or a write of a line other than the
                    QUIT failed (a failed write of the QUIT itself is ignored: nil);
     parse error    only when the peer sent a line that does not parse;
     ping timeout   only when the ping ticker fired.

   Proofs/LifecycleProofs.v shows that the machine of Model/Lifecycle.v returns nothing
   else (C07_result).  The correspondence driver prints `allowed` for the scenario kinds
   of suite lifecycle.sessions. *)
Require Import Bytes Lifecycle.
From Coq Require Import List Bool.
Import ListNotations.

Record features := mkFeat {
  f_close  : bool;        (* Close() was called, or a QUIT was handed to Send/Quit *)
  f_inflight : bool;      (* a Close() call has not returned yet *)
  f_errors : list str;    (* texts of the ERROR lines the peer sent, in order *)
  f_peer_closed : bool;   (* the peer closed its end *)
  f_bad    : bool;        (* the peer sent an unparsable line *)
  f_tick   : bool;        (* the ping ticker fired with a timeout *)
  f_wfail  : bool         (* the write of a line other than QUIT failed *)
}.

Definition allowed (f : features) : list err :=
  (if f_close f then [ENil] else [])
  ++ map EErrEvent (f_errors f)
  ++ (if f_peer_closed f then [EIO] else [])
  ++ (if f_bad f then [EParse] else [])
  ++ (if f_tick f then [ETimedOut] else [])
  ++ (if f_wfail f then [EIO] else []).

(* one visible label's effect on the features of the current connection *)
Definition feat_step (l : label) (f : features) : features :=
  match l with
  | LConnCall _ _ =>
      (* a new connection: only a Close() still in flight can take effect on it *)
      mkFeat (f_inflight f) (f_inflight f) [] false false false false
  | LCloseCall => mkFeat true true (f_errors f) (f_peer_closed f) (f_bad f) (f_tick f) (f_wfail f)
  | LCloseRet => mkFeat (f_close f) false (f_errors f) (f_peer_closed f) (f_bad f) (f_tick f) (f_wfail f)
  | LSend o =>
      if o_quit o then mkFeat true (f_inflight f) (f_errors f) (f_peer_closed f) (f_bad f) (f_tick f) (f_wfail f) else f
  | LPeerSend (LnEv (EvError t)) =>
      mkFeat (f_close f) (f_inflight f) (f_errors f ++ [t]) (f_peer_closed f) (f_bad f) (f_tick f) (f_wfail f)
  | LPeerSend (LnBad _) => mkFeat (f_close f) (f_inflight f) (f_errors f) (f_peer_closed f) true (f_tick f) (f_wfail f)
  | LPeerClose => mkFeat (f_close f) (f_inflight f) (f_errors f) true (f_bad f) (f_tick f) (f_wfail f)
  | LTick 2 => mkFeat (f_close f) (f_inflight f) (f_errors f) (f_peer_closed f) (f_bad f) true (f_wfail f)
  | LWFail _ => mkFeat (f_close f) (f_inflight f) (f_errors f) (f_peer_closed f) (f_bad f) (f_tick f) true
  | _ => f
  end.

(* features after a visible trace (left to right) *)
Definition feat_of (tr : list label) : features :=
  fold_left (fun f l => feat_step l f) tr (mkFeat false false [] false false false false).
