(* C13's own vocabulary, written from the statement: who can reach what, what "isolated"
   means, and what ANY memory-safe user of returned objects may do to the heap. *)
Require Import Bytes AMap Names State Heap.
Local Open Scope nat_scope.

Definition disjoint (a b : list nat) : Prop := forall x, In x a -> ~ In x b.

(* everything an agent holding the handles K can reach *)
Definition creach (h : heap) (K : list nat) : list nat := flat_map (reach h) K.

Definition bounded (h : heap) (l : list nat) : Prop := forall o, In o l -> o < length h.

(* every object the tracked state can reach exists *)
Definition HeapInv (w : world) : Prop := bounded (w_heap w) (live_objs (w_heap w) (w_st w)).

(* The strong invariant: every tracked object is well typed and within bounds (slices lie
   inside their arrays, len <= cap, every user owns a permission map), and tracked objects
   do not share memory among themselves. *)
Definition wf_strs (h : heap) (s : hslice) : Prop :=
  exists a, hget h (sl_arr s) = Some (CStrs a) /\ sl_off s + sl_cap s <= length a /\ sl_len s <= sl_cap s.
Definition wf_modes (h : heap) (s : hslice) : Prop :=
  exists a, hget h (sl_arr s) = Some (CModes a) /\ sl_off s + sl_cap s <= length a /\ sl_len s <= sl_cap s.
Definition wf_user (h : heap) (o : nat) : Prop :=
  exists u, hget h o = Some (CUser u) /\ wf_strs h (hu_chans u) /\
            exists p m, hu_perms u = Some p /\ hget h p = Some (CPerms m).
Definition wf_chan (h : heap) (o : nat) : Prop :=
  exists c, hget h o = Some (CChan c) /\ wf_strs h (hc_users c) /\ wf_modes h (hm_modes (hc_modes c)).

Record HeapWf (w : world) : Prop := {
  wf_users : forall o, In o (List.map snd (hs_users (w_st w))) -> wf_user (w_heap w) o;
  wf_chans : forall o, In o (List.map snd (hs_channels (w_st w))) -> wf_chan (w_heap w) o;
  (* tracked objects do not share memory: an object is reachable from one root only *)
  wf_sep : forall r1 r2 x, In r1 (roots (w_st w)) -> In r2 (roots (w_st w)) ->
             In x (reach (w_heap w) r1) -> In x (reach (w_heap w) r2) -> r1 = r2
}.

(* The client holds the handles K (objects returned by getters, and whatever it built
   from them). The snapshots are isolated in world w when nothing the client can reach is
   reachable from the tracked state. *)
Record Isolated (w : world) (K : list nat) : Prop := {
  iso_inv : HeapInv w;
  iso_bound : bounded (w_heap w) (creach (w_heap w) K);
  iso_disj : disjoint (creach (w_heap w) K) (live_objs (w_heap w) (w_st w))
}.

(* One step of a memory-safe client: it may write any object it can reach in any way
   (fields, elements, slice headers, append within capacity, Apply, sort, ...),
   allocate, and keep or drop handles -- but it cannot forge a pointer: whatever it can
   reach afterwards it could reach before, or is newly allocated. Objects it cannot
   reach are not changed. *)
Record client_step (h : heap) (K : list nat) (h' : heap) (K' : list nat) : Prop := {
  cs_len : length h <= length h';
  cs_frame : forall o, o < length h -> ~ In o (creach h K) -> hget h' o = hget h o;
  cs_reach : forall o, In o (creach h' K') -> In o (creach h K) \/ length h <= o;
  cs_bound : bounded h' (creach h' K')
}.

Inductive client_steps : heap -> list nat -> heap -> list nat -> Prop :=
| cs_nil h K : client_steps h K h K
| cs_cons h K h1 K1 h2 K2 : client_step h K h1 K1 -> client_steps h1 K1 h2 K2 -> client_steps h K h2 K2.

(* what the getters show, as values (identities of the fresh copies abstracted away) *)
Definition user_result (r : res (heap * option nat)) : option (option vuser) :=
  match r with
  | Ok (h, Some o) => Some (user_value h o)
  | Ok (_, None) => Some None
  | Panic => None
  end.
Definition chan_result (r : res (heap * option nat)) : option (option vchan) :=
  match r with
  | Ok (h, Some o) => Some (chan_value h o)
  | Ok (_, None) => Some None
  | Panic => None
  end.
Definition users_result (r : res (heap * list nat)) : option (list (option vuser)) :=
  match r with Ok (h, l) => Some (List.map (user_value h) l) | Panic => None end.
Definition chans_result (r : res (heap * list nat)) : option (list (option vchan)) :=
  match r with Ok (h, l) => Some (List.map (chan_value h) l) | Panic => None end.

(* two worlds show the same through every getter *)
Definition same_getters (w w' : world) : Prop :=
  (forall n, user_result (lookup_user_g w' n) = user_result (lookup_user_g w n)) /\
  (forall n, chan_result (lookup_channel_g w' n) = chan_result (lookup_channel_g w n)) /\
  users_result (users_g w') = users_result (users_g w) /\
  chans_result (channels_g w') = chans_result (channels_g w).
