(* C03: which command each Cmd.* helper is documented to send.  `helper_out k c` : the
   event c is handed to Send/write by some helper, called with some arguments, whose
   documented command is k.  Written from the doc comments of commands.go. *)
Require Import Bytes Names Commands.

Inductive helper_out : str -> cmd_event -> Prop :=
| HO_nick : forall n c, In c (cmd_nick n) -> helper_out c_NICK c
| HO_join : forall max chans c, In c (cmd_join max chans) -> helper_out c_JOIN c
| HO_join_key : forall ch pw c, In c (cmd_join_key ch pw) -> helper_out c_JOIN c
| HO_part : forall chans c, In c (cmd_part chans) -> helper_out c_PART c
| HO_part_message : forall ch m c, In c (cmd_part_message ch m) -> helper_out c_PART c
| HO_send_ctcp : forall t ty m l c,
    cmd_send_ctcp t ty m = Ok l -> In c l -> helper_out c_PRIVMSG c
| HO_send_ctcp_reply : forall t ty m l c,
    cmd_send_ctcp_reply t ty m = Ok l -> In c l -> helper_out c_NOTICE c
| HO_message : forall t m c, In c (cmd_message t m) -> helper_out c_PRIVMSG c
| HO_action : forall t m c, In c (cmd_action t m) -> helper_out c_PRIVMSG c
| HO_notice : forall t m c, In c (cmd_notice t m) -> helper_out c_NOTICE c
| HO_reply : forall src ps m l c, cmd_reply src ps m = Ok l -> In c l -> helper_out c_PRIVMSG c
| HO_reply_to : forall src ps m l c,
    cmd_reply_to src ps m = Ok l -> In c l -> helper_out c_PRIVMSG c
| HO_topic : forall ch m c, In c (cmd_topic ch m) -> helper_out c_TOPIC c
| HO_who : forall us c, In c (cmd_who us) -> helper_out c_WHO c
| HO_whois : forall us c, In c (cmd_whois us) -> helper_out c_WHOIS c
| HO_ping : forall id c, In c (cmd_ping id) -> helper_out c_PING c
| HO_pong : forall id c, In c (cmd_pong id) -> helper_out c_PONG c
| HO_oper : forall u p c, In c (cmd_oper u p) -> helper_out c_OPER c
| HO_kick : forall ch u r c, In c (cmd_kick ch u r) -> helper_out c_KICK c
| HO_ban : forall ch m c, In c (cmd_ban ch m) -> helper_out c_MODE c
| HO_unban : forall ch m c, In c (cmd_unban ch m) -> helper_out c_MODE c
| HO_mode : forall t ms ps c, In c (cmd_mode t ms ps) -> helper_out c_MODE c
| HO_invite : forall ch us c, In c (cmd_invite ch us) -> helper_out c_INVITE c
| HO_away : forall r c, In c (cmd_away r) -> helper_out c_AWAY c
| HO_back : forall c, In c cmd_back -> helper_out c_AWAY c
| HO_list : forall max chans c, In c (cmd_list max chans) -> helper_out c_LIST c
| HO_whowas : forall u n c, In c (cmd_whowas u n) -> helper_out c_WHOWAS c
| HO_monitor : forall m args c, In c (cmd_monitor m args) -> helper_out c_MONITOR c.

(* the command names the helpers use *)
Definition helper_commands : list str :=
  [c_NICK; c_JOIN; c_PART; c_PRIVMSG; c_NOTICE; c_TOPIC; c_WHO; c_WHOIS; c_WHOWAS; c_PING;
   c_PONG; c_OPER; c_KICK; c_MODE; c_INVITE; c_AWAY; c_LIST; c_MONITOR].
