(* The reference side of C17: what the statement asks of the collision handler, written as
   its own little machine (not from the control flow of builtin.go), and the hypotheses under
   which it is claimed.  Definitions only. *)
Require Import Bytes Names PingNick.

(* ---- a session against a server that names the rejected nickname ------- *)

(* What 433/436/437 look like apart from the rejected nickname: which of the three, the
   source, the first parameter (the client's current nickname or "*") and what follows
   the nickname (the explanatory text). *)
Record shell := mkShell { sh_cmd : str; sh_src : option str; sh_target : str; sh_rest : list str }.

Definition numeric_of (s : shell) (rejected : str) : pn_event :=
  mkEvent (sh_cmd s) (sh_src s) (sh_target s :: rejected :: sh_rest s).

Inductive item :=
| ICollide (s : shell)        (* the server refuses the nickname last asked for *)
| IEvent (e : pn_event)       (* any other message from the server *)
| IUser (x : str).            (* the application calls Client.Cmd.Nick(x) *)

(* [req]: the nickname most recently asked for (Config.Nick right after connecting).
   Result: the client's outputs item by item. *)
Fixpoint session (cfg : pn_cfg) (st : pn_state) (req : str) (items : list item)
  : res (list (list pn_out)) :=
  match items with
  | [] => Ok []
  | it :: r =>
      match it with
      | IUser x =>
          rest <- session cfg st x r ;; Ok ([cmd_nick x] :: rest)
      | ICollide s =>
          x <- pn_step cfg st (numeric_of s req) ;;
          rest <- session cfg (fst x) (next_req req (snd x)) r ;; Ok (snd x :: rest)
      | IEvent e =>
          x <- pn_step cfg st e ;;
          rest <- session cfg (fst x) (next_req req (snd x)) r ;; Ok (snd x :: rest)
      end
  end.

(* the nickname GetNick reports: the configured one until 001, then what 001 and our own
   NICK messages established *)
Definition current_nick (cfg : pn_cfg) (st : pn_state) : str :=
  match st with [] => pc_nick cfg | _ => st end.


(* What the statement asks of the default handler, written as its own machine: every
   refusal is answered by exactly one NICK, the refused nickname with one more '_';
   an application request is passed on; other messages get no NICK. *)
Definition is_nick_out (o : pn_out) : bool := streqb (o_cmd o) s_NICK.

Fixpoint expected_nicks (req : str) (items : list item) : list (list pn_out) :=
  match items with
  | [] => []
  | ICollide _ :: r => [cmd_nick (req ++ [underscore])] :: expected_nicks (req ++ [underscore]) r
  | IEvent _ :: r => [] :: expected_nicks req r
  | IUser x :: r => [cmd_nick x] :: expected_nicks x r
  end.

(* a nickname as far as the handler can tell: not empty, no SPACE or ',', does not start like
   a channel.  Every nickname by IsValidNick is one (valid_nick_is_nick_like), and so are the
   non-ASCII nicknames some networks allow. *)
Definition nick_like (n : str) : bool :=
  match n with [] => false | c :: _ => negb (memb c chan_prefixes) end
  && negb (memb 32 n || memb 44 n).

(* hypotheses on a session: the refusals are 433/436/437, the other messages are not, and
   what the application asks for are nicknames *)
Fixpoint well_formed (items : list item) : Prop :=
  match items with
  | [] => True
  | ICollide s :: r => is_collision_cmd (sh_cmd s) = true /\ well_formed r
  | IEvent e :: r => is_collision_cmd (e_cmd e) = false /\ well_formed r
  | IUser x :: r => nick_like x = true /\ well_formed r
  end.


(* Sessions in which the application does not ask for a nickname itself: then every
   refusal belongs to one run, started by [base]. *)
Fixpoint no_user (items : list item) : Prop :=
  match items with
  | [] => True
  | IUser _ :: _ => False
  | _ :: r => no_user r
  end.

(* the NICK lines a session is expected to produce, flattened: one per refusal *)
Fixpoint proposals (base : str) (k : nat) (items : list item) : list str :=
  match items with
  | [] => []
  | ICollide _ :: r => (base ++ repeat underscore (S k)) :: proposals base (S k) r
  | _ :: r => proposals base k r
  end.

Fixpoint expected_run (base : str) (k : nat) (items : list item) : list (list pn_out) :=
  match items with
  | [] => []
  | ICollide _ :: r => [cmd_nick (base ++ repeat underscore (S k))] :: expected_run base (S k) r
  | _ :: r => [] :: expected_run base k r
  end.

