(* Spec of C19, written from the statement, not from Glob's control flow.

   "Glob(input, pattern) is true exactly when the input can be written as the pattern's
    literal pieces in order with each '*' replaced by some (possibly empty) string: no
    literal piece may overlap another, the first piece must be a prefix unless the pattern
    starts with '*', and the last a suffix unless it ends with '*'."

   Three equivalent readings are given (their equivalence is proven in GlobProofs.v):
     wild     byte-level wildcard relation (no notion of "piece" at all),
     matches  over the pattern parsed into pieces  Lit s | Star  (the DESIGN's form),
     weave    the statement's own words: literal pieces l0..ln (n = number of stars) and
              gaps g1..gn with  input = l0 ++ g1 ++ l1 ++ ... ++ gn ++ ln. *)
Require Import Bytes.

Definition star : N := 42.

(* --- 1. byte level ------------------------------------------------------ *)
Inductive wild : str -> str -> Prop :=          (* input, pattern *)
| w_nil  : wild [] []
| w_byte : forall c i p, c <> star -> wild i p -> wild (c :: i) (c :: p)
| w_star : forall g i p, wild i p -> wild (g ++ i) (star :: p).

(* --- 2. pieces ---------------------------------------------------------- *)
Inductive piece := Lit (s : str) | Star.

Definition lit (cur : str) : list piece := match cur with [] => [] | _ => [Lit cur] end.

(* maximal runs of non-'*' bytes become one literal; every '*' is a Star
   (consecutive stars stay consecutive Stars) *)
Fixpoint pieces_acc (cur p : str) : list piece :=
  match p with
  | [] => lit cur
  | c :: r => if c =? star then lit cur ++ Star :: pieces_acc [] r
              else pieces_acc (cur ++ [c]) r
  end.
Definition pieces (p : str) : list piece := pieces_acc [] p.

(* a literal consumes itself, a star consumes any string; pieces are consumed left to
   right from disjoint, adjacent segments of the input, so no two literals overlap *)
Inductive matches : str -> list piece -> Prop :=
| m_nil  : matches [] []
| m_lit  : forall s i ps, matches i ps -> matches (s ++ i) (Lit s :: ps)
| m_star : forall g i ps, matches i ps -> matches (g ++ i) (Star :: ps).

(* --- 3. the statement's words ------------------------------------------ *)
(* the literal pieces of a pattern: the text before the first star, between stars, after
   the last star (possibly empty): always (number of stars + 1) pieces *)
Fixpoint literals_acc (cur p : str) : list str :=
  match p with
  | [] => [cur]
  | c :: r => if c =? star then cur :: literals_acc [] r else literals_acc (cur ++ [c]) r
  end.
Definition literals (p : str) : list str := literals_acc [] p.

(* l0 ++ g1 ++ l1 ++ ... ++ gn ++ ln ; None when the counts do not fit *)
Fixpoint weave (lits gaps : list str) : option str :=
  match lits, gaps with
  | [l], [] => Some l
  | l :: ls, g :: gs => option_map (fun t => l ++ g ++ t) (weave ls gs)
  | _, _ => None
  end.

Definition decomposes (input pat : str) : Prop :=
  exists gaps, weave (literals pat) gaps = Some input.
