(* Extraction of the executable models: ExtrOcamlBasic only; N, Z, positive and nat
   stay the extracted inductive types.  No Extract Constant / Extract Inductive of
   our own.  Run from ocaml/ so model.ml lands there. *)
From Coq Require Import Extraction ExtrOcamlBasic.
Require Import Girc.Driver.Driver.
Extraction Language OCaml.
Extraction "model.ml" Driver.run_suite.
