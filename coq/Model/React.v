(* CAPSTONE impl-model: the client's synchronous reaction to ONE raw line read from the
   socket, at the level of bytes.  It composes the per-property models, unchanged:

     conn.go    readLoop / ircConn.decode : ParseEvent(line); nil => the connection ends with
                                            ErrParseEvent                     (Model/Event.v, Tags.v)
     client.go  execLoop -> RunHandlers   : the tracked-state handlers, handleSASL /
                                            handleSASLError, handleCAP, the CTCP stage with the
                                            default repliers                  (Model/ClientStep.v)
     builtin.go nickCollisionHandler      : 433 / 436 / 437                   (Model/PingNick.v)
     conn.go    Client.Send               : Event.split(MaxEventLength())     (Model/Split.v)
                Client.write, sendLoop    : tags replaced by Tags{} unless message-tags is
                                            enabled, Event.Bytes()            (Model/SendPath.v, Event.v)
     client.go  execLoop                  : an ERROR event (from the server, or queued by a
                                            handler) makes Connect return     (ClientStep.disconnects)

   `react cfg rs line` : the line is what ReadString('\n') returned (terminator included or
   not: ParseEvent trims CR/LF at both ends itself).  The result is
     RPanic           a Go panic somewhere on the way (index out of range, nil dereference,
                      the explicit panic of SendCTCPReply, exhausted fuel = non-termination);
     RParseFail       ParseEvent returned nil: readLoop returns ErrParseEvent, Connect returns;
     RStep rs' outs   the new state and the raw lines written in response (without CRLF), in
                      the order the code fixes.  rs_closed rs' = true: Connect is about to
                      return because of an ERROR event; nothing further is read.

   What is NOT in the model: time stamps and the 2 s sleep of handleConnect (no wire output),
   Event.Echo (it only suppresses updateLastActive, which the state model does not track),
   Config.GlobalFormat, the flood limiter (delays only), user handlers, the STS reconnect.
   The default CTCP repliers run in goroutines of their own (SetBg): their output is part of
   the reaction to the line but is written asynchronously; no line produces output from two
   different stages (Proofs/ReactWire.v react_single_source), so the order within one reaction is
   always fixed by one piece of sequential code.  No proofs in this file. *)
Require Import Bytes.
Require AMap CapLib Names WireOut Tags Event State ClientStep Ctcp Sasl Cap StsState Split PingNick SendPath.

(* ---- configuration and state ------------------------------------------------------- *)

Record react_cfg := mkReactCfg {
  rc_client : ClientStep.client_cfg;
  rc_collide : option (str -> str)             (* Config.HandleNickCollide *)
}.

Record rstate := mkRState {
  rs_client : ClientStep.client_state;
  rs_closed : bool                             (* execLoop has seen an ERROR event *)
}.

Definition react_init (sts : StsState.strict_transport) : rstate :=
  mkRState (ClientStep.client_init sts) false.

Inductive rres :=
| RPanic
| RParseFail
| RStep (rs : rstate) (outs : list str).

(* ---- the received event as the handlers see it --------------------------------------- *)

Definition k_account : str := Eval vm_compute in bs "account".

Definition to_state_source (s : Event.wsource) : State.source :=
  State.mkSource (Event.ws_name s) (Event.ws_ident s) (Event.ws_host s).

(* e_account_tag = Tags.Get("account") (nil and empty maps have no entry) *)
Definition to_state_event (w : Event.wevent) : State.event :=
  State.mkEvent (option_map to_state_source (Event.we_src w))
                (Tags.tags_get (Event.we_tags w) k_account)
                (Event.we_cmd w) (Event.we_params w).

(* ---- nickCollisionHandler ------------------------------------------------------------ *)

Definition pn_cfg_of (cfg : react_cfg) : PingNick.pn_cfg :=
  PingNick.mkPnCfg (State.cfg_nick (ClientStep.cc_state (rc_client cfg))) true (rc_collide cfg).

Definition pn_state_of (s : State.state) : PingNick.pn_state :=
  PingNick.mkPnState (State.st_nick s) (State.st_opts s).

Definition collide_stage (cfg : react_cfg) (s : State.state) (e : State.event) : res (list PingNick.pn_out) :=
  if PingNick.is_collision_cmd (State.e_cmd e)
  then PingNick.nick_collision (pn_cfg_of cfg) (pn_state_of s) (State.e_params e)
  else Ok [].

(* ---- what the handlers hand to Client.Send / Client.write ----------------------------- *)

Inductive wout :=
| WSend (e : Event.wevent)        (* Client.Send: Event.split first *)
| WWrite (e : Event.wevent).      (* Client.write: straight to the send queue *)

Definition plain_wevent (cmd : str) (ps : list str) : Event.wevent := Event.mkWEvent None None cmd ps.

(* the tracked-state handlers: WHO / MODE go through Client.Send (handleJOIN), the PONG of
   handlePING through Commands.Pong -> Client.write *)
Definition out_of_state (o : State.out) : wout :=
  match o with
  | State.OutSend c ps => if streqb c State.s_PONG then WWrite (plain_wevent c ps) else WSend (plain_wevent c ps)
  end.

Definition outs_of (o : ClientStep.cout) : list wout :=
  match o with
  | ClientStep.CSend x => [out_of_state x]
  | ClientStep.CSasl (Sasl.Write ev) => [WWrite (plain_wevent (Sasl.ev_cmd ev) (Sasl.ev_params ev))]
  | ClientStep.CSasl (Sasl.InjectError _) => []
  | ClientStep.CCap (Cap.Write c ps) => [WWrite (plain_wevent c ps)]
  | ClientStep.CCap _ => []
  (* Commands.SendCTCPReply -> Notice -> Client.Send *)
  | ClientStep.CCtcp ev =>
      [WSend (Event.mkWEvent None (option_map (fun n => Event.mkWSource n [] []) (Ctcp.ev_source ev))
                             (Ctcp.ev_command ev) (Ctcp.ev_params ev))]
  end.

(* Commands.Nick -> Client.Send *)
Definition out_of_nick (o : PingNick.pn_out) : wout :=
  match PingNick.o_route o with
  | PingNick.Direct => WWrite (plain_wevent (PingNick.o_cmd o) (PingNick.o_params o))
  | PingNick.Limited => WSend (plain_wevent (PingNick.o_cmd o) (PingNick.o_params o))
  end.

(* ---- the send path ---------------------------------------------------------------------- *)

(* the fields Event.split reads (Model/Split.v) *)
Definition to_sevent (e : Event.wevent) : Split.sevent :=
  Split.mk_sevent
    (if Nat.ltb 0 (Tags.tags_count (Event.we_tags e)) then Tags.tags_len (Event.we_tags e) + 1 else 0)%nat
    (option_map (fun s => (Event.ws_name s, Event.ws_ident s, Event.ws_host s)) (Event.we_src e))
    (Event.we_cmd e) (Event.we_params e).

(* a piece is a copy of the event with other parameters *)
Definition of_piece (e : Event.wevent) (p : Split.sevent) : Event.wevent :=
  Event.mkWEvent (Event.we_tags e) (Event.we_src e) (Split.se_command p) (Split.se_params p).

(* sendLoop: `in` = message-tags is a key of enabledCap *)
Definition message_tags_on (en : Cap.capmap) : bool :=
  existsb (fun _ : str * Cap.capvals => CapLib.amem Cap.s_message_tags en) en.

(* the raw line sendLoop writes (CRLF not included) *)
Definition wire (mt : bool) (e : Event.wevent) : str := Event.event_bytes (SendPath.strip_tags mt e).

Definition emit (mt : bool) (max : Z) (o : wout) : res (list str) :=
  match o with
  | WWrite e => Ok [wire mt e]
  | WSend e =>
      ps <- Split.event_split (to_sevent e) max ;;
      Ok (List.map (fun p => wire mt (of_piece e p)) ps)
  end.

Fixpoint emit_all (mt : bool) (max : Z) (l : list wout) : res (list str) :=
  match l with
  | [] => Ok []
  | o :: r => a <- emit mt max o ;; b <- emit_all mt max r ;; Ok (a ++ b)
  end.

(* ---- one line ---------------------------------------------------------------------------- *)

(* everything the handlers of one event hand to Send / write, in order *)
Definition reaction_outs (couts : list ClientStep.cout) (nouts : list PingNick.pn_out) : list wout :=
  flat_map outs_of couts ++ List.map out_of_nick nouts.

Definition react_event (cfg : react_cfg) (cs : ClientStep.client_state) (e : State.event) : rres :=
  match ClientStep.client_step (rc_client cfg) cs e with
  | Panic => RPanic
  | Ok (cs', couts) =>
      match collide_stage cfg (ClientStep.cs_state cs) e with
      | Panic => RPanic
      | Ok nouts =>
          let mt := message_tags_on (Cap.st_enabled (ClientStep.cs_cap cs')) in
          let max := Split.max_event_length (ClientStep.cs_state cs') in
          match emit_all mt max (reaction_outs couts nouts) with
          | Panic => RPanic
          | Ok lines => RStep (mkRState cs' (ClientStep.disconnects e couts)) lines
          end
      end
  end.

Definition react (cfg : react_cfg) (rs : rstate) (line : str) : rres :=
  if rs_closed rs then RStep rs [] else
  match Event.parse_event line with
  | Panic => RPanic
  | Ok None => RParseFail
  | Ok (Some w) => react_event cfg (rs_client rs) (to_state_event w)
  end.

(* ---- a session: raw lines in, per-line responses out -------------------------------------- *)

Inductive session_end :=
| Alive                        (* every line was read; the client is still connected *)
| ParseFailed (i : nat)        (* line i (from 0) made ParseEvent return nil *)
| Closed (i : nat).            (* line i was / produced an ERROR event *)

Record session := mkSession {
  ss_state : rstate;
  ss_outs : list (list str);   (* one entry per line that was read, in order *)
  ss_end : session_end
}.

Fixpoint react_run (cfg : react_cfg) (rs : rstate) (i : nat) (lines : list str) : res session :=
  match lines with
  | [] => Ok (mkSession rs [] Alive)
  | l :: r =>
      match react cfg rs l with
      | RPanic => Panic
      | RParseFail => Ok (mkSession rs [] (ParseFailed i))
      | RStep rs' outs =>
          if rs_closed rs' then Ok (mkSession rs' [outs] (Closed i))
          else
            s <- react_run cfg rs' (S i) r ;;
            Ok (mkSession (ss_state s) (outs :: ss_outs s) (ss_end s))
      end
  end.
