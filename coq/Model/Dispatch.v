(* C06 — the handler table of handler.go (Caller), sequential semantics.

   Mirrors: Caller.register / sregister / Add / AddBg / AddHandler / AddTmp (the
   registration part and the self-removing wrapper with its once-only close of done), cuid, cuidToID, remove / Remove,
   Clear, ClearAll, Len, Count, the selection loop of Caller.exec and the four calls of
   Client.RunHandlers (bg "*", bg cmd, fg "*", fg cmd; the two cmd calls are skipped for
   an echo).  The interleaving machine built on these operations is in
   Model/DispatchMachine.v.  No proofs here.

   Go maps are association lists (Lib/AMap.v: aset replaces, so keys stay unique).
   The value stored for a handler is its identity (which registered function it is)
   plus whether it is AddTmp's self-removing wrapper.  The random 20-letter uid of
   Caller.cuid is a parameter of [register] (fresh-id oracle).  strings.ToUpper is
   modelled on ASCII (to_upper_ascii); commands are ASCII tokens. *)
Require Import Bytes AMap.

Definition star : str := [42].                       (* ALL_EVENTS = "*" *)
Definition colon : N := 58.
Definition bg_suffix : str := Eval vm_compute in bs ":bg".
Definition go_upper (s : str) : str := to_upper_ascii s.

Record hval := mkH { hv_id : N; hv_tmp : bool }.

Definition group := amap hval.                       (* uid  -> Handler *)
Definition hmap := amap group.                       (* COMMAND -> group *)
Record table := mkTable { t_int : hmap; t_ext : hmap }.

Definition empty_table : table := mkTable [] [].     (* newCaller *)

(* ---- Len / Count ------------------------------------------------------- *)

Fixpoint hmap_len (m : hmap) : nat :=
  match m with
  | [] => 0%nat
  | (_, g) :: r => (length g + hmap_len r)%nat
  end.

Definition table_len (t : table) : nat := hmap_len (t_ext t).

Fixpoint hmap_count (m : hmap) (cmd : str) : nat :=
  match m with
  | [] => 0%nat
  | (k, g) :: r => ((if streqb k cmd then length g else 0) + hmap_count r cmd)%nat
  end.

Definition table_count (t : table) (cmd : str) : nat := hmap_count (t_ext t) (go_upper cmd).

(* ---- register ----------------------------------------------------------- *)

Definition group_of (m : hmap) (cmd : str) : group :=
  match alookup cmd m with Some g => g | None => [] end.

(* m[cmd][uid] = v, creating m[cmd] when absent *)
Definition hput (m : hmap) (cmd uid : str) (v : hval) : hmap :=
  aset cmd (aset uid v (group_of m cmd)) m.

Definition key_of (uid0 : str) (bg : bool) : str := if bg then uid0 ++ bg_suffix else uid0.
Definition cuid_of (cmd key : str) : str := cmd ++ colon :: key.

(* Caller.register: returns the new table and the cuid handed to the caller *)
Definition register (t : table) (internal bg : bool) (cmd uid0 : str) (v : hval) : table * str :=
  let cmd' := go_upper cmd in
  let key := key_of uid0 bg in
  (if internal then mkTable (hput (t_int t) cmd' key v) (t_ext t)
   else mkTable (t_int t) (hput (t_ext t) cmd' key v),
   cuid_of cmd' key).

(* ---- remove / Clear / ClearAll ----------------------------------------- *)

(* cuidToID: split at the first ':' *)
Definition cuid_to_id (s : str) : str * str :=
  match index_byte colon s with
  | None => ([], [])
  | Some i => (firstn i s, skipn (S i) s)
  end.

Definition remove (t : table) (cuid : str) : table * bool :=
  let (cmd, uid) := cuid_to_id cuid in
  match cmd, uid with
  | [], _ => (t, false)
  | _, [] => (t, false)
  | _, _ =>
    match alookup cmd (t_ext t) with
    | None => (t, false)
    | Some g =>
      match alookup uid g with
      | None => (t, false)
      | Some _ => (mkTable (t_int t) (aset cmd (aremove uid g) (t_ext t)), true)
      end
    end
  end.

Definition clear (t : table) (cmd : str) : table :=
  mkTable (t_int t) (aremove (go_upper cmd) (t_ext t)).

Definition clear_all (t : table) : table := mkTable (t_int t) [].
Definition clear_internal (t : table) : table := mkTable [] (t_ext t).

(* ---- exec: which handlers one call of Caller.exec runs ------------------ *)

Definition is_bg_key (uid : str) : bool := suffixb bg_suffix uid.

Definition pick (m : hmap) (command : str) (bg : bool) : list (str * hval) :=
  filter (fun kv => Bool.eqb (is_bg_key (fst kv)) bg) (group_of m command).

(* internal first, then external; the command is looked up as given (exec does not
   upper-case it: ParseEvent already did for received events) *)
Definition select (t : table) (command : str) (bg : bool) : list (str * hval) :=
  pick (t_int t) command bg ++ pick (t_ext t) command bg.

(* ---- RunHandlers: the four phases --------------------------------------- *)

Record event := mkEv { ev_cmd : str; ev_echo : bool }.

(* phase k of RunHandlers: the (command, bg) given to exec, None when the call is
   skipped (echo) *)
Definition phase_arg (e : event) (k : nat) : option (str * bool) :=
  match k with
  | 0%nat => Some (star, true)
  | 1%nat => if ev_echo e then None else Some (ev_cmd e, true)
  | 2%nat => Some (star, false)
  | 3%nat => if ev_echo e then None else Some (ev_cmd e, false)
  | _ => None
  end.

Definition phase_sel (t : table) (e : event) (k : nat) : list (str * hval) :=
  match phase_arg e k with
  | Some (c, bg) => select t c bg
  | None => []
  end.

(* every (cuid, handler, bg) one RunHandlers call executes when the table does not
   change under it *)
Definition dispatch (t : table) (e : event) : list (str * hval * bool) :=
  flat_map (fun k =>
    match phase_arg e k with
    | Some (c, bg) => List.map (fun kv => (cuid_of c (fst kv), snd kv, bg)) (select t c bg)
    | None => []
    end) [0; 1; 2; 3]%nat.

(* ---- sequential run of one event, with AddTmp's wrapper ------------------ *)

(* AddTmp's wrapper: when the user function returns true it calls finish, which is
   Remove(cuid) followed by once.Do(close(done)) — done is closed the first time finish
   runs, whoever removed the handler.  [ret h] says what the user function of handler h
   returns.  Folded over the invocations of one event in order; the second component
   lists the handlers whose finish ran (in order, with repetitions). *)
Fixpoint settle (t : table) (inv : list (str * hval * bool)) (ret : N -> bool)
  : table * list N :=
  match inv with
  | [] => (t, [])
  | (cuid, v, _) :: r =>
    if hv_tmp v && ret (hv_id v) then
      let (t1, _) := remove t cuid in
      let (t2, fin) := settle t1 r ret in
      (t2, hv_id v :: fin)
    else settle t r ret
  end.

(* result of RunHandlers(e) once every handler it started has finished:
   new table, handler ids invoked (with multiplicity), handlers whose finish ran *)
Definition run_event (t : table) (e : event) (ret : N -> bool) : table * list N * list N :=
  let inv := dispatch t e in
  let (t', fin) := settle t inv ret in
  (t', List.map (fun x => hv_id (snd (fst x))) inv, fin).

(* ---- registrations as data: what the machine and the table theorems quantify over --- *)

(* one call of Add / AddBg / AddHandler / AddTmp (or an internal registration): the
   command as written by the caller, background?, AddTmp's wrapper?, internal table?,
   AddTmp with a deadline > 0? *)
Record hdecl := mkHD {
  hd_cmd : str; hd_bg : bool; hd_tmp : bool; hd_int : bool; hd_deadline : bool }.

Inductive top :=
| TAdd (h : N)                 (* the registration call that creates handler h *)
| TRemove (h : N)              (* Remove(cuid returned by the registration of h) *)
| TRemoveRaw (cuid : str)      (* Remove(any string) *)
| TClear (cmd : str)
| TClearAll.

Section TableOps.
  Variable uid_of : N -> str.       (* the fresh-id oracle: handler -> its random uid *)
  Variable decl : N -> hdecl.

  Definition up_cmd (h : N) : str := go_upper (hd_cmd (decl h)).
  Definition reg_key (h : N) : str := key_of (uid_of h) (hd_bg (decl h)).
  Definition reg_cuid (h : N) : str := cuid_of (up_cmd h) (reg_key h).
  Definition reg_val (h : N) : hval := mkH h (hd_tmp (decl h)).

  Definition add_handler (t : table) (h : N) : table * str :=
    register t (hd_int (decl h)) (hd_bg (decl h)) (hd_cmd (decl h)) (uid_of h) (reg_val h).

  (* one operation under Caller.mu; the bool is Remove's result (true otherwise) *)
  Definition apply_top (t : table) (o : top) : table * bool :=
    match o with
    | TAdd h => (fst (add_handler t h), true)
    | TRemove h => remove t (reg_cuid h)
    | TRemoveRaw c => remove t c
    | TClear c => (clear t c, true)
    | TClearAll => (clear_all t, true)
    end.

  Fixpoint run_tops (t : table) (ops : list top) : table :=
    match ops with
    | [] => t
    | o :: r => run_tops (fst (apply_top t o)) r
    end.

  (* handler ids one exec call selects / one RunHandlers call runs, in order *)
  Definition sel_ids (t : table) (command : str) (bg : bool) : list N :=
    List.map (fun kv => hv_id (snd kv)) (select t command bg).
  Definition phase_ids (t : table) (e : event) (k : nat) : list N :=
    List.map (fun kv => hv_id (snd kv)) (phase_sel t e k).
  Definition dispatch_ids (t : table) (e : event) : list N :=
    List.map (fun x => hv_id (snd (fst x))) (dispatch t e).
End TableOps.
