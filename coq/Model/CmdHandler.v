(* impl-model of cmdhandler/cmd.go: New, Add, Execute.  Mirrors /repo as it is NOW:
   - Add checks every alias (against the table, the name and the earlier aliases) before
     it registers anything (79afa49);
   - the prefix is compared byte for byte (strings.HasPrefix) and cut off; the regular
     expression cmdMatch is fixed and only sees what follows the prefix; New never
     fails (cd20b6b).

   cmdMatch, that is: BEGIN, a group of 1 to 20 bytes of the class [a-z0-9-_], optionally
   (SPACE and a group "any number of dots"), END, is modelled by a hand-written matcher with
   Go's semantics for exactly this pattern:
   - in Go's (RE2, Perl-flavoured) class syntax a '-' that cannot start a range is a
     literal, so the class is a-z, 0-9, '-', '_' and nothing else; no case folding;
   - {1,20} is greedy and the engine backtracks (leftmost-first), but the byte after the
     name must be the end of the text or a SPACE, neither of which is in the class, so
     the name is the maximal run and no shorter alternative can succeed; a run of more
     than 20 therefore never matches;
   - `.` matches every rune but '\n' (an invalid byte is decoded as U+FFFD, which `.`
     matches) and `$` (no (?m)) only the very end of the text - not the position before a
     final '\n' - so the remainder after the SPACE must be newline free;
   - the class is pure ASCII, so a remainder that starts inside a multi-byte rune (a
     prefix that is not valid UTF-8) cannot match by accident.
   No proofs here. *)
Require Import Bytes Utf8 Names GoLower Ctcp.

(* ---- the matcher ----------------------------------------------------- *)

(* strings.HasPrefix(text, prefix) and text[len(prefix):] *)
Definition strip_prefix (p t : str) : option str :=
  if prefixb p t then Some (skipn (length p) t) else None.

Definition name_byte_ok (b : N) : bool := is_lower b || is_digit b || (b =? 45) || (b =? 95).

Fixpoint span_name (s : str) : str * str :=
  match s with
  | [] => ([], [])
  | b :: r => if name_byte_ok b then let (n, t) := span_name r in (b :: n, t) else ([], s)
  end.

(* FindStringSubmatch: Some (parsed[1], parsed[2]) on a match, None otherwise *)
Definition cmd_match (prefix text : str) : option (str * str) :=
  match strip_prefix prefix text with
  | None => None
  | Some t =>
    let (n, rest) := span_name t in
    if Nat.eqb (length n) 0 || Nat.ltb 20 (length n) then None else
    match rest with
    | [] => Some (n, [])
    | c :: r => if (c =? 32) && negb (memb 10 r) then Some (n, r) else None
    end
  end.

(* validName = `^[a-z0-9-_]{1,20}$` *)
Definition valid_name (s : str) : bool :=
  Nat.leb 1 (length s) && Nat.leb (length s) 20 && forallb name_byte_ok s.

(* validName.MatchString(strings.ToLower(s)): the lower-cased name when it is valid *)
Definition lower_valid (s : str) : option str :=
  match lower_ascii_img s with
  | Some l => if valid_name l then Some l else None
  | None => None
  end.

(* ---- commands and the table ------------------------------------------ *)

Record command := mk_command {
  c_id : nat;              (* identity of the *Command / its Fn *)
  c_name : str;
  c_aliases : list str;
  c_has_help : bool;       (* Help != "" *)
  c_minargs : Z
}.

Definition cmd_table := list (str * command).

Fixpoint tbl_get (k : str) (t : cmd_table) : option command :=
  match t with
  | [] => None
  | (k', c) :: r => if streqb k' k then Some c else tbl_get k r
  end.
Definition tbl_mem (k : str) (t : cmd_table) : bool :=
  match tbl_get k t with Some _ => true | None => false end.

(* map assignment; Add only ever assigns keys it has found absent *)
Definition tbl_put (k : str) (c : command) (t : cmd_table) : cmd_table := (k, c) :: t.

Record cmd_handler := mk_handler { h_prefix : str; h_cmds : cmd_table }.

(* New: never fails (the error result is always nil) *)
Definition new_handler (prefix : str) : cmd_handler := mk_handler prefix [].

(* ---- Add ------------------------------------------------------------- *)

Inductive add_error := ErrInvalidName | ErrInvalidAlias | ErrDupName | ErrDupAlias.

(* for i: Aliases[i] = ToLower(Aliases[i]); invalid -> error *)
Fixpoint lower_aliases (l : list str) : option (list str) :=
  match l with
  | [] => Some []
  | a :: r =>
    match lower_valid a with
    | None => None
    | Some a' => option_map (cons a') (lower_aliases r)
    end
  end.

(* the checking loop: alias i is refused when it is a key of the table, equals the
   name, or equals an earlier alias *)
Fixpoint alias_clash (t : cmd_table) (name : str) (earlier als : list str) : bool :=
  match als with
  | [] => false
  | a :: r =>
    if tbl_mem a t || streqb a name || existsb (streqb a) earlier then true
    else alias_clash t name (earlier ++ [a]) r
  end.

Fixpoint put_all (keys : list str) (c : command) (t : cmd_table) : cmd_table :=
  match keys with
  | [] => t
  | k :: r => put_all r c (tbl_put k c t)
  end.

(* the table after the call (also on error) and the error, if any.  cmd == nil is not
   modelled (a nil command is not a registration). *)
Definition add (t : cmd_table) (cmd : command) : cmd_table * option add_error :=
  match lower_valid (c_name cmd) with
  | None => (t, Some ErrInvalidName)
  | Some name =>
    match lower_aliases (c_aliases cmd) with
    | None => (t, Some ErrInvalidAlias)
    | Some als =>
      let minargs := if (c_minargs cmd <? 0)%Z then 0%Z else c_minargs cmd in
      let cmd' := mk_command (c_id cmd) name als (c_has_help cmd) minargs in
      if tbl_mem name t then (t, Some ErrDupName) else
      if alias_clash t name [] als then (t, Some ErrDupAlias) else
      (put_all als cmd' (tbl_put name cmd' t), None)
    end
  end.

(* ---- Execute --------------------------------------------------------- *)

Inductive help_kind :=
| HelpGeneric         (* "type '!help <command>' ..." *)
| HelpUnknown         (* "unknown command %q." *)
| HelpNoDoc           (* "there is no help documentation for %q" *)
| HelpText (c : command).   (* Fmt(genHelp(prefix)) *)

Inductive outcome :=
| Nothing
| Invoke (c : command) (args : list str) (raw : str)      (* go cmd.Fn(client, &Input{..}) *)
| Reply (target text : str)                               (* exact PRIVMSG sent *)
| ReplyHelp (k : help_kind) (target lead : str).          (* PRIVMSG target (lead ++ help text) *)

(* Event.Last() *)
Definition last_param (e : event) : str := last (ev_params e) [].

(* Commands.ReplyTo on an event with a source: where the answer goes and what is put in
   front of it *)
Definition reply_route (e : event) (src : str) : str * str :=
  match ev_params e with
  | p0 :: _ => if is_valid_channel p0 then (p0, src ++ [44; 32]) else (src, [])
  | [] => (src, [])
  end.

Definition help_name : str := Eval vm_compute in bs "help".
Definition help_generic_text : str := Eval vm_compute in
  bs "type '" ++ [2] ++ bs "!help " ++ [3; 48; 50] ++ bs "<command>" ++ [3; 2] ++
  bs "' to optionally get more info about a specific command.".
Definition usage_a : str := Eval vm_compute in bs "not enough arguments supplied for " ++ [2; 34].
Definition usage_b : str := Eval vm_compute in [34; 2] ++ bs ". try '" ++ [2].
Definition usage_c : str := Eval vm_compute in bs "help ".
Definition usage_d : str := Eval vm_compute in [2] ++ bs "'?".

(* Sprintf(Fmt("not enough arguments supplied for {b}%q{b}. try '{b}%shelp %s{b}'?"),
   invCmd, prefix, invCmd); %q of a name made of a-z 0-9 - _ is the name in quotes *)
Definition usage_text (prefix name : str) : str :=
  usage_a ++ name ++ usage_b ++ prefix ++ usage_c ++ name ++ usage_d.

(* strings.Split(parsed[2], " ") with the `[""] -> []` adjustment *)
Definition split_args (raw : str) : list str :=
  match split_byte 32 raw with
  | [[]] => []
  | l => l
  end.

Definition execute (h : cmd_handler) (e : event) : outcome :=
  match ev_source e with
  | None => Nothing
  | Some src =>
    if negb (streqb (ev_command e) PRIVMSG) then Nothing else
    match cmd_match (h_prefix h) (last_param e) with
    | None => Nothing
    | Some (n, raw) =>
      let inv := to_lower_ascii n in
      let args := split_args raw in
      let (target, lead) := reply_route e src in
      if streqb inv help_name then
        match args with
        | [] => ReplyHelp HelpGeneric target lead
        | a0 :: _ =>
          (* args[0] = ToLower(args[0]); a result with a non-ASCII byte is no key *)
          match match lower_ascii_img a0 with Some k => tbl_get k (h_cmds h) | None => None end with
          | None => ReplyHelp HelpUnknown target lead
          | Some c => if c_has_help c then ReplyHelp (HelpText c) target lead
                      else ReplyHelp HelpNoDoc target lead
          end
        end
      else
        match tbl_get inv (h_cmds h) with
        | None => Nothing
        | Some c =>
          if (Z.of_nat (length args) <? c_minargs c)%Z
          then Reply target (lead ++ usage_text (h_prefix h) inv)
          else Invoke c args raw
        end
    end
  end.

(* ---- a sequence of messages -------------------------------------------- *)

(* Execute keeps nothing from one message to the next (the table is only changed by Add):
   the outcomes of k calls in a row - also while the functions started for earlier
   messages are still running - are the k outcomes of the single calls *)
Definition execute_seq (h : cmd_handler) (es : list event) : list outcome :=
  List.map (execute h) es.
