(* impl-model of event.go Source.ID and Source.Equals (nil receivers are None). No proofs here. *)
Require Import Bytes Names Event.

Definition source_id (s : wsource) : str := to_rfc1459 (ws_name s).

Definition source_equals (a b : option wsource) : bool :=
  match a, b with
  | None, None => true
  | Some x, Some y =>
      streqb (source_id x) (source_id y) && streqb (ws_ident x) (ws_ident y) && streqb (ws_host x) (ws_host y)
  | _, _ => false
  end.
