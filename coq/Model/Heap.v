(* impl-model of the MEMORY behaviour of the tracked state (property C13): where
   Model/State.v models values only, this file models Go's heap: backing arrays, map
   objects and struct cells with identities, slices as (array, offset, len, cap), the
   in-place mutators of state.go / modes.go, the Copy methods exactly as written, the
   getters of client.go, the member getters of state.go (User.Channels, Channel.Users,
   Trusted, Admins -- which return LIVE pointers), and what a library user can do with a
   returned object through exported fields and methods.

   One store `heap = list cell`; an object's identity is its index; allocation appends.
   Every hslice has a backing array object, also an empty one (Go gives empty slices no
   storage; an array of length 0 holds none either).  Pointers inside cells:
     CUser u  ->  array of u.ChannelList, map object of u.Perms
     CChan c  ->  array of c.UserList, array of c.Modes.modes
     CPtrs l  ->  the structs in its slots (the elements of a listing)
   Time stamps are not modelled (FirstSeen/LastActive/Joined are plain values copied by
   `*nu = *u`).  No proofs here. *)
Require Import Bytes AMap Names State.

(* ---------- cells ---------- *)

Record hslice := mkSlice { sl_arr : nat; sl_off : nat; sl_len : nat; sl_cap : nat }.

Record huser := mkHUser {
  hu_nick : str; hu_ident : str; hu_host : str;
  hu_chans : hslice;                  (* ChannelList *)
  hu_perms : option nat;             (* Perms *UserPerms: the map object it owns; None = nil *)
  hu_name : str; hu_account : str; hu_away : str }.

(* CModes: the six configuration strings (State.cmodes with cm_modes unused) + the hslice *)
Record hcmodes := mkHCModes { hm_cfg : cmodes; hm_modes : hslice }.

Record hchan := mkHChan {
  hc_name : str; hc_topic : str;
  hc_users : hslice;                  (* UserList *)
  hc_modes : hcmodes }.

Inductive cell :=
| CStrs (l : list str)               (* backing array of a []string *)
| CModes (l : list cmode)            (* backing array of a []CMode *)
| CPerms (m : amap perms)            (* a UserPerms object = its channels map *)
| CUser (u : huser)                  (* a User struct *)
| CChan (c : hchan)                  (* a Channel struct *)
| CPtrs (l : list (option nat)).     (* backing array of a []*User / []*Channel handed out by Users() / Channels() (nil slots = None) *)

Definition heap := list cell.

Definition hget (h : heap) (o : nat) : option cell := nth_error h o.
Definition halloc (h : heap) (c : cell) : heap * nat := (h ++ [c], length h).
Fixpoint upd {A} (l : list A) (i : nat) (x : A) : list A :=
  match l, i with
  | [], _ => []
  | _ :: r, O => x :: r
  | y :: r, S i' => y :: upd r i' x
  end.
Definition hset (h : heap) (o : nat) (c : cell) : heap := upd h o c.

(* pointers stored in a cell *)
Definition ptrs (c : cell) : list nat :=
  match c with
  | CUser u => sl_arr (hu_chans u) :: match hu_perms u with Some p => [p] | None => [] end
  | CChan c => [sl_arr (hc_users c); sl_arr (hm_modes (hc_modes c))]
  | CPtrs l => flat_map (fun x => match x with Some o => [o] | None => [] end) l
  | _ => []
  end.
(* the objects reachable from object o (depth <= 1: arrays and maps hold no pointers) *)
Definition reach (h : heap) (o : nat) : list nat :=
  o :: match hget h o with Some c => ptrs c | None => [] end.

(* ---------- the tracked state: roots into the heap ---------- *)

Record hstate := mkHState {
  hs_nick : str; hs_ident : str; hs_host : str;
  hs_channels : amap nat;            (* map[string]*Channel, keyed by folded name *)
  hs_users : amap nat;               (* map[string]*User *)
  hs_opts : amap str }.              (* serverOptions *)

Definition hstate_init : hstate := mkHState [] [] [] [] [] [].

Record world := mkWorld { w_heap : heap; w_st : hstate }.
Definition world_init : world := mkWorld [] hstate_init.

Definition hs_set_channels (s : hstate) (m : amap nat) : hstate :=
  mkHState (hs_nick s) (hs_ident s) (hs_host s) m (hs_users s) (hs_opts s).
Definition hs_set_users (s : hstate) (m : amap nat) : hstate :=
  mkHState (hs_nick s) (hs_ident s) (hs_host s) (hs_channels s) m (hs_opts s).
Definition hs_set_nick (s : hstate) (n : str) : hstate :=
  mkHState n (hs_ident s) (hs_host s) (hs_channels s) (hs_users s) (hs_opts s).
Definition hs_set_ident_host (s : hstate) (i h : str) : hstate :=
  mkHState (hs_nick s) i h (hs_channels s) (hs_users s) (hs_opts s).
Definition hs_set_opts (s : hstate) (m : amap str) : hstate :=
  mkHState (hs_nick s) (hs_ident s) (hs_host s) (hs_channels s) (hs_users s) m.

Definition roots (s : hstate) : list nat := List.map snd (hs_users s) ++ List.map snd (hs_channels s).
(* every object the client's tracked state can reach *)
Definition live_objs (h : heap) (s : hstate) : list nat := flat_map (reach h) (roots s).

(* ---------- field updates ---------- *)

Definition hu_set_chans (u : huser) (s : hslice) : huser :=
  mkHUser (hu_nick u) (hu_ident u) (hu_host u) s (hu_perms u) (hu_name u) (hu_account u) (hu_away u).
Definition hu_set_perms (u : huser) (p : option nat) : huser :=
  mkHUser (hu_nick u) (hu_ident u) (hu_host u) (hu_chans u) p (hu_name u) (hu_account u) (hu_away u).
Definition hu_set_nick (u : huser) (n : str) : huser :=
  mkHUser n (hu_ident u) (hu_host u) (hu_chans u) (hu_perms u) (hu_name u) (hu_account u) (hu_away u).
Definition hu_set_ident_host (u : huser) (i h : str) : huser :=
  mkHUser (hu_nick u) i h (hu_chans u) (hu_perms u) (hu_name u) (hu_account u) (hu_away u).
Definition hu_set_name (u : huser) (n : str) : huser :=
  mkHUser (hu_nick u) (hu_ident u) (hu_host u) (hu_chans u) (hu_perms u) n (hu_account u) (hu_away u).
Definition hu_set_account (u : huser) (a : str) : huser :=
  mkHUser (hu_nick u) (hu_ident u) (hu_host u) (hu_chans u) (hu_perms u) (hu_name u) a (hu_away u).
Definition hu_set_away (u : huser) (a : str) : huser :=
  mkHUser (hu_nick u) (hu_ident u) (hu_host u) (hu_chans u) (hu_perms u) (hu_name u) (hu_account u) a.

Definition hc_set_users (c : hchan) (s : hslice) : hchan := mkHChan (hc_name c) (hc_topic c) s (hc_modes c).
Definition hc_set_topic (c : hchan) (t : str) : hchan := mkHChan (hc_name c) t (hc_users c) (hc_modes c).
Definition hc_set_name (c : hchan) (n : str) : hchan := mkHChan n (hc_topic c) (hc_users c) (hc_modes c).
Definition hc_set_modes (c : hchan) (m : hcmodes) : hchan := mkHChan (hc_name c) (hc_topic c) (hc_users c) m.
Definition hm_set_modes (m : hcmodes) (s : hslice) : hcmodes := mkHCModes (hm_cfg m) s.

(* ---------- typed reads (a wrongly typed or dangling pointer is a Go crash) ---------- *)

Definition get_user (h : heap) (o : nat) : res huser :=
  match hget h o with Some (CUser u) => Ok u | _ => Panic end.
Definition get_chan (h : heap) (o : nat) : res hchan :=
  match hget h o with Some (CChan c) => Ok c | _ => Panic end.
Definition get_strs (h : heap) (o : nat) : res (list str) :=
  match hget h o with Some (CStrs l) => Ok l | _ => Panic end.
Definition get_modes (h : heap) (o : nat) : res (list cmode) :=
  match hget h o with Some (CModes l) => Ok l | _ => Panic end.
Definition get_perms (h : heap) (o : nat) : res (amap perms) :=
  match hget h o with Some (CPerms m) => Ok m | _ => Panic end.

(* the elements a hslice shows: a[off : off+len] *)
Definition seg {A} (a : list A) (s : hslice) : list A := firstn (sl_len s) (skipn (sl_off s) a).
(* overwrite a[off : off+|l|] with l, everything else (also the stale tail) stays *)
Definition seg_write {A} (a : list A) (off : nat) (l : list A) : list A :=
  firstn off a ++ l ++ skipn (off + length l) a.

Definition sl_get (h : heap) (s : hslice) : res (list str) :=
  a <- get_strs h (sl_arr s) ;; Ok (seg a s).
Definition sl_get_modes (h : heap) (s : hslice) : res (list cmode) :=
  a <- get_modes h (sl_arr s) ;; Ok (seg a s).

(* store l (|l| <= cap) at the front of the hslice's window, IN PLACE; the new header *)
Definition sl_store (h : heap) (s : hslice) (l : list str) : res (heap * hslice) :=
  a <- get_strs h (sl_arr s) ;;
  Ok (hset h (sl_arr s) (CStrs (seg_write a (sl_off s) l)),
      mkSlice (sl_arr s) (sl_off s) (length l) (sl_cap s)).

(* Go's append growth policy is not observable through the API (a snapshot's list is
   made with cap = len); the model takes it as a parameter g : old cap -> proposed cap
   and allocates max(needed, g cap). *)
Definition grow_policy := nat -> nat.
Definition go_grow : grow_policy := fun c => match c with O => 1%nat | _ => (2 * c)%nat end.

(* `l = append(l, x); sort.Strings(l)`: with room, the element is written behind the
   window and the window is sorted in place; without, a new array is allocated *)
Definition sl_append_sorted (g : grow_policy) (h : heap) (s : hslice) (x : str) : res (heap * hslice) :=
  a <- get_strs h (sl_arr s) ;;
  let l' := sort_strs (seg a s ++ [x]) in
  if Nat.ltb (sl_len s) (sl_cap s) then sl_store h s l'
  else
    let c := Nat.max (S (sl_len s)) (g (sl_cap s)) in
    let '(h', id) := halloc h (CStrs (l' ++ repeat [] (c - S (sl_len s)))) in
    Ok (h', mkSlice id 0 (S (sl_len s)) c).

(* plain `append(l, x)` (what a library user may do with a snapshot's list) *)
Definition sl_append (g : grow_policy) (h : heap) (s : hslice) (x : str) : res (heap * hslice) :=
  a <- get_strs h (sl_arr s) ;;
  let l' := seg a s ++ [x] in
  if Nat.ltb (sl_len s) (sl_cap s) then sl_store h s l'
  else
    let c := Nat.max (S (sl_len s)) (g (sl_cap s)) in
    let '(h', id) := halloc h (CStrs (l' ++ repeat [] (c - S (sl_len s)))) in
    Ok (h', mkSlice id 0 (S (sl_len s)) c).

(* ---------- UserPerms (modes.go) ---------- *)

Definition perms_set (h : heap) (p : option nat) (k : str) (v : perms) : res heap :=
  match p with
  | None => Panic                                   (* nil *UserPerms: p.mu.Lock() *)
  | Some o => m <- get_perms h o ;; Ok (hset h o (CPerms (aset k v m)))
  end.
Definition perms_remove (h : heap) (p : option nat) (k : str) : res heap :=
  match p with
  | None => Panic
  | Some o => m <- get_perms h o ;; Ok (hset h o (CPerms (aremove k m)))
  end.
Definition perms_lookup_h (h : heap) (p : option nat) (k : str) : res perms :=
  match p with
  | None => Panic
  | Some o => m <- get_perms h o ;; Ok (match alookup k m with Some v => v | None => perms0 end)
  end.

(* UserPerms.Copy: a new object with a new map holding the same entries *)
Definition userperms_copy (h : heap) (p : option nat) : res (heap * nat) :=
  match p with
  | None => Panic
  | Some o => m <- get_perms h o ;; Ok (halloc h (CPerms m))
  end.

(* ---------- CModes (modes.go) ---------- *)

(* Copy: nc = *c; nc.modes = make([]CMode, len); element-wise copy *)
Definition cmodes_copy (h : heap) (m : hcmodes) : res (heap * hcmodes) :=
  l <- sl_get_modes h (hm_modes m) ;;
  let nc := m in
  let '(h', id) := halloc h (CModes l) in
  Ok (h', hm_set_modes nc (mkSlice id 0 (length l) (length l))).

(* Apply: works on a fresh copy (make + copy, in-place replace / append / delete inside
   that copy) and finally stores the new hslice header; the old array is never written.
   The intermediate arrays of the appends are garbage nobody holds: one allocation. *)
Definition cmodes_apply (h : heap) (m : hcmodes) (ms : list cmode) : res (heap * hcmodes) :=
  l <- sl_get_modes h (hm_modes m) ;;
  let l' := fold_left apply_one ms l in
  let '(h', id) := halloc h (CModes l') in
  Ok (h', hm_set_modes m (mkSlice id 0 (length l') (length l'))).

(* ---------- User / Channel methods (state.go) ---------- *)

(* Copy: nu := &User{}; *nu = *u; nu.Perms = u.Perms.Copy();
         nu.ChannelList = make([]string, len(u.ChannelList)); copy(nu.ChannelList, u.ChannelList) *)
Definition user_copy (h : heap) (o : nat) : res (heap * nat) :=
  u <- get_user h o ;;
  let nu := u in
  pc <- userperms_copy h (hu_perms u) ;;
  let '(h1, p') := pc in
  let nu := hu_set_perms nu (Some p') in
  l <- sl_get h1 (hu_chans u) ;;
  let '(h2, a') := halloc h1 (CStrs l) in
  let nu := hu_set_chans nu (mkSlice a' 0 (length l) (length l)) in
  Ok (halloc h2 (CUser nu)).

(* Copy: nc := &Channel{}; *nc = *ch; nc.UserList = make(..); copy(..); nc.Modes = ch.Modes.Copy() *)
Definition channel_copy (h : heap) (o : nat) : res (heap * nat) :=
  c <- get_chan h o ;;
  let nc := c in
  l <- sl_get h (hc_users c) ;;
  let '(h1, a') := halloc h (CStrs l) in
  let nc := hc_set_users nc (mkSlice a' 0 (length l) (length l)) in
  mc <- cmodes_copy h1 (hc_modes c) ;;
  let '(h2, m') := mc in
  let nc := hc_set_modes nc m' in
  Ok (halloc h2 (CChan nc)).

(* addChannel *)
Definition user_add_channel_h (g : grow_policy) (h : heap) (o : nat) (name : str) : res heap :=
  u <- get_user h o ;;
  l <- sl_get h (hu_chans u) ;;
  if mem_str (fold name) l then Ok h else
  r <- sl_append_sorted g h (hu_chans u) (fold name) ;;
  let '(h1, s') := r in
  let h2 := hset h1 o (CUser (hu_set_chans u s')) in
  perms_set h2 (hu_perms u) (fold name) perms0.

(* deleteChannel: append(l[:j], l[j+1:]...) shifts the tail left inside the same array *)
Definition user_delete_channel_h (h : heap) (o : nat) (name : str) : res heap :=
  u <- get_user h o ;;
  l <- sl_get h (hu_chans u) ;;
  r <- sl_store h (hu_chans u) (remove_first (fold name) l) ;;
  let '(h1, s') := r in
  let h2 := hset h1 o (CUser (hu_set_chans u s')) in
  perms_remove h2 (hu_perms u) (fold name).

Definition channel_add_user_h (g : grow_policy) (h : heap) (o : nat) (nick : str) : res heap :=
  c <- get_chan h o ;;
  l <- sl_get h (hc_users c) ;;
  if mem_str (fold nick) l then Ok h else
  r <- sl_append_sorted g h (hc_users c) (fold nick) ;;
  let '(h1, s') := r in
  Ok (hset h1 o (CChan (hc_set_users c s'))).

Definition channel_delete_user_h (h : heap) (o : nat) (nick : str) : res heap :=
  c <- get_chan h o ;;
  l <- sl_get h (hc_users c) ;;
  r <- sl_store h (hc_users c) (remove_first (fold nick) l) ;;
  let '(h1, s') := r in
  Ok (hset h1 o (CChan (hc_set_users c s'))).

(* ---------- state methods ---------- *)

Definition opts_state (o : amap str) : state := mkState [] [] [] [] [] o 0 0 [].

Definition lookup_user_h (w : world) (name : str) : option nat := alookup (fold name) (hs_users (w_st w)).
Definition lookup_channel_h (w : world) (name : str) : option nat := alookup (fold name) (hs_channels (w_st w)).

Definition get_nick_h (cfg : config) (s : hstate) : str :=
  match hs_nick s with [] => cfg_nick cfg | n => n end.
Definition get_id_h (cfg : config) (s : hstate) : str := fold (get_nick_h cfg s).

(* createChannel: &Channel{Name, UserList: []string{}, Modes: NewCModes(..)} *)
Definition create_channel_h (w : world) (name : str) : world :=
  let s := w_st w in
  match alookup (fold name) (hs_channels s) with
  | Some _ => w
  | None =>
      let prefixes := fst (parse_prefixes (user_prefixes (opts_state (hs_opts s)))) in
      let '(h1, ul) := halloc (w_heap w) (CStrs []) in
      let '(h2, ml) := halloc h1 (CModes []) in
      let c := mkHChan name [] (mkSlice ul 0 0 0)
                 (mkHCModes (new_cmodes (chan_modes (opts_state (hs_opts s))) prefixes) (mkSlice ml 0 0 0)) in
      let '(h3, cid) := halloc h2 (CChan c) in
      mkWorld h3 (hs_set_channels s (aset (fold name) cid (hs_channels s)))
  end.

(* createUser: &User{Nick, Host, Ident, Perms: &UserPerms{channels: make(..)}}; ChannelList nil *)
Definition create_user_h (w : world) (src : source) : world :=
  let s := w_st w in
  let k := fold (s_name src) in
  match alookup k (hs_users s) with
  | Some _ => w
  | None =>
      let '(h1, cl) := halloc (w_heap w) (CStrs []) in
      let '(h2, pm) := halloc h1 (CPerms []) in
      let u := mkHUser (s_name src) (s_ident src) (s_host src) (mkSlice cl 0 0 0) (Some pm) [] [] [] in
      let '(h3, uid) := halloc h2 (CUser u) in
      mkWorld h3 (hs_set_users s (aset k uid (hs_users s)))
  end.

(* deleteChannel(name): every listed nick must be tracked (nil dereference otherwise) *)
Fixpoint delete_channel_users_h (h : heap) (users : amap nat) (name : str) (l : list str) : res (heap * amap nat) :=
  match l with
  | [] => Ok (h, users)
  | n :: r =>
      match alookup n users with
      | None => Panic
      | Some uid =>
          h1 <- user_delete_channel_h h uid name ;;
          u <- get_user h1 uid ;;
          let users' := match sl_len (hu_chans u) with O => aremove n users | _ => users end in
          delete_channel_users_h h1 users' name r
      end
  end.
Definition delete_channel_h (w : world) (name : str) : res world :=
  let s := w_st w in
  let k := fold name in
  match alookup k (hs_channels s) with
  | None => Ok w
  | Some cid =>
      c <- get_chan (w_heap w) cid ;;
      l <- sl_get (w_heap w) (hc_users c) ;;
      r <- delete_channel_users_h (w_heap w) (hs_users s) k l ;;
      let '(h', users') := r in
      Ok (mkWorld h' (hs_set_channels (hs_set_users s users') (aremove k (hs_channels s))))
  end.

(* deleteUser(channelName, nick) *)
Fixpoint delete_user_everywhere_h (h : heap) (chans : amap nat) (nick : str) (l : list str) : res heap :=
  match l with
  | [] => Ok h
  | cn :: r =>
      match alookup cn chans with
      | None => Panic
      | Some cid => h1 <- channel_delete_user_h h cid nick ;; delete_user_everywhere_h h1 chans nick r
      end
  end.
Definition delete_user_h (w : world) (channel_name nick : str) : res world :=
  let s := w_st w in
  match lookup_user_h w nick with
  | None => Ok w
  | Some uid =>
      match channel_name with
      | [] =>
          u <- get_user (w_heap w) uid ;;
          l <- sl_get (w_heap w) (hu_chans u) ;;
          h' <- delete_user_everywhere_h (w_heap w) (hs_channels s) nick l ;;
          Ok (mkWorld h' (hs_set_users s (aremove (fold nick) (hs_users s))))
      | _ =>
          match lookup_channel_h w channel_name with
          | None => Ok w
          | Some cid =>
              h1 <- user_delete_channel_h (w_heap w) uid channel_name ;;
              h2 <- channel_delete_user_h h1 cid nick ;;
              u <- get_user h2 uid ;;
              Ok (mkWorld h2 (match sl_len (hu_chans u) with
                              | O => hs_set_users s (aremove (fold nick) (hs_users s))
                              | _ => s
                              end))
          end
      end
  end.

(* renameUser(from, to): the SAME User object moves to the new key; its nick is written
   in place; in every channel it is in, UserList[j] is overwritten and the list is
   sorted in place *)
Fixpoint rename_in_channels_h (h : heap) (chans : amap nat) (from to_folded : str) (l : list str) : res heap :=
  match l with
  | [] => Ok h
  | cn :: r =>
      match alookup cn chans with
      | None => Panic
      | Some cid =>
          c <- get_chan h cid ;;
          ul <- sl_get h (hc_users c) ;;
          h1 <- (if mem_str from ul then
                   st <- sl_store h (hc_users c) (sort_strs (replace_first from to_folded ul)) ;; Ok (fst st)
                 else Ok h) ;;
          rename_in_channels_h h1 chans from to_folded r
      end
  end.
Definition rename_user_h (w : world) (from to : str) : res world :=
  let from := fold from in
  let s := if streqb from (fold (hs_nick (w_st w))) then hs_set_nick (w_st w) to else w_st w in
  let w := mkWorld (w_heap w) s in
  match alookup from (hs_users s) with
  | None => Ok w
  | Some uid =>
      w1 <- (if streqb (fold to) from then Ok w else delete_user_h w [] to) ;;
      u <- get_user (w_heap w1) uid ;;
      let h2 := hset (w_heap w1) uid (CUser (hu_set_nick u to)) in
      let users' := aset (fold to) uid (aremove from (hs_users (w_st w1))) in
      l <- sl_get h2 (hu_chans u) ;;
      h3 <- rename_in_channels_h h2 (hs_channels (w_st w1)) from (fold to) l ;;
      Ok (mkWorld h3 (hs_set_users (w_st w1) users'))
  end.

(* ---------- handlers (builtin.go, modes.go, cap.go, cap_tags.go) ---------- *)

Definition update_user_h (w : world) (name : str) (f : huser -> huser) : res world :=
  match lookup_user_h w name with
  | None => Ok w
  | Some uid => u <- get_user (w_heap w) uid ;; Ok (mkWorld (hset (w_heap w) uid (CUser (f u))) (w_st w))
  end.

Definition handle_tags_h (w : world) (e : event) : res world :=
  match e_src e, e_account_tag e with
  | Some src, Some acct => update_user_h w (s_name src) (fun u => hu_set_account u acct)
  | _, _ => Ok w
  end.

Definition handle_connect_h (w : world) (e : event) : world :=
  match e_params e with
  | p0 :: _ => mkWorld (w_heap w) (hs_set_nick (w_st w) p0)
  | [] => w
  end.

Definition handle_join_h (g : grow_policy) (cfg : config) (w : world) (e : event) : res world :=
  match e_src e, e_params e with
  | Some src, chan_name :: rest =>
      let w1 := create_channel_h w chan_name in
      (* a user already tracked (e.g. from NAMES) takes ident and host from the JOIN prefix
         when either is non-empty (written in place); a new one is created from the prefix *)
      let existed := match lookup_user_h w1 (s_name src) with Some _ => true | None => false end in
      let w2 := create_user_h w1 src in
      match lookup_channel_h w2 chan_name, lookup_user_h w2 (s_name src) with
      | Some cid, Some uid =>
          u0 <- get_user (w_heap w2) uid ;;
          let u := if existed && (str_nonempty (s_ident src) || str_nonempty (s_host src))
                   then hu_set_ident_host u0 (s_ident src) (s_host src) else u0 in
          let h2 := hset (w_heap w2) uid (CUser u) in
          c <- get_chan h2 cid ;;
          h3 <- channel_add_user_h g h2 cid (hu_nick u) ;;
          h4 <- user_add_channel_h g h3 uid (hc_name c) ;;
          u4 <- get_user h4 uid ;;
          (* account-tag: handleTags ran before the user existed *)
          let ut := match e_account_tag e with Some a => hu_set_account u4 a | None => u4 end in
          let u5 := match rest with
                    | acct :: rest2 =>
                        (* extended-join: "*" means not logged in *)
                        let ua := if streqb acct [42] then hu_set_account ut [] else hu_set_account ut acct in
                        match rest2 with name :: _ => hu_set_name ua name | [] => ua end
                    | [] => ut
                    end in
          let h5 := hset h4 uid (CUser u5) in
          let s5 := w_st w2 in
          if streqb (fold (s_name src)) (get_id_h cfg s5)
          then Ok (mkWorld h5 (hs_set_ident_host s5 (s_ident src) (s_host src)))
          else Ok (mkWorld h5 s5)
      | _, _ => Panic
      end
  | _, _ => Ok w
  end.

Definition handle_part_h (cfg : config) (w : world) (e : event) : res world :=
  match e_src e, e_params e with
  | Some src, chan_name :: _ =>
      match chan_name with
      | [] => Ok w
      | _ => if streqb (fold (s_name src)) (get_id_h cfg (w_st w)) then delete_channel_h w chan_name
             else delete_user_h w chan_name (fold (s_name src))
      end
  | _, _ => Ok w
  end.

Definition handle_topic_h (w : world) (e : event) : res world :=
  let go name topic :=
    match lookup_channel_h w name with
    | None => Ok w
    | Some cid => c <- get_chan (w_heap w) cid ;;
                  Ok (mkWorld (hset (w_heap w) cid (CChan (hc_set_topic c topic))) (w_st w))
    end in
  match e_params e with
  | [] => Ok w
  | [name] => go name []
  | [name; topic] => go name topic
  | _ :: name :: _ => go name (last_param e)
  end.

Definition handle_who_h (w : world) (e : event) : res world :=
  let ps := e_params e in
  if cmd_is e "354" then
    if negb (Nat.eqb (length ps) 8) then Ok w
    else if negb (streqb (param e 1) [49]) then Ok w
    else
      let acct := param e 6 in
      let acct := if streqb acct [48] then [] else acct in
      update_user_h w (param e 5) (fun u =>
        hu_set_account (hu_set_name (hu_set_ident_host u (param e 3) (param e 4)) (last_param e)) acct)
  else
    if Nat.ltb (length ps) 7 then Ok w
    else update_user_h w (param e 5) (fun u =>
        hu_set_name (hu_set_ident_host u (param e 2) (param e 3)) (who_strip (last_param e) 0)).

Definition handle_kick_h (cfg : config) (w : world) (e : event) : res world :=
  match e_params e with
  | chan_name :: nick :: _ =>
      if streqb (fold nick) (get_id_h cfg (w_st w)) then delete_channel_h w chan_name
      else delete_user_h w chan_name nick
  | _ => Ok w
  end.

Definition handle_nick_h (w : world) (e : event) : res world :=
  match e_src e, e_params e with
  | Some src, _ :: _ => rename_user_h w (fold (s_name src)) (last_param e)
  | _, _ => Ok w
  end.

Definition handle_quit_h (cfg : config) (w : world) (e : event) : res world :=
  match e_src e with
  | Some src =>
      if streqb (fold (s_name src)) (get_id_h cfg (w_st w)) then Ok w
      else delete_user_h w [] (fold (s_name src))
  | None => Ok w
  end.

Definition handle_myinfo_h (w : world) (e : event) : world :=
  if Nat.ltb (length (e_params e)) 3 then w
  else mkWorld (w_heap w)
         (hs_set_opts (w_st w) (aset opt_VERSION (param e 2) (aset opt_SERVER (param e 1) (hs_opts (w_st w))))).

(* only the option table matters here (createChannel reads CHANMODES / PREFIX) *)
Definition handle_isupport_h (w : world) (e : event) : world :=
  if negb (suffixb this_server (last_param e)) then w
  else if Nat.ltb (length (e_params e)) 2 then w
  else mkWorld (w_heap w) (hs_set_opts (w_st w) (isupport_tokens (hs_opts (w_st w)) (tl (e_params e)))).

Definition names_entry_h (g : grow_policy) (cid : nat) (rw : res world) (part : str) : res world :=
  w <- rw ;;
  match parse_user_prefix part [] with
  | None => Ok w
  | Some (modes, nick) =>
      let osrc := if memb 64 nick then Some (parse_source nick)
                  else if is_valid_nick nick then Some (mkSource nick [] []) else None in
      match osrc with
      | None => Ok w
      | Some src =>
          let w1 := create_user_h w src in
          match lookup_user_h w1 (s_name src) with
          | None => Ok w1
          | Some uid =>
              c <- get_chan (w_heap w1) cid ;;
              h2 <- user_add_channel_h g (w_heap w1) uid (hc_name c) ;;
              h3 <- channel_add_user_h g h2 cid (fold (s_name src)) ;;
              u <- get_user h3 uid ;;
              (* perms, _ := user.Perms.Lookup(channel.Name); perms.set(modes, false) resets first *)
              h4 <- perms_set h3 (hu_perms u) (fold (hc_name c)) (perms_set_prefix perms0 modes) ;;
              Ok (mkWorld h4 (w_st w1))
          end
      end
  end.

Definition handle_names_h (g : grow_policy) (w : world) (e : event) : res world :=
  if Nat.ltb (length (e_params e)) 3 then Ok w
  else match lookup_channel_h w (param e 2) with
       | None => Ok w
       | Some cid => fold_left (names_entry_h g cid) (split_byte 32 (last_param e)) (Ok w)
       end.

Definition mode_user_perms_h (chan_name : str) (rw : res world) (m : cmode) : res world :=
  w <- rw ;;
  if m_setting m then Ok w else
  match m_args m with
  | [] => Ok w
  | a =>
      match lookup_user_h w a with
      | None => Ok w
      | Some uid =>
          u <- get_user (w_heap w) uid ;;
          p <- perms_lookup_h (w_heap w) (hu_perms u) (fold chan_name) ;;
          h' <- perms_set (w_heap w) (hu_perms u) (fold chan_name) (perms_set_from_mode p m) ;;
          Ok (mkWorld h' (w_st w))
      end
  end.

Definition handle_mode_h (w : world) (e : event) : res world :=
  let ps := if cmd_is e "324" && Nat.ltb 2 (length (e_params e)) then tl (e_params e) else e_params e in
  match ps with
  | target :: flags :: args =>
      if negb (is_valid_channel target) then Ok w else
      match lookup_channel_h w target with
      | None => Ok w
      | Some cid =>
          c <- get_chan (w_heap w) cid ;;
          let ms := parse_modes (hm_cfg (hc_modes c)) flags args true in
          r <- cmodes_apply (w_heap w) (hc_modes c) ms ;;
          let '(h1, m') := r in
          let h2 := hset h1 cid (CChan (hc_set_modes c m')) in
          fold_left (mode_user_perms_h (hc_name c)) ms (Ok (mkWorld h2 (w_st w)))
      end
  | _ => Ok w
  end.

Definition src_update_h (w : world) (e : event) (f : huser -> huser) : res world :=
  match e_src e with Some src => update_user_h w (s_name src) f | None => Ok w end.

Definition handle_chghost_h (w : world) (e : event) : res world :=
  match e_params e with
  | [i; h] => src_update_h w e (fun u => hu_set_ident_host u i h)
  | _ => Ok w
  end.
Definition handle_away_h (w : world) (e : event) : res world :=
  src_update_h w e (fun u => hu_set_away u (last_param e)).
Definition handle_account_h (w : world) (e : event) : res world :=
  match e_params e with
  | [a] => src_update_h w e (fun u => hu_set_account u (if streqb a [42] then [] else a))
  | _ => Ok w
  end.

(* one received event (State.handle on the heap) *)
Definition handle_h (g : grow_policy) (cfg : config) (w0 : world) (e : event) : res world :=
  w <- handle_tags_h w0 e ;;
  if cmd_is e "001" then Ok (handle_connect_h w e)
  else if cmd_is e "JOIN" then handle_join_h g cfg w e
  else if cmd_is e "PART" then handle_part_h cfg w e
  else if cmd_is e "KICK" then handle_kick_h cfg w e
  else if cmd_is e "QUIT" then handle_quit_h cfg w e
  else if cmd_is e "NICK" then handle_nick_h w e
  else if cmd_is e "353" then handle_names_h g w e
  else if cmd_is e "MODE" || cmd_is e "324" then handle_mode_h w e
  else if cmd_is e "352" || cmd_is e "354" then handle_who_h w e
  else if cmd_is e "TOPIC" || cmd_is e "332" then handle_topic_h w e
  else if cmd_is e "004" then Ok (handle_myinfo_h w e)
  else if cmd_is e "005" then Ok (handle_isupport_h w e)
  else if cmd_is e "CHGHOST" then handle_chghost_h w e
  else if cmd_is e "AWAY" then handle_away_h w e
  else if cmd_is e "ACCOUNT" then handle_account_h w e
  else Ok w.

Fixpoint run_h (g : grow_policy) (cfg : config) (w : world) (l : list event) : res world :=
  match l with
  | [] => Ok w
  | e :: r => w' <- handle_h g cfg w e ;; run_h g cfg w' r
  end.

(* ---------- getters (client.go): copy while holding the lock ---------- *)

Definition lookup_user_g (w : world) (nick : str) : res (heap * option nat) :=
  match nick with
  | [] => Ok (w_heap w, None)
  | _ => match lookup_user_h w nick with
         | None => Ok (w_heap w, None)                 (* Copy on a nil User pointer returns nil *)
         | Some uid => r <- user_copy (w_heap w) uid ;; Ok (fst r, Some (snd r))
         end
  end.
Definition lookup_channel_g (w : world) (name : str) : res (heap * option nat) :=
  match name with
  | [] => Ok (w_heap w, None)
  | _ => match lookup_channel_h w name with
         | None => Ok (w_heap w, None)
         | Some cid => r <- channel_copy (w_heap w) cid ;; Ok (fst r, Some (snd r))
         end
  end.

Fixpoint copy_all (cp : heap -> nat -> res (heap * nat)) (h : heap) (l : list nat) : res (heap * list nat) :=
  match l with
  | [] => Ok (h, [])
  | o :: r =>
      a <- cp h o ;;
      let '(h1, o') := a in
      b <- copy_all cp h1 r ;;
      let '(h2, r') := b in
      Ok (h2, o' :: r')
  end.

Definition nick_of (h : heap) (o : nat) : str := match hget h o with Some (CUser u) => hu_nick u | _ => [] end.
Definition name_of (h : heap) (o : nat) : str := match hget h o with Some (CChan c) => hc_name c | _ => [] end.

(* Users(): one Copy per tracked user, then sorted by Nick *)
Definition users_g (w : world) : res (heap * list nat) :=
  r <- copy_all user_copy (w_heap w) (List.map snd (hs_users (w_st w))) ;;
  Ok (fst r, sort_by (nick_of (fst r)) (snd r)).
Definition channels_g (w : world) : res (heap * list nat) :=
  r <- copy_all channel_copy (w_heap w) (List.map snd (hs_channels (w_st w))) ;;
  Ok (fst r, sort_by (name_of (fst r)) (snd r)).

(* the RESULT SLICE of Users() / Channels(): `make([]*User, 0, len(..))` inside the call, so
   a new backing array every time, holding the pointers to the copies *)
Definition users_listing_g (w : world) : res (heap * nat * list nat) :=
  r <- users_g w ;;
  let '(h', id) := halloc (fst r) (CPtrs (List.map Some (snd r))) in
  Ok (h', id, snd r).
Definition channels_listing_g (w : world) : res (heap * nat * list nat) :=
  r <- channels_g w ;;
  let '(h', id) := halloc (fst r) (CPtrs (List.map Some (snd r))) in
  Ok (h', id, snd r).

(* ---------- member getters (state.go): NO copy ----------
   User.Channels(c) has a value receiver: it walks the ChannelList of the object it is
   called on (a snapshot) and returns c.state.lookupChannel(name) -- the tracked
   *Channel itself. Channel.Users / Trusted / Admins likewise return tracked *User. *)
Fixpoint filter_some {A} (l : list (option A)) : list A :=
  match l with [] => [] | Some x :: r => x :: filter_some r | None :: r => filter_some r end.

Definition user_channels_g (w : world) (snap : nat) : res (list nat) :=
  u <- get_user (w_heap w) snap ;;
  l <- sl_get (w_heap w) (hu_chans u) ;;
  Ok (filter_some (List.map (lookup_channel_h w) l)).
Definition channel_users_g (w : world) (snap : nat) : res (list nat) :=
  c <- get_chan (w_heap w) snap ;;
  l <- sl_get (w_heap w) (hc_users c) ;;
  Ok (filter_some (List.map (lookup_user_h w) l)).

(* Channel.Trusted(c) / Channel.Admins(c): the tracked users of the (snapshot's) UserList whose
   permissions in the channel named by the snapshot pass the test; again the tracked *User *)
Definition perms_trusted (p : perms) : bool := p_owner p || p_admin p || p_op p || p_halfop p || p_voice p.
Definition perms_admin (p : perms) : bool := p_owner p || p_admin p || p_op p.
Fixpoint filter_users_by (h : heap) (test : perms -> bool) (chname : str) (l : list nat) : res (list nat) :=
  match l with
  | [] => Ok []
  | uid :: r =>
      u <- get_user h uid ;;
      match hu_perms u with
      | None => Panic
      | Some p =>
          m <- get_perms h p ;;
          rest <- filter_users_by h test chname r ;;
          Ok (match alookup (fold chname) m with
              | Some pv => if test pv then uid :: rest else rest
              | None => rest
              end)
      end
  end.
Definition channel_filtered_g (test : perms -> bool) (w : world) (snap : nat) : res (list nat) :=
  c <- get_chan (w_heap w) snap ;;
  l <- sl_get (w_heap w) (hc_users c) ;;
  filter_users_by (w_heap w) test (hc_name c) (filter_some (List.map (lookup_user_h w) l)).

(* the same getters after notes/proposed-fixes/member-getter-live-object.diff: one Copy per
   element, under the lock (not the current code; used by suite heap.members.copied) *)
Definition user_channels_copied_g (w : world) (snap : nat) : res (heap * list nat) :=
  u <- get_user (w_heap w) snap ;;
  l <- sl_get (w_heap w) (hu_chans u) ;;
  copy_all channel_copy (w_heap w) (filter_some (List.map (lookup_channel_h w) l)).
Definition channel_users_copied_g (w : world) (snap : nat) : res (heap * list nat) :=
  c <- get_chan (w_heap w) snap ;;
  l <- sl_get (w_heap w) (hc_users c) ;;
  copy_all user_copy (w_heap w) (filter_some (List.map (lookup_user_h w) l)).

Definition channel_filtered_copied_g (test : perms -> bool) (w : world) (snap : nat) : res (heap * list nat) :=
  l <- channel_filtered_g test w snap ;; copy_all user_copy (w_heap w) l.

(* ---------- deep values ---------- *)

Record vuser := mkVUser {
  vu_nick : str; vu_ident : str; vu_host : str; vu_chans : list str;
  vu_perms : option (amap perms); vu_name : str; vu_account : str; vu_away : str }.
Record vchan := mkVChan {
  vc_name : str; vc_topic : str; vc_users : list str; vc_cfg : cmodes; vc_modes : list cmode }.

Definition opt_of {A} (r : res A) : option A := match r with Ok a => Some a | Panic => None end.

Definition user_value (h : heap) (o : nat) : option vuser :=
  match get_user h o with
  | Panic => None
  | Ok u =>
      match sl_get h (hu_chans u) with
      | Panic => None
      | Ok l =>
          match hu_perms u with
          | None => Some (mkVUser (hu_nick u) (hu_ident u) (hu_host u) l None (hu_name u) (hu_account u) (hu_away u))
          | Some p =>
              match get_perms h p with
              | Panic => None
              | Ok m => Some (mkVUser (hu_nick u) (hu_ident u) (hu_host u) l (Some m) (hu_name u) (hu_account u) (hu_away u))
              end
          end
      end
  end.

Definition chan_value (h : heap) (o : nat) : option vchan :=
  match get_chan h o with
  | Panic => None
  | Ok c =>
      match sl_get h (hc_users c), sl_get_modes h (hm_modes (hc_modes c)) with
      | Ok l, Ok ms => Some (mkVChan (hc_name c) (hc_topic c) l (hm_cfg (hc_modes c)) ms)
      | _, _ => None
      end
  end.

(* what the client tracks, as values: key -> deep value *)
Definition live_users_value (w : world) : list (str * option vuser) :=
  List.map (fun kv => (fst kv, user_value (w_heap w) (snd kv))) (hs_users (w_st w)).
Definition live_channels_value (w : world) : list (str * option vchan) :=
  List.map (fun kv => (fst kv, chan_value (w_heap w) (snd kv))) (hs_channels (w_st w)).

(* ---------- what the holder of returned objects can do ---------- *)

(* exported string fields *)
Inductive sfield := FNick | FIdent | FHost | FName | FAccount | FAway | FCName | FCTopic.

Inductive cop :=
| OpSetField (o : nat) (f : sfield) (v : str)      (* snap.Field = v *)
| OpSetElem (o : nat) (i : nat) (v : str)          (* snap.List[i] = v *)
| OpAppend (o : nat) (v : str)                     (* snap.List = append(snap.List, v) *)
| OpSort (o : nat)                                 (* sort.Strings(snap.List) *)
| OpDelete (o : nat) (i : nat)                     (* snap.List = append(snap.List[:i], snap.List[i+1:]...) *)
| OpTrunc (o : nat) (k : nat)                      (* snap.List = snap.List[:k]  (k <= len) *)
| OpAlias (o o2 : nat)                             (* snap.List = snap2.List[:n:n]; snap.Perms = snap2.Perms / snap.Modes = snap2.Modes *)
| OpNilPerms (o : nat)                             (* snap.Perms = nil *)
| OpApplyModes (o : nat) (flags : str) (args : list str)   (* snap.Modes.Apply(snap.Modes.Parse(flags, args)) *)
| OpSlotNil (o : nat) (i : nat)                    (* listing[i] = nil *)
| OpSlotSwap (o : nat) (i j : nat).                (* listing[i], listing[j] = listing[j], listing[i] *)

Definition list_of (h : heap) (o : nat) : option hslice :=
  match hget h o with
  | Some (CUser u) => Some (hu_chans u)
  | Some (CChan c) => Some (hc_users c)
  | _ => None
  end.
Definition set_list (h : heap) (o : nat) (s : hslice) : heap :=
  match hget h o with
  | Some (CUser u) => hset h o (CUser (hu_set_chans u s))
  | Some (CChan c) => hset h o (CChan (hc_set_users c s))
  | _ => h
  end.

(* l[:len:len] *)
Definition sl_clip (s : hslice) : hslice := mkSlice (sl_arr s) (sl_off s) (sl_len s) (sl_len s).

Fixpoint remove_nth {A} (i : nat) (l : list A) : list A :=
  match l, i with
  | [], _ => []
  | _ :: r, O => r
  | x :: r, S i' => x :: remove_nth i' r
  end.

(* an operation the object does not support (wrong kind, index out of range: a Go
   panic in the USER's code, before anything is written) leaves the heap unchanged *)
Definition client_op (g : grow_policy) (h : heap) (op : cop) : heap :=
  match op with
  | OpSetField o f v =>
      match hget h o, f with
      | Some (CUser u), FNick => hset h o (CUser (hu_set_nick u v))
      | Some (CUser u), FIdent => hset h o (CUser (hu_set_ident_host u v (hu_host u)))
      | Some (CUser u), FHost => hset h o (CUser (hu_set_ident_host u (hu_ident u) v))
      | Some (CUser u), FName => hset h o (CUser (hu_set_name u v))
      | Some (CUser u), FAccount => hset h o (CUser (hu_set_account u v))
      | Some (CUser u), FAway => hset h o (CUser (hu_set_away u v))
      | Some (CChan c), FCName => hset h o (CChan (hc_set_name c v))
      | Some (CChan c), FCTopic => hset h o (CChan (hc_set_topic c v))
      | _, _ => h
      end
  | OpSetElem o i v =>
      match list_of h o with
      | Some s =>
          if Nat.ltb i (sl_len s) then
            match get_strs h (sl_arr s) with
            | Ok a => hset h (sl_arr s) (CStrs (upd a (sl_off s + i) v))
            | Panic => h
            end
          else h
      | None => h
      end
  | OpAppend o v =>
      match list_of h o with
      | Some s => match sl_append g h s v with Ok (h1, s') => set_list h1 o s' | Panic => h end
      | None => h
      end
  | OpSort o =>
      match list_of h o with
      | Some s => match sl_get h s with
                  | Ok l => match sl_store h s (sort_strs l) with Ok (h1, _) => h1 | Panic => h end
                  | Panic => h
                  end
      | None => h
      end
  | OpDelete o i =>
      match list_of h o with
      | Some s =>
          if Nat.ltb i (sl_len s) then
            match sl_get h s with
            | Ok l => match sl_store h s (remove_nth i l) with Ok (h1, s') => set_list h1 o s' | Panic => h end
            | Panic => h
            end
          else h
      | None => h
      end
  | OpTrunc o k =>
      match list_of h o with
      | Some s => if Nat.leb k (sl_len s) then set_list h o (mkSlice (sl_arr s) (sl_off s) k (sl_cap s)) else h
      | None => h
      end
  | OpAlias o o2 =>
      match hget h o, hget h o2 with
      | Some (CUser u), Some (CUser u2) => hset h o (CUser (hu_set_perms (hu_set_chans u (sl_clip (hu_chans u2))) (hu_perms u2)))
      | Some (CChan c), Some (CChan c2) => hset h o (CChan (hc_set_modes (hc_set_users c (sl_clip (hc_users c2))) (hc_modes c2)))
      | _, _ => h
      end
  | OpNilPerms o =>
      match hget h o with
      | Some (CUser u) => hset h o (CUser (hu_set_perms u None))
      | _ => h
      end
  | OpApplyModes o flags args =>
      match hget h o with
      | Some (CChan c) =>
          match cmodes_apply h (hc_modes c) (parse_modes (hm_cfg (hc_modes c)) flags args true) with
          | Ok (h1, m') => hset h1 o (CChan (hc_set_modes c m'))
          | Panic => h
          end
      | _ => h
      end
  | OpSlotNil o i =>
      match hget h o with
      | Some (CPtrs l) => if Nat.ltb i (length l) then hset h o (CPtrs (upd l i None)) else h
      | _ => h
      end
  | OpSlotSwap o i j =>
      match hget h o with
      | Some (CPtrs l) =>
          match nth_error l i, nth_error l j with
          | Some x, Some y => hset h o (CPtrs (upd (upd l i y) j x))
          | _, _ => h
          end
      | _ => h
      end
  end.
