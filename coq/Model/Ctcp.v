(* impl-model of ctcp.go (DecodeCTCP, EncodeCTCPRaw, CTCP.call, the six default
   repliers), Commands.SendCTCPReply of commands.go and the CTCP stage of
   Client.RunHandlers (handler.go).  Mirrors /repo as it is NOW: DecodeCTCP rejects an
   empty command (`s == 0`), the default repliers return when the source is nil.

   Since fcf34ee CTCP.call looks both handlers up under the table lock and runs them
   after releasing it (same outputs; handlers here are pure), since 187fc3e
   handleCTCPFinger answers nothing when client.conn is nil.

   Indexing and slicing are checked (Go's bounds rule), nil dereferences and the
   explicit panic of SendCTCPReply are `Panic`.  What an event handler "does" is the
   list of events it hands to Client.Send, in order; the default repliers are
   registered with SetBg, i.e. they run in goroutines of their own, so the order
   between the outputs of different handlers is not an observable (the default table
   never produces more than one).  The registration side (parseCMD, Set, SetBg, Clear,
   ClearAll) is at the end.  No proofs here. *)
Require Import Bytes Names GoUpperAscii.

(* ---- events ---------------------------------------------------------- *)

(* The fields of girc.Event the CTCP code reads.  ev_source = Some n : Source != nil
   with Source.Name = n (Ident and Host are never read by this code). *)
Record event := mk_event {
  ev_source : option str;
  ev_command : str;
  ev_params : list str
}.

Record ctcp_event := mk_ctcp {
  c_source : option str;     (* Source (Name) copied from the origin *)
  c_command : str;
  c_text : str;
  c_reply : bool
}.

Definition PRIVMSG : str := Eval vm_compute in bs "PRIVMSG".
Definition NOTICE : str := Eval vm_compute in bs "NOTICE".
Definition CTCP_ACTION : str := Eval vm_compute in bs "ACTION".
Definition CTCP_PING : str := Eval vm_compute in bs "PING".
Definition CTCP_PONG : str := Eval vm_compute in bs "PONG".
Definition CTCP_VERSION : str := Eval vm_compute in bs "VERSION".
Definition CTCP_SOURCE : str := Eval vm_compute in bs "SOURCE".
Definition CTCP_TIME : str := Eval vm_compute in bs "TIME".
Definition CTCP_FINGER : str := Eval vm_compute in bs "FINGER".
Definition CTCP_ERRMSG : str := Eval vm_compute in bs "ERRMSG".
Definition ctcp_wildcard : str := [42].                                   (* "*" *)
Definition ctcp_delim : N := 1.
Definition event_space : N := 32.

(* ---- DecodeCTCP ------------------------------------------------------ *)

(* the negation of (b < 'A' || b > 'Z') && (b < '0' || b > '9') *)
Definition tag_byte_ok (b : N) : bool :=
  negb (((b <? 65) || (90 <? b)) && ((b <? 48) || (57 <? b))).

Definition nth_param (l : list str) (i : nat) : res str :=
  match nth_error l i with Some p => Ok p | None => Panic end.

Definition decode_ctcp (e : event) : res (option ctcp_event) :=
  if negb (Nat.eqb (length (ev_params e)) 2) then Ok None else
  p1 <- nth_param (ev_params e) 1 ;;
  if Nat.ltb (length p1) 3 then Ok None else
  if negb (streqb (ev_command e) PRIVMSG) && negb (streqb (ev_command e) NOTICE) then Ok None else
  c0 <- at_ p1 0 ;;
  cl <- at_ p1 (length p1 - 1) ;;
  if negb (c0 =? ctcp_delim) || negb (cl =? ctcp_delim) then Ok None else
  text <- slice p1 1 (length p1 - 1) ;;
  let reply := streqb (ev_command e) NOTICE in
  match index_byte event_space text with
  | None =>
      (* only a tag: for i < len(text) check text[i] *)
      if forallb tag_byte_ok text
      then Ok (Some (mk_ctcp (ev_source e) text [] reply))
      else Ok None
  | Some s =>
      if Nat.eqb s 0 then Ok None else
      (* for i < s check text[i]; s < len(text) because text[s] is the space *)
      if negb (forallb tag_byte_ok (firstn s text)) then Ok None else
      cmd <- slice text 0 s ;;
      txt <- slice_from text (S s) ;;
      Ok (Some (mk_ctcp (ev_source e) cmd txt reply))
  end.

(* ---- EncodeCTCPRaw --------------------------------------------------- *)

Definition encode_ctcp_raw (cmd text : str) : str :=
  match cmd with
  | [] => []
  | _ => [ctcp_delim] ++ cmd ++
         (match text with [] => [] | _ => event_space :: text end) ++ [ctcp_delim]
  end.

(* ---- Commands.SendCTCPReply / Notice --------------------------------- *)

Definition notice (target message : str) : event := mk_event None NOTICE [target; message].

(* panics when EncodeCTCPRaw returns "" *)
Definition send_ctcp_reply (target ctcp_type message : str) : res event :=
  match encode_ctcp_raw ctcp_type message with
  | [] => Panic
  | out => Ok (notice target out)
  end.

(* Commands.SendCTCP: the request side, a PRIVMSG; same panic *)
Definition message (target msg : str) : event := mk_event None PRIVMSG [target; msg].

Definition send_ctcp (target ctcp_type msg : str) : res event :=
  match encode_ctcp_raw ctcp_type msg with
  | [] => Panic
  | out => Ok (message target out)
  end.

(* ---- the default repliers -------------------------------------------- *)

(* What the repliers read from the client and the runtime.  The theorems hold for
   every environment; the time, runtime and idle texts are opaque strings. *)
Record env := mk_env {
  cfg_version : str;        (* Config.Version *)
  cfg_name : str;           (* Config.Name *)
  go_version : str;         (* runtime.Version() *)
  go_os : str;              (* runtime.GOOS *)
  go_arch : str;            (* runtime.GOARCH *)
  now_text : str;           (* time.Now().Format(time.RFC1123Z) *)
  idle_text : str;          (* time.Since(lastActive).String() *)
  connected : bool          (* client.conn != nil *)
}.

Definition handler := ctcp_event -> res (list event).

(* Source.ID() on a non-nil source *)
Definition source_id (name : str) : str := to_rfc1459 name.

(* common head of every default replier: `if ctcp.Reply || ctcp.Source == nil { return }` *)
Definition replier (body : str -> ctcp_event -> res (list event)) : handler :=
  fun c =>
    if c_reply c then Ok [] else
    match c_source c with
    | None => Ok []
    | Some name => body name c
    end.

Definition one (r : res event) : res (list event) := e <- r ;; Ok [e].

Definition handle_ping : handler :=
  replier (fun name c => one (send_ctcp_reply (source_id name) CTCP_PING (c_text c))).

Definition handle_pong : handler :=
  replier (fun name c => one (send_ctcp_reply (source_id name) CTCP_PONG [])).

Definition version_head : str := Eval vm_compute in bs "girc (github.com/lrstanley/girc) using ".
Definition default_version (v : env) : str :=
  version_head ++ go_version v ++ [32; 40] ++ go_os v ++ [44; 32] ++ go_arch v ++ [41].

Definition handle_version (v : env) : handler :=
  replier (fun name c =>
    match cfg_version v with
    | [] => one (send_ctcp_reply (source_id name) CTCP_VERSION (default_version v))
    | ver => one (send_ctcp_reply (source_id name) CTCP_VERSION ver)
    end).

Definition source_url : str := Eval vm_compute in bs "https://github.com/lrstanley/girc".
Definition handle_source : handler :=
  replier (fun name c => one (send_ctcp_reply (source_id name) CTCP_SOURCE source_url)).

Definition handle_time (v : env) : handler :=
  replier (fun name c => one (send_ctcp_reply (source_id name) CTCP_TIME (58 :: now_text v))).

Definition idle_sep : str := Eval vm_compute in bs " -- idle ".
Definition handle_finger (v : env) : handler :=
  replier (fun name c =>
    (* since 187fc3e: `if client.conn == nil { return }` under Client.mu *)
    if negb (connected v) then Ok [] else
    one (send_ctcp_reply (source_id name) CTCP_FINGER (cfg_name v ++ idle_sep ++ idle_text v))).

(* ---- the handler table and CTCP.call --------------------------------- *)

Definition table := list (str * handler).

Fixpoint lookup (k : str) (t : table) : option handler :=
  match t with
  | [] => None
  | (k', h) :: r => if streqb k' k then Some h else lookup k r
  end.

Definition default_table (v : env) : table :=
  [ (CTCP_PING, handle_ping); (CTCP_PONG, handle_pong); (CTCP_VERSION, handle_version v);
    (CTCP_SOURCE, handle_source); (CTCP_TIME, handle_time v); (CTCP_FINGER, handle_finger v) ].

Definition errmsg_text : str := Eval vm_compute in bs "that is an unknown CTCP query".

Definition ctcp_call (t : table) (c : ctcp_event) : res (list event) :=
  (* wildcard first *)
  w <- match lookup ctcp_wildcard t with Some h => h c | None => Ok [] end ;;
  match lookup (c_command c) t with
  | None =>
      if streqb (c_command c) CTCP_ACTION then Ok w else
      match c_source c with
      | Some name =>
          if negb (c_reply c) && is_valid_nick (source_id name)
          then r <- send_ctcp_reply (source_id name) CTCP_ERRMSG errmsg_text ;; Ok (w ++ [r])
          else Ok w
      | None => Ok w
      end
  | Some h => r <- h c ;; Ok (w ++ r)
  end.

(* ---- the CTCP stage of RunHandlers ----------------------------------- *)

(* `if ctcp := DecodeCTCP(event.Copy()); ctcp != nil { c.CTCP.call(c, ctcp) }`, which
   runs after the ordinary handlers of the event have been dispatched. *)
Definition ctcp_stage (t : table) (e : event) : res (list event) :=
  d <- decode_ctcp e ;;
  match d with
  | None => Ok []
  | Some c => ctcp_call t c
  end.

(* ---- RunHandlers: the stages and their copies -------------------------- *)

(* An ordinary handler (Handlers.Add / AddBg on the command or on ALL_EVENTS) is handed an
   Event of its own: RunHandlers passes event.Copy() to every exec() and DecodeCTCP gets
   another event.Copy().  A handler may rewrite the event it was given (Source, Params,
   Tags) - the first component of its result - and hand events to Client.Send - the second.
   What it rewrote is dropped: the CTCP stage decodes the event as it was received. *)
Definition ev_handler := event -> event * list event.

Definition run_handlers (hs : list ev_handler) (t : table) (e : event) : res (list event) :=
  let outs := flat_map (fun h => snd (h e)) hs in
  c <- ctcp_stage t e ;;
  Ok (outs ++ c).

(* ---- registering handlers: parseCMD, Set/SetBg, Clear, ClearAll ------- *)

(* parseCMD: "*" stays; otherwise strings.ToUpper, then every byte must be A-Z / 0-9;
   "" means invalid (and is also what the empty name gives) *)
Definition parse_cmd (cmd : str) : str :=
  if streqb cmd ctcp_wildcard then ctcp_wildcard else
  match upper_ascii_img cmd with
  | Some u => if forallb tag_byte_ok u then u else []
  | None => []
  end.

(* the handlers map as an association list with unique keys *)
Fixpoint table_remove (k : str) (t : table) : table :=
  match t with
  | [] => []
  | (k', h) :: r => if streqb k' k then table_remove k r else (k', h) :: table_remove k r
  end.

(* Set; SetBg stores a wrapper that starts the handler in a goroutine of its own: same
   outputs, their order relative to other handlers' outputs is not fixed *)
Definition table_set (t : table) (cmd : str) (h : handler) : table :=
  match parse_cmd cmd with
  | [] => t
  | k => (k, h) :: table_remove k t
  end.

Definition table_clear (t : table) (cmd : str) : table :=
  match parse_cmd cmd with
  | [] => t
  | k => table_remove k t
  end.

(* ClearAll: empty map, then addDefaultHandlers *)
Definition table_clear_all (v : env) : table := default_table v.

Inductive table_op :=
| OpSet (cmd : str) (h : handler)
| OpClear (cmd : str)
| OpClearAll.

Definition apply_op (v : env) (t : table) (o : table_op) : table :=
  match o with
  | OpSet cmd h => table_set t cmd h
  | OpClear cmd => table_clear t cmd
  | OpClearAll => table_clear_all v
  end.

Definition apply_ops (v : env) (t : table) (ops : list table_op) : table :=
  fold_left (apply_op v) ops t.
