(* impl-model of commands.go: every Cmd.* helper as a function from its string
   arguments to the list of events it hands to Client.Send (or Client.write for
   Ping/Pong), in order.  Every event built by a helper has a nil Source and nil Tags,
   so an outgoing helper event is (Command, Params, Sensitive).

   The *f variants (Messagef, Noticef, Actionf, Replyf, ReplyTof, SendCTCPf,
   SendCTCPReplyf, SendRawf) are `fmt.Sprintf(format, a...)` followed by the plain
   helper; they are the plain helper applied to the formatted string and are not
   listed separately.  SendRaw needs ParseEvent and lives in Model/SendPath.v.

   Explicit Go panics (SendCTCP*/Reply* preconditions) are `Panic`.  No proofs here. *)
Require Import Bytes Names.

Record cmd_event := mk_cmd {
  ce_command : str;
  ce_params : list str;
  ce_sensitive : bool
}.

Definition ev (command : str) (params : list str) : cmd_event := mk_cmd command params false.

Definition c_NICK : str := Eval vm_compute in bs "NICK".
Definition c_JOIN : str := Eval vm_compute in bs "JOIN".
Definition c_PART : str := Eval vm_compute in bs "PART".
Definition c_PRIVMSG : str := Eval vm_compute in bs "PRIVMSG".
Definition c_NOTICE : str := Eval vm_compute in bs "NOTICE".
Definition c_TOPIC : str := Eval vm_compute in bs "TOPIC".
Definition c_WHO : str := Eval vm_compute in bs "WHO".
Definition c_WHOIS : str := Eval vm_compute in bs "WHOIS".
Definition c_WHOWAS : str := Eval vm_compute in bs "WHOWAS".
Definition c_PING : str := Eval vm_compute in bs "PING".
Definition c_PONG : str := Eval vm_compute in bs "PONG".
Definition c_OPER : str := Eval vm_compute in bs "OPER".
Definition c_KICK : str := Eval vm_compute in bs "KICK".
Definition c_MODE : str := Eval vm_compute in bs "MODE".
Definition c_INVITE : str := Eval vm_compute in bs "INVITE".
Definition c_AWAY : str := Eval vm_compute in bs "AWAY".
Definition c_LIST : str := Eval vm_compute in bs "LIST".
Definition c_MONITOR : str := Eval vm_compute in bs "MONITOR".

Definition who_fields : str := Eval vm_compute in bs "%tcuhnr,2".
Definition plus_b : str := Eval vm_compute in bs "+b".
Definition minus_b : str := Eval vm_compute in bs "-b".
Definition action_head : str := Eval vm_compute in (1 :: bs "ACTION ").   (* "\001ACTION " *)

Definition is_empty (s : str) : bool := match s with [] => true | _ => false end.

(* ---- single-event helpers --------------------------------------------- *)

Definition cmd_nick (name : str) : list cmd_event := [ev c_NICK [name]].
Definition cmd_join_key (channel password : str) : list cmd_event := [ev c_JOIN [channel; password]].
Definition cmd_part_message (channel message : str) : list cmd_event := [ev c_PART [channel; message]].
Definition cmd_message (target message : str) : list cmd_event := [ev c_PRIVMSG [target; message]].
Definition cmd_notice (target message : str) : list cmd_event := [ev c_NOTICE [target; message]].
(* fmt.Sprintf("\001ACTION %s\001", message) *)
Definition cmd_action (target message : str) : list cmd_event :=
  [ev c_PRIVMSG [target; action_head ++ message ++ [1]]].
Definition cmd_topic (channel message : str) : list cmd_event := [ev c_TOPIC [channel; message]].
Definition cmd_ping (id : str) : list cmd_event := [ev c_PING [id]].        (* Client.write *)
Definition cmd_pong (id : str) : list cmd_event := [ev c_PONG [id]].        (* Client.write *)
Definition cmd_oper (user pass : str) : list cmd_event := [mk_cmd c_OPER [user; pass] true].
(* strconv.Itoa(amount) *)
Definition cmd_whowas (user : str) (amount : Z) : list cmd_event := [ev c_WHOWAS [user; show_Z amount]].
Definition cmd_back : list cmd_event := [ev c_AWAY []].
Definition cmd_away (reason : str) : list cmd_event :=
  if is_empty reason then cmd_back else [ev c_AWAY [reason]].

(* out := []string{target, modes}; out = append(out, params...) *)
Definition cmd_mode (target modes : str) (params : list str) : list cmd_event :=
  [ev c_MODE (target :: modes :: params)].
Definition cmd_ban (channel mask : str) : list cmd_event := cmd_mode channel plus_b [mask].
Definition cmd_unban (channel mask : str) : list cmd_event := cmd_mode channel minus_b [mask].

(* append([]string{string(modifier)}, args...); `modifier` is string(rune), i.e. the
   UTF-8 encoding of the rune (U+FFFD for an invalid one), 1 to 4 bytes *)
Definition cmd_monitor (modifier : str) (args : list str) : list cmd_event :=
  [ev c_MONITOR (modifier :: args)].

(* ---- one event per argument ------------------------------------------- *)

Definition cmd_part (channels : list str) : list cmd_event :=
  List.map (fun c => ev c_PART [c]) channels.
Definition cmd_who (users : list str) : list cmd_event :=
  List.map (fun u => ev c_WHO [u; who_fields]) users.
Definition cmd_whois (users : list str) : list cmd_event :=
  List.map (fun u => ev c_WHOIS [u]) users.
Definition cmd_invite (channel : str) (users : list str) : list cmd_event :=
  List.map (fun u => ev c_INVITE [u; channel]) users.

(* ---- Kick: with a reason BOTH events are sent (no return after the first) *)

Definition cmd_kick (channel user reason : str) : list cmd_event :=
  (if is_empty reason then [] else [ev c_KICK [channel; user; reason]]) ++
  [ev c_KICK [channel; user]].

(* ---- Join / List: comma batches bounded by MaxEventLength() - len(JOIN) - 1 --- *)

(* the loop body for channels[i..] with the current buffer *)
Fixpoint batch_loop (command : str) (max : Z) (channels : list str) (buffer : str) : list cmd_event :=
  match channels with
  | [] => []
  | c :: rest =>
      let flush := negb (is_empty buffer) &&
                   Z.ltb max (Z.of_nat (length (buffer ++ [44] ++ c))) in
      let pre := if flush then [ev command [buffer]] else [] in
      let buffer1 := if flush then [] else buffer in
      let buffer2 := if is_empty buffer1 then c else buffer1 ++ [44] ++ c in
      match rest with
      | [] => pre ++ [ev command [buffer2]]
      | _ => pre ++ batch_loop command max rest buffer2
      end
  end.

Definition cmd_join (max_event_len : Z) (channels : list str) : list cmd_event :=
  batch_loop c_JOIN (max_event_len - 4 - 1)%Z channels [].

Definition cmd_list (max_event_len : Z) (channels : list str) : list cmd_event :=
  match channels with
  | [] => [ev c_LIST []]
  | _ => batch_loop c_LIST (max_event_len - 4 - 1)%Z channels []       (* len(JOIN), sic *)
  end.

(* ---- CTCP -------------------------------------------------------------- *)

(* ctcp.go EncodeCTCPRaw (named apart from Model/Ctcp.v's copy, which belongs to C14) *)
Definition ctcp_raw (cmd text : str) : str :=
  match cmd with
  | [] => []
  | _ => [1] ++ cmd ++ (match text with [] => [] | _ => 32 :: text end) ++ [1]
  end.

Definition cmd_send_ctcp (target ctcp_type message : str) : res (list cmd_event) :=
  match ctcp_raw ctcp_type message with
  | [] => Panic
  | out => Ok (cmd_message target out)
  end.

Definition cmd_send_ctcp_reply (target ctcp_type message : str) : res (list cmd_event) :=
  match ctcp_raw ctcp_type message with
  | [] => Panic
  | out => Ok (cmd_notice target out)
  end.

(* ---- Reply / ReplyTo: the fields of the incoming event they read ------- *)

(* src = None: event.Source == nil (panic ErrInvalidSource); Some name: Source.Name *)
Definition reply_target (src_name : str) (params : list str) : str * bool :=
  match params with
  | p0 :: _ => if is_valid_channel p0 then (p0, true) else (src_name, false)
  | [] => (src_name, false)
  end.

Definition cmd_reply (src : option str) (params : list str) (message : str) : res (list cmd_event) :=
  match src with
  | None => Panic
  | Some name => Ok (cmd_message (fst (reply_target name params)) message)
  end.

Definition cmd_reply_to (src : option str) (params : list str) (message : str) : res (list cmd_event) :=
  match src with
  | None => Panic
  | Some name =>
      let '(t, in_chan) := reply_target name params in
      Ok (cmd_message t (if in_chan then name ++ [44; 32] ++ message else message))
  end.
