(* impl-model of format.go: Fmt, TrimFmt, StripRaw (and the tables fmtColors / fmtCodes), as
   the code is NOW.  No proofs here (Proofs/FormatProofs.v).

   ---- tables ---------------------------------------------------------------------------
   fmtColors (map[string]int) and fmtCodes (map[string]string) are data.  They are listed
   sorted by name; suite fmt.tables prints them and the harness prints the Go maps (dumped
   by girc.VerifTables) the same way, so an edit of either Go table is a mismatch.

   ---- Fmt ------------------------------------------------------------------------------
     last := -1
     for i := 0; i < len(text); i++ {
       if text[i] == '{' { last = i; continue }
       if text[i] == '}' && last > -1 {
         code := strings.ToLower(text[last+1 : i])
         var secondary string
         if com := strings.Index(code, ","); com > -1 { secondary = code[com+1:]; code = code[:com] }
         var repl string
         if color, ok := fmtColors[code]; ok { repl = fmt.Sprintf("\x03%02d", color) }
         if repl != "" && secondary != "" {
           if color, ok := fmtColors[secondary]; ok { repl += fmt.Sprintf(",%02d", color) } }
         if repl == "" { if fmtCode, ok := fmtCodes[code]; ok { repl = fmtCode } }
         next := len(text[:last]+repl) - 1
         text = text[:last] + repl + text[i+1:]
         last = -1;  i = next;  continue
       }
       if last > -1 { if text[i] is not ',' and not A-Z and not a-z { last = -1; continue } }
     }
     return text

   The loop rewrites `text` in place and resumes at index len(text[:last]+repl) (next+1),
   i.e. immediately after the replacement.  The model keeps the two halves of `text`
   apart:   text = out ++ rest,   i = length out,   last = index into out (option nat).
   text[last+1 : i] is `skipn (S l) out`, text[:last] is `firstn l out`, text[i+1:] is the
   tail of `rest`; after a replacement out = text[:last] ++ repl and the scan goes on with
   the unread tail, which is exactly i = next + 1.  Between `last` and `i` only ',' and
   ASCII letters can occur (anything else resets last), so strings.ToLower acts as the
   ASCII lower-casing there.

   ---- TrimFmt --------------------------------------------------------------------------
     for color := range fmtColors { text = strings.ReplaceAll(text, "{"+color+"}", "") }
     for code  := range fmtCodes  { text = strings.ReplaceAll(text, "{"+code+"}", "") }
   Go map iteration order is unspecified: `trim_fmt order` takes the order as a parameter
   and the theorems quantify over every order.

   ---- StripRaw -------------------------------------------------------------------------
     text = reColor.ReplaceAllString(text, "")        reColor = `\x03([019]?\d(,[019]?\d)?)`
     for _, code := range fmtCodes { text = strings.ReplaceAll(text, code, "") }
   `recolor` is a hand-written matcher for that one pattern with Go's leftmost-first
   (Perl-like, backtracking-order) semantics: at every \x03, `[019]?` first tries to take a
   byte and falls back to taking none only if `\d` then fails; the optional group
   `(,[019]?\d)?` is taken whenever it can match.  Matches are never empty and never
   overlap; the scan resumes after a match.  *)
Require Import Bytes.

Definition fmt_open : N := 123.     (* '{' fmtOpenChar *)
Definition fmt_close : N := 125.    (* '}' fmtCloseChar *)
Definition comma_c : N := 44.       (* ',' *)

Definition fmt_colors : list (str * N) := Eval vm_compute in
  [ (bs "black", 1); (bs "blue", 2); (bs "brown", 5); (bs "cyan", 11); (bs "fuchsia", 13);
    (bs "gold", 7); (bs "gray", 14); (bs "green", 3); (bs "grey", 14); (bs "lightblue", 12);
    (bs "lightgreen", 9); (bs "lightgrey", 15); (bs "lightpurple", 13); (bs "lime", 9);
    (bs "maroon", 5); (bs "navy", 2); (bs "olive", 7); (bs "orange", 7); (bs "pink", 13);
    (bs "purple", 6); (bs "red", 4); (bs "royal", 12); (bs "silver", 15); (bs "teal", 10);
    (bs "white", 0); (bs "yellow", 8) ].

Definition fmt_codes : list (str * str) := Eval vm_compute in
  [ (bs "b", [2]); (bs "bold", [2]); (bs "c", [3]); (bs "clear", [3]); (bs "ctcp", [1]);
    (bs "i", [29]); (bs "italic", [29]); (bs "r", [15]); (bs "reset", [15]);
    (bs "reverse", [22]); (bs "ul", [31]); (bs "underline", [31]) ].

(* map lookup by key *)
Fixpoint lookup {V : Type} (k : str) (t : list (str * V)) : option V :=
  match t with
  | [] => None
  | (n, v) :: r => if streqb n k then Some v else lookup k r
  end.

(* fmt.Sprintf("%02d", n) for n >= 0: decimal, left-padded with '0' to width 2 *)
Definition sprintf_02d (n : N) : str :=
  let d := show_N n in
  if Nat.ltb (length d) 2 then 48 :: d else d.

(* if com := strings.Index(code, ","); com > -1 { secondary = code[com+1:]; code = code[:com] } *)
Definition split_comma (code0 : str) : str * str :=
  match index_byte comma_c code0 with
  | Some com => (firstn com code0, skipn (S com) code0)
  | None => (code0, [])
  end.

(* repl, from the (lower-cased) code and secondary *)
Definition fmt_repl_parts (code secondary : str) : str :=
  let repl1 := match lookup code fmt_colors with
               | Some col => 3 :: sprintf_02d col
               | None => []
               end in
  let repl2 := match repl1, secondary with
               | _ :: _, _ :: _ =>
                   match lookup secondary fmt_colors with
                   | Some col => repl1 ++ comma_c :: sprintf_02d col
                   | None => repl1
                   end
               | _, _ => repl1
               end in
  match repl2 with
  | [] => match lookup code fmt_codes with Some b => b | None => [] end
  | _ :: _ => repl2
  end.

(* the replacement computed for text[last+1 : i] = raw *)
Definition fmt_repl (raw : str) : str :=
  let cs := split_comma (to_lower_ascii raw) in
  fmt_repl_parts (fst cs) (snd cs).

(* bytes that keep `last` alive: ',' A-Z a-z *)
Definition is_tok_byte (c : N) : bool := N.eqb c comma_c || is_alpha c.

Fixpoint fmt_scan (out : str) (last : option nat) (rest : str) : str :=
  match rest with
  | [] => out
  | c :: rest' =>
      if N.eqb c fmt_open then fmt_scan (out ++ [c]) (Some (length out)) rest'
      else match last with
           | Some l =>
               if N.eqb c fmt_close then
                 fmt_scan (firstn l out ++ fmt_repl (skipn (S l) out)) None rest'
               else if is_tok_byte c then fmt_scan (out ++ [c]) (Some l) rest'
               else fmt_scan (out ++ [c]) None rest'
           | None => fmt_scan (out ++ [c]) None rest'
           end
  end.

Definition fmt (text : str) : str := fmt_scan [] None text.

(* ---- strings.ReplaceAll(s, old, "") ---------------------------------------------------
   leftmost, non-overlapping occurrences; `skip` counts the bytes of the current
   occurrence still to be dropped.  old = "" replaces the empty string by the empty string
   at every rune boundary: the identity. *)
Fixpoint remove_all_aux (old : str) (skip : nat) (s : str) : str :=
  match s with
  | [] => []
  | c :: r =>
      match skip with
      | S k => remove_all_aux old k r
      | O => if prefixb old s then remove_all_aux old (pred (length old)) r
             else c :: remove_all_aux old 0 r
      end
  end.

Definition remove_all (old s : str) : str :=
  match old with
  | [] => s
  | _ :: _ => remove_all_aux old 0 s
  end.

(* ---- TrimFmt ---- *)
Definition tok_pat (name : str) : str := fmt_open :: name ++ [fmt_close].

Definition trim_fmt (order : list str) (text : str) : str :=
  fold_left (fun t name => remove_all (tok_pat name) t) order text.

(* the names TrimFmt ranges over (colours first, then codes; any order within each) *)
Definition trim_names : list str := List.map fst fmt_colors ++ List.map fst fmt_codes.

(* ---- StripRaw ---- *)
Definition in_019 (b : N) : bool := N.eqb b 48 || N.eqb b 49 || N.eqb b 57.

(* [019]?\d  at the head of s: number of bytes taken, trying the optional byte first *)
Definition match_num (s : str) : option nat :=
  match s with
  | a :: b :: _ =>
      if in_019 a && is_digit b then Some 2%nat
      else if is_digit a then Some 1%nat else None
  | [a] => if is_digit a then Some 1%nat else None
  | [] => None
  end.

(* ([019]?\d(,[019]?\d)?)  at the head of s (the text after a \x03) *)
Definition match_color_tail (s : str) : option nat :=
  match match_num s with
  | None => None
  | Some n1 =>
      match skipn n1 s with
      | c :: r2 =>
          if N.eqb c comma_c then
            match match_num r2 with
            | Some n2 => Some (n1 + 1 + n2)%nat
            | None => Some n1
            end
          else Some n1
      | [] => Some n1
      end
  end.

(* reColor.ReplaceAllString(s, "") *)
Fixpoint recolor_aux (skip : nat) (s : str) : str :=
  match s with
  | [] => []
  | c :: r =>
      match skip with
      | S k => recolor_aux k r
      | O =>
          if N.eqb c 3 then
            match match_color_tail r with
            | Some n => recolor_aux n r
            | None => c :: recolor_aux 0 r
            end
          else c :: recolor_aux 0 r
      end
  end.

Definition recolor (s : str) : str := recolor_aux 0 s.

(* the second loop of StripRaw ranges over the VALUES of fmtCodes, in map order *)
Definition strip_raw_ord (order : list str) (text : str) : str :=
  fold_left (fun t code => remove_all code t) order (recolor text).

Definition code_values : list str := List.map snd fmt_codes.

Definition strip_raw (text : str) : str := strip_raw_ord code_values text.

(* ---- auxiliary: when does the result of TrimFmt not depend on the map order? ----------
   `strip_tokens names s` deletes, in one left-to-right pass, every occurrence of a
   pattern {name} present in s itself.  If what is left contains no pattern any more, no
   deletion can make a new pattern appear and every order of `names` gives that same
   text.  TrimFmt runs two such phases (all colours in some order, then all codes in some
   order): `trim_stable` asks this of both.  Otherwise ("{b{i}}") the Go function's result
   depends on the map iteration order; the correspondence suite fmt.trim prints "unstable"
   for such inputs on both sides instead of comparing one arbitrary order. *)
Fixpoint match_any (names : list str) (s : str) : option nat :=
  match names with
  | [] => None
  | n :: r => if prefixb (tok_pat n) s then Some (length (tok_pat n)) else match_any r s
  end.

Fixpoint strip_tokens_aux (names : list str) (skip : nat) (s : str) : str :=
  match s with
  | [] => []
  | c :: r =>
      match skip with
      | S k => strip_tokens_aux names k r
      | O => match match_any names s with
             | Some n => strip_tokens_aux names (pred n) r
             | None => c :: strip_tokens_aux names 0 r
             end
      end
  end.

Definition strip_tokens (names : list str) (s : str) : str := strip_tokens_aux names 0 s.

Definition has_token (names : list str) (s : str) : bool :=
  existsb (fun n => contains (tok_pat n) s) names.

Definition color_names : list str := List.map fst fmt_colors.
Definition code_names : list str := List.map fst fmt_codes.

Definition trim_stable (s : str) : bool :=
  let s1 := strip_tokens color_names s in
  negb (has_token color_names s1) &&
  negb (has_token code_names (strip_tokens code_names s1)).
