(* impl-model of the two protocol obligations of C17.

   builtin.go   handlePING            c.Cmd.Pong(e.Last())
                nickCollisionHandler  (433 / 436 / 437), as repaired in 874a5b0 and by the two C17 fixes
                handleConnect         001: state.nick = Params[0]   (the part C17 depends on)
                handleNICK            own nick follows a NICK from ourselves (state.renameUser)
   commands.go  Pong  -> Client.write (straight to the tx queue)
                Nick  -> Client.Send  (conn.rate first unless Config.AllowFlood)
   client.go    GetNick               state.nick, or Config.Nick while state.nick == ""
   conn.go      rate / Send / write   which of the two routes consults the flood limiter

   The collision handler keeps NO counter of its own.  What it builds on is carried by the
   numeric itself: Params[1], the nickname the server has just refused, unless that is
   empty, contains SPACE or ',' or is a channel name; otherwise the client's own nickname.  The only client-side state involved is
   state.nick ("" from state.reset at connect until 001; set by 001; changed by our own NICK).

   No proofs in this file. *)
Require Import Bytes Names.

Definition s_PING := Eval vm_compute in bs "PING".
Definition s_PONG := Eval vm_compute in bs "PONG".
Definition s_NICK := Eval vm_compute in bs "NICK".
Definition s_001 := Eval vm_compute in bs "001".
Definition s_433 := Eval vm_compute in bs "433".
Definition s_436 := Eval vm_compute in bs "436".
Definition s_437 := Eval vm_compute in bs "437".

(* ---- configuration and state ------------------------------------------- *)

Record pn_cfg := mkPnCfg {
  pc_nick : str;                         (* Config.Nick *)
  pc_tracking : bool;                    (* !Config.disableTracking *)
  pc_collide : option (str -> str)       (* Config.HandleNickCollide *)
}.

(* state.nick *)
Definition pn_state := str.
Definition pn_init : pn_state := [].     (* state.reset *)

(* ---- outgoing events ---------------------------------------------------- *)

Inductive route :=
| Direct      (* Client.write: queued for the socket at once *)
| Limited.    (* Client.Send: conn.rate decides a delay first (unless AllowFlood) *)

Record pn_out := mkOut { o_route : route; o_cmd : str; o_params : list str }.

(* Event.Last *)
Definition last_param (ps : list str) : str := last ps [].

(* Commands.Pong / Commands.Nick *)
Definition cmd_pong (id : str) : pn_out := mkOut Direct s_PONG [id].
Definition cmd_nick (name : str) : pn_out := mkOut Limited s_NICK [name].

(* ---- handlers ----------------------------------------------------------- *)

(* handlePING *)
Definition handle_ping (params : list str) : list pn_out := [cmd_pong (last_param params)].

(* Client.GetNick; panicIfNotTracking *)
Definition get_nick (cfg : pn_cfg) (st : pn_state) : res str :=
  if pc_tracking cfg then
    Ok (match st with [] => pc_nick cfg | _ => st end)
  else Panic.

(* Params[1] can be the refused nickname: not empty, no SPACE or ',' (the text of a numeric
   that names no nickname), not a channel (437 is also sent for channels) *)
Definition collision_named (p1 : str) : bool :=
  match p1 with [] => false | _ => true end
  && negb (memb 32 p1 || memb 44 p1) && negb (is_valid_channel p1).

(* the nickname the default handler builds on *)
Definition collision_base (cur : str) (params : list str) : str :=
  match params with
  | _ :: p1 :: _ => if collision_named p1 then p1 else cur
  | _ => cur
  end.

Definition underscore : N := 95.

(* state.nick, or Config.Nick while it is empty: read directly by the handler (GetNick would
   panic when tracking is disabled) *)
Definition own_nick (cfg : pn_cfg) (st : pn_state) : str :=
  match st with [] => pc_nick cfg | _ => st end.

(* nickCollisionHandler *)
Definition nick_collision (cfg : pn_cfg) (st : pn_state) (params : list str) : res (list pn_out) :=
  let cur := own_nick cfg st in
  match pc_collide cfg with
  | None => Ok [cmd_nick (collision_base cur params ++ [underscore])]
  | Some f =>
      match f cur with
      | [] => Ok []
      | n => Ok [cmd_nick n]
      end
  end.

(* handleConnect, first part (registered whether or not tracking is on) *)
Definition handle_welcome (st : pn_state) (params : list str) : pn_state :=
  match params with
  | p0 :: _ => p0
  | [] => st
  end.

(* handleNICK -> state.renameUser(e.Source.ID(), e.Last()): the part that moves state.nick *)
Definition handle_nick (st : pn_state) (src : option str) (params : list str) : pn_state :=
  match src with
  | None => st
  | Some name =>
      match params with
      | [] => st
      | _ => if streqb (to_rfc1459 name) (to_rfc1459 st) then last_param params else st
      end
  end.

(* ---- dispatch ----------------------------------------------------------- *)

Record pn_event := mkEvent { e_cmd : str; e_src : option str; e_params : list str }.

Definition is_collision_cmd (c : str) : bool :=
  streqb c s_433 || streqb c s_436 || streqb c s_437.

(* The handlers registerBuiltins installs for these commands (exact match on
   Event.Command); every other command leaves state.nick alone and, as far as this model
   goes, writes nothing. *)
Definition pn_step (cfg : pn_cfg) (st : pn_state) (e : pn_event) : res (pn_state * list pn_out) :=
  if streqb (e_cmd e) s_PING then Ok (st, handle_ping (e_params e))
  else if is_collision_cmd (e_cmd e) then
    outs <- nick_collision cfg st (e_params e) ;; Ok (st, outs)
  else if streqb (e_cmd e) s_001 then Ok (handle_welcome st (e_params e), [])
  else if streqb (e_cmd e) s_NICK && pc_tracking cfg then
    Ok (handle_nick st (e_src e) (e_params e), [])
  else Ok (st, []).

(* ---- the flood limiter as seen by one outgoing event ------------------- *)

(* conn.rate, in nanoseconds: wd = writeDelay, since = time.Since(lastWrite) *)
Definition second : Z := 1000000000%Z.
Definition pn_rate (wd since chars : Z) : Z * Z :=
  let t := (second + (chars * second) / 100)%Z in
  let wd1 := (wd + (t - since))%Z in
  let wd2 := if (wd1 <? 0)%Z then 0%Z else wd1 in
  (wd2, if (8 * second <? wd2)%Z then t else 0%Z).

(* What an outgoing event does to the limiter and how long it is held back before it is
   queued: (writeDelay', delay).  [len] is Event.Len of the event. *)
Definition dispatch_out (allow_flood : bool) (wd since len : Z) (o : pn_out) : Z * Z :=
  match o_route o with
  | Direct => (wd, 0%Z)
  | Limited => if allow_flood then (wd, 0%Z) else pn_rate wd since len
  end.

(* ---- bookkeeping shared by the driver and the specification ----------- *)

(* the nickname most recently asked for, after these outputs *)
Definition next_req (req : str) (outs : list pn_out) : str :=
  fold_left (fun r o => if streqb (o_cmd o) s_NICK
                        then match o_params o with [n] => n | _ => r end else r) outs req.
