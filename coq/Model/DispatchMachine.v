(* C06 — the interleaving machine: execLoop / RunHandlers / Caller.exec running against
   concurrent registrars, AddTmp wrappers and deadline goroutines.  No proofs here.

   A schedule is a list of actions; [step] says whether an action is enabled in a state
   and what it does; a trace of the machine is a list of actions that [exec] runs to the
   end.  Everything nondeterministic (which goroutine moves next, what a handler
   function returns, whether it panics) is a choice of the next action, so "for every
   schedule" is "for every action list accepted by exec".

   Go code mirrored (handler.go, client.go):
   * execLoop: takes event n off rx in arrival order and calls RunHandlers  (ADeliver).
     Both branches of its select do this: the regular `case event = <-c.rx` and, after the
     connection's context is cancelled, the loop that flushes what is still queued.
     Cancellation itself is not modelled (no step ever needs a further arrival); what the
     flush has to guarantee is that the loop stops only when nothing that arrived is left,
     i.e. in DIdle (s_arrived s) — theorem dispatcher_progress says it can always get there.
   * RunHandlers: four calls of Caller.exec — bg "*", bg cmd, fg "*", fg cmd; the cmd
     calls are skipped for an echo                                      (phases 0..3)
   * exec: under RLock copy the selected handlers (ASnap: the selection is read from the
     table as it is at that instant), one goroutine per selected handler, wg.Wait
     (ABarrier: enabled when every wrapper goroutine has called wg.Done)
   * wrapper goroutine, bg: starts the inner goroutine and calls wg.Done at once
     (ASignal), the inner goroutine runs the function later (AStart .. AEnd);
     fg: runs the function (AStart .. AEnd) and calls wg.Done when it returns or when its
     panic has been recovered (deferred)
   * a panic in a handler with Config.RecoverFunc == nil kills the process (crashed: no
     further step)
   * registrars: every operation takes Caller.mu; it takes effect at one instant (ALin)
     between its call (ACall) and its return (ARet)
   * AddTmp: the wrapper calls finish when the function returned true, the deadline
     goroutine calls finish at some later time; finish is Remove(cuid) (ATmpRemove) followed
     by once.Do(close(done)) (AClose for the first caller): done is closed exactly once,
     whoever removed the handler.  Time is not modelled: a deadline goroutine may fire at
     any moment after the registration took effect. *)
Require Import Bytes AMap Dispatch.

Inductive outcome := ORet (b : bool) | OPanic.

Inductive rop :=
| RAdd (h : N)          (* Add / AddBg / AddHandler / AddTmp creating handler h *)
| RRemove (h : N)       (* Remove(cuid returned for h) *)
| RClear (cmd : str)
| RClearAll.

Inductive action :=
| AArrive (n : nat)                      (* readLoop puts event n on rx *)
| ADeliver (n : nat)                     (* execLoop takes event n, RunHandlers begins *)
| ASnap (n k : nat)                      (* exec of phase k: selection copied, goroutines spawned *)
| ASignal (n : nat) (h : N)              (* bg wrapper: inner goroutine spawned, wg.Done *)
| AStart (n : nat) (h : N)               (* the handler function of h is entered for event n *)
| AEnd (n : nat) (h : N) (o : outcome)   (* ... returns (AddTmp functions: the bool) or panics *)
| ABarrier (n k : nat)                   (* wg.Wait of phase k returns *)
| ACall (i : nat) (op : rop)             (* registrar i calls op *)
| ALin (i : nat) (op : rop)              (* ... op takes effect under Caller.mu *)
| ARet (i : nat) (op : rop) (res : bool) (* ... returns (res: Remove's result, true otherwise) *)
| ATmpRemove (h : N)                     (* AddTmp wrapper / deadline goroutine: finish calls c.Remove(cuid) *)
| AClose (h : N).                        (* ... and the first finish closes done *)

Record scenario := mkSc {
  sc_uid : N -> str;              (* fresh-id oracle *)
  sc_decls : list hdecl;          (* what each registration call says; handler h = position h *)
  sc_init : list N;               (* handlers registered before the run (builtins, earlier Adds) *)
  sc_events : list event;         (* events in arrival order *)
  sc_threads : list (list rop);   (* the registrar goroutines' programs *)
  sc_recover : bool }.            (* Config.RecoverFunc != nil *)

Definition no_decl : hdecl := mkHD [] false false false false.
Definition sc_decl (sc : scenario) (h : N) : hdecl := nth (N.to_nat h) (sc_decls sc) no_decl.

Inductive dstate :=
| DIdle (n : nat)                        (* waiting for event n *)
| DPhase (n k : nat)                     (* about to call exec for phase k of event n *)
| DWait (n k : nat) (out : list N).      (* in wg.Wait; out = wrappers that have not called wg.Done *)

Inductive rstage := RIdle | RCalled | RLinned (res : bool).

Record state := mkS {
  s_tbl : table;
  s_arrived : nat;
  s_disp : dstate;
  s_sp : nat -> N -> nat;     (* wrapper goroutines spawned by exec that have not moved yet *)
  s_sg : nat -> N -> nat;     (* bg: wg.Done called, function not yet entered *)
  s_rn : nat -> N -> nat;     (* inside the handler function *)
  s_thr : nat -> list rop * rstage;
  s_pend : N -> nat;          (* finish calls of wrappers / deadline goroutines still to come *)
  s_toclose : N -> nat;       (* finish calls that have done their Remove and not yet their once.Do *)
  s_closed : N -> nat;        (* close(done) executed *)
  s_crashed : bool }.

Definition upd2 (f : nat -> N -> nat) (n : nat) (h : N) (v : nat) : nat -> N -> nat :=
  fun n' h' => if Nat.eqb n' n && (h' =? h) then v else f n' h'.
Definition upd1 (f : N -> nat) (h : N) (v : nat) : N -> nat :=
  fun h' => if h' =? h then v else f h'.
Definition updt (f : nat -> list rop * rstage) (i : nat) (v : list rop * rstage) :=
  fun i' => if Nat.eqb i' i then v else f i'.

(* spawn one wrapper goroutine per selected handler *)
Fixpoint spawn_all (f : nat -> N -> nat) (n : nat) (sel : list N) : nat -> N -> nat :=
  match sel with
  | [] => f
  | h :: r => spawn_all (upd2 f n h (S (f n h))) n r
  end.

Fixpoint mem_N (h : N) (l : list N) : bool :=
  match l with [] => false | x :: r => (x =? h) || mem_N h r end.
Fixpoint remove1 (h : N) (l : list N) : list N :=
  match l with [] => [] | x :: r => if x =? h then r else x :: remove1 h r end.

Definition rop_eqb (a b : rop) : bool :=
  match a, b with
  | RAdd h, RAdd h' => h =? h'
  | RRemove h, RRemove h' => h =? h'
  | RClear c, RClear c' => streqb c c'
  | RClearAll, RClearAll => true
  | _, _ => false
  end.

Section Machine.
  Variable sc : scenario.

  Definition ev_at (n : nat) : event := nth n (sc_events sc) (mkEv [] false).
  Definition is_bgh (h : N) : bool := hd_bg (sc_decl sc h).
  Definition bg_phase (k : nat) : bool := Nat.ltb k 2.

  (* handlers registered before the run; the deadline goroutines of those registered
     with AddTmp and a deadline are already waiting *)
  Definition init_tbl : table :=
    run_tops (sc_uid sc) (sc_decl sc) empty_table (List.map TAdd (sc_init sc)).

  Definition init : state :=
    mkS init_tbl 0 (DIdle 0) (fun _ _ => 0%nat) (fun _ _ => 0%nat) (fun _ _ => 0%nat)
        (fun i => (nth i (sc_threads sc) [], RIdle))
        (fun h => if mem_N h (sc_init sc) && hd_deadline (sc_decl sc h) then 1%nat else 0%nat)
        (fun _ => 0%nat) (fun _ => 0%nat) false.

  Definition set_disp (s : state) (d : dstate) : state :=
    mkS (s_tbl s) (s_arrived s) d (s_sp s) (s_sg s) (s_rn s) (s_thr s)
        (s_pend s) (s_toclose s) (s_closed s) (s_crashed s).

  (* the table operation of a registrar op *)
  Definition top_of (op : rop) : top :=
    match op with
    | RAdd h => TAdd h
    | RRemove h => TRemove h
    | RClear c => TClear c
    | RClearAll => TClearAll
    end.

  Definition step (s : state) (a : action) : option state :=
    if s_crashed s then None else
    match a with
    | AArrive n =>
      if Nat.eqb n (s_arrived s) && Nat.ltb n (length (sc_events sc)) then
        Some (mkS (s_tbl s) (S n) (s_disp s) (s_sp s) (s_sg s) (s_rn s) (s_thr s)
                  (s_pend s) (s_toclose s) (s_closed s) false)
      else None
    | ADeliver n =>
      match s_disp s with
      | DIdle m => if Nat.eqb n m && Nat.ltb n (s_arrived s) then Some (set_disp s (DPhase n 0)) else None
      | _ => None
      end
    | ASnap n k =>
      match s_disp s with
      | DPhase n' k' =>
        if Nat.eqb n n' && Nat.eqb k k' then
          let sel := phase_ids (s_tbl s) (ev_at n) k in
          Some (mkS (s_tbl s) (s_arrived s) (DWait n k sel) (spawn_all (s_sp s) n sel) (s_sg s)
                    (s_rn s) (s_thr s) (s_pend s) (s_toclose s) (s_closed s) false)
        else None
      | _ => None
      end
    | ASignal n h =>
      match s_disp s with
      | DWait n' k out =>
        if Nat.eqb n n' && bg_phase k && mem_N h out && Nat.ltb 0 (s_sp s n h) then
          Some (mkS (s_tbl s) (s_arrived s) (DWait n' k (remove1 h out))
                    (upd2 (s_sp s) n h (pred (s_sp s n h))) (upd2 (s_sg s) n h (S (s_sg s n h)))
                    (s_rn s) (s_thr s) (s_pend s) (s_toclose s) (s_closed s) false)
        else None
      | _ => None
      end
    | AStart n h =>
      if is_bgh h then
        if Nat.ltb 0 (s_sg s n h) then
          Some (mkS (s_tbl s) (s_arrived s) (s_disp s) (s_sp s)
                    (upd2 (s_sg s) n h (pred (s_sg s n h))) (upd2 (s_rn s) n h (S (s_rn s n h)))
                    (s_thr s) (s_pend s) (s_toclose s) (s_closed s) false)
        else None
      else
        match s_disp s with
        | DWait n' k out =>
          if Nat.eqb n n' && negb (bg_phase k) && mem_N h out && Nat.ltb 0 (s_sp s n h) then
            Some (mkS (s_tbl s) (s_arrived s) (s_disp s)
                      (upd2 (s_sp s) n h (pred (s_sp s n h))) (s_sg s)
                      (upd2 (s_rn s) n h (S (s_rn s n h)))
                      (s_thr s) (s_pend s) (s_toclose s) (s_closed s) false)
          else None
        | _ => None
        end
    | AEnd n h o =>
      if Nat.ltb 0 (s_rn s n h) then
        let crash := match o with OPanic => negb (sc_recover sc) | ORet _ => false end in
        let pend := match o with
                    | ORet true => if hd_tmp (sc_decl sc h) then upd1 (s_pend s) h (S (s_pend s h)) else s_pend s
                    | _ => s_pend s
                    end in
        let rn := upd2 (s_rn s) n h (pred (s_rn s n h)) in
        if is_bgh h then
          Some (mkS (s_tbl s) (s_arrived s) (s_disp s) (s_sp s) (s_sg s) rn (s_thr s)
                    pend (s_toclose s) (s_closed s) crash)
        else
          (* fg wrapper: deferred wg.Done (the process is gone if the panic is not recovered) *)
          match s_disp s with
          | DWait n' k out =>
            if Nat.eqb n n' && mem_N h out then
              Some (mkS (s_tbl s) (s_arrived s) (DWait n' k (remove1 h out)) (s_sp s) (s_sg s) rn
                        (s_thr s) pend (s_toclose s) (s_closed s) crash)
            else None
          | _ => None
          end
      else None
    | ABarrier n k =>
      match s_disp s with
      | DWait n' k' [] =>
        if Nat.eqb n n' && Nat.eqb k k' then
          Some (set_disp s (if Nat.ltb k 3 then DPhase n (S k) else DIdle (S n)))
        else None
      | _ => None
      end
    | ACall i op =>
      match s_thr s i with
      | (op' :: rest, RIdle) =>
        if rop_eqb op op' then
          Some (mkS (s_tbl s) (s_arrived s) (s_disp s) (s_sp s) (s_sg s) (s_rn s)
                    (updt (s_thr s) i (op' :: rest, RCalled))
                    (s_pend s) (s_toclose s) (s_closed s) false)
        else None
      | _ => None
      end
    | ALin i op =>
      match s_thr s i with
      | (op' :: rest, RCalled) =>
        if rop_eqb op op' then
          let (t', res) := apply_top (sc_uid sc) (sc_decl sc) (s_tbl s) (top_of op') in
          let pend := match op' with
                      | RAdd h => if hd_deadline (sc_decl sc h)
                                  then upd1 (s_pend s) h (S (s_pend s h)) else s_pend s
                      | _ => s_pend s
                      end in
          Some (mkS t' (s_arrived s) (s_disp s) (s_sp s) (s_sg s) (s_rn s)
                    (updt (s_thr s) i (op' :: rest, RLinned res))
                    pend (s_toclose s) (s_closed s) false)
        else None
      | _ => None
      end
    | ARet i op res =>
      match s_thr s i with
      | (op' :: rest, RLinned res') =>
        if rop_eqb op op' && Bool.eqb res res' then
          Some (mkS (s_tbl s) (s_arrived s) (s_disp s) (s_sp s) (s_sg s) (s_rn s)
                    (updt (s_thr s) i (rest, RIdle))
                    (s_pend s) (s_toclose s) (s_closed s) false)
        else None
      | _ => None
      end
    | ATmpRemove h =>
      (* finish, first half: c.Remove(cuid); the once-only close is still to come *)
      if Nat.ltb 0 (s_pend s h) then
        let (t', _) := remove (s_tbl s) (reg_cuid (sc_uid sc) (sc_decl sc) h) in
        Some (mkS t' (s_arrived s) (s_disp s) (s_sp s) (s_sg s) (s_rn s) (s_thr s)
                  (upd1 (s_pend s) h (pred (s_pend s h)))
                  (upd1 (s_toclose s) h (S (s_toclose s h)))
                  (s_closed s) false)
      else None
    | AClose h =>
      (* finish, second half, for the first caller: once.Do(close(done)); later callers of
         once.Do do nothing and are not actions *)
      if Nat.ltb 0 (s_toclose s h) && Nat.eqb (s_closed s h) 0 then
        Some (mkS (s_tbl s) (s_arrived s) (s_disp s) (s_sp s) (s_sg s) (s_rn s) (s_thr s)
                  (s_pend s) (upd1 (s_toclose s) h (pred (s_toclose s h)))
                  (upd1 (s_closed s) h 1%nat) false)
      else None
    end.

  Fixpoint exec (s : state) (tr : list action) : option state :=
    match tr with
    | [] => Some s
    | a :: r => match step s a with Some s' => exec s' r | None => None end
    end.

  (* tr is a trace of the machine *)
  Definition is_trace (tr : list action) : Prop := exists s, exec init tr = Some s.
End Machine.

(* ---- what an observer outside girc can see ------------------------------------------ *)

Definition observable (a : action) : bool :=
  match a with
  | AArrive _ | AStart _ _ | AEnd _ _ _ | ACall _ _ | ARet _ _ _ | AClose _ => true
  | _ => false
  end.

Definition outcome_eqb (a b : outcome) : bool :=
  match a, b with
  | ORet x, ORet y => Bool.eqb x y
  | OPanic, OPanic => true
  | _, _ => false
  end.

Definition action_eqb (a b : action) : bool :=
  match a, b with
  | AArrive n, AArrive n' => Nat.eqb n n'
  | ADeliver n, ADeliver n' => Nat.eqb n n'
  | ASnap n k, ASnap n' k' => Nat.eqb n n' && Nat.eqb k k'
  | ASignal n h, ASignal n' h' => Nat.eqb n n' && (h =? h')
  | AStart n h, AStart n' h' => Nat.eqb n n' && (h =? h')
  | AEnd n h o, AEnd n' h' o' => Nat.eqb n n' && (h =? h') && outcome_eqb o o'
  | ABarrier n k, ABarrier n' k' => Nat.eqb n n' && Nat.eqb k k'
  | ACall i op, ACall i' op' => Nat.eqb i i' && rop_eqb op op'
  | ALin i op, ALin i' op' => Nat.eqb i i' && rop_eqb op op'
  | ARet i op r, ARet i' op' r' => Nat.eqb i i' && rop_eqb op op' && Bool.eqb r r'
  | ATmpRemove h, ATmpRemove h' => h =? h'
  | AClose h, AClose h' => h =? h'
  | _, _ => false
  end.

Fixpoint actions_eqb (a b : list action) : bool :=
  match a, b with
  | [], [] => true
  | x :: a', y :: b' => action_eqb x y && actions_eqb a' b'
  | _, _ => false
  end.

(* ---- static well-formedness of a scenario (decidable) -------------------------------- *)

Definition cmd_okb (c : str) : bool := negb (memb colon c) && negb (match c with [] => true | _ => false end).

Fixpoint adds_of (p : list rop) : list N :=
  match p with
  | [] => []
  | RAdd h :: r => h :: adds_of r
  | _ :: r => adds_of r
  end.

Fixpoint handles_of (p : list rop) : list N :=
  match p with
  | [] => []
  | RAdd h :: r => h :: handles_of r
  | RRemove h :: r => h :: handles_of r
  | _ :: r => handles_of r
  end.

Fixpoint nodup_N (l : list N) : bool :=
  match l with [] => true | x :: r => negb (mem_N x r) && nodup_N r end.

Definition decl_okb (d : hdecl) : bool :=
  cmd_okb (hd_cmd d) && implb (hd_tmp d) (hd_bg d) && implb (hd_deadline d) (hd_tmp d)
  && implb (hd_tmp d) (negb (hd_int d)).

(* every handler id is created by one registration only; every command token mentioned is
   free of ':' and not empty; received commands are not "*"; AddTmp handlers are external
   background handlers; registrars register external handlers *)
Definition wf_scb (sc : scenario) : bool :=
  let all_adds := sc_init sc ++ flat_map adds_of (sc_threads sc) in
  nodup_N all_adds
  && forallb decl_okb (sc_decls sc)
  && forallb (fun h => h <? N.of_nat (length (sc_decls sc))) (sc_init sc ++ flat_map handles_of (sc_threads sc))
  && forallb (fun h => negb (hd_int (sc_decl sc h))) (flat_map adds_of (sc_threads sc))
  && forallb (fun e => negb (streqb (ev_cmd e) star)) (sc_events sc).

(* ---- trace acceptance ----------------------------------------------------------------- *)

(* [cert] is a complete schedule proposed for the observed trace [obs] (the observable
   actions in the order they were stamped): accepted when the scenario is well formed,
   the machine runs cert to the end, and what an observer sees of cert is obs *)
Definition accepts (sc : scenario) (cert obs : list action) : bool :=
  wf_scb sc &&
  match exec sc (init sc) cert with
  | Some _ => actions_eqb (filter observable cert) obs
  | None => false
  end.
