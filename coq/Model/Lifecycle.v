(* C07 — abstract machine of one girc client's connection lifecycle.

   Mirrors conn.go (internalConnect, readLoop, sendLoop, pingLoop, ircConn.decode, write),
   client.go (execLoop, receive, Close, Quit/Send, IsConnected) and internal/ctxgroup
   (first non-nil error wins and cancels; Wait cancels when every loop has returned).

   Actors: the connect goroutine, execLoop, readLoop (+ its one lingering decode
   goroutine), sendLoop, pingLoop, the application (Close / Send / Quit / IsConnected /
   a further MockConnect) and the peer (sends lines, closes, reads what was written).
   `sys_next s` lists every enabled step of the library's goroutines in state s (all
   interleavings are schedules of the machine; a Go `select` with several ready cases is
   several enabled steps); `env_step l s` is the effect of an environment action.

   Abstractions, all stated in conf/C07.json:
   * time: a 30 s timer of `receive`/`write` is "the queue is full, the event is dropped";
     ticks of the ping ticker and every other environment action draw on a finite
     `budget` (any finite behaviour of peer / application / clock is some budget);
   * socket: bytes written by the peer become readable in order (`inbuf`), except that lines not
     yet read when the peer closes may be lost from the end (reset); a blocked read
     returns once either end is closed; a write completes at once or fails (it never
     blocks for ever); it fails when either end is closed or after the environment broke the
     sending direction (LWFault: reads stay healthy); the 300 s read deadline never fires;
   * handlers: foreground handlers return (the step XRan is always enabled); what they send
     is covered by the application's LSend;
   * STS upgrade (`goto startConn`) is not modelled (C10).
   No proofs in this file. *)
Require Import Bytes.
From Coq Require Import List Bool Arith FMapPositive.
Import ListNotations.
Open Scope nat_scope.

Inductive event := EvMsg (s : str) | EvError (t : str).
Inductive line := LnEv (e : event) | LnBad (s : str).
Record out := mkOut { o_quit : bool; o_text : str }.
Inductive err := ENil | EErrEvent (t : str) | EIO | EParse | ETimedOut.

(* program counters *)
Inductive cpc_t :=
| CIdle                                   (* no Connect in progress *)
| CStart (regs : list out) (ping : bool)  (* internalConnect called; before lock/reset/open/spawn *)
| CReg (regs : list out)                  (* registration writes left; [] = about to emit INITIALIZED *)
| CWait                                   (* group.Wait() *)
| CClosedEv                               (* err = nil: about to emit CLOSED *)
| CTeardown                               (* stop(); connected = false; sock.Close() *)
| CDiscEv                                 (* about to emit DISCONNECTED *)
| CClear                                  (* c.conn = nil *)
| CRet (r : err).                         (* return r *)
Inductive xpc_t := XSel | XRun (e : event) (drain : bool) | XRan (e : event) (drain : bool) | XDrain | XDone.
Inductive rpc_t := RTop | RDec | RRecv (e : event) | RDone.
Inductive spc_t := SSel | SQuit | SDone.   (* SQuit: QUIT written, c.Close() not yet called *)
Inductive ppc_t := PSel | PDone.
Inductive close_t := KNone | KCalled | KDone.

Record state := mkState {
  rx : list event;
  tx : list out;
  conn_set : bool;
  cpc : cpc_t;
  cancelled : bool;
  gerr : err;
  xpc : xpc_t;
  rpc : rpc_t;
  spc : spc_t;
  ppc : ppc_t;
  linger : bool;
  connected : bool;
  sock_closed : bool;
  peer_closed : bool;
  wbroken : bool;
  inbuf : list line;
  outbuf : list out;
  close_st : close_t;
  budget : nat;
  peer_eof : bool;
  tracked : list event
}.

Definition set_rx (v : list event) (s : state) : state :=
  {| rx := v; tx := tx s; conn_set := conn_set s; cpc := cpc s; cancelled := cancelled s; gerr := gerr s; xpc := xpc s; rpc := rpc s; spc := spc s; ppc := ppc s; linger := linger s; connected := connected s; sock_closed := sock_closed s; peer_closed := peer_closed s; wbroken := wbroken s; inbuf := inbuf s; outbuf := outbuf s; close_st := close_st s; budget := budget s; peer_eof := peer_eof s; tracked := tracked s |}.
Definition set_tx (v : list out) (s : state) : state :=
  {| rx := rx s; tx := v; conn_set := conn_set s; cpc := cpc s; cancelled := cancelled s; gerr := gerr s; xpc := xpc s; rpc := rpc s; spc := spc s; ppc := ppc s; linger := linger s; connected := connected s; sock_closed := sock_closed s; peer_closed := peer_closed s; wbroken := wbroken s; inbuf := inbuf s; outbuf := outbuf s; close_st := close_st s; budget := budget s; peer_eof := peer_eof s; tracked := tracked s |}.
Definition set_conn_set (v : bool) (s : state) : state :=
  {| rx := rx s; tx := tx s; conn_set := v; cpc := cpc s; cancelled := cancelled s; gerr := gerr s; xpc := xpc s; rpc := rpc s; spc := spc s; ppc := ppc s; linger := linger s; connected := connected s; sock_closed := sock_closed s; peer_closed := peer_closed s; wbroken := wbroken s; inbuf := inbuf s; outbuf := outbuf s; close_st := close_st s; budget := budget s; peer_eof := peer_eof s; tracked := tracked s |}.
Definition set_cpc (v : cpc_t) (s : state) : state :=
  {| rx := rx s; tx := tx s; conn_set := conn_set s; cpc := v; cancelled := cancelled s; gerr := gerr s; xpc := xpc s; rpc := rpc s; spc := spc s; ppc := ppc s; linger := linger s; connected := connected s; sock_closed := sock_closed s; peer_closed := peer_closed s; wbroken := wbroken s; inbuf := inbuf s; outbuf := outbuf s; close_st := close_st s; budget := budget s; peer_eof := peer_eof s; tracked := tracked s |}.
Definition set_cancelled (v : bool) (s : state) : state :=
  {| rx := rx s; tx := tx s; conn_set := conn_set s; cpc := cpc s; cancelled := v; gerr := gerr s; xpc := xpc s; rpc := rpc s; spc := spc s; ppc := ppc s; linger := linger s; connected := connected s; sock_closed := sock_closed s; peer_closed := peer_closed s; wbroken := wbroken s; inbuf := inbuf s; outbuf := outbuf s; close_st := close_st s; budget := budget s; peer_eof := peer_eof s; tracked := tracked s |}.
Definition set_gerr (v : err) (s : state) : state :=
  {| rx := rx s; tx := tx s; conn_set := conn_set s; cpc := cpc s; cancelled := cancelled s; gerr := v; xpc := xpc s; rpc := rpc s; spc := spc s; ppc := ppc s; linger := linger s; connected := connected s; sock_closed := sock_closed s; peer_closed := peer_closed s; wbroken := wbroken s; inbuf := inbuf s; outbuf := outbuf s; close_st := close_st s; budget := budget s; peer_eof := peer_eof s; tracked := tracked s |}.
Definition set_xpc (v : xpc_t) (s : state) : state :=
  {| rx := rx s; tx := tx s; conn_set := conn_set s; cpc := cpc s; cancelled := cancelled s; gerr := gerr s; xpc := v; rpc := rpc s; spc := spc s; ppc := ppc s; linger := linger s; connected := connected s; sock_closed := sock_closed s; peer_closed := peer_closed s; wbroken := wbroken s; inbuf := inbuf s; outbuf := outbuf s; close_st := close_st s; budget := budget s; peer_eof := peer_eof s; tracked := tracked s |}.
Definition set_rpc (v : rpc_t) (s : state) : state :=
  {| rx := rx s; tx := tx s; conn_set := conn_set s; cpc := cpc s; cancelled := cancelled s; gerr := gerr s; xpc := xpc s; rpc := v; spc := spc s; ppc := ppc s; linger := linger s; connected := connected s; sock_closed := sock_closed s; peer_closed := peer_closed s; wbroken := wbroken s; inbuf := inbuf s; outbuf := outbuf s; close_st := close_st s; budget := budget s; peer_eof := peer_eof s; tracked := tracked s |}.
Definition set_spc (v : spc_t) (s : state) : state :=
  {| rx := rx s; tx := tx s; conn_set := conn_set s; cpc := cpc s; cancelled := cancelled s; gerr := gerr s; xpc := xpc s; rpc := rpc s; spc := v; ppc := ppc s; linger := linger s; connected := connected s; sock_closed := sock_closed s; peer_closed := peer_closed s; wbroken := wbroken s; inbuf := inbuf s; outbuf := outbuf s; close_st := close_st s; budget := budget s; peer_eof := peer_eof s; tracked := tracked s |}.
Definition set_ppc (v : ppc_t) (s : state) : state :=
  {| rx := rx s; tx := tx s; conn_set := conn_set s; cpc := cpc s; cancelled := cancelled s; gerr := gerr s; xpc := xpc s; rpc := rpc s; spc := spc s; ppc := v; linger := linger s; connected := connected s; sock_closed := sock_closed s; peer_closed := peer_closed s; wbroken := wbroken s; inbuf := inbuf s; outbuf := outbuf s; close_st := close_st s; budget := budget s; peer_eof := peer_eof s; tracked := tracked s |}.
Definition set_linger (v : bool) (s : state) : state :=
  {| rx := rx s; tx := tx s; conn_set := conn_set s; cpc := cpc s; cancelled := cancelled s; gerr := gerr s; xpc := xpc s; rpc := rpc s; spc := spc s; ppc := ppc s; linger := v; connected := connected s; sock_closed := sock_closed s; peer_closed := peer_closed s; wbroken := wbroken s; inbuf := inbuf s; outbuf := outbuf s; close_st := close_st s; budget := budget s; peer_eof := peer_eof s; tracked := tracked s |}.
Definition set_connected (v : bool) (s : state) : state :=
  {| rx := rx s; tx := tx s; conn_set := conn_set s; cpc := cpc s; cancelled := cancelled s; gerr := gerr s; xpc := xpc s; rpc := rpc s; spc := spc s; ppc := ppc s; linger := linger s; connected := v; sock_closed := sock_closed s; peer_closed := peer_closed s; wbroken := wbroken s; inbuf := inbuf s; outbuf := outbuf s; close_st := close_st s; budget := budget s; peer_eof := peer_eof s; tracked := tracked s |}.
Definition set_sock_closed (v : bool) (s : state) : state :=
  {| rx := rx s; tx := tx s; conn_set := conn_set s; cpc := cpc s; cancelled := cancelled s; gerr := gerr s; xpc := xpc s; rpc := rpc s; spc := spc s; ppc := ppc s; linger := linger s; connected := connected s; sock_closed := v; peer_closed := peer_closed s; wbroken := wbroken s; inbuf := inbuf s; outbuf := outbuf s; close_st := close_st s; budget := budget s; peer_eof := peer_eof s; tracked := tracked s |}.
Definition set_peer_closed (v : bool) (s : state) : state :=
  {| rx := rx s; tx := tx s; conn_set := conn_set s; cpc := cpc s; cancelled := cancelled s; gerr := gerr s; xpc := xpc s; rpc := rpc s; spc := spc s; ppc := ppc s; linger := linger s; connected := connected s; sock_closed := sock_closed s; peer_closed := v; wbroken := wbroken s; inbuf := inbuf s; outbuf := outbuf s; close_st := close_st s; budget := budget s; peer_eof := peer_eof s; tracked := tracked s |}.
Definition set_wbroken (v : bool) (s : state) : state :=
  {| rx := rx s; tx := tx s; conn_set := conn_set s; cpc := cpc s; cancelled := cancelled s; gerr := gerr s; xpc := xpc s; rpc := rpc s; spc := spc s; ppc := ppc s; linger := linger s; connected := connected s; sock_closed := sock_closed s; peer_closed := peer_closed s; wbroken := v; inbuf := inbuf s; outbuf := outbuf s; close_st := close_st s; budget := budget s; peer_eof := peer_eof s; tracked := tracked s |}.
Definition set_inbuf (v : list line) (s : state) : state :=
  {| rx := rx s; tx := tx s; conn_set := conn_set s; cpc := cpc s; cancelled := cancelled s; gerr := gerr s; xpc := xpc s; rpc := rpc s; spc := spc s; ppc := ppc s; linger := linger s; connected := connected s; sock_closed := sock_closed s; peer_closed := peer_closed s; wbroken := wbroken s; inbuf := v; outbuf := outbuf s; close_st := close_st s; budget := budget s; peer_eof := peer_eof s; tracked := tracked s |}.
Definition set_outbuf (v : list out) (s : state) : state :=
  {| rx := rx s; tx := tx s; conn_set := conn_set s; cpc := cpc s; cancelled := cancelled s; gerr := gerr s; xpc := xpc s; rpc := rpc s; spc := spc s; ppc := ppc s; linger := linger s; connected := connected s; sock_closed := sock_closed s; peer_closed := peer_closed s; wbroken := wbroken s; inbuf := inbuf s; outbuf := v; close_st := close_st s; budget := budget s; peer_eof := peer_eof s; tracked := tracked s |}.
Definition set_close_st (v : close_t) (s : state) : state :=
  {| rx := rx s; tx := tx s; conn_set := conn_set s; cpc := cpc s; cancelled := cancelled s; gerr := gerr s; xpc := xpc s; rpc := rpc s; spc := spc s; ppc := ppc s; linger := linger s; connected := connected s; sock_closed := sock_closed s; peer_closed := peer_closed s; wbroken := wbroken s; inbuf := inbuf s; outbuf := outbuf s; close_st := v; budget := budget s; peer_eof := peer_eof s; tracked := tracked s |}.
Definition set_budget (v : nat) (s : state) : state :=
  {| rx := rx s; tx := tx s; conn_set := conn_set s; cpc := cpc s; cancelled := cancelled s; gerr := gerr s; xpc := xpc s; rpc := rpc s; spc := spc s; ppc := ppc s; linger := linger s; connected := connected s; sock_closed := sock_closed s; peer_closed := peer_closed s; wbroken := wbroken s; inbuf := inbuf s; outbuf := outbuf s; close_st := close_st s; budget := v; peer_eof := peer_eof s; tracked := tracked s |}.
Definition set_peer_eof (v : bool) (s : state) : state :=
  {| rx := rx s; tx := tx s; conn_set := conn_set s; cpc := cpc s; cancelled := cancelled s; gerr := gerr s; xpc := xpc s; rpc := rpc s; spc := spc s; ppc := ppc s; linger := linger s; connected := connected s; sock_closed := sock_closed s; peer_closed := peer_closed s; wbroken := wbroken s; inbuf := inbuf s; outbuf := outbuf s; close_st := close_st s; budget := budget s; peer_eof := v; tracked := tracked s |}.
Definition set_tracked (v : list event) (s : state) : state :=
  {| rx := rx s; tx := tx s; conn_set := conn_set s; cpc := cpc s; cancelled := cancelled s; gerr := gerr s; xpc := xpc s; rpc := rpc s; spc := spc s; ppc := ppc s; linger := linger s; connected := connected s; sock_closed := sock_closed s; peer_closed := peer_closed s; wbroken := wbroken s; inbuf := inbuf s; outbuf := outbuf s; close_st := close_st s; budget := budget s; peer_eof := peer_eof s; tracked := v |}.

Definition cap : nat := 25.   (* make(chan *Event, 25) *)

(* channel send guarded by a timer: enqueued when there is room, else (timer) dropped *)
Definition enq {A} (q : list A) (x : A) : list A := if length q <? cap then q ++ [x] else q.

Definition err_is_nil (e : err) : bool := match e with ENil => true | _ => false end.

(* ctxgroup.Go: the first non-nil error is kept and cancels the group *)
Definition group_err (r : err) (s : state) : state :=
  if err_is_nil (gerr s) then set_gerr r (set_cancelled true s) else s.

Definition ping_out : out := mkOut false [80%N; 73%N; 78%N; 71%N].   (* "PING" *)

Definition init (b : nat) : state :=
  {| rx := []; tx := []; conn_set := false; cpc := CIdle; cancelled := false; gerr := ENil;
     xpc := XDone; rpc := RDone; spc := SDone; ppc := PDone; linger := false;
     connected := false; sock_closed := false; peer_closed := false; wbroken := false; inbuf := []; outbuf := [];
     close_st := KNone; budget := b; peer_eof := false; tracked := [] |}.

(* internalConnect up to the spawn of the four loops: state.reset, drainQueues, new
   ircConn (connected = true), c.stop, group.Go x4 *)
Definition fresh_conn (regs : list out) (ping : bool) (s : state) : state :=
  {| rx := []; tx := []; conn_set := true; cpc := CReg regs; cancelled := false; gerr := ENil;
     xpc := XSel; rpc := RTop; spc := SSel; ppc := if ping then PSel else PDone; linger := false;
     connected := true; sock_closed := false; peer_closed := false; wbroken := false; inbuf := []; outbuf := [];
     close_st := close_st s; budget := budget s; peer_eof := false;
     tracked := [] |}.

Inductive label :=
| Tau
| LConnCall (regs : list out) (ping : bool)
| LInit | LClosed | LDisc
| LEnq (e : event)      (* readLoop put e into rx: internal, hidden from observers *)
| LWFail (o : out)      (* sendLoop's write of the non-QUIT line o failed: internal, hidden *)
| LDeliver (e : event)
| LReturn (r : err)
| LCloseCall | LCloseRet
| LSend (o : out)
| LIsConn (b : bool)
| LPeerSend (l : line) | LPeerClose | LPeerRecv (o : out) | LPeerEOF
| LWFault               (* the sending direction of the socket breaks; reads stay healthy *)
| LTick (k : nat).

Definition loops_done (s : state) : bool :=
  match xpc s, rpc s, spc s, ppc s with XDone, RDone, SDone, PDone => true | _, _, _, _ => false end.

(* ---- the connect goroutine (internalConnect) ---- *)
Definition step_connect (s : state) : list (label * state) :=
  match cpc s with
  | CIdle => []
  | CStart regs ping => [(Tau, fresh_conn regs ping s)]
  | CReg (o :: regs) => [(Tau, set_cpc (CReg regs) (set_tx (enq (tx s) o) s))]
  | CReg [] => [(LInit, set_cpc CWait s)]
  | CWait =>
      if loops_done s
      then [(Tau, set_cancelled true (set_cpc (if err_is_nil (gerr s) then CClosedEv else CTeardown) s))]
      else []
  | CClosedEv => [(LClosed, set_cpc CTeardown s)]
  | CTeardown => [(Tau, set_cpc CDiscEv (set_sock_closed true (set_connected false (set_cancelled true s))))]
  | CDiscEv => [(LDisc, set_cpc CClear s)]
  | CClear => [(Tau, set_cpc (CRet (gerr s)) (set_conn_set false s))]
  | CRet r => [(LReturn r, set_cpc CIdle s)]
  end.

(* ---- execLoop ---- *)
Definition step_exec (s : state) : list (label * state) :=
  match xpc s with
  | XSel =>
      (match rx s with e :: r => [(Tau, set_xpc (XRun e false) (set_rx r s))] | [] => [] end)
      ++ (if cancelled s then [(Tau, set_xpc XDrain s)] else [])
  | XRun e d => [(LDeliver e, set_tracked (tracked s ++ [e]) (set_xpc (XRan e d) s))]
  | XRan e d =>
      [(Tau, if d then set_xpc XDrain s
             else match e with
                  | EvError t => group_err (EErrEvent t) (set_xpc XDone s)
                  | EvMsg _ => set_xpc XSel s
                  end)]
  | XDrain =>
      match rx s with
      | e :: r => [(Tau, set_xpc (XRun e true) (set_rx r s))]
      | [] => [(Tau, set_xpc XDone s)]
      end
  | XDone => []
  end.

(* ---- readLoop and its decode goroutine ---- *)
(* timers = false: the 30 s timer of Client.receive never fires (a full queue blocks the
   read loop); the checker uses this restriction for sessions that last milliseconds *)
Definition step_read_gen (timers : bool) (s : state) : list (label * state) :=
  match rpc s with
  | RTop => [(Tau, set_rpc (if cancelled s then RDone else RDec) s)]
  | RDec =>
      (if cancelled s then [(Tau, set_linger true (set_rpc RDone s))] else [])
      ++ match inbuf s with
         | LnEv e :: r => [(Tau, set_rpc (RRecv e) (set_inbuf r s))]
         | LnBad _ :: r => [(Tau, group_err EParse (set_rpc RDone (set_inbuf r s)))]
         | [] => if peer_closed s || sock_closed s then [(Tau, group_err EIO (set_rpc RDone s))] else []
         end
  | RRecv e =>          (* Client.receive: queued when there is room, dropped by the 30 s timer else *)
      if length (rx s) <? cap then [(LEnq e, set_rpc RTop (set_rx (rx s ++ [e]) s))]
      else if timers then [(Tau, set_rpc RTop s)] else []
  | RDone => []
  end.
Definition step_read := step_read_gen true.

Definition is_nil {A} (l : list A) : bool := match l with [] => true | _ => false end.

Definition step_linger (s : state) : list (label * state) :=
  if linger s && (sock_closed s || peer_closed s || negb (is_nil (inbuf s)))
  then [(Tau, set_linger false (set_inbuf (tl (inbuf s)) s))] else [].

(* ---- sendLoop ---- *)
(* a write succeeds unless either end is closed or the sending direction is broken *)
Definition write_ok (s : state) : bool := negb (peer_closed s || sock_closed s || wbroken s).

Definition step_send (s : state) : list (label * state) :=
  match spc s with
  | SSel =>
      (match tx s with
       | o :: r =>
           let ok := write_ok s in
           let s1 := set_tx r (if ok then set_outbuf (outbuf s ++ [o]) s else s) in
           [if o_quit o then (Tau, set_spc SQuit s1)     (* the write error of a QUIT is ignored *)
            else if ok then (Tau, s1) else (LWFail o, group_err EIO (set_spc SDone s1))]
       | [] => []
       end)
      ++ (if cancelled s then [(Tau, set_spc SDone s)] else [])
  | SQuit => [(Tau, set_spc SDone (set_cancelled true s))]     (* c.Close(); return nil *)
  | SDone => []
  end.

(* ---- pingLoop (its ticks are environment steps) ---- *)
Definition step_ping (s : state) : list (label * state) :=
  match ppc s with
  | PSel => if cancelled s then [(Tau, set_ppc PDone s)] else []
  | PDone => []
  end.

(* ---- application-side library code: the cancel inside Close() ---- *)
Definition step_app (s : state) : list (label * state) :=
  match close_st s with KCalled => [(Tau, set_close_st KDone (set_cancelled true s))] | _ => [] end.

(* ---- the network: once the peer has closed, lines it sent that the client has not read yet
   may be lost (a TCP reset discards them); they are lost from the end ---- *)
Definition step_net (s : state) : list (label * state) :=
  if peer_closed s && negb (is_nil (inbuf s)) then [(Tau, set_inbuf (removelast (inbuf s)) s)] else [].

Definition sys_core (timers : bool) (s : state) : list (label * state) :=
  step_connect s ++ step_exec s ++ step_read_gen timers s ++ step_linger s ++ step_send s ++ step_ping s
  ++ step_app s.
Definition sys_next_gen (timers : bool) (s : state) : list (label * state) := sys_core timers s ++ step_net s.
Definition sys_next := sys_next_gen true.

(* ---- environment ---- *)
Definition spend (n : nat) (s : state) : option state :=
  if n <=? budget s then Some (set_budget (budget s - n) s) else None.

Definition obind {A B} (o : option A) (f : A -> option B) : option B :=
  match o with Some a => f a | None => None end.

Fixpoint str_eqb (a b : str) : bool :=
  match a, b with
  | [], [] => true
  | x :: a', y :: b' => N.eqb x y && str_eqb a' b'
  | _, _ => false
  end.
Definition out_eqb (a b : out) : bool := Bool.eqb (o_quit a) (o_quit b) && str_eqb (o_text a) (o_text b).

Definition env_step (l : label) (s : state) : option state :=
  match l with
  | LConnCall regs ping =>
      match cpc s with
      | CIdle =>      (* registration lines (WEBIRC, PASS, CAP LS, NICK, USER) are never a QUIT *)
          if existsb o_quit regs then None
          else obind (spend (S (length regs)) s) (fun s => Some (set_cpc (CStart regs ping) s))
      | _ => None
      end
  | LCloseCall =>
      match close_st s with KNone => obind (spend 1 s) (fun s => Some (set_close_st KCalled s)) | _ => None end
  | LCloseRet =>
      match close_st s with KDone => Some (set_close_st KNone s) | _ => None end
  | LSend o =>   (* Send -> write: dropped when not connected, else queued (or dropped on a full queue) *)
      obind (spend 1 s) (fun s => Some (if conn_set s then set_tx (enq (tx s) o) s else s))
  | LIsConn b =>
      if Bool.eqb b (conn_set s && connected s) then spend 1 s else None
  | LPeerSend ln =>
      obind (spend 1 s) (fun s =>
        Some (if conn_set s && negb (sock_closed s) && negb (peer_closed s)
              then set_inbuf (inbuf s ++ [ln]) s else s))
  | LPeerClose => obind (spend 1 s) (fun s => Some (set_peer_closed true s))
  | LWFault => obind (spend 1 s) (fun s => Some (set_wbroken true s))
  | LPeerRecv o =>
      match outbuf s with
      | o' :: r => if out_eqb o o' then Some (set_outbuf r s) else None
      | [] => None
      end
  | LPeerEOF =>
      (* the end of the stream; written lines the peer has not read by then are lost (a reset
         discards them) *)
      if sock_closed s && negb (peer_eof s) then Some (set_outbuf [] (set_peer_eof true s)) else None
  | LTick k =>
      match ppc s with
      | PSel =>
          obind (spend 1 s) (fun s =>
            match k with
            | 0 => Some s
            | 1 => Some (set_tx (enq (tx s) ping_out) s)
            | 2 => Some (group_err ETimedOut (set_ppc PDone s))
            | _ => None
            end)
      | PDone => None
      end
  | _ => None
  end.

(* ---- the transition relation ---- *)
Definition step (s : state) (l : label) (s' : state) : Prop :=
  In (l, s') (sys_next s) \/ env_step l s = Some s'.

(* weak executions: Tau steps interleaved with the non-Tau labels of `tr` *)
Inductive wexec : state -> list label -> state -> Prop :=
| wexec_nil s : wexec s [] s
| wexec_tau s s1 tr s' : step s Tau s1 -> wexec s1 tr s' -> wexec s tr s'
| wexec_vis s l s1 tr s' : l <> Tau -> step s l s1 -> wexec s1 tr s' -> wexec s (l :: tr) s'.

(* ================= executable trace checker ================= *)
Fixpoint list_eqb {A} (eqb : A -> A -> bool) (a b : list A) : bool :=
  match a, b with
  | [], [] => true
  | x :: a', y :: b' => eqb x y && list_eqb eqb a' b'
  | _, _ => false
  end.
Definition event_eqb (a b : event) : bool :=
  match a, b with
  | EvMsg x, EvMsg y => str_eqb x y
  | EvError x, EvError y => str_eqb x y
  | _, _ => false
  end.
Definition line_eqb (a b : line) : bool :=
  match a, b with
  | LnEv x, LnEv y => event_eqb x y
  | LnBad x, LnBad y => str_eqb x y
  | _, _ => false
  end.
Definition err_eqb (a b : err) : bool :=
  match a, b with
  | ENil, ENil | EIO, EIO | EParse, EParse | ETimedOut, ETimedOut => true
  | EErrEvent x, EErrEvent y => str_eqb x y
  | _, _ => false
  end.
Definition cpc_eqb (a b : cpc_t) : bool :=
  match a, b with
  | CIdle, CIdle | CWait, CWait | CClosedEv, CClosedEv | CTeardown, CTeardown
  | CDiscEv, CDiscEv | CClear, CClear => true
  | CStart r p, CStart r' p' => list_eqb out_eqb r r' && Bool.eqb p p'
  | CReg r, CReg r' => list_eqb out_eqb r r'
  | CRet r, CRet r' => err_eqb r r'
  | _, _ => false
  end.
Definition xpc_eqb (a b : xpc_t) : bool :=
  match a, b with
  | XSel, XSel | XDrain, XDrain | XDone, XDone => true
  | XRun e d, XRun e' d' | XRan e d, XRan e' d' => event_eqb e e' && Bool.eqb d d'
  | _, _ => false
  end.
Definition rpc_eqb (a b : rpc_t) : bool :=
  match a, b with
  | RTop, RTop | RDec, RDec | RDone, RDone => true
  | RRecv e, RRecv e' => event_eqb e e'
  | _, _ => false
  end.
Definition spc_eqb (a b : spc_t) : bool := match a, b with SSel, SSel | SQuit, SQuit | SDone, SDone => true | _, _ => false end.
Definition ppc_eqb (a b : ppc_t) : bool := match a, b with PSel, PSel | PDone, PDone => true | _, _ => false end.
Definition close_eqb (a b : close_t) : bool :=
  match a, b with KNone, KNone | KCalled, KCalled | KDone, KDone => true | _, _ => false end.

(* cheap fields first *)
Definition state_eqb (a b : state) : bool :=
  cpc_eqb (cpc a) (cpc b) && xpc_eqb (xpc a) (xpc b) && rpc_eqb (rpc a) (rpc b) &&
  spc_eqb (spc a) (spc b) && ppc_eqb (ppc a) (ppc b) && close_eqb (close_st a) (close_st b) &&
  Bool.eqb (cancelled a) (cancelled b) && Bool.eqb (conn_set a) (conn_set b) &&
  Bool.eqb (linger a) (linger b) && Bool.eqb (connected a) (connected b) &&
  Bool.eqb (sock_closed a) (sock_closed b) && Bool.eqb (peer_closed a) (peer_closed b) &&
  Bool.eqb (wbroken a) (wbroken b) &&
  Bool.eqb (peer_eof a) (peer_eof b) && Nat.eqb (budget a) (budget b) &&
  Nat.eqb (length (rx a)) (length (rx b)) && Nat.eqb (length (tx a)) (length (tx b)) &&
  Nat.eqb (length (inbuf a)) (length (inbuf b)) && Nat.eqb (length (outbuf a)) (length (outbuf b)) &&
  err_eqb (gerr a) (gerr b) &&
  list_eqb event_eqb (rx a) (rx b) && list_eqb out_eqb (tx a) (tx b) &&
  list_eqb line_eqb (inbuf a) (inbuf b) && list_eqb out_eqb (outbuf a) (outbuf b) &&
  list_eqb event_eqb (tracked a) (tracked b).

Definition label_eqb (a b : label) : bool :=
  match a, b with
  | Tau, Tau | LInit, LInit | LClosed, LClosed | LDisc, LDisc => true
  | LDeliver e, LDeliver e' => event_eqb e e'
  | LReturn r, LReturn r' => err_eqb r r'
  | _, _ => false     (* environment labels are never produced by sys_next *)
  end.

Definition is_tau (l : label) : bool := match l with Tau => true | _ => false end.
(* what an observer of a session cannot see: Tau, the enqueue of the read loop, a failed write *)
Definition is_hidden (l : label) : bool := match l with Tau | LEnq _ | LWFail _ => true | _ => false end.
Definition visible (tr : list label) : list label := filter (fun l => negb (is_hidden l)) tr.

Fixpoint mem_state (s : state) (l : list state) : bool :=
  match l with [] => false | x :: r => state_eqb s x || mem_state s r end.

(* sets of states: buckets under a cheap numeric key (the checker's verdict does not
   depend on the key being injective, nor does its soundness on state_eqb being exact) *)
Definition code_cpc (c : cpc_t) : N :=
  match c with
  | CIdle => 0 | CStart _ _ => 1 | CReg r => 2 + N.of_nat (length r) | CWait => 40 | CClosedEv => 41
  | CTeardown => 42 | CDiscEv => 43 | CClear => 44 | CRet _ => 45
  end%N.
Definition code_xpc (c : xpc_t) : N :=
  match c with XSel => 0 | XRun _ d => if d then 1 else 2 | XRan _ d => if d then 3 else 4 | XDrain => 5 | XDone => 6 end%N.
Definition code_rpc (c : rpc_t) : N := match c with RTop => 0 | RDec => 1 | RRecv _ => 2 | RDone => 3 end%N.
Definition code_b (b : bool) : N := if b then 1%N else 0%N.
Definition skey (s : state) : positive :=
  N.succ_pos
    (fold_left (fun acc x => acc * 64 + x)%N
       [code_cpc (cpc s); code_xpc (xpc s); code_rpc (rpc s);
        (code_b (match spc s with SSel => true | _ => false end)
         + 2 * code_b (match ppc s with PSel => true | PDone => false end)
         + 4 * (match close_st s with KNone => 0 | KCalled => 1 | KDone => 2 end))%N;
        (code_b (cancelled s) + 2 * code_b (conn_set s) + 4 * code_b (linger s) + 8 * code_b (connected s)
         + 16 * code_b (sock_closed s) + 32 * code_b (peer_closed s))%N;
        (code_b (peer_eof s) + 2 * code_b (err_is_nil (gerr s)) + 4 * code_b (wbroken s))%N;
        N.of_nat (length (rx s)); N.of_nat (length (tx s)); N.of_nat (length (inbuf s));
        N.of_nat (length (outbuf s)); N.of_nat (length (tracked s));
        code_b (match spc s with SQuit => true | _ => false end)] 0%N).

Definition sset := PositiveMap.t (list state).
Definition sempty : sset := PositiveMap.empty (list state).
Definition bucket (k : positive) (m : sset) : list state :=
  match PositiveMap.find k m with Some l => l | None => [] end.
Definition smem (s : state) (m : sset) : bool := mem_state s (bucket (skey s) m).
Definition sadd (s : state) (m : sset) : sset :=
  let k := skey s in PositiveMap.add k (s :: bucket k m) m.

(* the states of `cand` not yet in `seen` are put in front of `new` and added to `seen` *)
Fixpoint add_new (cand new : list state) (seen : sset) : list state * sset :=
  match cand with
  | [] => (new, seen)
  | c :: r => if smem c seen then add_new r new seen else add_new r (c :: new) (sadd c seen)
  end.

(* Reduction used by the checker only: Tau steps that touch nothing another actor reads
   before it is too late are taken at once (the ping loop leaving on cancellation, the end
   of an ordinary handler run, the read loop leaving at its outer select, the exit of the
   lingering decoder). Each stage is a Tau step of the machine, so `norm s` is reachable
   from s and the checker stays sound; it only shrinks the candidate sets. *)
Definition norm_ping (s : state) : state :=
  match ppc s with PSel => if cancelled s then set_ppc PDone s else s | PDone => s end.
Definition norm_exec (s : state) : state :=
  match xpc s with
  | XRan (EvMsg _) false => set_xpc XSel s
  | XRan _ true => set_xpc XDrain s
  | _ => s
  end.
Definition norm_read (s : state) : state :=
  match rpc s with RTop => if cancelled s then set_rpc RDone s else s | _ => s end.
Definition norm_linger (s : state) : state :=
  if linger s && (sock_closed s || peer_closed s || negb (is_nil (inbuf s)))
  then set_linger false (set_inbuf (tl (inbuf s)) s) else s.
Definition norm (s : state) : state := norm_linger (norm_read (norm_exec (norm_ping s))).

(* The checker's successor function: no 30 s timers, and instead of losing unread lines one by
   one after the peer closed (step_net) it loses all that are left in one go - lines are read
   from the front, so "lose a suffix now" is "read some more, then lose the rest". *)
Definition step_net_all (s : state) : list (label * state) :=
  if peer_closed s && negb (is_nil (inbuf s)) then [(Tau, set_inbuf [] s)] else [].
Definition chk_next (s : state) : list (label * state) := sys_core false s ++ step_net_all s.

Definition tau_succs (s : state) : list state :=
  map (fun p => norm (snd p)) (filter (fun p => is_hidden (fst p)) (chk_next s)).

(* breadth-first closure under Tau steps: acc = everything found so far *)
Fixpoint tau_close_aux (fuel : nat) (frontier acc : list state) (seen : sset) : list state :=
  match fuel with
  | 0 => acc
  | S f =>
      match add_new (flat_map tau_succs frontier) [] seen with
      | ([], _) => acc
      | (new, seen') => tau_close_aux f new (new ++ acc) seen'
      end
  end.

Definition dedup (l : list state) : list state := fst (add_new l [] sempty).

Definition tau_close (fuel : nat) (l : list state) : list state :=
  let (l', seen) := add_new l [] sempty in tau_close_aux fuel l' l' seen.

Definition vis_succs (l : label) (s : state) : list state :=
  map (fun p => norm (snd p)) (filter (fun p => label_eqb l (fst p)) (chk_next s))
  ++ match env_step l s with Some s' => [norm s'] | None => [] end.

Fixpoint run (fuel : nat) (tr : list label) (cur : list state) : list state :=
  match tr with
  | [] => cur
  | l :: tr' => run fuel tr' (tau_close fuel (flat_map (vis_succs l) cur))
  end.

Definition label_cost (l : label) : nat :=
  match l with LConnCall regs _ => S (length regs) | _ => 1 end.

(* the states the machine can be in after showing exactly the visible trace `tr` *)
Definition after (fuel : nat) (tr : list label) : list state :=
  let s0 := init (fold_right (fun l n => label_cost l + n) 0 tr) in
  run fuel tr (tau_close fuel [s0]).

(* `tr` (visible labels only) is the visible part of a trace of the machine *)
Definition accepts (fuel : nat) (tr : list label) : bool :=
  if existsb is_hidden tr then false else negb (is_nil (after fuel tr)).
