(* impl-model of format.go: Glob(input, match), as the code is NOW (after the repair
   "consume the prefix before the later pieces are looked for").

     if match == ""            -> input == match
     if match == "*"           -> true
     parts := strings.Split(match, "*")
     if len(parts) == 1        -> input == match
     leading, trailing := HasPrefix(match,"*"), HasSuffix(match,"*");  last := len(parts)-1
     if !leading { if !HasPrefix(input, parts[0]) return false; input = input[len(parts[0]):] }
     for i := 1; i < last; i++ {
        if !Contains(input, parts[i]) return false
        idx := Index(input, parts[i]) + len(parts[i]);  input = input[idx:] }
     return trailing || HasSuffix(input, parts[last])

   The two re-slicings of `input` are checked (slice_from = Go's bounds rule), so
   "Glob cannot panic" is a theorem about the index arithmetic (Proofs/GlobProofs.v),
   not an artefact of totality.  parts[0], parts[i] (1 <= i < last) and parts[last] are
   read by structural decomposition of the list: `last = len(parts)-1 >= 1` on that path. *)
Require Import Bytes.

Definition glob_char : N := 42.                       (* '*' *)

(* the middle loop over parts[1 .. last-1]; None = "return false" *)
Fixpoint glob_middle (input : str) (mids : list str) : res (option str) :=
  match mids with
  | [] => Ok (Some input)
  | p :: rest =>
      if negb (contains p input) then Ok None
      else match index p input with
           | None => Panic     (* strings.Index = -1 after Contains = true: cannot happen *)
           | Some k =>
               input' <- slice_from input (k + length p) ;;     (* input[idx:] *)
               glob_middle input' rest
           end
  end.

Definition glob (input pat : str) : res bool :=
  match pat with
  | [] => Ok (streqb input pat)                       (* empty pattern *)
  | _ =>
    if streqb pat [glob_char] then Ok true else       (* a lone glob matches all *)
    match split_byte glob_char pat with
    | [] => Panic                                     (* strings.Split never returns an empty slice *)
    | [_] => Ok (streqb input pat)                    (* no globs: equality *)
    | p0 :: rest =>                                   (* rest <> []: last = len(parts)-1 >= 1 *)
        let leading := prefixb [glob_char] pat in
        let trailing := suffixb [glob_char] pat in
        first <- (if negb leading then
                    if negb (prefixb p0 input) then Ok None
                    else (t <- slice_from input (length p0) ;; Ok (Some t))
                  else Ok (Some input)) ;;
        match first with
        | None => Ok false
        | Some input1 =>
            m <- glob_middle input1 (removelast rest) ;;
            match m with
            | None => Ok false
            | Some input2 => Ok (trailing || suffixb (last rest []) input2)
            end
        end
    end
  end.
