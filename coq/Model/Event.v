(* Wire codec: impl-model of event.go (ParseEvent, splitParams, Event.Bytes/String,
   Event.Len/LenOpts, ParseSource, Source.Len/writeTo).  No proofs here.

   Same case analysis and index arithmetic as the Go; every s[i] / s[i:j] is checked
   (Panic outside bounds).  strings.IndexByte's -1 is `None`.  Names are chosen not to
   clash with Model/State.v (its event, source, parse_source and e_.. / s_.. fields). *)
Require Import Bytes Utf8 AMap WireOut GoUpper Tags.

Record wsource := mkWSource { ws_name : str; ws_ident : str; ws_host : str }.

(* Event as far as the wire is concerned.  Source nil = None; Tags nil = None;
   Params nil and Params []string{} are not distinguished.  The timestamp is not a
   field: it is a function of Tags.Get("time") (server_time_raw below). *)
Record wevent := mkWEvent {
  we_tags : wtags;
  we_src : option wsource;
  we_cmd : str;
  we_params : list str
}.

(* ---- Source --------------------------------------------------------------------- *)

(* Source.writeTo *)
Definition source_write (s : wsource) : str :=
  ws_name s
  ++ (if Nat.ltb 0 (length (ws_ident s)) then 33 :: ws_ident s else [])
  ++ (if Nat.ltb 0 (length (ws_host s)) then 64 :: ws_host s else []).

(* Source.Len *)
Definition source_len (s : wsource) : nat :=
  let l := length (ws_name s) in
  let l := if Nat.ltb 0 (length (ws_ident s)) then (1 + l + length (ws_ident s))%nat else l in
  if Nat.ltb 0 (length (ws_host s)) then (1 + l + length (ws_host s))%nat else l.

(* ParseSource *)
Definition wparse_source (raw : str) : res wsource :=
  let user := index_byte 33 raw in
  let host := index_byte 64 raw in
  match user, host with
  | Some (S u), Some h =>
    if Nat.ltb (S u) h then                      (* user > 0 && host > user *)
      n <- slice_to raw (S u) ;;
      i <- slice raw (S u + 1) h ;;
      ho <- slice_from raw (h + 1) ;;
      Ok (mkWSource n i ho)
    else                                          (* user > 0 *)
      n <- slice_to raw (S u) ;;
      i <- slice_from raw (S u + 1) ;;
      Ok (mkWSource n i [])
  | Some (S u), None =>
      n <- slice_to raw (S u) ;;
      i <- slice_from raw (S u + 1) ;;
      Ok (mkWSource n i [])
  | _, Some (S h) =>                              (* host > 0 *)
      n <- slice_to raw (S h) ;;
      ho <- slice_from raw (S h + 1) ;;
      Ok (mkWSource n [] ho)
  | _, _ => Ok (mkWSource raw [] [])
  end.

(* ---- Event.Bytes ---------------------------------------------------------------- *)

Fixpoint params_bytes (l : list str) : str :=
  match l with
  | [] => []
  | [p] => 32 :: (if needs_colon p then [58] else []) ++ p
  | p :: r => 32 :: p ++ params_bytes r
  end.

(* the buffer before ToValidUTF8 and CR/LF removal *)
Definition event_raw_bytes (e : wevent) : str :=
  tags_write (we_tags e)
  ++ (match we_src e with Some s => 58 :: source_write s ++ [32] | None => [] end)
  ++ we_cmd e
  ++ params_bytes (we_params e).

(* Event.Bytes / Event.String *)
Definition event_bytes (e : wevent) : str :=
  strip_crlf (to_valid_utf8 [] (event_raw_bytes e)).

(* ---- Event.Len / LenOpts -------------------------------------------------------- *)

Fixpoint params_len (l : list str) : nat :=
  match l with
  | [] => 0
  | [p] => (1 + length p + (if needs_colon p then 1 else 0))%nat
  | p :: r => (1 + length p + params_len r)%nat
  end.

(* LenOpts(includeTags): the flag is not consulted by the current Go code *)
Definition event_len_opts (include_tags : bool) (e : wevent) : nat :=
  ((if Nat.ltb 0 (tags_count (we_tags e)) then tags_len (we_tags e) + 1 else 0)
   + (match we_src e with Some s => source_len s + 2 | None => 0 end)
   + length (we_cmd e)
   + params_len (we_params e))%nat.

Definition event_len (e : wevent) : nat := event_len_opts true e.

(* ---- ParseEvent ----------------------------------------------------------------- *)

Definition is_crlf (b : N) : bool := (b =? 13) || (b =? 10).

Fixpoint trim_left_crlf (s : str) : str :=
  match s with
  | b :: r => if is_crlf b then trim_left_crlf r else s
  | [] => []
  end.
(* strings.TrimFunc(raw, cutCRFunc); rev' is the linear-time reverse (= rev) *)
Definition trim_crlf (s : str) : str := rev' (trim_left_crlf (rev' (trim_left_crlf s))).

(* splitParams: strings.Split on SPACE, empty pieces dropped *)
Definition split_params (s : str) : list str :=
  filter (fun p => match p with [] => false | _ => true end) (split_byte 32 s).

(* The `for` loop that looks for the trailing parameter.  [trailer] is trailerIndex on
   entry to an iteration.  Ok None: no " :" found (all middles).  Ok (Some i): the value
   assigned to i at `break`.  The loop advances by at least one byte per iteration, so
   fuel = S (length raw) is never exhausted (C02_total); exhaustion is reported as Panic
   so that it cannot hide. *)
Fixpoint trailer_loop (fuel : nat) (raw : str) (j trailer : nat) : res (option nat) :=
  match fuel with
  | O => Panic
  | S f =>
    let last := trailer in
    rest <- slice_from raw (j + last) ;;
    match index_byte 58 rest with
    | None => Ok None
    | Some t =>
      if Nat.eqb (j + last + t) 0 then Panic         (* raw[-1] *)
      else
        c <- at_ raw (j + last + t - 1) ;;
        if c =? 32 then Ok (Some (last + t)%nat)
        else trailer_loop f raw j (t + last + 1)
    end
  end.

(* the optional prefix: Ok None = nil result; Ok (Some (src, i)) = source and the value
   of i (start of the command) afterwards *)
Definition parse_event_prefix (raw : str) : res (option (option wsource * nat)) :=
  match raw with
  | c :: _ =>
    if c =? 58 then
      match index_byte 32 raw with
      | Some i =>
        if Nat.ltb i 2 then Ok None
        else
          s <- slice raw 1 i ;;
          src <- wparse_source s ;;
          Ok (Some (Some src, S i))
      | None => Ok None                       (* i = -1 < 2 *)
      end
    else Ok (Some (None, 0%nat))
  | [] => Ok (Some (None, 0%nat))
  end.

(* command and parameters: raw[i:] *)
Definition parse_event_rest (tags : wtags) (src : option wsource) (raw : str) (i : nat)
  : res (option wevent) :=
  rest <- slice_from raw i ;;
  match index_byte 32 rest with
  | None =>                                         (* j < i: command only *)
    Ok (Some (mkWEvent tags src (go_to_upper rest) []))
  | Some k =>
    let j := (i + k)%nat in
    cmd <- slice raw i j ;;
    let j := S j in
    tr <- trailer_loop (S (length raw)) raw j 0 ;;
    match tr with
    | None =>
      ps <- slice_from raw j ;;
      Ok (Some (mkWEvent tags src (go_to_upper cmd) (split_params ps)))
    | Some i0 =>
      let i := (j + i0)%nat in
      mids <- (if Nat.ltb j i then
                 (if Nat.eqb i 0 then Panic else
                  m <- slice raw j (i - 1) ;; Ok (split_params m))
               else Ok []) ;;
      last <- slice_from raw (i + 1) ;;
      Ok (Some (mkWEvent tags src (go_to_upper cmd) (mids ++ [last])))
    end
  end.

(* everything after the optional tags: raw is the remaining line *)
Definition parse_event_body (tags : wtags) (raw : str) : res (option wevent) :=
  pre <- parse_event_prefix raw ;;
  match pre with
  | None => Ok None
  | Some (src, i) => parse_event_rest tags src raw i
  end.

(* ParseEvent: Ok None is the nil result *)
Definition parse_event (raw0 : str) : res (option wevent) :=
  let raw := trim_crlf raw0 in
  if Nat.ltb (length raw) 2 then Ok None
  else
    c0 <- at_ raw 0 ;;
    if c0 =? 64 then
      match index_byte 32 raw with
      | Some i =>
        if Nat.ltb i 2 then Ok None
        else
          ts <- slice raw 1 i ;;
          m <- parse_tags ts ;;
          rest <- slice_from raw (i + 1) ;;
          parse_event_body (Some m) rest
      | None => Ok None                               (* i = -1 < 2 *)
      end
    else parse_event_body None raw.

(* what ParseEvent hands to time.Parse(capServerTimeFormat, .): Tags.Get("time") *)
Definition tag_time : str := Eval vm_compute in bs "time".
Definition server_time_raw (e : wevent) : option str := tags_get (we_tags e) tag_time.

(* The timestamp ParseEvent assigns.  time.Parse(capServerTimeFormat, .) is not modelled:
   it is a parameter (together with its result type).  FromServer t: the parsed server
   time; LocalNow: time.Now() at the moment of the call. *)
Section Timestamp.
  Variable T : Type.
  Variable parse_time : str -> option T.

  Inductive wstamp : Type := FromServer (t : T) | LocalNow.

  Definition event_timestamp (e : wevent) : wstamp :=
    match server_time_raw e with
    | Some v => match parse_time v with Some t => FromServer t | None => LocalNow end
    | None => LocalNow
    end.
End Timestamp.
Arguments FromServer {T} _.
Arguments LocalNow {T}.
Arguments event_timestamp {T} _ _.
