(* impl-model of the flood limiter of conn.go, as the code is NOW (after the repair "the
   flood limiter credits elapsed time only once").  Times and durations are nanoseconds in
   Z (time.Duration is an int64 of nanoseconds; the model has no overflow: see
   conf/C16.json, assumptions).

     func (c *ircConn) rate(chars int) time.Duration {
         _time := time.Second + ((time.Duration(chars) * time.Second) / 100)
         now := time.Now()
         since := c.lastWrite
         if c.lastRate.After(since) { since = c.lastRate }
         c.lastRate = now
         if c.writeDelay += _time - now.Sub(since); c.writeDelay < 0 {
             c.writeDelay = 0
         }
         if c.writeDelay > (8 * time.Second) { return _time }
         return 0
     }

     func (c *Client) Send(event *Event) {                 // conn.go
         var delay time.Duration
         ...
         for _, e := range event.split(c.MaxEventLength()) {
             if !c.Config.AllowFlood {
                 ... c.conn.mu.Lock(); delay = c.conn.rate(e.Len()); c.conn.mu.Unlock() ...
             }
             <-time.After(delay)
             c.write(e)                                    // c.tx <- e   (buffered, 25)
         }
     }
     func (cmd *Commands) Ping(id) { cmd.c.write(PING id) }   // commands.go: no rate()
     func (cmd *Commands) Pong(id) { cmd.c.write(PONG id) }

     sendLoop:  event := <-c.tx;  c.conn.lastWrite = time.Now();  socket write

   `rate` never touches lastWrite: it is stamped by sendLoop only, asynchronously to the
   goroutines that call Send; lastRate is what keeps a stretch of time from being forgiven
   twice when several rate calls see the same lastWrite.  The machine below keeps that
   asynchrony: rate calls, enqueues and sendLoop deliveries are separate actions that a
   schedule interleaves.  (The arithmetic before the repair, and the schedule on which it
   failed, are kept in Spec/RateBeforeRepair.v.) *)
Require Import Bytes.
Open Scope Z_scope.

Definition second : Z := 1000000000.
Definition threshold : Z := 8 * second.                       (* 8 * time.Second *)

(* _time: Go's `/` on int64 truncates toward zero = Z.quot *)
Definition cost (chars : Z) : Z := second + Z.quot (chars * second) 100.

(* the three fields of ircConn the limiter reads and writes *)
Record rstate : Type := mkR { wd : Z ; last : Z ; lastr : Z }.   (* writeDelay, lastWrite, lastRate *)

(* the arithmetic on durations: accumulated delay, time forgiven, size -> new accumulated
   delay and returned delay *)
Definition rate_core (w elapsed chars : Z) : Z * Z :=
  let t := cost chars in
  let w1 := w + (t - elapsed) in                              (* += _time - now.Sub(since) *)
  let w' := if w1 <? 0 then 0 else w1 in
  (w', if threshold <? w' then t else 0).

(* one call of ircConn.rate at clock reading `now`: new state and returned delay *)
Definition rate (s : rstate) (now chars : Z) : rstate * Z :=
  let since := if last s <? lastr s then lastr s else last s in   (* lastRate.After(lastWrite) *)
  let '(w', d) := rate_core (wd s) (now - since) chars in
  (mkR w' (last s) now, d).

(* ---- a call sequence against arbitrary clock readings -------------------------------- *)
(* Each call is (elapsed, chars): elapsed = now.Sub(since) as this call computes it,
   whatever sendLoop and other callers did in between.  Returns the final writeDelay and
   the delays. *)
Definition rate_el (w : Z) (c : Z * Z) : Z * Z := rate_core w (fst c) (snd c).

Fixpoint run (w : Z) (calls : list (Z * Z)) : Z * list Z :=
  match calls with
  | [] => (w, [])
  | c :: cs =>
      let '(w1, d) := rate_el w c in
      let '(w2, ds) := run w1 cs in (w2, d :: ds)
  end.

(* ---- one sender, every event stamped by sendLoop before the next Send ----------------- *)
(* A step is (gap, chars, slack): the sender calls rate `gap` after the previous event was
   stamped, sleeps the returned delay plus `slack` (time.After never fires early; write and
   sendLoop take some time), and the event is stamped then.  Output: per event
   (send time, delay, stamp time). *)
Fixpoint run_sync (s : rstate) (steps : list (Z * Z * Z)) : rstate * list (Z * Z * Z) :=
  match steps with
  | [] => (s, [])
  | (gap, chars, slack) :: rest =>
      let now := last s + gap in
      let '(s1, d) := rate s now chars in
      let w := now + d + slack in
      let '(s2, out) := run_sync (mkR (wd s1) w (lastr s1)) rest in
      (s2, (now, d, w) :: out)
  end.

(* ---- the client as a machine: senders, queue, send loop ------------------------------- *)
Record event : Type := mkE { ev_g : N ; ev_id : N ; ev_len : Z }.   (* sender, serial, e.Len() *)

Record sys : Type := mkS {
  rs : rstate ;
  tx : list event ;                  (* c.tx, head = oldest *)
  wire : list (Z * event)            (* socket, newest first: (stamp, event) *)
}.

Inductive action : Type :=
| ARate (now : Z) (e : event)        (* Send, AllowFlood off: delay = c.conn.rate(e.Len()) *)
| AEnq (e : event)                   (* Client.write: c.tx <- e *)
| ADeliver (now : Z).                (* sendLoop: e := <-c.tx; lastWrite = now; write e *)

(* one action; the output is the delay returned to the sender (rate calls only) *)
Definition step (s : sys) (a : action) : sys * option Z :=
  match a with
  | ARate now e =>
      let '(r, d) := rate (rs s) now (ev_len e) in (mkS r (tx s) (wire s), Some d)
  | AEnq e => (mkS (rs s) (tx s ++ [e]) (wire s), None)
  | ADeliver now =>
      match tx s with
      | [] => (s, None)
      | e :: q => (mkS (mkR (wd (rs s)) now (lastr (rs s))) q ((now, e) :: wire s), None)
      end
  end.

Fixpoint exec (s : sys) (acts : list action) : sys * list Z :=
  match acts with
  | [] => (s, [])
  | a :: rest =>
      let '(s1, o) := step s a in
      let '(s2, ds) := exec s1 rest in
      (s2, match o with Some d => d :: ds | None => ds end)
  end.

(* what the entry points contribute to a schedule (sleeping = where the scheduler puts the
   AEnq relative to other actions) *)
Definition send_piece (allow_flood : bool) (now : Z) (e : event) : list action :=
  if allow_flood then [AEnq e] else [ARate now e; AEnq e].
Definition ping_actions (e : event) : list action := [AEnq e].      (* Cmd.Ping, pingLoop *)
Definition pong_actions (e : event) : list action := [AEnq e].      (* Cmd.Pong, handlePING *)

(* Send by a lone sender whose pieces are each stamped at once (sendLoop runs right after
   the enqueue): for each split piece rate, wait, enqueue, deliver.  `t` is the clock when
   Send is entered; returns the state and the clock when Send returns. *)
Fixpoint send_flood (allow_flood : bool) (s : sys) (t : Z) (g : N) (id : N) (pieces : list Z)
  : sys * Z :=
  match pieces with
  | [] => (s, t)
  | len :: rest =>
      let e := mkE g id len in
      let '(s1, d) := if allow_flood then (s, 0)
                      else let '(r, d) := rate (rs s) t len in (mkS r (tx s) (wire s), d) in
      let t1 := t + d in
      let '(s2, _) := step s1 (AEnq e) in
      let '(s3, _) := step s2 (ADeliver t1) in
      send_flood allow_flood s3 t1 g (N.succ id) rest
  end.

Definition sys0 (r : rstate) : sys := mkS r [] [].
Definition events_of (g : N) (l : list event) : list event :=
  filter (fun e => N.eqb (ev_g e) g) l.
Definition wire_events (s : sys) : list event := rev (map snd (wire s)).

(* ---- one sender, any staleness of lastWrite ------------------------------------------ *)
(* A step is (wait, chars, elapsed): the sender calls rate `wait` after its previous Send
   returned, the call forgives `elapsed` (whatever max(lastWrite, lastRate) was), and Send
   returns after the delay.  `t` is the clock when the previous Send returned.  Output per
   event: (time of the rate call, delay). *)
Fixpoint run_one (w t : Z) (steps : list (Z * Z * Z)) : Z * Z * list (Z * Z) :=
  match steps with
  | [] => (w, t, [])
  | (wait, chars, el) :: rest =>
      let now := t + wait in
      let '(w1, d) := rate_core w el chars in
      let '(w2, t2, out) := run_one w1 (now + d) rest in
      (w2, t2, (now, d) :: out)
  end.

(* ---- every exported sender (commands.go, client.go) ---------------------------------- *)
(* Which internal path an exported sender hands its events to: Client.Send (the limited
   path: rate, sleep, write) or Client.write (straight to the queue).  One row per exported
   method of *Commands, plus Client.Send itself and Client.Quit.  Helpers that call other
   helpers (Messagef -> Message, Ban -> Mode, Reply -> Message, SendCTCP -> Message,
   SendRawf -> SendRaw, Away "" -> Back, ...) are listed with the path they end in.
   Config.GlobalFormat changes the text of PRIVMSG/NOTICE/TOPIC inside Send (before the
   split), never the path; Config.AllowFlood makes Send skip the rate call. *)
Inductive route : Type := ViaSend | ViaWrite.

Definition entry_points : list (str * route) :=
  [ (bs "Nick", ViaSend); (bs "Join", ViaSend); (bs "JoinKey", ViaSend); (bs "Part", ViaSend);
    (bs "PartMessage", ViaSend); (bs "SendCTCP", ViaSend); (bs "SendCTCPf", ViaSend);
    (bs "SendCTCPReplyf", ViaSend); (bs "SendCTCPReply", ViaSend); (bs "Message", ViaSend);
    (bs "Messagef", ViaSend); (bs "Reply", ViaSend); (bs "Replyf", ViaSend); (bs "ReplyTo", ViaSend);
    (bs "ReplyTof", ViaSend); (bs "Action", ViaSend); (bs "Actionf", ViaSend); (bs "Notice", ViaSend);
    (bs "Noticef", ViaSend); (bs "SendRaw", ViaSend); (bs "SendRawf", ViaSend); (bs "Topic", ViaSend);
    (bs "Who", ViaSend); (bs "Whois", ViaSend);
    (bs "Ping", ViaWrite); (bs "Pong", ViaWrite);
    (bs "Oper", ViaSend); (bs "Kick", ViaSend); (bs "Ban", ViaSend); (bs "Unban", ViaSend);
    (bs "Mode", ViaSend); (bs "Invite", ViaSend); (bs "Away", ViaSend); (bs "Back", ViaSend);
    (bs "List", ViaSend); (bs "Whowas", ViaSend); (bs "Monitor", ViaSend);
    (bs "Client.Send", ViaSend); (bs "Client.Quit", ViaSend) ].

Fixpoint lookup_route (name : str) (l : list (str * route)) : option route :=
  match l with
  | [] => None
  | (n, r) :: rest => if streqb n name then Some r else lookup_route name rest
  end.
Definition entry_route (name : str) : option route := lookup_route name entry_points.

(* what one event of that sender contributes to a schedule *)
Definition entry_actions (global_format allow_flood : bool) (r : route) (now : Z) (e : event) : list action :=
  match r with
  | ViaSend => send_piece allow_flood now e
  | ViaWrite => [AEnq e]
  end.
