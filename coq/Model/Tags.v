(* IRCv3 message tags: impl-model of cap_tags.go (ParseTags, Tags.Bytes/Len/Get/Set,
   validTag, validTagValue, tagEncoder, tagDecoder).  No proofs here.

   A Go `Tags` (map[string]string holding the WIRE form of each value) is
   `wtags := option tagmap`: None is the nil map, Some [] is Tags{}, Some m a non-empty
   map.  `tagmap` is an association list maintained with `aset`, so keys are unique in
   every map built by this file. *)
Require Import Bytes AMap.

Definition tagmap := amap str.
Definition wtags := option tagmap.

Definition max_tag_length : nat := 4094.

(* validTag *)
Definition tag_key_byte (b : N) : bool :=
  is_upper b || is_lower b || ((45 <=? b) && (b <=? 57)) || (b =? 95).

Definition valid_tag (name : str) : bool :=
  match name with
  | [] => false
  | c :: r =>
    let body := if (Nat.leb 2 (length name) && (c =? 43))%bool then r else name in
    forallb tag_key_byte body
  end.

(* validTagValue *)
Definition tag_value_byte (b : N) : bool := (33 <=? b) && (b <=? 126) && negb (b =? 59).
Definition valid_tag_value (v : str) : bool := forallb tag_value_byte v.

(* tagEncoder.Replace: single-byte olds, so a per-byte substitution *)
Definition tag_escape1 (b : N) : str :=
  if b =? 59 then [92; 58]            (* ;  -> \: *)
  else if b =? 32 then [92; 115]      (* SP -> \s *)
  else if b =? 92 then [92; 92]       (* \  -> \\ *)
  else if b =? 13 then [92; 114]      (* CR -> \r *)
  else if b =? 10 then [92; 110]      (* LF -> \n *)
  else [b].
Definition tag_escape (v : str) : str := flat_map tag_escape1 v.

(* tagDecoder.Replace: left-to-right scan for the five two-byte escapes, no rescanning;
   a backslash followed by anything else (or by nothing) is kept as it is *)
Definition tag_unescape1 (c : N) : option N :=
  if c =? 58 then Some 59
  else if c =? 115 then Some 32
  else if c =? 92 then Some 92
  else if c =? 114 then Some 13
  else if c =? 110 then Some 10
  else None.

Fixpoint tag_unescape (s : str) : str :=
  match s with
  | [] => []
  | b :: r =>
    if b =? 92 then
      match r with
      | c :: r' =>
        match tag_unescape1 c with
        | Some d => d :: tag_unescape r'
        | None => b :: tag_unescape r
        end
      | [] => [b]
      end
    else b :: tag_unescape r
  end.

(* body of the loop of ParseTags for one ';'-separated part *)
Definition parse_tag_part (t : tagmap) (part : str) : res tagmap :=
  match index_byte 61 part with
  | Some (S h) =>                                     (* hasValue >= 1 *)
    let hv := S h in
    if Nat.ltb (length part) (hv + 1) then            (* never true; kept as in the Go *)
      (if valid_tag part then Ok (aset part [] t) else Ok t)
    else
      k <- slice_to part hv ;;
      v <- slice_from part (hv + 1) ;;
      Ok (aset k v t)                                 (* key NOT validated (as in the Go) *)
  | _ =>                                              (* no '=' or '=' first *)
    if valid_tag part then Ok (aset part [] t) else Ok t
  end.

Fixpoint parse_tag_parts (t : tagmap) (parts : list str) : res tagmap :=
  match parts with
  | [] => Ok t
  | p :: r => t' <- parse_tag_part t p ;; parse_tag_parts t' r
  end.

(* ParseTags *)
Definition parse_tags (raw : str) : res tagmap :=
  raw1 <- match raw with
          | c :: _ => if c =? 64 then slice_from raw 1 else Ok raw
          | [] => Ok raw
          end ;;
  parse_tag_parts [] (split_byte 59 raw1).

(* Tags.Bytes: the loop over the sorted names; [current] counts written tags *)
Fixpoint tags_bytes_loop (m : tagmap) (max : nat) (names : list str) (current : nat) (buf : str) : str :=
  match names with
  | [] => buf
  | name :: rest =>
    let v := match alookup name m with Some v => v | None => [] end in
    let more := Nat.ltb current (max - 1) in
    let size := (length name + (if Nat.ltb 0 (length v) then 1 + length v else 0)
                 + (if more then 1 else 0))%nat in
    if Nat.ltb max_tag_length (length buf + size) then buf
    else
      tags_bytes_loop m max rest (S current)
        (buf ++ name ++ (if Nat.ltb 0 (length v) then 61 :: v else []) ++ (if more then [59] else []))
  end.

Definition tagmap_bytes (m : tagmap) : str :=
  match m with
  | [] => []
  | _ => tags_bytes_loop m (length m) (sort_strs (akeys m)) 0 [64]
  end.

Definition tags_bytes (t : wtags) : str :=
  match t with None => [] | Some m => tagmap_bytes m end.

(* Tags.Len *)
Definition tags_len (t : wtags) : nat := length (tags_bytes t).

(* Tags.Count / len(t) *)
Definition tags_count (t : wtags) : nat := match t with None => 0 | Some m => length m end.

(* Tags.writeTo: the bytes and a SPACE, nothing at all when Bytes() is empty *)
Definition tags_write (t : wtags) : str :=
  match tags_bytes t with [] => [] | b => b ++ [32] end.

(* Tags.Get: unescapes the stored wire form *)
Definition tags_get (t : wtags) (key : str) : option str :=
  match t with
  | None => None
  | Some m => option_map tag_unescape (alookup key m)
  end.

(* Tags.Set.  None: an error is returned and the map is unchanged.  Some t': nil error and
   t' is the map the caller holds afterwards.  A nil receiver is an error (a value-receiver
   method cannot allocate the map for the caller; repaired in 637a0fa). *)
Definition tags_set (t : wtags) (key value : str) : option wtags :=
  match t with
  | None => None
  | Some m =>
    if negb (valid_tag key) then None
    else
      let v := tag_escape value in
      if (Nat.ltb 0 (length v) && negb (valid_tag_value v))%bool then None
      else
        if Nat.ltb max_tag_length (length (tagmap_bytes m) + length key + length v + 2) then None
        else Some (Some (aset key v m))
  end.

(* Tags.Remove *)
Definition tags_remove (t : wtags) (key : str) : wtags * bool :=
  match t with
  | None => (None, false)
  | Some m => if amem key m then (Some (aremove key m), true) else (Some m, false)
  end.
