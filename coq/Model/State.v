(* impl-model of the tracked state: state.go (state, User, Channel and their mutators),
   modes.go (CModes, Perms, parseUserPrefix, handleMODE), the state-changing internal
   handlers of builtin.go, cap.go (CHGHOST/AWAY/ACCOUNT) and cap_tags.go (handleTags).
   Go maps are association lists (Lib/AMap.v); a nil map entry dereference is Panic.
   Time stamps (FirstSeen, LastActive, Joined) are not modelled. No proofs here. *)
Require Import Bytes AMap Names.

(* ---------- records ---------- *)

Record perms := mkPerms { p_owner : bool; p_admin : bool; p_op : bool; p_halfop : bool; p_voice : bool }.
Definition perms0 : perms := mkPerms false false false false false.

Record cmode := mkCMode { m_add : bool; m_name : N; m_setting : bool; m_args : str }.

Record cmodes := mkCModes {
  cm_raw : str; cm_list : str; cm_args : str; cm_setargs : str; cm_noargs : str;
  cm_prefixes : str; cm_modes : list cmode }.

Record user := mkUser {
  u_nick : str; u_ident : str; u_host : str;
  u_chans : list str;                 (* ChannelList: folded names, sorted *)
  u_perms : amap perms;               (* Perms.channels keyed by folded channel name *)
  u_name : str; u_account : str; u_away : str }.

Record channel := mkChannel {
  c_name : str; c_topic : str;
  c_users : list str;                 (* UserList: folded nicks, sorted *)
  c_modes : cmodes }.

Record state := mkState {
  st_nick : str; st_ident : str; st_host : str;
  st_channels : amap channel;         (* keyed by folded name *)
  st_users : amap user;               (* keyed by folded nick *)
  st_opts : amap str;                 (* serverOptions *)
  st_maxline : Z; st_maxprefix : Z;
  st_motd : str }.

Record config := mkConfig { cfg_nick : str; cfg_user : str }.

Definition default_max_line : Z := 510.
Definition default_max_prefix : Z := 4 + 30 + 18 + 63.

Definition state_init : state :=
  mkState [] [] [] [] [] [] default_max_line default_max_prefix [].

(* an incoming event after parsing *)
Record source := mkSource { s_name : str; s_ident : str; s_host : str }.
Record event := mkEvent {
  e_src : option source;
  e_account_tag : option str;         (* Tags.Get("account") when len(Tags) > 0 and present *)
  e_cmd : str;
  e_params : list str }.

(* what a handler asks the client to send *)
Inductive out := OutSend (cmd : str) (params : list str).

(* ---------- field updates ---------- *)

Definition set_channels (s : state) (m : amap channel) : state :=
  mkState (st_nick s) (st_ident s) (st_host s) m (st_users s) (st_opts s) (st_maxline s) (st_maxprefix s) (st_motd s).
Definition set_users (s : state) (m : amap user) : state :=
  mkState (st_nick s) (st_ident s) (st_host s) (st_channels s) m (st_opts s) (st_maxline s) (st_maxprefix s) (st_motd s).
Definition set_nick (s : state) (n : str) : state :=
  mkState n (st_ident s) (st_host s) (st_channels s) (st_users s) (st_opts s) (st_maxline s) (st_maxprefix s) (st_motd s).
Definition set_ident_host (s : state) (i h : str) : state :=
  mkState (st_nick s) i h (st_channels s) (st_users s) (st_opts s) (st_maxline s) (st_maxprefix s) (st_motd s).
Definition set_opts (s : state) (m : amap str) : state :=
  mkState (st_nick s) (st_ident s) (st_host s) (st_channels s) (st_users s) m (st_maxline s) (st_maxprefix s) (st_motd s).
Definition set_maxline (s : state) (z : Z) : state :=
  mkState (st_nick s) (st_ident s) (st_host s) (st_channels s) (st_users s) (st_opts s) z (st_maxprefix s) (st_motd s).
Definition set_maxprefix (s : state) (z : Z) : state :=
  mkState (st_nick s) (st_ident s) (st_host s) (st_channels s) (st_users s) (st_opts s) (st_maxline s) z (st_motd s).
Definition set_motd (s : state) (m : str) : state :=
  mkState (st_nick s) (st_ident s) (st_host s) (st_channels s) (st_users s) (st_opts s) (st_maxline s) (st_maxprefix s) m.

Definition u_set_chans (u : user) (l : list str) : user :=
  mkUser (u_nick u) (u_ident u) (u_host u) l (u_perms u) (u_name u) (u_account u) (u_away u).
Definition u_set_perms (u : user) (p : amap perms) : user :=
  mkUser (u_nick u) (u_ident u) (u_host u) (u_chans u) p (u_name u) (u_account u) (u_away u).
Definition u_set_nick (u : user) (n : str) : user :=
  mkUser n (u_ident u) (u_host u) (u_chans u) (u_perms u) (u_name u) (u_account u) (u_away u).
Definition u_set_ident_host (u : user) (i h : str) : user :=
  mkUser (u_nick u) i h (u_chans u) (u_perms u) (u_name u) (u_account u) (u_away u).
Definition u_set_name (u : user) (n : str) : user :=
  mkUser (u_nick u) (u_ident u) (u_host u) (u_chans u) (u_perms u) n (u_account u) (u_away u).
Definition u_set_account (u : user) (a : str) : user :=
  mkUser (u_nick u) (u_ident u) (u_host u) (u_chans u) (u_perms u) (u_name u) a (u_away u).
Definition u_set_away (u : user) (a : str) : user :=
  mkUser (u_nick u) (u_ident u) (u_host u) (u_chans u) (u_perms u) (u_name u) (u_account u) a.

Definition c_set_users (c : channel) (l : list str) : channel :=
  mkChannel (c_name c) (c_topic c) l (c_modes c).
Definition c_set_topic (c : channel) (t : str) : channel :=
  mkChannel (c_name c) t (c_users c) (c_modes c).
Definition c_set_modes (c : channel) (m : cmodes) : channel :=
  mkChannel (c_name c) (c_topic c) (c_users c) m.
Definition cm_set_modes (c : cmodes) (l : list cmode) : cmodes :=
  mkCModes (cm_raw c) (cm_list c) (cm_args c) (cm_setargs c) (cm_noargs c) (cm_prefixes c) l.

(* ---------- getters used by handlers ---------- *)

Definition fold := to_rfc1459.

Definition get_nick (cfg : config) (s : state) : str :=
  match st_nick s with [] => cfg_nick cfg | n => n end.
Definition get_id (cfg : config) (s : state) : str := fold (get_nick cfg s).

Definition lookup_channel (s : state) (name : str) : option channel := alookup (fold name) (st_channels s).
Definition lookup_user (s : state) (name : str) : option user := alookup (fold name) (st_users s).

Definition last_param (e : event) : str := last (e_params e) [].
Definition param (e : event) (i : nat) : str := nth i (e_params e) [].   (* used only under a length guard *)

(* ---------- modes.go ---------- *)

Definition mode_defaults : str := Eval vm_compute in bs "beI,k,l,imnpst".
Definition default_prefixes : str := Eval vm_compute in bs "(ov)@+".

Definition is_valid_channel_mode (raw : str) : bool :=
  match raw with
  | [] => false
  | _ => forallb (fun b => (b =? 44) || is_upper b || is_lower b) raw
  end.

(* isValidUserPrefix: "(" keys ")" reps with |keys| = |reps|; every ')' toggles to reps and is not counted *)
Fixpoint count_prefix (raw : str) (passed : bool) (keys reps : nat) : nat * nat :=
  match raw with
  | [] => (keys, reps)
  | b :: r =>
      if b =? 41 then count_prefix r true keys reps
      else if passed then count_prefix r passed keys (S reps)
      else count_prefix r passed (S keys) reps
  end.
Definition is_valid_user_prefix (raw : str) : bool :=
  match raw with
  | 40 :: r => let '(k, p) := count_prefix r false 0 0 in Nat.eqb k p
  | _ => false
  end.

(* parsePrefixes: (modes, prefixes) = (raw[1:i], raw[i+1:]) with i the first ')' *)
Definition parse_prefixes (raw : str) : str * str :=
  if negb (is_valid_user_prefix raw) then ([], []) else
  match index_byte 41 raw with
  | Some i => if Nat.ltb i 1 then ([], []) else (firstn (i - 1) (skipn 1 raw), skipn (i + 1) raw)
  | None => ([], [])
  end.

Definition opt_CHANMODES : str := Eval vm_compute in bs "CHANMODES".
Definition opt_PREFIX : str := Eval vm_compute in bs "PREFIX".

Definition chan_modes (s : state) : str :=
  match alookup opt_CHANMODES (st_opts s) with
  | Some m => if is_valid_channel_mode m then m else mode_defaults
  | None => mode_defaults
  end.
Definition user_prefixes (s : state) : str :=
  match alookup opt_PREFIX (st_opts s) with
  | Some p => if is_valid_user_prefix p then p else default_prefixes
  | None => default_prefixes
  end.

(* strings.SplitN(s, ",", 4) padded with "" to 4 entries *)
Fixpoint splitn_comma (n : nat) (s : str) (cur : str) : list str :=
  match s with
  | [] => [rev cur]
  | b :: r =>
      match n with
      | O => [rev cur ++ s]
      | S n' => if b =? 44 then rev cur :: splitn_comma n' r [] else splitn_comma n r (b :: cur)
      end
  end.
Definition new_cmodes (channel_modes user_prefix_modes : str) : cmodes :=
  let sp := splitn_comma 3 channel_modes [] in
  mkCModes channel_modes (nth 0 sp []) (nth 1 sp []) (nth 2 sp []) (nth 3 sp []) user_prefix_modes [].

(* hasArg: (hasArgs, isSetting) *)
Definition has_arg (c : cmodes) (set : bool) (mode : N) : bool * bool :=
  match cm_raw c with
  | [] => (false, true)
  | _ =>
    if memb mode (cm_list c) then (true, false)
    else if memb mode (cm_args c) then (true, true)
    else if memb mode (cm_setargs c) then (if set then (true, true) else (false, true))
    else if memb mode (cm_prefixes c) then (true, false)
    else (false, true)
  end.

(* Parse(flags, args) *)
Fixpoint parse_modes (c : cmodes) (flags : str) (args : list str) (add : bool) : list cmode :=
  match flags with
  | [] => []
  | f :: r =>
      if f =? 43 then parse_modes c r args true
      else if f =? 45 then parse_modes c r args false
      else
        let '(hasargs, setting) := has_arg c add f in
        match (if hasargs then args else []) with
        | a :: args' => mkCMode add f setting a :: parse_modes c r args' add
        | [] => mkCMode add f setting [] :: parse_modes c r args add
        end
  end.

(* Apply: fold the changes in order: +x stores/replaces, -x removes (settings only) *)
Fixpoint replace_mode (m : cmode) (l : list cmode) : option (list cmode) :=
  match l with
  | [] => None
  | x :: r =>
      if m_name x =? m_name m then Some (m :: r)
      else option_map (cons x) (replace_mode m r)
  end.
Fixpoint remove_mode (name : N) (l : list cmode) : list cmode :=
  match l with
  | [] => []
  | x :: r => if m_name x =? name then r else x :: remove_mode name r
  end.
Definition apply_one (l : list cmode) (m : cmode) : list cmode :=
  if negb (m_setting m) then l
  else if m_add m then
    match replace_mode m l with Some l' => l' | None => l ++ [m] end
  else remove_mode (m_name m) l.
Definition apply_modes (c : cmodes) (ms : list cmode) : cmodes :=
  cm_set_modes c (fold_left apply_one ms (cm_modes c)).

(* has_mode / mode_get take the mode as the byte stored, i.e. HasMode(string(rune(name))) /
   Get(string(rune(name))); the string-keyed API is has_mode_str / mode_get_str at the end. *)
Definition has_mode (c : cmodes) (name : N) : bool := existsb (fun m => m_name m =? name) (cm_modes c).
Fixpoint mode_get (l : list cmode) (name : N) : option str :=
  match l with
  | [] => None
  | m :: r => if m_name m =? name then (match m_args m with [] => None | a => Some a end) else mode_get r name
  end.
(* Go's string(b) for a byte b is the UTF-8 encoding of the code point b (not the byte):
   two bytes for b >= 0x80.  CModes.String, HasMode and Get all go through it. *)
Definition byte_as_rune (b : N) : str :=
  if b <? 128 then [b] else [192 + b / 64; 128 + b mod 64].
(* CModes.String(): "+" names, then " " arg for every non-empty arg *)
Definition modes_string (c : cmodes) : str :=
  match cm_modes c with
  | [] => []
  | l => 43 :: flat_map (fun m => byte_as_rune (m_name m)) l ++ flat_map (fun m => match m_args m with [] => [] | a => 32 :: a end) l
  end.

(* Perms *)
Definition perms_set_prefix (p : perms) (pre : str) : perms :=   (* Perms.set(prefix, add=true) *)
  fold_left (fun p b =>
    if b =? 126 then mkPerms true (p_admin p) (p_op p) (p_halfop p) (p_voice p)        (* ~ *)
    else if b =? 38 then mkPerms (p_owner p) true (p_op p) (p_halfop p) (p_voice p)   (* & *)
    else if b =? 64 then mkPerms (p_owner p) (p_admin p) true (p_halfop p) (p_voice p) (* @ *)
    else if b =? 37 then mkPerms (p_owner p) (p_admin p) (p_op p) true (p_voice p)    (* % *)
    else if b =? 43 then mkPerms (p_owner p) (p_admin p) (p_op p) (p_halfop p) true   (* + *)
    else p) pre p.
Definition perms_set_from_mode (p : perms) (m : cmode) : perms :=
  let a := m_add m in let n := m_name m in
  if n =? 113 then mkPerms a (p_admin p) (p_op p) (p_halfop p) (p_voice p)            (* q *)
  else if n =? 97 then mkPerms (p_owner p) a (p_op p) (p_halfop p) (p_voice p)        (* a *)
  else if n =? 111 then mkPerms (p_owner p) (p_admin p) a (p_halfop p) (p_voice p)    (* o *)
  else if n =? 104 then mkPerms (p_owner p) (p_admin p) (p_op p) a (p_voice p)        (* h *)
  else if n =? 118 then mkPerms (p_owner p) (p_admin p) (p_op p) (p_halfop p) a       (* v *)
  else p.

Definition is_prefix_char (b : N) : bool :=
  (b =? 126) || (b =? 38) || (b =? 37) || (b =? 64) || (b =? 43).
(* parseUserPrefix: leading prefix characters, then the nick; fails when nothing follows *)
Fixpoint parse_user_prefix (raw : str) (acc : str) : option (str * str) :=
  match raw with
  | [] => None
  | b :: r => if is_prefix_char b then parse_user_prefix r (acc ++ [b]) else Some (acc, raw)
  end.

Definition perms_lookup (u : user) (chan : str) : perms :=
  match alookup (fold chan) (u_perms u) with Some p => p | None => perms0 end.

(* ---------- state.go: User / Channel ---------- *)

Definition user_in_channel (u : user) (name : str) : bool := mem_str (fold name) (u_chans u).
Definition channel_user_in (c : channel) (nick : str) : bool := mem_str (fold nick) (c_users c).

Definition user_add_channel (u : user) (name : str) : user :=
  if user_in_channel u name then u
  else u_set_perms (u_set_chans u (sort_strs (u_chans u ++ [fold name]))) (aset (fold name) perms0 (u_perms u)).
Definition user_delete_channel (u : user) (name : str) : user :=
  u_set_perms (u_set_chans u (remove_first (fold name) (u_chans u))) (aremove (fold name) (u_perms u)).
Definition channel_add_user (c : channel) (nick : str) : channel :=
  if channel_user_in c nick then c else c_set_users c (sort_strs (c_users c ++ [fold nick])).
Definition channel_delete_user (c : channel) (nick : str) : channel :=
  c_set_users c (remove_first (fold nick) (c_users c)).

(* ---------- state.go: state ---------- *)

Definition create_channel (s : state) (name : str) : state :=
  match alookup (fold name) (st_channels s) with
  | Some _ => s
  | None =>
      let prefixes := fst (parse_prefixes (user_prefixes s)) in
      set_channels s (aset (fold name) (mkChannel name [] [] (new_cmodes (chan_modes s) prefixes)) (st_channels s))
  end.

Definition create_user (s : state) (src : source) : state :=
  let k := fold (s_name src) in
  match alookup k (st_users s) with
  | Some _ => s
  | None => set_users s (aset k (mkUser (s_name src) (s_ident src) (s_host src) [] [] [] [] []) (st_users s))
  end.

(* deleteChannel: s.users[user] of a listed nick must exist (nil dereference otherwise) *)
Fixpoint delete_channel_users (users : amap user) (name : str) (l : list str) : res (amap user) :=
  match l with
  | [] => Ok users
  | n :: r =>
      match alookup n users with
      | None => Panic
      | Some u =>
          let u' := user_delete_channel u name in
          let users' := match u_chans u' with [] => aremove n users | _ => aset n u' users end in
          delete_channel_users users' name r
      end
  end.
Definition delete_channel (s : state) (name : str) : res state :=
  let k := fold name in
  match alookup k (st_channels s) with
  | None => Ok s
  | Some c =>
      users' <- delete_channel_users (st_users s) k (c_users c) ;;
      Ok (set_channels (set_users s users') (aremove k (st_channels s)))
  end.

(* deleteUser(channelName, nick) *)
Fixpoint delete_user_everywhere (chans : amap channel) (nick : str) (l : list str) : res (amap channel) :=
  match l with
  | [] => Ok chans
  | cn :: r =>
      match alookup cn chans with
      | None => Panic
      | Some c => delete_user_everywhere (aset cn (channel_delete_user c nick) chans) nick r
      end
  end.
Definition delete_user (s : state) (channel_name nick : str) : res state :=
  match lookup_user s nick with
  | None => Ok s
  | Some u =>
      match channel_name with
      | [] =>
          chans' <- delete_user_everywhere (st_channels s) nick (u_chans u) ;;
          Ok (set_users (set_channels s chans') (aremove (fold nick) (st_users s)))
      | _ =>
          match lookup_channel s channel_name with
          | None => Ok s
          | Some c =>
              let u' := user_delete_channel u channel_name in
              let c' := channel_delete_user c nick in
              let s1 := set_channels s (aset (fold channel_name) c' (st_channels s)) in
              Ok (match u_chans u' with
                  | [] => set_users s1 (aremove (fold nick) (st_users s1))
                  | _ => set_users s1 (aset (fold nick) u' (st_users s1))
                  end)
          end
      end
  end.

(* renameUser(from, to) *)
Fixpoint rename_in_channels (chans : amap channel) (from to_folded : str) (l : list str) : res (amap channel) :=
  match l with
  | [] => Ok chans
  | cn :: r =>
      match alookup cn chans with
      | None => Panic
      | Some c =>
          let ul := if mem_str from (c_users c) then sort_strs (replace_first from to_folded (c_users c)) else c_users c in
          rename_in_channels (aset cn (c_set_users c ul) chans) from to_folded r
      end
  end.
Definition rename_user (s : state) (from to : str) : res state :=
  let from := fold from in
  let s := if streqb from (fold (st_nick s)) then set_nick s to else s in
  match alookup from (st_users s) with
  | None => Ok s
  | Some u =>
      s1 <- (if streqb (fold to) from then Ok s else delete_user s [] to) ;;
      let u' := u_set_nick u to in
      let users' := aset (fold to) u' (aremove from (st_users s1)) in
      chans' <- rename_in_channels (st_channels s1) from (fold to) (u_chans u) ;;
      Ok (set_channels (set_users s1 users') chans')
  end.

(* ---------- handlers ---------- *)

Definition cmd_is (e : event) (c : string) : bool := streqb (e_cmd e) (bs c).
Definition who_fields : str := Eval vm_compute in bs "%tacuhnr,1".
Definition s_WHO : str := Eval vm_compute in bs "WHO".
Definition s_MODE : str := Eval vm_compute in bs "MODE".
Definition s_PONG : str := Eval vm_compute in bs "PONG".

Definition update_user (s : state) (name : str) (f : user -> user) : state :=
  match lookup_user s name with
  | None => s
  | Some u => set_users s (aset (fold name) (f u) (st_users s))
  end.

Definition handle_tags (s : state) (e : event) : state :=
  match e_src e, e_account_tag e with
  | Some src, Some acct => update_user s (s_name src) (fun u => u_set_account u acct)
  | _, _ => s
  end.

Definition handle_connect (s : state) (e : event) : state :=
  match e_params e with
  | p0 :: _ => set_nick s p0
  | [] => s
  end.

Definition str_nonempty (x : str) : bool := match x with [] => false | _ => true end.

Definition handle_join (cfg : config) (s : state) (e : event) : res (state * list out) :=
  match e_src e, e_params e with
  | Some src, chan_name :: rest =>
      let s1 := create_channel s chan_name in
      (* a user already tracked (e.g. from NAMES) takes ident and host from the JOIN prefix
         when either is non-empty; a new one is created from the prefix *)
      let existed := match lookup_user s1 (s_name src) with Some _ => true | None => false end in
      let s2 := create_user s1 src in
      match lookup_channel s2 chan_name, lookup_user s2 (s_name src) with
      | Some c, Some u_found =>
          let u := if existed && (str_nonempty (s_ident src) || str_nonempty (s_host src))
                   then u_set_ident_host u_found (s_ident src) (s_host src) else u_found in
          let c' := channel_add_user c (u_nick u) in
          let u0 := user_add_channel u (c_name c) in
          (* account-tag: handleTags ran before the user existed *)
          let u1 := match e_account_tag e with Some a => u_set_account u0 a | None => u0 end in
          let u2 := match rest with
                    | acct :: rest2 =>
                        (* extended-join: "*" means not logged in *)
                        let ua := if streqb acct [42] then u_set_account u1 [] else u_set_account u1 acct in
                        match rest2 with name :: _ => u_set_name ua name | [] => ua end
                    | [] => u1
                    end in
          let s3 := set_users (set_channels s2 (aset (fold chan_name) c' (st_channels s2)))
                              (aset (fold (s_name src)) u2 (st_users s2)) in
          if streqb (fold (s_name src)) (get_id cfg s3) then
            Ok (set_ident_host s3 (s_ident src) (s_host src),
                [OutSend s_WHO [chan_name; who_fields]; OutSend s_MODE [chan_name]])
          else Ok (s3, [OutSend s_WHO [s_name src; who_fields]])
      | _, _ => Panic    (* unreachable: both were just created *)
      end
  | _, _ => Ok (s, [])
  end.

Definition handle_part (cfg : config) (s : state) (e : event) : res state :=
  match e_src e, e_params e with
  | Some src, chan_name :: _ =>
      match chan_name with
      | [] => Ok s
      | _ => if streqb (fold (s_name src)) (get_id cfg s) then delete_channel s chan_name
             else delete_user s chan_name (fold (s_name src))
      end
  | _, _ => Ok s
  end.

Definition handle_topic (s : state) (e : event) : state :=
  let go name topic :=
    match lookup_channel s name with
    | None => s
    | Some c => set_channels s (aset (fold name) (c_set_topic c topic) (st_channels s))
    end in
  match e_params e with
  | [] => s
  | [name] => go name []
  | [name; topic] => go name topic
  | _ :: name :: _ => go name (last_param e)
  end.

(* the hop-count strip of handleWHO, as written (note `i > 0x39` on the index) *)
Fixpoint trim_left_spaces (s : str) : str :=
  match s with 32 :: r => trim_left_spaces r | _ => s end.
Fixpoint who_strip (s : str) (i : nat) : str :=
  match s with
  | [] => []                                   (* only "digits": realname = "" *)
  | b :: r => if (b <? 48) || Nat.ltb 57 i then trim_left_spaces r else who_strip r (S i)
  end.

Definition handle_who (s : state) (e : event) : state :=
  let ps := e_params e in
  if cmd_is e "354" then
    if negb (Nat.eqb (length ps) 8) then s
    else if negb (streqb (param e 1) [49]) then s
    else
      let acct := param e 6 in
      let acct := if streqb acct [48] then [] else acct in
      update_user s (param e 5) (fun u =>
        u_set_account (u_set_name (u_set_ident_host u (param e 3) (param e 4)) (last_param e)) acct)
  else
    if Nat.ltb (length ps) 7 then s
    else update_user s (param e 5) (fun u =>
        u_set_name (u_set_ident_host u (param e 2) (param e 3)) (who_strip (last_param e) 0)).

Definition handle_kick (cfg : config) (s : state) (e : event) : res state :=
  match e_params e with
  | chan_name :: nick :: _ =>
      if streqb (fold nick) (get_id cfg s) then delete_channel s chan_name
      else delete_user s chan_name nick
  | _ => Ok s
  end.

Definition handle_nick (s : state) (e : event) : res state :=
  match e_src e, e_params e with
  | Some src, _ :: _ => rename_user s (fold (s_name src)) (last_param e)
  | _, _ => Ok s
  end.

Definition handle_quit (cfg : config) (s : state) (e : event) : res state :=
  match e_src e with
  | Some src =>
      if streqb (fold (s_name src)) (get_id cfg s) then Ok s
      else delete_user s [] (fold (s_name src))
  | None => Ok s
  end.

Definition opt_SERVER : str := Eval vm_compute in bs "SERVER".
Definition opt_VERSION : str := Eval vm_compute in bs "VERSION".
Definition handle_myinfo (s : state) (e : event) : state :=
  if Nat.ltb (length (e_params e)) 3 then s
  else set_opts s (aset opt_VERSION (param e 2) (aset opt_SERVER (param e 1) (st_opts s))).

(* strconv.Atoi on a 64-bit int *)
Definition atoi (v : str) : option Z :=
  match parse_int v with
  | Some z => if (-9223372036854775808 <=? z)%Z && (z <=? 9223372036854775807)%Z then Some z else None
  | None => None
  end.
Definition opt_int (s : state) (k : str) : option Z :=
  match alookup k (st_opts s) with Some v => atoi v | None => None end.

Definition this_server : str := Eval vm_compute in bs "this server".
Definition k_LINELEN : str := Eval vm_compute in bs "LINELEN".
Definition k_NICKLEN : str := Eval vm_compute in bs "NICKLEN".
Definition k_MAXNICKLEN : str := Eval vm_compute in bs "MAXNICKLEN".
Definition k_USERLEN : str := Eval vm_compute in bs "USERLEN".
Definition k_HOSTLEN : str := Eval vm_compute in bs "HOSTLEN".

Fixpoint isupport_tokens (opts : amap str) (toks : list str) : amap str :=
  match toks with
  | [] => opts
  | [_] => opts                              (* the last parameter is the trailing text *)
  | t :: r =>
      let opts' :=
        match index_byte 61 t with
        | Some j => if Nat.ltb j 1 then aset t [] opts
                    else aset (firstn j t) (skipn (j + 1) t) opts
        | None => aset t [] opts
        end in
      isupport_tokens opts' r
  end.

Definition handle_isupport (s : state) (e : event) : state :=
  if negb (suffixb this_server (last_param e)) then s
  else if Nat.ltb (length (e_params e)) 2 then s
  else
    let s1 := set_opts s (isupport_tokens (st_opts s) (tl (e_params e))) in
    let max_line0 := st_maxline s1 in
    let '(max_line, s2) := match opt_int s1 k_LINELEN with
                           | Some t => (t, set_maxline s1 (t - 2))
                           | None => (max_line0, s1)
                           end in
    let nick0 := match opt_int s2 k_NICKLEN with Some t => t | None => 30%Z end in
    let nick1 := match opt_int s2 k_MAXNICKLEN with Some t => if (nick0 <? t)%Z then t else nick0 | None => nick0 end in
    let user1 := match opt_int s2 k_USERLEN with Some t => if (18 <? t)%Z then t else 18%Z | None => 18%Z end in
    let host1 := match opt_int s2 k_HOSTLEN with Some t => if (63 <? t)%Z then t else 63%Z | None => 63%Z end in
    let prefix_len := (4 + nick1 + user1 + host1)%Z in
    if (max_line <=? prefix_len)%Z then s2 else set_maxprefix s2 prefix_len.

Definition handle_motd (s : state) (e : event) : state :=
  if cmd_is e "375" then set_motd s []
  else set_motd s ((match st_motd s with [] => [] | m => m ++ [10] end) ++ last_param e).

(* ParseSource on a NAMES entry with userhost-in-names *)
Definition parse_source (raw : str) : source :=
  let user := index_byte 33 raw in
  let host := index_byte 64 raw in
  match user, host with
  | Some u, Some h =>
      if Nat.ltb 0 u && Nat.ltb u h then mkSource (firstn u raw) (firstn (h - u - 1) (skipn (u + 1) raw)) (skipn (h + 1) raw)
      else if Nat.ltb 0 u then mkSource (firstn u raw) (skipn (u + 1) raw) []
      else if Nat.ltb 0 h then mkSource (firstn h raw) [] (skipn (h + 1) raw)
      else mkSource raw [] []
  | Some u, None => if Nat.ltb 0 u then mkSource (firstn u raw) (skipn (u + 1) raw) [] else mkSource raw [] []
  | None, Some h => if Nat.ltb 0 h then mkSource (firstn h raw) [] (skipn (h + 1) raw) else mkSource raw [] []
  | None, None => mkSource raw [] []
  end.

Definition names_entry (chan_key : str) (s : state) (part : str) : state :=
  match parse_user_prefix part [] with
  | None => s
  | Some (modes, nick) =>
      let osrc := if memb 64 nick then Some (parse_source nick)
                  else if is_valid_nick nick then Some (mkSource nick [] []) else None in
      match osrc with
      | None => s
      | Some src =>
          let s1 := create_user s src in
          match alookup chan_key (st_channels s1), lookup_user s1 (s_name src) with
          | Some c, Some u =>
              let u1 := user_add_channel u (c_name c) in
              let c1 := channel_add_user c (fold (s_name src)) in
              let p := perms_set_prefix perms0 modes in
              let u2 := u_set_perms u1 (aset (fold (c_name c)) p (u_perms u1)) in
              set_users (set_channels s1 (aset chan_key c1 (st_channels s1))) (aset (fold (s_name src)) u2 (st_users s1))
          | _, _ => s1
          end
      end
  end.

Definition handle_names (s : state) (e : event) : state :=
  if Nat.ltb (length (e_params e)) 3 then s
  else match lookup_channel s (param e 2) with
       | None => s
       | Some _ => fold_left (names_entry (fold (param e 2))) (split_byte 32 (last_param e)) s
       end.

Definition mode_user_perms (chan_name : str) (s : state) (m : cmode) : state :=
  if m_setting m then s else
  match m_args m with
  | [] => s
  | a => update_user s a (fun u =>
           u_set_perms u (aset (fold chan_name) (perms_set_from_mode (perms_lookup u chan_name) m) (u_perms u)))
  end.

Definition handle_mode (s : state) (e : event) : state :=
  let ps := if cmd_is e "324" && Nat.ltb 2 (length (e_params e)) then tl (e_params e) else e_params e in
  match ps with
  | target :: flags :: args =>
      if negb (is_valid_channel target) then s else
      match lookup_channel s target with
      | None => s
      | Some c =>
          let ms := parse_modes (c_modes c) flags args true in
          let c' := c_set_modes c (apply_modes (c_modes c) ms) in
          let s1 := set_channels s (aset (fold target) c' (st_channels s)) in
          fold_left (mode_user_perms (c_name c)) ms s1
      end
  | _ => s
  end.

Definition src_update (s : state) (e : event) (f : user -> user) : state :=
  match e_src e with Some src => update_user s (s_name src) f | None => s end.

Definition handle_chghost (s : state) (e : event) : state :=
  match e_params e with
  | [i; h] => src_update s e (fun u => u_set_ident_host u i h)
  | _ => s
  end.
Definition handle_away (s : state) (e : event) : state := src_update s e (fun u => u_set_away u (last_param e)).
Definition handle_account (s : state) (e : event) : state :=
  match e_params e with
  | [a] => src_update s e (fun u => u_set_account u (if streqb a [42] then [] else a))
  | _ => s
  end.

(* One received event: the wildcard handler (handleTags) completes before the command's
   handlers start; handlers of different commands never run for the same event. *)
Definition handle (cfg : config) (s0 : state) (e : event) : res (state * list out) :=
  let s := handle_tags s0 e in
  let pure (s' : state) : res (state * list out) := Ok (s', []) in
  let lift (r : res state) : res (state * list out) := s' <- r ;; Ok (s', []) in
  if cmd_is e "001" then pure (handle_connect s e)
  else if cmd_is e "PING" then Ok (s, [OutSend s_PONG [last_param e]])
  else if cmd_is e "JOIN" then handle_join cfg s e
  else if cmd_is e "PART" then lift (handle_part cfg s e)
  else if cmd_is e "KICK" then lift (handle_kick cfg s e)
  else if cmd_is e "QUIT" then lift (handle_quit cfg s e)
  else if cmd_is e "NICK" then lift (handle_nick s e)
  else if cmd_is e "353" then pure (handle_names s e)
  else if cmd_is e "MODE" || cmd_is e "324" then pure (handle_mode s e)
  else if cmd_is e "352" || cmd_is e "354" then pure (handle_who s e)
  else if cmd_is e "TOPIC" || cmd_is e "332" then pure (handle_topic s e)
  else if cmd_is e "004" then pure (handle_myinfo s e)
  else if cmd_is e "005" then pure (handle_isupport s e)
  else if cmd_is e "375" || cmd_is e "372" then pure (handle_motd s e)
  else if cmd_is e "CHGHOST" then pure (handle_chghost s e)
  else if cmd_is e "AWAY" then pure (handle_away s e)
  else if cmd_is e "ACCOUNT" then pure (handle_account s e)
  else pure s.

Fixpoint run (cfg : config) (s : state) (h : list event) : res (state * list out) :=
  match h with
  | [] => Ok (s, [])
  | e :: r =>
      match handle cfg s e with
      | Panic => Panic
      | Ok (s', o) =>
          match run cfg s' r with
          | Panic => Panic
          | Ok (s'', o') => Ok (s'', o ++ o')
          end
      end
  end.

(* ---------- CModes.HasMode(mode string) / Get(mode string), as written ---------- *)
(* `string(c.modes[i].name) == mode`: a stored byte >= 0x80 is found under its two-byte
   UTF-8 form only. *)
Definition has_mode_str (c : cmodes) (mode : str) : bool :=
  existsb (fun m => streqb (byte_as_rune (m_name m)) mode) (cm_modes c).
Fixpoint mode_get_str (l : list cmode) (mode : str) : option str :=
  match l with
  | [] => None
  | m :: r => if streqb (byte_as_rune (m_name m)) mode then (match m_args m with [] => None | a => Some a end) else mode_get_str r mode
  end.
