(* impl-model of cap.go (possibleCap, possibleCapList, parseCap, handleCAP incl. the STS
   block), client.go HasCapability, conn.go sendLoop's tag gating and the registration
   burst of internalConnect.

   Go maps are association lists (CapLib.amap); map iteration order is not observable in
   any of the functions below except for the token order of CAP REQ, which is the
   parameter `ord` of handle_cap.  A nil map[string]string is `None`.
   Slices: parseCap only slices at an index returned by IndexByte / Index of the same
   string, so every slice is in bounds (Proofs/CapLemmas.v index_byte_lt); firstn / skipn
   are used directly. *)
Require Import Bytes CapLib StsState.

Definition capvals := option (amap str).        (* map[string]string ; None = nil *)
Definition capmap := amap capvals.              (* map[string]map[string]string *)

Definition cv_len (v : capvals) : nat := match v with None => 0%nat | Some m => length m end.
Definition cv_get (k : str) (v : capvals) : option str :=
  match v with None => None | Some m => aget k m end.
Definition cv_map (v : capvals) : amap str := match v with None => [] | Some m => m end.

(* ---- literals ----------------------------------------------------------- *)
Definition s_CAP := Eval vm_compute in bs "CAP".
Definition s_LS := Eval vm_compute in bs "LS".
Definition s_NEW := Eval vm_compute in bs "NEW".
Definition s_ACK := Eval vm_compute in bs "ACK".
Definition s_NAK := Eval vm_compute in bs "NAK".
Definition s_DEL := Eval vm_compute in bs "DEL".
Definition s_REQ := Eval vm_compute in bs "REQ".
Definition s_END := Eval vm_compute in bs "END".
Definition s_302 := Eval vm_compute in bs "302".
Definition s_AUTHENTICATE := Eval vm_compute in bs "AUTHENTICATE".
Definition s_NICK := Eval vm_compute in bs "NICK".
Definition s_USER := Eval vm_compute in bs "USER".
Definition s_PASS := Eval vm_compute in bs "PASS".
Definition s_WEBIRC := Eval vm_compute in bs "WEBIRC".
Definition s_star := Eval vm_compute in bs "*".
Definition s_sasl := Eval vm_compute in bs "sasl".
Definition s_sts := Eval vm_compute in bs "sts".
Definition s_port := Eval vm_compute in bs "port".
Definition s_duration := Eval vm_compute in bs "duration".
Definition s_preload := Eval vm_compute in bs "preload".
Definition s_message_tags := Eval vm_compute in bs "message-tags".

(* var possibleCap *)
Definition builtin_caps : list str := Eval vm_compute in
  [ bs "account-notify"; bs "account-tag"; bs "away-notify"; bs "batch"; bs "cap-notify";
    bs "chghost"; bs "extended-join"; bs "invite-notify"; bs "message-tags"; bs "msgid";
    bs "multi-prefix"; bs "server-time"; bs "userhost-in-names";
    bs "draft/message-tags-0.2"; bs "draft/msgid" ].

(* ---- configuration ------------------------------------------------------ *)
Record cap_cfg := mkCfg {
  c_sasl : option str;              (* Config.SASL != nil : Some (SASL.Method()) *)
  c_disable_sts : bool;
  c_ssl : bool;
  c_disable_fallback : bool;
  c_supported : amap (list str);    (* Config.SupportedCaps *)
  c_tracking : bool;                (* !Config.disableTracking *)
  c_webirc : option (list str);     (* WebIRC.Password != "" : Some (WebIRC.Params()) *)
  c_pass : str;                     (* ServerPass *)
  c_nick : str; c_user : str; c_name : str
}.

(* possibleCapList(c); `recent` = time.Since(sts.lastFailed) < 5*time.Minute *)
Definition possible_caps (cfg : cap_cfg) (recent : bool) : amap (list str) :=
  let out : amap (list str) := [] in
  let out := match c_sasl cfg with Some _ => aset s_sasl [] out | None => out end in
  let out :=
    if negb (c_disable_sts cfg) && negb (c_ssl cfg) then
      if recent && negb (c_disable_fallback cfg) then out else aset s_sts [] out
    else out in
  let out := fold_left (fun o kv => aset (fst kv) (snd kv) o) (c_supported cfg) out in
  fold_left (fun o k => aset k [] o) builtin_caps out.

(* ---- parseCap ----------------------------------------------------------- *)
Definition parse_option (m : amap str) (opt : str) : amap str :=
  match index_byte 61 opt with                               (* strings.Index(option, "=") *)
  | None => aset opt [] m
  | Some j => aset (firstn j opt) (skipn (S j) opt) m
  end.

Definition parse_part (out : capmap) (part : str) : capmap :=
  match index_byte 61 part with
  | None => aset part None out                                (* val = -1 *)
  | Some val =>
      if (Nat.ltb val 1 || Nat.ltb (length part) (val + 1))%bool then aset part None out
      else aset (firstn val part)
                (Some (fold_left parse_option (split_byte 44 (skipn (val + 1) part)) []))
                out
  end.

Definition parse_cap (raw : str) : capmap := fold_left parse_part (split_byte 32 raw) [].

(* ---- handleCAP ---------------------------------------------------------- *)
Inductive cap_out :=
| Write (cmd : str) (params : list str)      (* c.write(&Event{...}) *)
| InjectError (v : capvals)                  (* c.receive(ERROR "...policy... invalid ... %#v" sts) *)
| Upgrade.                                   (* beginUpgrade, STS_UPGRADE_INIT, c.Close() *)

Record cap_state := mkSt { st_tmp : capmap; st_enabled : capmap; st_sts : strict_transport }.

Definition cap_init (s : strict_transport) : cap_state := mkSt [] [] s.   (* state.reset(false) *)

(* the attribute loop of the LS branch, as written: for every attribute of the
   advertised value and every index of the configured attribute list, test whether the
   ADVERTISED value has that attribute (it always has) *)
Definition contains_loop (poss : list str) (vals : amap str) : bool :=
  existsb (fun kv => existsb (fun _ : str => amem (fst kv) vals) poss) vals.

Definition ls_step (possible : amap (list str)) (tmp : capmap) (kv : str * capvals) : capmap :=
  match aget (fst kv) possible with
  | None => tmp
  | Some pv =>
      if (Nat.eqb (length pv) 0 || Nat.eqb (cv_len (snd kv)) 0)%bool then aset (fst kv) (snd kv) tmp
      else if contains_loop pv (cv_map (snd kv)) then aset (fst kv) (snd kv) tmp
      else tmp
  end.

Definition ack_step (tmp : capmap) (en : capmap) (tok : str) : capmap :=
  let keep := match aget tok tmp with
              | Some v => aset tok v en
              | None => aset tok None en
              end in
  match tok with
  | b :: name => if N.eqb b 45 then adel name en else keep   (* strings.HasPrefix(cap, "-"): delete(enabledCap, cap[1:]) *)
  | [] => keep
  end.

(* the policy evaluation; returns the updated policy and isError *)
Definition sts_block (has_tls : bool) (now : Z) (v : capvals) (s : strict_transport)
  : strict_transport * bool :=
  let r1 :=
    if negb has_tls then
      match cv_get s_port v with
      | Some p => let s' := set_upgrade_port (atoi_go p) s in (s', (upgrade_port s' <? 21)%Z)
      | None => (s, true)
      end
    else (s, false) in
  let r2 :=
    if has_tls then
      match cv_get s_duration v with
      | Some d => (set_persistence (atoi_go d) now (fst r1), snd r1)
      | None => (fst r1, true)
      end
    else r1 in
  let s3 :=
    if has_tls then
      match cv_get s_preload v with
      | Some p => set_preload (parse_bool_go p) (fst r2)
      | None => fst r2
      end
    else fst r2 in
  (s3, snd r2).

Definition param1 (params : list str) : str := nth 1 params [].

Definition handle_cap (ord : list str -> list str) (cfg : cap_cfg) (has_tls : bool) (now : Z)
           (st : cap_state) (params : list str) : cap_state * list cap_out :=
  let n := length params in
  if Nat.leb 2 n && streqb (param1 params) s_DEL then
    let caps := parse_cap (last_or_empty params) in
    (* delete(enabledCap, cap); delete(tmpCap, cap) *)
    (mkSt (fold_left (fun t k => adel k t) (akeys caps) (st_tmp st))
          (fold_left (fun en k => adel k en) (akeys caps) (st_enabled st)) (st_sts st), [])
  else if Nat.leb 2 n && streqb (param1 params) s_NAK then
    (* tmpCap = make(...); CAP END *)
    (mkSt [] (st_enabled st) (st_sts st), [Write s_CAP [s_END]])
  else
    let possible := possible_caps cfg (recently_failed now (st_sts st)) in
    let is_ls := Nat.leb 3 n && (streqb (param1 params) s_LS || streqb (param1 params) s_NEW) in
    let tmp1 := if is_ls then fold_left (ls_step possible) (parse_cap (last_or_empty params)) (st_tmp st)
                else st_tmp st in
    if is_ls && Nat.eqb n 3 && Nat.eqb (length tmp1) 0 then
      (mkSt tmp1 (st_enabled st) (st_sts st), [Write s_CAP [s_END]])
    else
      let out1 := if is_ls && Nat.eqb n 3
                  then [Write s_CAP [s_REQ; join [32] (ord (akeys tmp1))]] else [] in
      if Nat.eqb n 3 && streqb (param1 params) s_ACK then
        let en1 := fold_left (ack_step tmp1) (split_byte 32 (last_or_empty params)) (st_enabled st) in
        let finish (s : strict_transport) :=
          match aget s_sasl en1, c_sasl cfg with
          | Some _, Some mech => (mkSt [] en1 s, out1 ++ [Write s_AUTHENTICATE [mech]])
          | _, _ => (mkSt [] en1 s, out1 ++ [Write s_CAP [s_END]])
          end in
        match aget s_sts en1 with
        | Some v =>
            if negb (c_disable_sts cfg) then
              let r := sts_block has_tls now v (st_sts st) in
              if snd r then (mkSt tmp1 en1 (sts_reset (fst r)), out1 ++ [InjectError v])
              else if negb has_tls then
                (mkSt tmp1 en1 (set_begin_upgrade true (fst r)), out1 ++ [Upgrade])
              else finish (fst r)
            else finish (st_sts st)
        | None => finish (st_sts st)
        end
      else (mkSt tmp1 (st_enabled st) (st_sts st), out1).

(* ---- Client.HasCapability ----------------------------------------------- *)
(* strings.ToLower on both sides: modelled for ASCII names (bytes >= 0x80 unchanged);
   `connected` is Client.IsConnected(). *)
Definition has_capability (connected : bool) (en : capmap) (name : str) : bool :=
  connected && existsb (fun kv => streqb (to_lower_ascii (fst kv)) (to_lower_ascii name)) en.

(* ---- sendLoop: tags dropped unless message-tags is enabled ---------------- *)
(* event.Tags: None = nil.  The loop `for i := 0; i < len(enabledCap); i++ { if _, ok :=
   enabledCap["message-tags"]; ok {...} }` is a membership test guarded by non-emptiness. *)
Definition send_loop_tags (en : capmap) (tags : option (amap str)) : option (amap str) :=
  match tags with
  | None => None
  | Some t =>
      if existsb (fun _ : str * capvals => amem s_message_tags en) en then Some t else Some []
  end.

(* Tags.writeTo writes "@...<SPACE>" iff len(tags) > 0 *)
Definition tag_section_present (tags : option (amap str)) : bool :=
  match tags with Some (_ :: _) => true | _ => false end.

(* ---- internalConnect: the registration burst ---------------------------- *)
Definition registration_writes (cfg : cap_cfg) : list (str * list str) :=
  (match c_webirc cfg with Some ps => [(s_WEBIRC, ps)] | None => [] end) ++
  (match c_pass cfg with [] => [] | p => [(s_PASS, [p])] end) ++
  (if c_tracking cfg then [(s_CAP, [s_LS; s_302])] else []) ++
  [(s_NICK, [c_nick cfg]);
   (s_USER, [c_user cfg; s_star; s_star; match c_name cfg with [] => c_user cfg | nm => nm end])].

(* ---- histories (C08) ------------------------------------------------------ *)
(* One server CAP line as handleCAP sees it, together with everything else the handler
   reads at that moment: the clock, whether the connection is over TLS, and the order in
   which Go happens to iterate tmpCap when it builds CAP REQ (any function of the key
   list; the theorems only assume it invents no keys). *)
Record cap_in := mkIn {
  in_ord : list str -> list str;
  in_tls : bool;
  in_now : Z;
  in_params : list str
}.

Definition cap_step (cfg : cap_cfg) (st : cap_state) (i : cap_in) : cap_state * list cap_out :=
  handle_cap (in_ord i) cfg (in_tls i) (in_now i) st (in_params i).

(* state after a history (handlers run one event at a time under the state lock) *)
Fixpoint cap_after (cfg : cap_cfg) (st : cap_state) (h : list cap_in) : cap_state :=
  match h with
  | [] => st
  | i :: r => cap_after cfg (fst (cap_step cfg st i)) r
  end.

(* what was written / injected for each event of a history *)
Fixpoint cap_outs (cfg : cap_cfg) (st : cap_state) (h : list cap_in) : list (list cap_out) :=
  match h with
  | [] => []
  | i :: r => snd (cap_step cfg st i) :: cap_outs cfg (fst (cap_step cfg st i)) r
  end.

(* ---- ACK tokens with a leading '-' (C08 finding ack-removal-ignored) -------- *)
(* strings.HasPrefix(cap, "-") : Some cap[1:] *)
Definition ack_removed (tok : str) : option str :=
  match tok with
  | b :: name => if N.eqb b 45 then Some name else None
  | [] => None
  end.

(* The body of handleCAP's ACK loop without (aware = false: the CURRENT code, equal to
   ack_step above) and with (aware = true) the branch added by
   notes/proposed-fixes/cap-ack-removal.diff:
       if strings.HasPrefix(cap, "-") { delete(c.state.enabledCap, cap[1:]); continue }
   When that patch is applied to /repo, apply notes/proposed-fixes/cap-ack-removal.model.diff:
   ack_step above gets the removal branch (it cannot refer to ack_step_gen, which is defined
   after it) and Spec/CapSpec.v ack_removal_aware becomes true.  Proofs/CapProofs.v
   ack_step_matches proves ack_step = ack_step_gen ack_removal_aware and fails to compile
   when the two are not switched together. *)
Definition ack_step_gen (aware : bool) (tmp : capmap) (en : capmap) (tok : str) : capmap :=
  match (if aware then ack_removed tok else None) with
  | Some name => adel name en
  | None =>
      match aget tok tmp with
      | Some v => aset tok v en
      | None => aset tok None en
      end
  end.
