(* impl-model of format.go: IsValidNick, IsValidUser, IsValidChannel, ToRFC1459.
   Loops `for i := 1; i < len(s); i++ { if bad(s[i]) return false }` are forallb over
   the tail; every index the Go code reads is below len(s) by the loop guard or by
   the explicit length tests mirrored here. *)
Require Import Bytes.

(* 'A' <= b <= '}' *)
Definition in_A_rbrace (b : N) : bool := (65 <=? b) && (b <=? 125).

Definition nick_first_ok (b : N) : bool := in_A_rbrace b || (b =? 63).
Definition nick_rest_ok (b : N) : bool := in_A_rbrace b || is_digit b || (b =? 45).

Definition is_valid_nick (s : str) : bool :=
  match s with
  | [] => false
  | c :: r => nick_first_ok c && forallb nick_rest_ok r
  end.

Definition user_first_ok (b : N) : bool := is_upper b || is_lower b || is_digit b.
Definition user_rest_ok (b : N) : bool :=
  in_A_rbrace b || is_digit b || (b =? 45) || (b =? 46).

Definition is_valid_user (s : str) : bool :=
  match s with
  | [] => false
  | c :: r =>
      let name := if c =? 126 then r else s in
      match name with
      | [] => false                       (* name was only "~" *)
      | c0 :: r0 => user_first_ok c0 && forallb user_rest_ok r0
      end
  end.

Definition chan_prefixes : str := [33; 35; 38; 42; 126; 43].       (* ! # & * ~ + *)
Definition chan_bad : str := [0; 7; 13; 10; 32; 44; 58].
Definition chan_id_ok (b : N) : bool := is_digit b || is_upper b.

Definition is_valid_channel (s : str) : bool :=
  if (Nat.leb (length s) 1 || Nat.ltb 50 (length s))%bool then false else
  match s with
  | [] => false
  | c :: r =>
      if negb (memb c chan_prefixes) then false else
      if (c =? 33) && (Nat.ltb (length s) 7 || negb (forallb chan_id_ok (firstn 5 r))) then false
      else forallb (fun b => negb (memb b chan_bad)) r
  end.

Definition fold1 (b : N) : N := if (65 <=? b) && (b <=? 94) then b + 32 else b.
Definition to_rfc1459 (s : str) : str := List.map fold1 s.
