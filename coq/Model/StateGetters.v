(* impl-model of the read side of the state API (client.go GetNick … ServerMOTD, state.go
   User/Channel helpers, modes.go Perms.Lookup / CModes.HasMode/Get/String), on top of
   Model/State.v.  Iterating a Go map visits each live key once, in no fixed order; every
   getter that iterates sorts its result, so the model iterates `canon m` (one binding per
   key, newest wins).  Getters return copies: values here.  No proofs in this file. *)
Require Import Bytes AMap SMap Names State.

Definition g_nick (cfg : config) (s : state) : str := get_nick cfg s.            (* GetNick *)
Definition g_id (cfg : config) (s : state) : str := get_id cfg s.                (* GetID *)
Definition g_ident (cfg : config) (s : state) : str :=                           (* GetIdent *)
  match st_ident s with [] => cfg_user cfg | i => i end.
Definition g_host (s : state) : str := st_host s.                                (* GetHost *)

Definition g_channel_list (s : state) : list str :=                              (* ChannelList *)
  sort_strs (List.map (fun kv => c_name (snd kv)) (canon (st_channels s))).
Definition g_channels (s : state) : list channel :=                              (* Channels *)
  sort_by c_name (List.map snd (canon (st_channels s))).
Definition g_user_list (s : state) : list str :=                                 (* UserList *)
  sort_strs (List.map (fun kv => u_nick (snd kv)) (canon (st_users s))).
Definition g_users (s : state) : list user :=                                    (* Users *)
  sort_by u_nick (List.map snd (canon (st_users s))).

Definition g_lookup_channel (s : state) (name : str) : option channel :=         (* LookupChannel *)
  match name with [] => None | _ => lookup_channel s name end.
Definition g_lookup_user (s : state) (nick : str) : option user :=               (* LookupUser *)
  match nick with [] => None | _ => lookup_user s nick end.
Definition g_is_in_channel (s : state) (name : str) : bool :=                    (* IsInChannel *)
  amem (fold name) (st_channels s).
Definition g_server_option (s : state) (k : str) : option str := alookup k (st_opts s).   (* GetServerOption *)
Definition g_motd (s : state) : str := st_motd s.                                (* ServerMOTD *)

Definition g_perms_lookup (u : user) (chan : str) : option perms :=              (* UserPerms.Lookup: (perms, ok) *)
  alookup (fold chan) (u_perms u).
Definition g_user_in_channel (u : user) (name : str) : bool := user_in_channel u name.   (* User.InChannel *)
Definition g_channel_user_in (c : channel) (nick : str) : bool := channel_user_in c nick. (* Channel.UserIn *)
Definition g_channel_len (c : channel) : nat := length (c_users c).              (* Channel.Len *)

(* CModes.HasMode / Get take the mode as a string and compare it with string(name) *)
Definition g_has_mode (c : channel) (mode : str) : bool := has_mode_str (c_modes c) mode.
Definition g_mode_get (c : channel) (mode : str) : option str := mode_get_str (cm_modes (c_modes c)) mode.
Definition g_modes_string (c : channel) : str := modes_string (c_modes c).       (* CModes.String *)
