(* What reaches the socket for a source-less, tag-less outgoing event with exactly two
   parameters (the only shape C14's replies and C18's replies have): Event.Bytes of
   event.go restricted to that shape.  Used by the drivers to render observations;
   the general statement about Event.Bytes belongs to C03.  No proofs here. *)
Require Import Bytes Utf8.

Definition needs_colon (p : str) : bool :=
  memb 32 p || match p with [] => true | c :: _ => c =? 58 end.

Definition strip_crlf (s : str) : str := filter (fun b => negb ((b =? 10) || (b =? 13))) s.

(* COMMAND SP p0 SP [:]p1, then bytes.ToValidUTF8(.., nil), then CR/LF removed *)
Definition wire2 (command p0 p1 : str) : str :=
  strip_crlf (to_valid_utf8 []
    (command ++ [32] ++ p0 ++ [32] ++ (if needs_colon p1 then [58] else []) ++ p1)).
