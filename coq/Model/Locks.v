(* C12 — lock discipline of package girc: the tree language emitted by harness/cmd/lockfacts,
   its trace semantics, the abstract N-thread RW-lock machine, and the two executable
   checkers.  Definitions only (proofs: Proofs/LocksProofs.v).

   A program is a table of function bodies (statement trees), the guarding mutex of every
   location class, a rank for every mutex, the entry points and the exclusion list.
   Mutexes, locations, functions and labels are natural numbers (names are kept beside the
   data in Generated/LockFacts.v for reporting only).

   INTERPROCEDURAL DISCIPLINE.  Calls are INLINED, in the semantics (rule X_call runs the
   callee's body as a frame) and in the checker (fuel-bounded: every syntactic level and
   every call consumes one unit; running out of fuel is a violation, so a recursive cycle of
   lock-relevant functions is rejected, never assumed).  The one place where the call graph
   is cut is `Callback` (a dynamic call of user code or of a registered handler): there the
   semantics runs ANY sequence of complete entry-point runs, and the checker demands that no
   mutex is held; the entry points themselves are checked from the empty held set. *)
From Coq Require Import List Arith Bool.
Import ListNotations.

Inductive mode := MR | MW.

(* deferred actions of a Go function frame *)
Inductive dact :=
| DRel (m : nat) (md : mode)     (* defer x.Unlock() / x.RUnlock() *)
| DCall (f : nat)                (* defer f(...) *)
| DYield.                        (* defer <dynamic call> *)

Inductive stmt :=
| Skip
| Acq (m : nat) (md : mode)
| Rel (m : nat) (md : mode)
| Defer (d : dact)
| Rd (l : nat)
| Wr (l : nat)
| Call (f : nat)
| Go (s : stmt)                  (* go body: the body is an entry point of its own *)
| Seq (a b : stmt)
| Alt (bs : list stmt)
| Loop (s : stmt)                (* zero or more iterations *)
| Block (lbl : nat) (s : stmt)   (* catches Jump lbl (break / continue / goto targets) *)
| Jump (lbl : nat)
| Ret
| Callback                       (* dynamic call: user handler, registered handler, func value *)
| Join                           (* WaitGroup.Wait: waits for goroutines that may call anything *)
| Unknown.                       (* construct the translator does not understand *)

Definition DeferRel (m : nat) (md : mode) : stmt := Defer (DRel m md).

(* items that can be excluded in the dynamic extent of a function (conf/C12.known.json) *)
Inductive xitem :=
| XLoc (l : nat)       (* accesses to location class l are not checked *)
| XYield               (* dynamic calls / joins are not checked, and are assumed not to call the client *)
| XOrd (m : nat).      (* acquisitions of m are not checked against the rank order *)

Record program := {
  p_funs : list stmt;             (* function id -> body *)
  p_guard : list nat;             (* location class -> guarding mutex *)
  p_rank : list nat;              (* mutex -> rank in the acquisition order *)
  p_entries : list nat;           (* entry points (exported API, handlers, loops, closures) *)
  p_excl : list (nat * xitem)     (* (function, item): excluded facts *)
}.

(* ---- events and traces ---- *)

(* The boolean of an event says that it is EXEMPT (excluded by the list above): it is part
   of the trace but not subject to the discipline, and the theorems speak about the
   non-exempt events only. *)
Inductive ev :=
| EAcq (m : nat) (md : mode) (x : bool)
| ERel (m : nat) (md : mode)
| ERd (l : nat) (x : bool)
| EWr (l : nat) (x : bool)
| EYield (x : bool).

Inductive outcome := ONormal | OJump (lbl : nat) | ORet.

Definition held := list (nat * mode).

Definition mode_eqb (a b : mode) : bool :=
  match a, b with MR, MR | MW, MW => true | _, _ => false end.

Definition lk_eqb (a b : nat * mode) : bool := Nat.eqb (fst a) (fst b) && mode_eqb (snd a) (snd b).

Definition lk_leb (a b : nat * mode) : bool :=
  Nat.ltb (fst a) (fst b) || (Nat.eqb (fst a) (fst b) && match snd a, snd b with MW, MR => false | _, _ => true end).

(* held sets are kept sorted so that equal sets are equal lists *)
Fixpoint ins (x : nat * mode) (h : held) : held :=
  match h with
  | [] => [x]
  | y :: r => if lk_leb x y then x :: y :: r else y :: ins x r
  end.

Fixpoint remove1 (x : nat * mode) (h : held) : held :=
  match h with
  | [] => []
  | y :: r => if lk_eqb x y then r else y :: remove1 x r
  end.

Definition step_held (h : held) (e : ev) : held :=
  match e with
  | EAcq m md _ => ins (m, md) h
  | ERel m md => remove1 (m, md) h
  | _ => h
  end.

Fixpoint after (h : held) (tr : list ev) : held :=
  match tr with
  | [] => h
  | e :: r => after (step_held h e) r
  end.

Definition holds_w (h : held) (m : nat) : bool := existsb (lk_eqb (m, MW)) h.
Definition holds_any (h : held) (m : nat) : bool := existsb (fun y => Nat.eqb m (fst y)) h.
Definition is_nil {A} (l : list A) : bool := match l with [] => true | _ => false end.

(* ---- exclusions ---- *)

Definition xitem_eqb (a b : xitem) : bool :=
  match a, b with
  | XLoc l, XLoc l' => Nat.eqb l l'
  | XYield, XYield => true
  | XOrd m, XOrd m' => Nat.eqb m m'
  | _, _ => false
  end.

Definition xin (ex : list xitem) (i : xitem) : bool := existsb (xitem_eqb i) ex.

Definition excl_of (p : program) (f : nat) : list xitem :=
  map snd (filter (fun e => Nat.eqb (fst e) f) (p_excl p)).

Definition body (p : program) (f : nat) : stmt := nth f (p_funs p) Unknown.

(* Go bodies are entry points (threads that exist from the start, any number of them) *)
Fixpoint gos (s : stmt) : list stmt :=
  match s with
  | Go b => b :: gos b
  | Seq a b => gos a ++ gos b
  | Alt bs => flat_map gos bs
  | Loop b => gos b
  | Block _ b => gos b
  | _ => []
  end.

Fixpoint indexed {A} (i : nat) (l : list A) : list (nat * A) :=
  match l with
  | [] => []
  | x :: r => (i, x) :: indexed (S i) r
  end.

(* an entry is a statement together with the function it textually belongs to *)
Definition all_entries (p : program) : list (nat * stmt) :=
  map (fun f => (f, body p f)) (p_entries p) ++
  flat_map (fun fb => map (pair (fst fb)) (gos (snd fb))) (indexed 0 (p_funs p)).

(* ---- trace semantics: which event sequences can one goroutine perform? ---- *)

Section Semantics.
Variable p : program.

Inductive exec : list xitem -> stmt -> list dact -> list ev -> outcome -> list dact -> Prop :=
| X_skip ex ds : exec ex Skip ds [] ONormal ds
| X_acq ex m md ds : exec ex (Acq m md) ds [EAcq m md (xin ex (XOrd m))] ONormal ds
| X_rel ex m md ds : exec ex (Rel m md) ds [ERel m md] ONormal ds
| X_defer ex d ds : exec ex (Defer d) ds [] ONormal (d :: ds)
| X_rd ex l ds : exec ex (Rd l) ds [ERd l (xin ex (XLoc l))] ONormal ds
| X_wr ex l ds : exec ex (Wr l) ds [EWr l (xin ex (XLoc l))] ONormal ds
| X_call ex f ds tr : frame (excl_of p f ++ ex) (body p f) tr -> exec ex (Call f) ds tr ONormal ds
| X_go ex s ds : exec ex (Go s) ds [] ONormal ds
| X_seq_n ex a b ds tr1 ds1 tr2 o ds2 :
    exec ex a ds tr1 ONormal ds1 -> exec ex b ds1 tr2 o ds2 -> exec ex (Seq a b) ds (tr1 ++ tr2) o ds2
| X_seq_x ex a b ds tr o ds1 :
    exec ex a ds tr o ds1 -> o <> ONormal -> exec ex (Seq a b) ds tr o ds1
| X_alt ex bs b ds tr o ds1 : In b bs -> exec ex b ds tr o ds1 -> exec ex (Alt bs) ds tr o ds1
| X_loop_0 ex s ds : exec ex (Loop s) ds [] ONormal ds
| X_loop_n ex s ds tr1 ds1 tr2 o ds2 :
    exec ex s ds tr1 ONormal ds1 -> exec ex (Loop s) ds1 tr2 o ds2 -> exec ex (Loop s) ds (tr1 ++ tr2) o ds2
| X_loop_x ex s ds tr o ds1 : exec ex s ds tr o ds1 -> o <> ONormal -> exec ex (Loop s) ds tr o ds1
| X_block_c ex lbl s ds tr ds1 : exec ex s ds tr (OJump lbl) ds1 -> exec ex (Block lbl s) ds tr ONormal ds1
| X_block_p ex lbl s ds tr o ds1 : exec ex s ds tr o ds1 -> o <> OJump lbl -> exec ex (Block lbl s) ds tr o ds1
| X_jump ex lbl ds : exec ex (Jump lbl) ds [] (OJump lbl) ds
| X_ret ex ds : exec ex Ret ds [] ORet ds
| X_cb_x ex ds : xin ex XYield = true -> exec ex Callback ds [EYield true] ONormal ds
| X_cb ex ds tr : xin ex XYield = false -> runs tr -> exec ex Callback ds (EYield false :: tr) ONormal ds
| X_join ex ds : exec ex Join ds [EYield (xin ex XYield)] ONormal ds
| X_unknown ex ds tr o ds1 : exec ex Unknown ds tr o ds1      (* anything may happen *)

(* a function frame: the body, then the deferred actions, last deferred first *)
with frame : list xitem -> stmt -> list ev -> Prop :=
| F_intro ex s tr1 o ds tr2 : exec ex s [] tr1 o ds -> unwind ex ds tr2 -> frame ex s (tr1 ++ tr2)

with unwind : list xitem -> list dact -> list ev -> Prop :=
| U_nil ex : unwind ex [] []
| U_rel ex m md ds tr : unwind ex ds tr -> unwind ex (DRel m md :: ds) (ERel m md :: tr)
| U_call ex f ds tr1 tr2 :
    frame (excl_of p f ++ ex) (body p f) tr1 -> unwind ex ds tr2 -> unwind ex (DCall f :: ds) (tr1 ++ tr2)
| U_yield_x ex ds tr : xin ex XYield = true -> unwind ex ds tr -> unwind ex (DYield :: ds) (EYield true :: tr)
| U_yield ex ds tr1 tr2 :
    xin ex XYield = false -> runs tr1 -> unwind ex ds tr2 -> unwind ex (DYield :: ds) (EYield false :: tr1 ++ tr2)

(* what user code, a handler dispatch, or a whole goroutine does: any sequence of complete
   runs of entry points *)
with runs : list ev -> Prop :=
| R_nil : runs []
| R_cons f s tr1 tr2 : In (f, s) (all_entries p) -> frame (excl_of p f) s tr1 -> runs tr2 -> runs (tr1 ++ tr2).

End Semantics.

(* ---- the per-trace discipline ---- *)

Section Discipline.
(* the part of the discipline that differs between the two checkers *)
Variable extra : held -> ev -> bool.

Definition okev (h : held) (e : ev) : bool :=
  match e with
  | ERel m md => existsb (lk_eqb (m, md)) h && extra h e       (* only what is held is released *)
  | EYield x => (x || is_nil h) && extra h e                    (* nothing is held at a dynamic call / join *)
  | _ => extra h e
  end.

Fixpoint ok_trace (h : held) (tr : list ev) : Prop :=
  match tr with
  | [] => True
  | e :: r => okev h e = true /\ ok_trace (step_held h e) r
  end.
End Discipline.

(* lock sets: a write needs the guard exclusively, a read at least shared *)
Definition ls_extra (guard : nat -> nat) (h : held) (e : ev) : bool :=
  match e with
  | ERd l x => x || holds_any h (guard l)
  | EWr l x => x || holds_w h (guard l)
  | _ => true
  end.

(* lock order: every mutex already held has a smaller rank than the one being acquired
   (so no re-acquisition either, RLock under RLock included) *)
Definition ord_extra (rank : nat -> nat) (h : held) (e : ev) : bool :=
  match e with
  | EAcq m _ x => x || forallb (fun y => Nat.ltb (rank (fst y)) (rank m)) h
  | _ => true
  end.

Definition guard_of (p : program) (l : nat) : nat := nth l (p_guard p) 0.
Definition rank_of (p : program) (m : nat) : nat := nth m (p_rank p) 0.

(* ---- the checkers: abstract interpretation over (held set, deferred stack) ---- *)

Definition cfg := (held * list dact)%type.

Definition dact_eqb (a b : dact) : bool :=
  match a, b with
  | DRel m md, DRel m' md' => Nat.eqb m m' && mode_eqb md md'
  | DCall f, DCall f' => Nat.eqb f f'
  | DYield, DYield => true
  | _, _ => false
  end.

Fixpoint list_eqb {A} (eqb : A -> A -> bool) (a b : list A) : bool :=
  match a, b with
  | [], [] => true
  | x :: r, y :: r' => eqb x y && list_eqb eqb r r'
  | _, _ => false
  end.

Definition held_eqb : held -> held -> bool := list_eqb lk_eqb.
Definition cfg_eqb (a b : cfg) : bool := held_eqb (fst a) (fst b) && list_eqb dact_eqb (snd a) (snd b).

Definition outcome_eqb (a b : outcome) : bool :=
  match a, b with
  | ONormal, ONormal | ORet, ORet => true
  | OJump l, OJump l' => Nat.eqb l l'
  | _, _ => false
  end.

Definition oc_eqb (a b : outcome * cfg) : bool := outcome_eqb (fst a) (fst b) && cfg_eqb (snd a) (snd b).

Fixpoint dedup {A} (eqb : A -> A -> bool) (l : list A) : list A :=
  match l with
  | [] => []
  | x :: r => if existsb (eqb x) r then dedup eqb r else x :: dedup eqb r
  end.

(* violation kinds *)
Inductive vkind := VEvent (e : ev) | VLoop | VUnknown | VFuel | VUnbalanced.

Record viol := { v_kind : vkind; v_held : held; v_stack : list nat (* innermost function first *) }.

(* compact rendering for the report of bin/locks-gen: (code, a, b, held, stack) *)
Definition mode_code (md : mode) : nat := match md with MR => 0 | MW => 1 end.
Definition viol_code (v : viol) : nat * nat * nat * held * list nat :=
  let '(c, a, b) :=
    match v_kind v with
    | VEvent (ERd l _) => (1, l, 0)
    | VEvent (EWr l _) => (2, l, 0)
    | VEvent (EAcq m md _) => (3, m, mode_code md)
    | VEvent (ERel m md) => (4, m, mode_code md)
    | VEvent (EYield _) => (5, 0, 0)
    | VLoop => (6, 0, 0)
    | VUnknown => (7, 0, 0)
    | VFuel => (8, 0, 0)
    | VUnbalanced => (9, 0, 0)
    end in
  (c, a, b, v_held v, v_stack v).

Record ctx := { cx_ex : list xitem; cx_stack : list nat }.

Definition push (p : program) (c : ctx) (f : nat) : ctx :=
  {| cx_ex := excl_of p f ++ cx_ex c; cx_stack := f :: cx_stack c |}.

Definition is_normal (o : outcome) : bool := match o with ONormal => true | _ => false end.

Section Checker.
Variable p : program.
Variable extra : held -> ev -> bool.

Definition res := (list viol * list (outcome * cfg))%type.

Definition do_ev (c : ctx) (e : ev) (k : cfg) : res :=
  ((if okev extra (fst k) e then [] else [{| v_kind := VEvent e; v_held := fst k; v_stack := cx_stack c |}]),
   [(ONormal, (step_held (fst k) e, snd k))]).

Definition vio (c : ctx) (k : vkind) (h : held) : viol := {| v_kind := k; v_held := h; v_stack := cx_stack c |}.

Fixpoint chk (fuel : nat) (c : ctx) (s : stmt) (k : cfg) {struct fuel} : res :=
  match fuel with
  | 0 => ([vio c VFuel (fst k)], [])
  | S n =>
    match s with
    | Skip => ([], [(ONormal, k)])
    | Acq m md => do_ev c (EAcq m md (xin (cx_ex c) (XOrd m))) k
    | Rel m md => do_ev c (ERel m md) k
    | Defer d => ([], [(ONormal, (fst k, d :: snd k))])
    | Rd l => do_ev c (ERd l (xin (cx_ex c) (XLoc l))) k
    | Wr l => do_ev c (EWr l (xin (cx_ex c) (XLoc l))) k
    | Call f =>
        let r := chk_frame n (push p c f) (body p f) (fst k) in
        (fst r, map (fun h => (ONormal, (h, snd k))) (snd r))
    | Go _ => ([], [(ONormal, k)])
    | Seq a b =>
        let r1 := chk n c a k in
        let r2 := map (fun ok => if is_normal (fst ok) then chk n c b (snd ok) else ([], [ok])) (snd r1) in
        (fst r1 ++ flat_map fst r2, dedup oc_eqb (flat_map snd r2))
    | Alt bs =>
        let rs := map (fun b => chk n c b k) bs in
        (flat_map fst rs, dedup oc_eqb (flat_map snd rs))
    | Loop b =>
        let r := chk n c b k in
        let bad := filter (fun ok => is_normal (fst ok) && negb (cfg_eqb (snd ok) k)) (snd r) in
        (fst r ++ (if is_nil bad then [] else [vio c VLoop (fst k)]),
         dedup oc_eqb ((ONormal, k) :: filter (fun ok => negb (is_normal (fst ok))) (snd r)))
    | Block l b =>
        let r := chk n c b k in
        (fst r, dedup oc_eqb (map (fun ok => if outcome_eqb (fst ok) (OJump l) then (ONormal, snd ok) else ok) (snd r)))
    | Jump l => ([], [(OJump l, k)])
    | Ret => ([], [(ORet, k)])
    | Callback => do_ev c (EYield (xin (cx_ex c) XYield)) k
    | Join => do_ev c (EYield (xin (cx_ex c) XYield)) k
    | Unknown => ([vio c VUnknown (fst k)], [])
    end
  end

with chk_frame (fuel : nat) (c : ctx) (s : stmt) (h : held) {struct fuel} : list viol * list held :=
  match fuel with
  | 0 => ([vio c VFuel h], [])
  | S n =>
    let r := chk n c s (h, []) in
    let rs := map (fun ok => chk_unwind n c (snd (snd ok)) (fst (snd ok))) (snd r) in
    (fst r ++ flat_map fst rs, dedup held_eqb (flat_map snd rs))
  end

with chk_unwind (fuel : nat) (c : ctx) (ds : list dact) (h : held) {struct fuel} : list viol * list held :=
  match fuel with
  | 0 => ([vio c VFuel h], [])
  | S n =>
    match ds with
    | [] => ([], [h])
    | DRel m md :: r =>
        let e := ERel m md in
        let r' := chk_unwind n c r (step_held h e) in
        ((if okev extra h e then [] else [vio c (VEvent e) h]) ++ fst r', snd r')
    | DCall f :: r =>
        let rf := chk_frame n (push p c f) (body p f) h in
        let rs := map (chk_unwind n c r) (snd rf) in
        (fst rf ++ flat_map fst rs, dedup held_eqb (flat_map snd rs))
    | DYield :: r =>
        let e := EYield (xin (cx_ex c) XYield) in
        let r' := chk_unwind n c r h in
        ((if okev extra h e then [] else [vio c (VEvent e) h]) ++ fst r', snd r')
    end
  end.


(* every entry point (and every Go body) is checked from the empty held set and must give
   every mutex back *)
Definition chk_entry (fuel : nat) (fs : nat * stmt) : list viol :=
  let c := {| cx_ex := excl_of p (fst fs); cx_stack := [fst fs] |} in
  let r := chk_frame fuel c (snd fs) [] in
  fst r ++ flat_map (fun h => if is_nil h then [] else [vio c VUnbalanced h]) (snd r).

Definition violations (fuel : nat) : list viol := flat_map (chk_entry fuel) (all_entries p).

End Checker.

(* fuel of the checkers: an upper bound on syntactic depth plus call depth; exhausting it is a violation *)
Definition FUEL : nat := 40 * 100.

Definition lockset_violations (p : program) : list viol := violations p (ls_extra (guard_of p)) FUEL.
Definition order_violations (p : program) : list viol := violations p (ord_extra (rank_of p)) FUEL.

Definition check_locksets (p : program) : bool := is_nil (lockset_violations p).
Definition check_order (p : program) : bool := is_nil (order_violations p).

(* ---- the abstract machine: N goroutines over RW-locks ---- *)

Record thread := { hs : held; rest : list ev }.
Definition mstate := list thread.

Definition t_holds_w (t : thread) (m : nat) : Prop := In (m, MW) (hs t).
Definition t_holds_any (t : thread) (m : nat) : Prop := exists md, In (m, md) (hs t).

(* writer exclusive, readers shared; the lock does not know its owner, so a goroutine is
   blocked by its own holdings as well *)
Definition can_acq (s : mstate) (m : nat) (md : mode) : Prop :=
  match md with
  | MW => forall j t, nth_error s j = Some t -> ~ t_holds_any t m
  | MR => forall j t, nth_error s j = Some t -> ~ t_holds_w t m
  end.

Fixpoint upd (s : mstate) (i : nat) (t : thread) : mstate :=
  match s, i with
  | [], _ => []
  | _ :: r, O => t :: r
  | x :: r, S k => x :: upd r k t
  end.

Inductive mstep : mstate -> mstate -> Prop :=
| S_acq s i t m md x r : nth_error s i = Some t -> rest t = EAcq m md x :: r -> can_acq s m md ->
    mstep s (upd s i {| hs := ins (m, md) (hs t); rest := r |})
| S_other s i t e r : nth_error s i = Some t -> rest t = e :: r -> (forall m md x, e <> EAcq m md x) ->
    mstep s (upd s i {| hs := step_held (hs t) e; rest := r |}).

Inductive msteps : mstate -> mstate -> Prop :=
| ms_refl s : msteps s s
| ms_step s s' s'' : msteps s s' -> mstep s' s'' -> msteps s s''.

Definition init_state (traces : list (list ev)) : mstate := map (fun tr => {| hs := []; rest := tr |}) traces.

(* a data race: two different goroutines are about to perform conflicting, checked accesses *)
Definition race (s : mstate) : Prop :=
  exists i j ti tj l ri rj, i <> j /\ nth_error s i = Some ti /\ nth_error s j = Some tj /\
    rest ti = EWr l false :: ri /\ (rest tj = EWr l false :: rj \/ rest tj = ERd l false :: rj).

(* wait-for edges between goroutines that are about to perform checked acquisitions: i waits
   for j when j holds the mutex i wants in a conflicting mode, or (Go's writer preference) i
   wants to read-lock a mutex that j is waiting to write-lock *)
Definition waits_for (s : mstate) (i j : nat) : Prop :=
  exists ti tj mi mdi ri mj mdj rj,
    nth_error s i = Some ti /\ nth_error s j = Some tj /\
    rest ti = EAcq mi mdi false :: ri /\ rest tj = EAcq mj mdj false :: rj /\
    ((mdi = MW /\ t_holds_any tj mi) \/ (mdi = MR /\ t_holds_w tj mi) \/ (mdi = MR /\ mdj = MW /\ mj = mi)).
