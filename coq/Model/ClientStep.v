(* impl-model of what Client.RunHandlers does with ONE received event, as far as a
   hostile server can reach code that may panic or make the client disconnect:
     1. the tracked-state handlers                    (Model/State.v, handle)
     2. handleSASL / handleSASLError                  (Model/Sasl.v)
     3. handleCAP                                     (Model/Cap.v)
     4. the CTCP stage with the default repliers      (Model/Ctcp.v, ctcp_stage)
   Each command has at most one of 1-3 registered for it that produces output; the CTCP
   stage runs after the handlers. The component models are used as they are; this file
   only converts the event and routes it (builtin.go registerBuiltins). No proofs here. *)
Require Import Bytes AMap Names State.
Require Ctcp Sasl Cap StsState.

Record client_cfg := mkClientCfg {
  cc_state : State.config;
  cc_sasl : option Sasl.sasl_mech;                (* Config.SASL *)
  cc_env : Ctcp.env;                              (* what the CTCP repliers read *)
  cc_cap : Cap.cap_cfg;
  cc_ord : list str -> list str;                  (* map iteration order of CAP REQ *)
  cc_tls : bool;
  cc_now : Z }.

Record client_state := mkClientState {
  cs_state : State.state;
  cs_cap : Cap.cap_state }.

Inductive cout :=
| CSend (o : State.out)          (* Client.Send by a tracked-state handler *)
| CSasl (o : Sasl.output)        (* write / injected ERROR of handleSASL, handleSASLError *)
| CCap (o : Cap.cap_out)         (* write / injected ERROR / upgrade of handleCAP *)
| CCtcp (e : Ctcp.event).        (* reply sent by a CTCP handler *)

Definition to_sasl_event (e : event) : Sasl.event := Sasl.plain_ev (e_cmd e) (e_params e).
Definition to_ctcp_event (e : event) : Ctcp.event :=
  Ctcp.mk_event (option_map s_name (e_src e)) (e_cmd e) (e_params e).

(* c.Handlers.register(.., AUTHENTICATE / RPL_SASLSUCCESS, handleSASL) *)
Definition is_sasl_cmd (e : event) : bool := cmd_is e "AUTHENTICATE" || cmd_is e "903".
(* RPL_NICKLOCKED, ERR_SASLFAIL, ERR_SASLTOOLONG, ERR_SASLABORTED, RPL_SASLMECHS -> handleSASLError *)
Definition is_sasl_error_cmd (e : event) : bool :=
  cmd_is e "902" || cmd_is e "904" || cmd_is e "905" || cmd_is e "906" || cmd_is e "908".

Definition sasl_stage (cfg : client_cfg) (e : event) : res (list Sasl.output) :=
  if is_sasl_cmd e then Sasl.handle_sasl (cc_sasl cfg) (to_sasl_event e)
  else if is_sasl_error_cmd e then Ok (Sasl.handle_sasl_error (cc_sasl cfg) (to_sasl_event e))
  else Ok [].

Definition cap_stage (cfg : client_cfg) (st : Cap.cap_state) (e : event) : Cap.cap_state * list Cap.cap_out :=
  if cmd_is e "CAP" then Cap.handle_cap (cc_ord cfg) (cc_cap cfg) (cc_tls cfg) (cc_now cfg) st (e_params e)
  else (st, []).

Definition client_step (cfg : client_cfg) (cs : client_state) (e : event) : res (client_state * list cout) :=
  r <- State.handle (cc_state cfg) (cs_state cs) e ;;
  o2 <- sasl_stage cfg e ;;
  let c3 := cap_stage cfg (cs_cap cs) e in
  o4 <- Ctcp.ctcp_stage (Ctcp.default_table (cc_env cfg)) (to_ctcp_event e) ;;
  Ok (mkClientState (fst r) (fst c3),
      List.map CSend (snd r) ++ List.map CSasl o2 ++ List.map CCap (snd c3) ++ List.map CCtcp o4).

Definition client_init (sts : StsState.strict_transport) : client_state :=
  mkClientState state_init (Cap.cap_init sts).

Fixpoint client_run (cfg : client_cfg) (cs : client_state) (h : list event) : res (client_state * list cout) :=
  match h with
  | [] => Ok (cs, [])
  | e :: r =>
      match client_step cfg cs e with
      | Panic => Panic
      | Ok (cs', o) =>
          match client_run cfg cs' r with
          | Panic => Panic
          | Ok (cs'', o') => Ok (cs'', o ++ o')
          end
      end
  end.

(* After which events does Connect return an error?  execLoop returns an ErrEvent once it
   has run the handlers of an ERROR event, whether the server sent it or a handler queued
   it with c.receive (handleSASL, handleSASLError, the STS block of handleCAP). *)
Definition is_inject (o : cout) : bool :=
  match o with
  | CSasl (Sasl.InjectError _) => true
  | CCap (Cap.InjectError _) => true
  | _ => false
  end.
Definition disconnects (e : event) (outs : list cout) : bool := cmd_is e "ERROR" || existsb is_inject outs.

(* does any event of the history make the client disconnect with an error? *)
Fixpoint client_disconnects (cfg : client_cfg) (cs : client_state) (h : list event) : res bool :=
  match h with
  | [] => Ok false
  | e :: r =>
      match client_step cfg cs e with
      | Panic => Panic
      | Ok (cs', o) => if disconnects e o then Ok true else client_disconnects cfg cs' r
      end
  end.
