(* impl-model of the strict-transport machinery around handleCAP: client.go server(),
   conn.go newConn and the startConn loop of internalConnect.

   The network is an explicit input: every connection attempt of one Connect call
   consumes one `conn_script` (dial outcome, handshake outcome, the CAP lines the server
   sends with the clock value at which each is handled, and how the connection ends when
   neither an upgrade nor an injected ERROR ends it).  Outputs: the dial log (port, TLS?),
   what handleCAP did for each server line, the class of Connect's return value and the
   policy held afterwards.

   Faithfulness notes.
   * tlsHandshake() only wraps the socket (tls.Client) and returns a nil error: the
     handshake itself happens lazily on the first read/write.  The `err != nil` branch
     after tlsHandshake in newConn is therefore dead; a failing handshake surfaces as an
     I/O error of sendLoop/readLoop (return class ROther, no lastFailed/reset bookkeeping).
   * Config.isValid() is assumed to succeed (a configuration error returns before dialling).
   * Processing of a connection stops at the first Upgrade / injected ERROR: server lines
     arriving after the acknowledgement are outside the alphabet of C10.
   * The peer may hang up at the very moment it acknowledges a policy: cs_end is consulted on
     an upgrade too (EndIOError = group.Wait() returns readLoop's error although handleCAP
     called Close()).  Since 52091d0 the redial does not depend on it. *)
Require Import Bytes CapLib StsState Cap.

(* Client.server(): the port joined to Config.Server *)
Definition server_port (port : Z) (s : strict_transport) : Z :=
  if sts_enabled s then upgrade_port s else port.

Inductive ret_class := RNil | RSTSUpgradeFailed | RErrEvent | ROther | RNoScript.

(* newConn: None = dial error (with the error class), Some tls = connected *)
Definition new_conn (cfg : cap_cfg) (dial_ok : bool) (now : Z) (s : strict_transport)
  : option bool * ret_class * strict_transport :=
  if negb dial_ok then
    let err := if sts_enabled s then RSTSUpgradeFailed else ROther in
    let s' := if sts_expired now s && negb (c_disable_fallback cfg)
              then sts_reset (set_last_failed now s) else s in
    (None, err, s')
  else (Some (c_ssl cfg || sts_enabled s), RNil, s).

Inductive conn_end :=
| EndClosed (now : Z)      (* Client.Close() by the application: group.Wait() = nil *)
| EndIOError.              (* read / write error, EOF *)

Record conn_script := mkConn {
  cs_dial_ok : bool;
  cs_dial_now : Z;
  cs_hs_ok : bool;                       (* consulted only for TLS connections *)
  cs_events : list (Z * list str);       (* (now, Params of a CAP event) *)
  cs_end : conn_end
}.

Inductive conn_stop := StopNone | StopUpgrade | StopError.

Definition is_upgrade (o : cap_out) : bool := match o with Upgrade => true | _ => false end.
Definition is_inject (o : cap_out) : bool := match o with InjectError _ => true | _ => false end.
Definition is_write (o : cap_out) : bool := match o with Write _ _ => true | _ => false end.

Definition stop_of (outs : list cap_out) : conn_stop :=
  if existsb is_upgrade outs then StopUpgrade
  else if existsb is_inject outs then StopError else StopNone.

Fixpoint run_events (ord : list str -> list str) (cfg : cap_cfg) (has_tls : bool)
         (st : cap_state) (evs : list (Z * list str)) : cap_state * list (list cap_out) * conn_stop :=
  match evs with
  | [] => (st, [], StopNone)
  | (now, ps) :: r =>
      let res := handle_cap ord cfg has_tls now st ps in
      match stop_of (snd res) with
      | StopNone =>
          let rec := run_events ord cfg has_tls (fst res) r in
          (fst (fst rec), snd res :: snd (fst rec), snd rec)
      | k => (fst res, [snd res], k)
      end
  end.

Record conn_log := mkLog {
  l_port : Z;                      (* port handed to the Dialer *)
  l_tls : bool;                    (* conf.SSL || sts.enabled() at that moment *)
  l_connected : bool;              (* dial succeeded *)
  l_outs : list (list cap_out)     (* handleCAP's outputs per server line *)
}.

(* One established connection from newConn's return to the moment all four loops are gone:
   its log, what group.Wait() returned (as a class), the policy held then, and the clock of a
   clean Close().  handleCAP's own Close() on an upgrade makes the loops return nil unless
   the peer hangs up at the same moment (cs_end = EndIOError: readLoop's error wins). *)
Definition conn_run (ord : list str -> list str) (cfg : cap_cfg) (tls : bool) (s : strict_transport)
           (c : conn_script) (p : Z) : conn_log * ret_class * strict_transport * option Z :=
  if tls && negb (cs_hs_ok c) then (mkLog p tls true [], ROther, s, None)
  else
    let r := run_events ord cfg tls (cap_init s) (if c_tracking cfg then cs_events c else []) in
    let st := fst (fst r) in
    let log := mkLog p tls true (snd (fst r)) in
    match snd r with
    | StopError => (log, RErrEvent, st_sts st, None)
    | _ =>
        match cs_end c with
        | EndClosed now => (log, RNil, st_sts st, Some now)
        | EndIOError => (log, ROther, st_sts st, None)
        end
    end.

(* internalConnect.  After the connection is gone (tail of the function, as repaired in
   52091d0): beginUpgrade is tested whatever group.Wait() returned - if set it is cleared
   and the loop dials again; otherwise a clean close under a policy refreshes
   persistenceReceived and the error (or nil) is returned. *)
Fixpoint start_conn (ord : list str -> list str) (cfg : cap_cfg) (port : Z)
         (s : strict_transport) (conns : list conn_script)
  : list conn_log * ret_class * strict_transport :=
  match conns with
  | [] => ([], RNoScript, s)
  | c :: rest =>
      let p := server_port port s in
      match new_conn cfg (cs_dial_ok c) (cs_dial_now c) s with
      | (None, err, s') => ([mkLog p (c_ssl cfg || sts_enabled s) false []], err, s')
      | (Some tls, _, s') =>
          let o := conn_run ord cfg tls s' c p in
          let log := fst (fst (fst o)) in
          let err := snd (fst (fst o)) in
          let s_end := snd (fst o) in
          if begin_upgrade s_end then
            let rec := start_conn ord cfg port (set_begin_upgrade false s_end) rest in
            (log :: fst (fst rec), snd (fst rec), snd rec)
          else
            ([log], err,
             match err, snd o with
             | RNil, Some now => if sts_enabled s_end then set_received now s_end else s_end
             | _, _ => s_end
             end)
      end
  end.
