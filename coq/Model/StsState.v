(* impl-model of state.go: strictTransport (reset / expired / enabled).
   Times are Z nanoseconds on one clock; `now` is always an explicit input.  Go's zero
   time.Time is `time_zero`; time.Since saturates at the largest Duration. *)
Require Import Bytes CapLib.

Record strict_transport := mkSts {
  begin_upgrade : bool;
  upgrade_port : Z;
  persistence_duration : Z;
  persistence_received : Z;
  preload : bool;
  last_failed : Z
}.

(* 0001-01-01T00:00:00Z as Unix nanoseconds (only its distance to `now` matters) *)
Definition time_zero : Z := (-62135596800000000000)%Z.
Definition max_duration : Z := max_int64.
Definition second_ns : Z := 1000000000%Z.

(* time.Since(t): now - t, saturated like Time.Sub *)
Definition since (now t : Z) : Z :=
  let d := (now - t)%Z in
  if (max_duration <? d)%Z then max_duration else if (d <? min_int64)%Z then min_int64 else d.

(* state.reset(true) on a zero-valued struct *)
Definition sts_init : strict_transport := mkSts false (-1) (-1) time_zero false time_zero.

Definition sts_reset (s : strict_transport) : strict_transport :=
  mkSts (begin_upgrade s) (-1) (-1) (persistence_received s) false (last_failed s).

(* int(time.Since(received).Seconds()) > duration ; Seconds() truncated toward zero *)
Definition sts_expired (now : Z) (s : strict_transport) : bool :=
  (persistence_duration s <? Z.quot (since now (persistence_received s)) second_ns)%Z.

Definition sts_enabled (s : strict_transport) : bool := (0 <? upgrade_port s)%Z.

(* time.Since(lastFailed) < 5*time.Minute *)
Definition recently_failed (now : Z) (s : strict_transport) : bool :=
  (since now (last_failed s) <? 300 * second_ns)%Z.

Definition set_begin_upgrade (b : bool) (s : strict_transport) : strict_transport :=
  mkSts b (upgrade_port s) (persistence_duration s) (persistence_received s) (preload s) (last_failed s).
Definition set_upgrade_port (p : Z) (s : strict_transport) : strict_transport :=
  mkSts (begin_upgrade s) p (persistence_duration s) (persistence_received s) (preload s) (last_failed s).
Definition set_persistence (d now : Z) (s : strict_transport) : strict_transport :=
  mkSts (begin_upgrade s) (upgrade_port s) d now (preload s) (last_failed s).
Definition set_received (now : Z) (s : strict_transport) : strict_transport :=
  mkSts (begin_upgrade s) (upgrade_port s) (persistence_duration s) now (preload s) (last_failed s).
Definition set_preload (b : bool) (s : strict_transport) : strict_transport :=
  mkSts (begin_upgrade s) (upgrade_port s) (persistence_duration s) (persistence_received s) b (last_failed s).
Definition set_last_failed (now : Z) (s : strict_transport) : strict_transport :=
  mkSts (begin_upgrade s) (upgrade_port s) (persistence_duration s) (persistence_received s) (preload s) now.
