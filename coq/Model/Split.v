(* impl-model of the outgoing length limit (C11):
     format.go   splitMessage        (as rewritten in /repo ef457aa: bytes, not runes)
     event.go    Event.LenOpts, Event.split, Event.Bytes (source-less, tag-less shape)
     commands.go Commands.Join, Commands.List (as repaired in 16b825c)
     client.go   Client.MaxEventLength (tracking enabled)
   builtin.go handleISUPPORT is Model/State.v handle_isupport.

   Integers: Go `int` is modelled by Z.  The model is exact while no 64-bit overflow
   happens, i.e. for |maxWidth| < 2^62 (texts are far shorter than that).
   Go panics (slice bounds) are explicit `Panic`; running out of the loop fuel of
   `place` is `Panic` too, so "never Panic" also says the Go loop terminates.
   No proofs here. *)
Require Import Bytes Utf8 WireOut Ctcp State.
Require Format.
Open Scope N_scope.

Definition Zlen (s : str) : Z := Z.of_nat (length s).

(* List.rev in linear time (rev_append_rev: frev s = rev s) *)
Definition frev (s : str) : str := rev_append s [].

(* ---- strings.TrimSpace (on the already valid string) ----------------- *)

Definition is_ascii_space (b : N) : bool := ((9 <=? b) && (b <=? 13)) || (b =? 32).

(* byte length of the White_Space rune (unicode.IsSpace) at the head of s, 0 if none:
   U+0009-000D, U+0020, U+0085, U+00A0, U+1680, U+2000-200A, U+2028, U+2029, U+202F,
   U+205F, U+3000 *)
Definition ws_len (s : str) : nat :=
  match s with
  | [] => 0%nat
  | b :: r =>
    if is_ascii_space b then 1%nat
    else if b =? 194 then
      match r with c :: _ => if (c =? 133) || (c =? 160) then 2%nat else 0%nat | _ => 0%nat end
    else if b =? 225 then
      match r with c :: d :: _ => if (c =? 154) && (d =? 128) then 3%nat else 0%nat | _ => 0%nat end
    else if b =? 226 then
      match r with
      | c :: d :: _ =>
        if (c =? 128) && (((128 <=? d) && (d <=? 138)) || (d =? 168) || (d =? 169) || (d =? 175)) then 3%nat
        else if (c =? 129) && (d =? 159) then 3%nat else 0%nat
      | _ => 0%nat
      end
    else if b =? 227 then
      match r with c :: d :: _ => if (c =? 128) && (d =? 128) then 3%nat else 0%nat | _ => 0%nat end
    else 0%nat
  end.

(* the same runes read backwards (s is the reversed string): utf8.DecodeLastRune *)
Definition ws_len_rev (s : str) : nat :=
  match s with
  | [] => 0%nat
  | b :: r =>
    if is_ascii_space b then 1%nat
    else match r with
    | c :: r2 =>
      if (c =? 194) && ((b =? 133) || (b =? 160)) then 2%nat
      else match r2 with
      | d :: _ =>
        if (d =? 225) && (c =? 154) && (b =? 128) then 3%nat
        else if (d =? 226) && (c =? 128) &&
                (((128 <=? b) && (b <=? 138)) || (b =? 168) || (b =? 169) || (b =? 175)) then 3%nat
        else if (d =? 226) && (c =? 129) && (b =? 159) then 3%nat
        else if (d =? 227) && (c =? 128) && (b =? 128) then 3%nat
        else 0%nat
      | [] => 0%nat
      end
    | [] => 0%nat
    end
  end.

Fixpoint trim_aux (wl : str -> nat) (s : str) (skip : nat) : str :=
  match s with
  | [] => []
  | _ :: r =>
    match skip with
    | S k => trim_aux wl r k
    | O => match wl s with
           | O => s
           | S k => trim_aux wl r k
           end
    end
  end.

Definition trim_left_space (s : str) : str := trim_aux ws_len s 0.
Definition trim_right_space (s : str) : str := frev (trim_aux ws_len_rev (frev s) 0).
Definition trim_space (s : str) : str := trim_right_space (trim_left_space s).

(* ---- strings.FieldsFunc with the splitter's own separator set -------- *)

(* '\t', '\v', '\f', ' ', U+0085, U+00A0 ("unicode.IsSpace without CR/LF") *)
Definition is_sep_byte (b : N) : bool := (b =? 9) || (b =? 11) || (b =? 12) || (b =? 32).
Definition sep_len (s : str) : nat :=
  match s with
  | [] => 0%nat
  | b :: r =>
    if is_sep_byte b then 1%nat
    else if b =? 194 then
      match r with c :: _ => if (c =? 133) || (c =? 160) then 2%nat else 0%nat | _ => 0%nat end
    else 0%nat
  end.

Definition emit (cur : str) : list str := match cur with [] => [] | _ => [frev cur] end.

Fixpoint fields_aux (s : str) (skip : nat) (cur : str) : list str :=
  match s with
  | [] => emit cur
  | b :: r =>
    match skip with
    | S k => fields_aux r k cur
    | O => match sep_len s with
           | O => fields_aux r 0 (b :: cur)
           | S k => emit cur ++ fields_aux r k []
           end
    end
  end.
Definition fields (s : str) : list str := fields_aux s 0 [].

(* ---- the newline loop: a word w0 NL+ w1 NL+ ... becomes w0, "", w1, "", ... -- *)

Definition is_nl (b : N) : bool := (b =? 10) || (b =? 13).

Fixpoint nl_word_aux (s : str) (cur : str) (skipping : bool) : list str :=
  match s with
  | [] => [frev cur]
  | b :: r =>
    if is_nl b then
      if skipping then nl_word_aux r [] true
      else frev cur :: [] :: nl_word_aux r [] true
    else nl_word_aux r (b :: cur) false
  end.
Definition nl_word (w : str) : list str := nl_word_aux w [] false.

Definition split_words (input : str) : list str :=
  flat_map nl_word (fields (trim_space input)).

(* ---- colour / format code tracking ----------------------------------- *)

(* reCode: \x02 \x1d \x0f \x03 \x16 \x1f \x01 *)
Definition is_code (b : N) : bool :=
  (b =? 2) || (b =? 29) || (b =? 15) || (b =? 3) || (b =? 22) || (b =? 31) || (b =? 1).

(* reColor = \x03([019]?\d(,[019]?\d)?), leftmost-first; s is what follows the \x03 *)
Definition is_019 (b : N) : bool := (b =? 48) || (b =? 49) || (b =? 57).
Definition color_a (s : str) : option nat :=
  match s with
  | [] => None
  | a :: r =>
    match r with
    | b :: _ => if is_019 a && is_digit b then Some 2%nat
                else if is_digit a then Some 1%nat else None
    | [] => if is_digit a then Some 1%nat else None
    end
  end.
Definition color_b (s : str) : nat :=
  match s with
  | c :: r => if c =? 44 then match color_a r with Some n => S n | None => 0%nat end else 0%nat
  | [] => 0%nat
  end.
Definition color_match (s : str) : option nat :=
  match color_a s with
  | Some n => Some (n + color_b (skipn n s))%nat
  | None => None
  end.

(* the last element of reColor.FindAllString(word, -1) *)
Fixpoint last_color_aux (s : str) (skip : nat) (acc : option str) : option str :=
  match s with
  | [] => acc
  | b :: r =>
    match skip with
    | S k => last_color_aux r k acc
    | O =>
      if b =? 3 then
        match color_match r with
        | Some n => last_color_aux r n (Some (3 :: firstn n r))
        | None => last_color_aux r 0 acc
        end
      else last_color_aux r 0 acc
    end
  end.
Definition last_color (w : str) : option str := last_color_aux w 0 None.

Fixpoint remove_first (m : N) (l : str) : option str :=
  match l with
  | [] => None
  | x :: r => if x =? m then Some r
              else match remove_first m r with Some r' => Some (x :: r') | None => None end
  end.

(* one element of reCode.FindAllString(word, -1) applied to (codes, lastColor) *)
Definition track (st : str * str) (m : N) : str * str :=
  let '(codes, lastc) := st in
  if m =? 15 then ([], [])
  else match remove_first m codes with
       | Some codes' => (codes', if m =? 3 then [] else lastc)
       | None =>
         if (match lastc with [] => true | _ => false end) || negb (m =? 3)
         then (codes ++ [m], lastc) else (codes, lastc)
       end.

Definition track_word (codes lastc : str) (word : str) : str * str :=
  let lastc1 := match last_color word with Some m => m | None => lastc end in
  fold_left track (filter is_code word) (codes, lastc1).

(* prefix(): dropped when it would not leave room for one character *)
Definition prefix_of (codes lastc : str) (w : Z) : str :=
  let p := codes ++ lastc in
  if (w <? Zlen p + 4)%Z then [] else p.

(* ---- the line being filled ------------------------------------------- *)

Record lst := mk_lst { l_out : list str; l_cur : str; l_has : bool }.

Definition flush (pfx : str) (st : lst) : lst := mk_lst (l_out st ++ [l_cur st]) pfx false.
Definition add (t : str) (st : lst) : lst :=
  mk_lst (l_out st) (l_cur st ++ (if l_has st then [32] else []) ++ t) true.

Definition room_of (w : Z) (st : lst) : Z :=
  (w - Zlen (l_cur st) - (if l_has st then 1 else 0))%Z.

(* the `for n < len(word)` loop: rest = word[n:], left = room - n, fuel >= len(rest);
   `n+size > room` is tested as `left < size` *)
Fixpoint cut_len (fuel : nat) (rest : str) (n : nat) (left : Z) (has : bool) : nat :=
  match fuel with
  | O => n
  | S f =>
    match rest with
    | [] => n
    | _ =>
      let size := first_rune_width rest in
      if (left <? Z.of_nat size)%Z && (Nat.ltb 0 n || has) then n
      else cut_len f (skipn size rest) (size + n)%nat (left - Z.of_nat size)%Z has
    end
  end.

(* the `for word != ""` loop *)
Fixpoint place (fuel : nat) (pfx : str) (w : Z) (word : str) (st : lst) : res lst :=
  match word with
  | [] => Ok st
  | _ =>
    match fuel with
    | O => Panic
    | S f =>
      let room := room_of w st in
      if (Zlen word <=? room)%Z then Ok (add word st)
      else if l_has st && ((Zlen pfx + Zlen word <=? w)%Z || (room <? 4)%Z)
      then place f pfx w word (flush pfx st)
      else
        let n := cut_len (length word) word 0 room (l_has st) in
        head <- slice_to word n ;;
        tail <- slice_from word n ;;
        place f pfx w tail (flush pfx (add head st))
    end
  end.

Record sst := mk_sst { s_codes : str; s_lastc : str; s_l : lst }.

Definition sst_init : sst := mk_sst [] [] (mk_lst [] [] false).

Definition step (w : Z) (acc : res sst) (word : str) : res sst :=
  st <- acc ;;
  match word with
  | [] =>
    if l_has (s_l st)
    then Ok (mk_sst (s_codes st) (s_lastc st) (flush (prefix_of (s_codes st) (s_lastc st) w) (s_l st)))
    else Ok st
  | _ =>
    let '(codes, lastc) := track_word (s_codes st) (s_lastc st) word in
    l <- place (2 * length word + 2) (prefix_of codes lastc w) w word (s_l st) ;;
    Ok (mk_sst codes lastc l)
  end.

Definition finish (l : lst) : list str := if l_has l then l_out l ++ [l_cur l] else l_out l.

Definition qmark : str := [63].

Definition split_message (input : str) (w : Z) : res (list str) :=
  let input := to_valid_utf8 qmark input in
  st <- fold_left (step w) (split_words input) (Ok sst_init) ;;
  Ok (List.map (to_valid_utf8 qmark) (finish (s_l st))).

(* ---- Event.LenOpts / Event.split -------------------------------------- *)

(* The fields Event.split reads.  se_tagov is what LenOpts adds for the tags:
   0 when len(Tags) = 0, else Tags.Len() + 1 (Tags.Bytes itself belongs to C03). *)
Record sevent := mk_sevent {
  se_tagov : nat;
  se_source : option (str * str * str);
  se_command : str;
  se_params : list str
}.

Fixpoint params_len (ps : list str) : nat :=
  match ps with
  | [] => 0%nat
  | [p] => (1 + length p + (if needs_colon p then 1 else 0))%nat
  | p :: r => (1 + length p + params_len r)%nat
  end.

Definition source_len (s : str * str * str) : nat :=
  let '(name, ident, host) := s in
  (length name + (match ident with [] => 0 | _ => 1 + length ident end)
               + (match host with [] => 0 | _ => 1 + length host end))%nat.

(* LenOpts of the copy whose Source was set to nil *)
Definition len_nosrc (e : sevent) : nat :=
  (se_tagov e + length (se_command e) + params_len (se_params e))%nat.
(* LenOpts of the event itself *)
Definition len_opts (e : sevent) : nat :=
  ((match se_source e with Some s => source_len s + 2 | None => 0 end) + len_nosrc e)%nat.

Definition set_last (ps : list str) (v : str) : list str :=
  match ps with [] => [] | _ => removelast ps ++ [v] end.

Definition with_params (e : sevent) (ps : list str) : sevent :=
  mk_sevent (se_tagov e) (se_source e) (se_command e) ps.

Definition is_msg_cmd (c : str) : bool := streqb c PRIVMSG || streqb c NOTICE.

Definition ctcp_wrap (cmd piece : str) : str := [1] ++ cmd ++ [32] ++ piece ++ [1].

Definition event_split (e : sevent) (max : Z) : res (list sevent) :=
  match se_params e with
  | [] => Ok [e]
  | _ =>
    if negb (is_msg_cmd (se_command e)) then Ok [e] else
    if (Z.of_nat (len_nosrc e) <? max)%Z then Ok [e] else
    let text := last (se_params e) [] in
    let cmd_len := Z.of_nat (len_nosrc (with_params e (set_last (se_params e) []))) in
    d <- decode_ctcp (Ctcp.mk_event None (se_command e) (se_params e)) ;;
    match d with
    | Some c =>
      match text with
      | [] => Ok [e]
      | _ =>
        let max' := (max - (Zlen (c_command c) + 4))%Z in
        if (max' <? cmd_len)%Z then Ok [e] else
        pieces <- split_message (c_text c) (max' - cmd_len) ;;
        Ok (List.map (fun p => with_params e (set_last (se_params e) (ctcp_wrap (c_command c) p))) pieces)
      end
    | None =>
      if (max <? cmd_len)%Z then Ok [e] else
      pieces <- split_message text (max - cmd_len) ;;
      Ok (List.map (fun p => with_params e (set_last (se_params e) p)) pieces)
    end
  end.

(* ---- Event.Bytes for a tag-less event --------------------------------- *)

Fixpoint params_bytes (ps : list str) : str :=
  match ps with
  | [] => []
  | [p] => [32] ++ (if needs_colon p then [58] else []) ++ p
  | p :: r => [32] ++ p ++ params_bytes r
  end.

Definition source_bytes (s : str * str * str) : str :=
  let '(name, ident, host) := s in
  name ++ (match ident with [] => [] | _ => 33 :: ident end)
       ++ (match host with [] => [] | _ => 64 :: host end).

(* the buffer before bytes.ToValidUTF8 and the CR/LF strip *)
Definition event_raw (e : sevent) : str :=
  (match se_source e with Some s => [58] ++ source_bytes s ++ [32] | None => [] end)
  ++ se_command e ++ params_bytes (se_params e).
Definition event_bytes (e : sevent) : str := strip_crlf (to_valid_utf8 [] (event_raw e)).

(* ---- Commands.Join / Commands.List ------------------------------------ *)

Definition JOIN : str := Eval vm_compute in bs "JOIN".
Definition LIST : str := Eval vm_compute in bs "LIST".

Definition comma_join (buffer c : str) : str := buffer ++ [44] ++ c.

(* the loop body for channels[i:], buffer as it is on entry; the result is what is
   handed to Client.Send, in order *)
Fixpoint batches (chans : list str) (buffer : str) (max : Z) : list str :=
  match chans with
  | [] => []
  | c :: r =>
    let full := match buffer with
                | [] => false
                | _ => (max <? Zlen (comma_join buffer c))%Z
                end in
    let sent := if full then [buffer] else [] in
    let buffer1 := if full then [] else buffer in
    let buffer2 := match buffer1 with [] => c | _ => comma_join buffer1 c end in
    match r with
    | [] => sent ++ [buffer2]
    | _ => sent ++ batches r buffer2 max
    end
  end.

(* max := MaxEventLength() - len(JOIN) - 1, in both functions *)
Definition join_batches (chans : list str) (mel : Z) : list str := batches chans [] (mel - 4 - 1).
Definition list_batches (chans : list str) (mel : Z) : list str := batches chans [] (mel - 4 - 1).

Definition cmd_event (cmd : str) (ps : list str) : sevent := mk_sevent 0 None cmd ps.

Definition join_events (chans : list str) (mel : Z) : list sevent :=
  List.map (fun b => cmd_event JOIN [b]) (join_batches chans mel).
Definition list_events (chans : list str) (mel : Z) : list sevent :=
  match chans with
  | [] => [cmd_event LIST []]
  | _ => List.map (fun b => cmd_event LIST [b]) (list_batches chans mel)
  end.

(* ---- Client.MaxEventLength (state tracking enabled) and Client.Send ---- *)

Definition max_event_length (s : state) : Z := (st_maxline s - st_maxprefix s)%Z.

(* state.go state.reset(false), which conn.go internalConnect calls before every connection,
   as far as the limits go: server options emptied, both lengths back to the defaults *)
Definition reset_conn (s : state) : state :=
  set_maxprefix (set_maxline (set_opts s []) default_max_line) default_max_prefix.

(* Send (GlobalFormat off): the events queued for the send loop, in order *)
Definition send (s : state) (e : sevent) : res (list sevent) := event_split e (max_event_length s).

(* Send with Config.GlobalFormat: Fmt on the last parameter of PRIVMSG/TOPIC/NOTICE (when
   there is one and it is not empty) BEFORE the split, so that e.g. {ctcp}ACTION ...{ctcp}
   is split as the CTCP it becomes.  Fmt is Model/Format.v (C20). *)
Definition TOPIC : str := Eval vm_compute in bs "TOPIC".
Definition global_format (e : sevent) : sevent :=
  match se_params e with
  | [] => e
  | _ =>
    match last (se_params e) [] with
    | [] => e
    | l => if is_msg_cmd (se_command e) || streqb (se_command e) TOPIC
           then with_params e (set_last (se_params e) (Format.fmt l)) else e
    end
  end.
Definition send_gf (s : state) (e : sevent) : res (list sevent) :=
  event_split (global_format e) (max_event_length s).

Definition message (target text : str) : sevent := cmd_event PRIVMSG [target; text].
Definition notice_ev (target text : str) : sevent := cmd_event NOTICE [target; text].
Definition ACTION_head : str := Eval vm_compute in 1 :: bs "ACTION ".
Definition action (target text : str) : sevent := cmd_event PRIVMSG [target; ACTION_head ++ text ++ [1]].
