(* impl-model of the SASL path of girc (C09): cap_sasl.go (SASLPlain.Encode,
   SASLExternal.Encode, handleSASL, handleSASLError), cap.go handleCAP (Model/Cap.v
   handle_cap, with STS disabled and no Config.SupportedCaps), registerBuiltins' routing of
   AUTHENTICATE / 900-908, execLoop's "ERROR => return &ErrEvent", the credential-bearing
   writes of internalConnect (WEBIRC, PASS) and Cmd.Oper, and what debugLogEvent /
   RunHandlers / Event.Pretty print as a function of the Sensitive and Echo flags.
   No proofs here. *)
Require Import Bytes Utf8 Base64 CapLib StsState.
Require Cap.

(* ---- events ----------------------------------------------------------- *)

Record event := mkEv {
  ev_prefix : str;            (* rendered "@tags " and ":source " part of the line; [] for
                                 every event the client itself builds in this model *)
  ev_cmd : str;
  ev_params : list str;
  ev_sensitive : bool;
  ev_echo : bool }.

Definition plain_ev (cmd : str) (params : list str) : event := mkEv [] cmd params false false.
Definition secret_ev (cmd : str) (params : list str) : event := mkEv [] cmd params true false.
(* Event.Last *)
Definition ev_last (e : event) : str := last (ev_params e) [].
Definition with_params (e : event) (ps : list str) : event :=
  mkEv (ev_prefix e) (ev_cmd e) ps (ev_sensitive e) (ev_echo e).

Definition c_CAP := Eval vm_compute in bs "CAP".
Definition c_END := Eval vm_compute in bs "END".
Definition c_LS := Eval vm_compute in bs "LS".
Definition c_302 := Eval vm_compute in bs "302".
Definition c_REQ := Eval vm_compute in bs "REQ".
Definition c_ACK := Eval vm_compute in bs "ACK".
Definition c_NAK := Eval vm_compute in bs "NAK".
Definition c_DEL := Eval vm_compute in bs "DEL".
Definition c_NEW := Eval vm_compute in bs "NEW".
Definition c_sasl := Eval vm_compute in bs "sasl".
Definition c_AUTHENTICATE := Eval vm_compute in bs "AUTHENTICATE".
Definition c_ERROR := Eval vm_compute in bs "ERROR".
Definition c_PASS := Eval vm_compute in bs "PASS".
Definition c_WEBIRC := Eval vm_compute in bs "WEBIRC".
Definition c_NICK := Eval vm_compute in bs "NICK".
Definition c_USER := Eval vm_compute in bs "USER".
Definition c_OPER := Eval vm_compute in bs "OPER".
Definition c_plus := Eval vm_compute in bs "+".
Definition c_star := Eval vm_compute in bs "*".
Definition n900 := Eval vm_compute in bs "900".   (* RPL_LOGGEDIN *)
Definition n901 := Eval vm_compute in bs "901".   (* RPL_LOGGEDOUT *)
Definition n902 := Eval vm_compute in bs "902".   (* RPL_NICKLOCKED *)
Definition n903 := Eval vm_compute in bs "903".   (* RPL_SASLSUCCESS *)
Definition n904 := Eval vm_compute in bs "904".   (* ERR_SASLFAIL *)
Definition n905 := Eval vm_compute in bs "905".   (* ERR_SASLTOOLONG *)
Definition n906 := Eval vm_compute in bs "906".   (* ERR_SASLABORTED *)
Definition n907 := Eval vm_compute in bs "907".   (* ERR_SASLALREADY *)
Definition n908 := Eval vm_compute in bs "908".   (* RPL_SASLMECHS *)

Definition cap_end : event := plain_ev c_CAP [c_END].

(* Event.Bytes for an event whose tags/source part is already rendered in ev_prefix:
   command, parameters (the last one gets ':' when it is empty, contains a space or
   starts with ':'), then bytes.ToValidUTF8(.., nil), then every CR and LF removed. *)
Fixpoint params_bytes (ps : list str) : str :=
  match ps with
  | [] => []
  | [p] => if contains [32] p || is_nil p || prefixb [58] p then 32 :: 58 :: p else 32 :: p
  | p :: r => 32 :: p ++ params_bytes r
  end.
Definition strip_crlf (s : str) : str := filter (fun b => negb ((b =? 10) || (b =? 13))) s.
Definition event_bytes (e : event) : str :=
  strip_crlf (to_valid_utf8 [] (ev_prefix e ++ ev_cmd e ++ params_bytes (ev_params e))).

(* ---- mechanisms (cap_sasl.go) ------------------------------------------ *)

(* len(params) != 1 || params[0] != "+"  is false *)
Definition params_is_plus (params : list str) : bool :=
  match params with [p] => streqb p c_plus | _ => false end.

(* in := user; append 0; append user; append 0; append pass; base64.StdEncoding *)
Definition plain_encode (u p : str) : str := base64_encode (u ++ [0] ++ u ++ [0] ++ p).
Definition sasl_plain_encode (u p : str) (params : list str) : str :=
  if params_is_plus params then plain_encode u p else [].

(* EXTERNAL: "+" or, if configured, the identity exactly as given (not base64) *)
Definition external_encode (identity : str) : str :=
  match identity with [] => c_plus | _ => identity end.
Definition sasl_external_encode (identity : str) (params : list str) : str :=
  if params_is_plus params then external_encode identity else [].

Record sasl_mech := mkMech { mech_method : str; mech_encode : list str -> str }.

(* ---- the chunk loop of handleSASL, as written --------------------------- *)

Definition sasl_chunk_size : nat := 400.

Inductive chunk :=
| Payload (c : str)     (* &Event{AUTHENTICATE, [c], Sensitive: true} *)
| Plus.                 (* &Event{AUTHENTICATE, ["+"]} *)

(* for { if len(auth) > saslChunkSize { write(auth[0:saslChunkSize]); auth = auth[saslChunkSize:]; continue }
         if len(auth) <= saslChunkSize { write(auth); if len(auth) == 400 { write("+") }; break } }
   Slices are checked.  `fuel` only makes the loop structurally recursive; running out
   of it is reported as Panic and Proofs/SaslProofs.v shows S (len auth) is enough. *)
Fixpoint sasl_chunk_loop (fuel : nat) (auth : str) : res (list chunk) :=
  match fuel with
  | O => Panic
  | S f =>
    if Nat.ltb sasl_chunk_size (length auth) then
      c <- slice auth 0 sasl_chunk_size ;;
      rest <- slice_from auth sasl_chunk_size ;;
      tl <- sasl_chunk_loop f rest ;;
      Ok (Payload c :: tl)
    else if Nat.leb (length auth) sasl_chunk_size then
      Ok (Payload auth :: (if Nat.eqb (length auth) 400 then [Plus] else []))
    else sasl_chunk_loop f auth       (* neither test true: the Go loop would spin *)
  end.
Definition sasl_chunks (auth : str) : res (list chunk) := sasl_chunk_loop (S (length auth)) auth.

Definition chunk_event (c : chunk) : event :=
  match c with
  | Payload p => secret_ev c_AUTHENTICATE [p]
  | Plus => plain_ev c_AUTHENTICATE [c_plus]
  end.

(* ---- handlers ----------------------------------------------------------- *)

Inductive output :=
| Write (e : event)            (* c.write(e): queued for sendLoop *)
| InjectError (text : str).    (* c.receive(&Event{Command: ERROR, Params: [text]}) *)

Definition t_closing_sasl := Eval vm_compute in bs "closing connection: SASL ".
Definition t_failed := Eval vm_compute in bs " failed: ".
Definition t_closing := Eval vm_compute in bs "closing connection: ".
Definition sasl_fail_text (method last : str) : str := t_closing_sasl ++ method ++ t_failed ++ last.
Definition sasl_error_text (last : str) : str := t_closing ++ last.

Definition handle_sasl (sasl : option sasl_mech) (e : event) : res (list output) :=
  if streqb (ev_cmd e) n903 || streqb (ev_cmd e) n907 then Ok [Write cap_end]
  else match sasl with
  | None => Ok []
  | Some m =>
    match mech_encode m (ev_params e) with
    | [] => Ok [InjectError (sasl_fail_text (mech_method m) (ev_last e))]
    | auth =>
      cs <- sasl_chunks auth ;;
      Ok (List.map (fun c => Write (chunk_event c)) cs)
    end
  end.

Definition handle_sasl_error (sasl : option sasl_mech) (e : event) : list output :=
  match sasl with
  | None => [Write cap_end]
  | Some _ => [InjectError (sasl_error_text (ev_last e))]
  end.

(* ---- configuration, registration writes (conn.go internalConnect), Cmd.Oper ---- *)

Record webirc := mkWebirc { w_password : str; w_gateway : str; w_hostname : str; w_address : str }.

Record config := mkCfg {
  cfg_sasl : option sasl_mech;
  cfg_server_pass : str;
  cfg_webirc : webirc;
  cfg_tracking : bool;        (* not disableTracking *)
  cfg_nick : str; cfg_user : str; cfg_name : str;
  cfg_ord : list str -> list str }.   (* the order in which Go iterates tmpCap when it
                                         builds CAP REQ (not a setting: any function) *)

Definition webirc_event (w : webirc) : event :=
  secret_ev c_WEBIRC [w_password w; w_gateway w; w_hostname w; w_address w].
Definition pass_event (pw : str) : event := secret_ev c_PASS [pw].
(* commands.go: cmd.c.Send(&Event{OPER, [user, pass], Sensitive: true}); Send splits
   only PRIVMSG/NOTICE, so the event reaches write unchanged *)
Definition oper_event (user pass : str) : event := secret_ev c_OPER [user; pass].

Definition registration_writes (c : config) : list event :=
  (if is_nil (w_password (cfg_webirc c)) then [] else [webirc_event (cfg_webirc c)]) ++
  (if is_nil (cfg_server_pass c) then [] else [pass_event (cfg_server_pass c)]) ++
  (if cfg_tracking c then [plain_ev c_CAP [c_LS; c_302]] else []) ++
  [plain_ev c_NICK [cfg_nick c];
   plain_ev c_USER [cfg_user c; c_star; c_star;
                    if is_nil (cfg_name c) then cfg_user c else cfg_name c]].

(* ---- handleCAP: Model/Cap.v handle_cap ------------------------------------
   The client of this model has Config.DisableSTS set and no Config.SupportedCaps (the
   STS block is C10's subject); the connection is plaintext and the clock is irrelevant
   then.  Negotiation state = Cap.cap_state (tmpCap, enabledCap, the STS record). *)
Definition nstate := Cap.cap_state.
Definition ns_init : nstate := Cap.cap_init sts_init.

Definition cap_cfg_of (c : config) : Cap.cap_cfg :=
  Cap.mkCfg (option_map mech_method (cfg_sasl c)) true false false [] (cfg_tracking c) None []
            (cfg_nick c) (cfg_user c) (cfg_name c).

(* c.write(&Event{Command: cmd, Params: params}); the two STS outcomes cannot occur with
   DisableSTS (Proofs/SaslCapLines.v handle_cap_writes_only) *)
Definition cap_out_outputs (o : Cap.cap_out) : list output :=
  match o with
  | Cap.Write cmd params => [Write (plain_ev cmd params)]
  | Cap.InjectError _ => []
  | Cap.Upgrade => []
  end.

Definition handle_cap (c : config) (ns : nstate) (e : event) : nstate * list output :=
  let r := Cap.handle_cap (cfg_ord c) (cap_cfg_of c) false 0%Z ns (ev_params e) in
  (fst r, flat_map cap_out_outputs (snd r)).

(* ---- registerBuiltins routing + RunHandlers' command dispatch ------------ *)

Definition is_sasl_error_numeric (cmd : str) : bool :=
  streqb cmd n902 || streqb cmd n904 || streqb cmd n905 || streqb cmd n906 || streqb cmd n908.

Definition run_handlers (c : config) (ns : nstate) (e : event) : res (nstate * list output) :=
  if negb (cfg_tracking c) || ev_echo e then Ok (ns, [])
  else if streqb (ev_cmd e) c_AUTHENTICATE || streqb (ev_cmd e) n903 then
    outs <- handle_sasl (cfg_sasl c) e ;; Ok (ns, outs)
  else if is_sasl_error_numeric (ev_cmd e) then Ok (ns, handle_sasl_error (cfg_sasl c) e)
  else if streqb (ev_cmd e) c_CAP then Ok (handle_cap c ns e)
  else Ok (ns, []).

(* ---- execLoop: one dequeued event; ERROR => Connect returns &ErrEvent ------ *)

Record conn := mkConn {
  cn_ns : nstate;
  cn_returned : option str }.    (* Some t: Connect returned &ErrEvent{e}, e.Last() = t *)
Definition conn_init : conn := mkConn ns_init None.

Definition error_event (text : str) : event := plain_ev c_ERROR [text].

Definition exec_loop_iter (c : config) (ns : nstate) (e : event)
  : res (nstate * list output * option str) :=
  r <- run_handlers c ns e ;;
  Ok (fst r, snd r, if streqb (ev_cmd e) c_ERROR then Some (ev_last e) else None).

Fixpoint first_inject (outs : list output) : option str :=
  match outs with
  | [] => None
  | InjectError t :: _ => Some t
  | Write _ :: r => first_inject r
  end.

(* One server event, then everything it caused: the event is dequeued by execLoop;
   an ERROR injected by its handlers is the next event in rx (the server is waiting
   for the client here), and dequeuing it makes execLoop return. *)
Definition feed (c : config) (cn : conn) (e : event) : res (conn * list output) :=
  match cn_returned cn with
  | Some _ => Ok (cn, [])
  | None =>
    r <- exec_loop_iter c (cn_ns cn) e ;;
    let '(ns1, outs1, ret1) := r in
    match ret1 with
    | Some t => Ok (mkConn ns1 (Some t), outs1)
    | None =>
      match first_inject outs1 with
      | None => Ok (mkConn ns1 None, outs1)
      | Some t =>
        r2 <- exec_loop_iter c ns1 (error_event t) ;;
        let '(ns2, outs2, ret2) := r2 in
        Ok (mkConn ns2 ret2, outs1 ++ outs2)
      end
    end
  end.

Fixpoint run (c : config) (cn : conn) (h : list event) : res (conn * list output) :=
  match h with
  | [] => Ok (cn, [])
  | e :: h' =>
    r <- feed c cn e ;;
    r' <- run c (fst r) h' ;;
    Ok (fst r', snd r ++ snd r')
  end.

Fixpoint writes_of (outs : list output) : list event :=
  match outs with
  | [] => []
  | Write e :: r => e :: writes_of r
  | InjectError _ :: r => writes_of r
  end.

(* ---- logging ------------------------------------------------------------ *)

Definition t_pretty_error := Eval vm_compute in bs "[*] an error occurred: ".
Definition t_dropping := Eval vm_compute in bs "dropping event (disconnected or timeout):".
Definition t_gt := Eval vm_compute in bs ">".
Definition t_extra := Eval vm_compute in bs "%!(EXTRA string= %s ***redacted***, string=".
Definition t_rparen := Eval vm_compute in bs ")".
Definition t_lt := Eval vm_compute in bs "< ".
Definition t_echo := Eval vm_compute in bs "[echo-message] ".

Section Log.
  (* format.go StripRaw, and the part of Event.Pretty after its first two tests;
     neither is modelled here, the gate in front of them is. *)
  Variable strip_raw : str -> str.
  Variable pretty_rest : event -> option str.

  (* Event.Pretty *)
  Definition pretty (e : event) : option str :=
    if ev_sensitive e || ev_echo e then None
    else if streqb (ev_cmd e) c_ERROR then Some (t_pretty_error ++ ev_last e)
    else pretty_rest e.

  (* what goes to Config.Out (when set) for an event, either direction *)
  Definition out_log (e : event) : list str :=
    match pretty e with Some p => [strip_raw p] | None => [] end.

  (* client.go debugLogEvent (sendLoop before each write; write/receive when the event
     is dropped).  c.debug.Printf(prefix, " %s ***redacted***", e.Command) has no verb
     in its format, so fmt appends %!(EXTRA ...) -- text mirrored as Go prints it. *)
  Definition debug_log (dropped : bool) (e : event) : str :=
    let prefix := if dropped then t_dropping else t_gt in
    if ev_sensitive e then prefix ++ t_extra ++ ev_cmd e ++ t_rparen
    else prefix ++ [32] ++ strip_raw (event_bytes e).

  (* handler.go RunHandlers: every event handed to it is printed, Sensitive or not *)
  Definition debug_log_in (e : event) : str :=
    t_lt ++ (if ev_echo e then t_echo else []) ++ strip_raw (event_bytes e).
End Log.

(* ---- what a session prints ------------------------------------------------
   One record per logged event: the line handed to Config.Debug and the lines handed to
   Config.Out.  Outgoing events are logged by sendLoop (debugLogEvent), every event
   execLoop dequeues by RunHandlers -- including the ERROR a handler injects. *)
Section SessionLog.
  Variable strip_raw : str -> str.
  Variable pretty_rest : event -> option str.

  Definition write_log (e : event) : str * list str :=
    (debug_log strip_raw false e, out_log strip_raw pretty_rest e).
  Definition recv_log (e : event) : str * list str :=
    (debug_log_in strip_raw e, out_log strip_raw pretty_rest e).
  Definition output_log (o : output) : str * list str :=
    match o with
    | Write e => write_log e
    | InjectError t => recv_log (error_event t)
    end.

  (* registration (internalConnect) *)
  Definition registration_log (c : config) : list (str * list str) :=
    List.map write_log (registration_writes c).

  (* the events of a history, fed one by one as in `run`; nothing is dequeued any more
     once Connect has returned *)
  Fixpoint session_log (c : config) (cn : conn) (h : list event) : list (str * list str) :=
    match h with
    | [] => []
    | e :: h' =>
      match feed c cn e with
      | Ok (cn1, outs) =>
        (match cn_returned cn with
         | None => recv_log e :: List.map output_log outs
         | Some _ => []
         end) ++ session_log c cn1 h'
      | Panic => []
      end
    end.
End SessionLog.

(* ---- stateful mechanisms ------------------------------------------------------
   A Go SASLMech may keep state between calls (challenge-response mechanisms do): Method
   and Encode may answer differently every time.  A history is then a list of steps, each
   pairing the server's event with the mechanism as it behaves at that step. *)
Definition set_sasl (c : config) (m : sasl_mech) : config :=
  mkCfg (Some m) (cfg_server_pass c) (cfg_webirc c) (cfg_tracking c)
        (cfg_nick c) (cfg_user c) (cfg_name c) (cfg_ord c).

Fixpoint run_stateful (c : config) (cn : conn) (steps : list (sasl_mech * event))
  : res (conn * list output) :=
  match steps with
  | [] => Ok (cn, [])
  | (m, e) :: r =>
    x <- feed (set_sasl c m) cn e ;;
    y <- run_stateful c (fst x) r ;;
    Ok (fst y, snd x ++ snd y)
  end.

(* what a session with a stateful mechanism prints (session_log over run_stateful's steps) *)
Section SessionLogStateful.
  Variable strip_raw : str -> str.
  Variable pretty_rest : event -> option str.

  Fixpoint session_log_stateful (c : config) (cn : conn) (steps : list (sasl_mech * event))
    : list (str * list str) :=
    match steps with
    | [] => []
    | (m, e) :: r =>
      match feed (set_sasl c m) cn e with
      | Ok (cn1, outs) =>
        (match cn_returned cn with
         | None => recv_log strip_raw pretty_rest e :: List.map (output_log strip_raw pretty_rest) outs
         | Some _ => []
         end) ++ session_log_stateful c cn1 r
      | Panic => []
      end
    end.
End SessionLogStateful.

(* ---- the PLAIN mechanism value ------------------------------------------------
   *SASLPlain has two exported fields and no other state: Encode is a function of the
   fields as they are when it is called.  An application that changes them between two
   exchanges (or connections) is a stateful mechanism whose step i is plain_mech u_i p_i. *)
Definition m_PLAIN := Eval vm_compute in bs "PLAIN".
Definition plain_mech (u p : str) : sasl_mech := mkMech m_PLAIN (sasl_plain_encode u p).

(* ---- write faults (conn.go sendLoop, internalConnect) --------------------------
   sendLoop logs the event (debugLogEvent), then writes it; when the write or the flush
   fails with I/O error w it returns that error, unchanged, whatever the event was
   (`if err != nil { return err }`).  internalConnect prints the error that ended the
   connection ("received error, beginning cleanup: %v") and returns it. *)
Definition send_loop_error (fault : option str) (e : event) : option str := fault.

Definition t_cleanup := Eval vm_compute in bs "received error, beginning cleanup: ".
Definition cleanup_log (err : str) : str := t_cleanup ++ err.

Section WriteFault.
  Variable strip_raw : str -> str.
  (* Debug lines caused by the event whose write fails with w, and Connect's result *)
  Definition write_fault_log (w : str) (e : event) : list str :=
    debug_log strip_raw false e ::
    match send_loop_error (Some w) e with Some x => [cleanup_log x] | None => [] end.
  Definition write_fault_result (w : str) (e : event) : option str := send_loop_error (Some w) e.
End WriteFault.
