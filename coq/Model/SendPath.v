(* impl-model of the outgoing path of conn.go and event.go:
     Client.Send  = Event.split(MaxEventLength()) then Client.write for every piece
     Event.split  (event.go)
     sendLoop     = replace Tags by Tags{} when message-tags is not enabled, then write
                    Event.Bytes() followed by CRLF
     Commands.SendRaw = ParseEvent then Send, stopping at the first line that is nil.

   splitMessage (format.go, the subject of C11) is a PARAMETER of Event.split here: the
   C03 theorems hold for every splitter, and the correspondence feeds the model the
   pieces the real splitMessage returned.

   Not modelled: Config.GlobalFormat (Send rewrites the last parameter with Fmt before
   splitting; the result is again an event, to which every theorem about "all events"
   applies), rate limiting (delays only), the write timeout.  No proofs here. *)
Require Import Bytes Utf8 AMap WireOut GoUpper Tags Event Commands.

Definition to_wevent (c : cmd_event) : wevent :=
  mkWEvent None None (ce_command c) (ce_params c).

(* ---- sendLoop -------------------------------------------------------------------- *)

(* `if event.Tags != nil { if !in { event.Tags = Tags{} } }` *)
Definition strip_tags (message_tags : bool) (e : wevent) : wevent :=
  match we_tags e with
  | Some _ => if message_tags then e
              else mkWEvent (Some []) (we_src e) (we_cmd e) (we_params e)
  | None => e
  end.

Definition endline : str := [13; 10].

(* the bytes one event contributes to the socket *)
Definition send_loop_write (message_tags : bool) (e : wevent) : str :=
  event_bytes (strip_tags message_tags e) ++ endline.

(* ---- DecodeCTCP as far as Event.split reads it: Some (Command, Text) ------------- *)

(* the negation of (b < 'A' || b > 'Z') && (b < '0' || b > '9') *)
Definition ctcp_tag_ok (b : N) : bool :=
  negb (((b <? 65) || (90 <? b)) && ((b <? 48) || (57 <? b))).

Definition split_decode_ctcp (cmd : str) (params : list str) : option (str * str) :=
  match params with
  | [_; p1] =>
    if Nat.ltb (length p1) 3 then None else
    if negb (streqb cmd c_PRIVMSG) && negb (streqb cmd c_NOTICE) then None else
    match p1 with
    | c0 :: rest =>                                  (* rest has >= 2 bytes *)
      if negb (c0 =? 1) || negb (last rest 0 =? 1) then None else
      let text := removelast rest in                 (* p1[1 : len-1] *)
      match index_byte 32 text with
      | None => if forallb ctcp_tag_ok text then Some (text, []) else None
      | Some s =>
        if Nat.eqb s 0 then None else
        if negb (forallb ctcp_tag_ok (firstn s text)) then None else
        Some (firstn s text, skipn (S s) text)
      end
    | [] => None
    end
  | _ => None
  end.

(* ---- Event.split ------------------------------------------------------------------ *)

(* params[len(params)-1] = v *)
Definition set_last (l : list str) (v : str) : list str :=
  match l with [] => [] | _ => removelast l ++ [v] end.

Section Split.
  Variable splitter : str -> Z -> list str.          (* splitMessage(text, width) *)

  Definition event_split (max_length : Z) (e : wevent) : list wevent :=
    if Nat.ltb (length (we_params e)) 1 ||
       (negb (streqb (we_cmd e) c_PRIVMSG) && negb (streqb (we_cmd e) c_NOTICE))
    then [e] else
    (* event := e.Copy(); event.Source = nil *)
    let event := mkWEvent (we_tags e) None (we_cmd e) (we_params e) in
    if Z.ltb (Z.of_nat (event_len_opts false event)) max_length then [e] else
    let text := last (we_params e) [] in
    let event0 := mkWEvent (we_tags e) None (we_cmd e) (set_last (we_params e) []) in
    let cmd_len := Z.of_nat (event_len_opts false event0) in
    let ctcp := split_decode_ctcp (we_cmd e) (we_params e) in
    match (match ctcp with
           | Some (ccmd, ctext) =>
             if is_empty text then None
             else Some (ctext, (max_length - (Z.of_nat (length ccmd) + 4))%Z)
           | None => Some (text, max_length)
           end) with
    | None => [e]
    | Some (text', max') =>
      if Z.ltb max' cmd_len then [e] else
      List.map
        (fun piece =>
           let p := match ctcp with
                    | Some (ccmd, _) => [1] ++ ccmd ++ [32] ++ piece ++ [1]
                    | None => piece
                    end in
           mkWEvent (we_tags e) (we_src e) (we_cmd e) (set_last (we_params e) p))
        (splitter text' (max' - cmd_len)%Z)
    end.

  (* Client.Send: the lines that reach the socket for one event *)
  Definition send (message_tags : bool) (max_length : Z) (e : wevent) : list str :=
    List.map (send_loop_write message_tags) (event_split max_length e).
End Split.

(* ---- Commands.SendRaw ------------------------------------------------------------- *)

(* the events handed to Send, in order; stops (returning an error) at the first raw
   string ParseEvent rejects *)
Fixpoint send_raw_events (raws : list str) : res (list wevent) :=
  match raws with
  | [] => Ok []
  | r :: rest =>
    p <- parse_event r ;;
    match p with
    | None => Ok []
    | Some e => l <- send_raw_events rest ;; Ok (e :: l)
    end
  end.
