(* Byte strings as lists of N, the Go string fragments every model shares,
   and the text encodings used by the correspondence driver.  No proofs here
   (see Proofs/BytesLemmas.v): this file must keep extracting when a proof breaks. *)
From Coq Require Export String Ascii.
From Coq Require Export List NArith ZArith Bool.
Export ListNotations.
Open Scope N_scope.

Definition byte := N.
Definition str := list N.

Definition bs (s : string) : str := List.map N_of_ascii (list_ascii_of_string s).

(* ---- equality, prefix, suffix, index -------------------------------- *)

Fixpoint streqb (a b : str) : bool :=
  match a, b with
  | [], [] => true
  | x :: a', y :: b' => N.eqb x y && streqb a' b'
  | _, _ => false
  end.

Fixpoint prefixb (p s : str) : bool :=
  match p, s with
  | [], _ => true
  | a :: p', b :: s' => N.eqb a b && prefixb p' s'
  | _ :: _, [] => false
  end.

Definition suffixb (p s : str) : bool := prefixb (rev p) (rev s).

(* strings.Index: offset of the leftmost occurrence *)
Fixpoint index (sub s : str) : option nat :=
  if prefixb sub s then Some 0%nat
  else match s with [] => None | _ :: r => option_map S (index sub r) end.

Definition contains (sub s : str) : bool :=
  match index sub s with Some _ => true | None => false end.

Fixpoint index_byte (c : N) (s : str) : option nat :=
  match s with
  | [] => None
  | x :: r => if N.eqb x c then Some 0%nat else option_map S (index_byte c r)
  end.

Fixpoint memb (c : N) (s : str) : bool :=
  match s with [] => false | x :: r => N.eqb x c || memb c r end.

(* strings.IndexAny for ASCII sets *)
Fixpoint index_any (set s : str) : option nat :=
  match s with
  | [] => None
  | x :: r => if memb x set then Some 0%nat else option_map S (index_any set r)
  end.

(* last occurrence of a byte *)
Fixpoint last_index_byte_aux (c : N) (s : str) (i : nat) (acc : option nat) : option nat :=
  match s with
  | [] => acc
  | x :: r => last_index_byte_aux c r (S i) (if N.eqb x c then Some i else acc)
  end.
Definition last_index_byte (c : N) (s : str) : option nat := last_index_byte_aux c s 0 None.

(* strings.Split(s, sep) for a single-byte separator: always >= 1 piece *)
Fixpoint split_byte (c : N) (s : str) : list str :=
  match s with
  | [] => [[]]
  | x :: r =>
      if N.eqb x c then [] :: split_byte c r
      else match split_byte c r with
           | [] => [[x]]            (* unreachable *)
           | p :: ps => (x :: p) :: ps
           end
  end.

Fixpoint join (sep : str) (l : list str) : str :=
  match l with
  | [] => []
  | [x] => x
  | x :: r => x ++ sep ++ join sep r
  end.

(* split on runs of one byte, dropping empty pieces (strings.Fields for SPACE only) *)
Fixpoint fields_byte_aux (c : N) (s : str) (cur : str) : list str :=
  match s with
  | [] => match cur with [] => [] | _ => [rev cur] end
  | x :: r =>
      if N.eqb x c then
        match cur with [] => fields_byte_aux c r [] | _ => rev cur :: fields_byte_aux c r [] end
      else fields_byte_aux c r (x :: cur)
  end.
Definition fields_byte (c : N) (s : str) : list str := fields_byte_aux c s [].

(* ---- ASCII case ------------------------------------------------------ *)

Definition is_upper (b : N) : bool := (65 <=? b) && (b <=? 90).
Definition is_lower (b : N) : bool := (97 <=? b) && (b <=? 122).
Definition is_digit (b : N) : bool := (48 <=? b) && (b <=? 57).
Definition is_alpha (b : N) : bool := is_upper b || is_lower b.
Definition upper1 (b : N) : N := if is_lower b then b - 32 else b.
Definition lower1 (b : N) : N := if is_upper b then b + 32 else b.
Definition to_upper_ascii (s : str) : str := List.map upper1 s.
Definition to_lower_ascii (s : str) : str := List.map lower1 s.
Definition is_ascii (s : str) : bool := forallb (fun b => b <? 128) s.

(* ---- numbers --------------------------------------------------------- *)

Definition digit_val (b : N) : N := b - 48.

(* strconv.Atoi-like on an optional sign + digits; None on anything else *)
Fixpoint parse_digits (s : str) (acc : N) : option N :=
  match s with
  | [] => Some acc
  | x :: r => if is_digit x then parse_digits r (acc * 10 + digit_val x) else None
  end.
Definition parse_nat (s : str) : option N :=
  match s with [] => None | _ => parse_digits s 0 end.
Definition parse_int (s : str) : option Z :=
  match s with
  | 45 :: r => option_map (fun n => Z.opp (Z.of_N n)) (parse_nat r)
  | 43 :: r => option_map Z.of_N (parse_nat r)
  | _ => option_map Z.of_N (parse_nat s)
  end.

Fixpoint show_pos_fuel (fuel : nat) (n : N) (acc : str) : str :=
  match fuel with
  | O => acc
  | S f =>
      let d := 48 + n mod 10 in
      let q := n / 10 in
      if N.eqb q 0 then d :: acc else show_pos_fuel f q (d :: acc)
  end.
Definition show_N (n : N) : str := show_pos_fuel (S (N.to_nat (N.log2 n))) n [].
Definition show_Z (z : Z) : str :=
  match z with
  | Z0 => [48]
  | Zpos p => show_N (Npos p)
  | Zneg p => 45 :: show_N (Npos p)
  end.
Definition show_nat (n : nat) : str := show_N (N.of_nat n).
Definition show_bool (b : bool) : str := if b then [84] else [70]. (* "T" / "F" *)

(* ---- hex (observation encoding) -------------------------------------- *)

Definition hexdigit (n : N) : N := if n <? 10 then 48 + n else 87 + n. (* 0-9a-f *)
Fixpoint hex (s : str) : str :=
  match s with
  | [] => []
  | b :: r => hexdigit ((b / 16) mod 16) :: hexdigit (b mod 16) :: hex r
  end.

Definition comma : str := [44].
Definition semi : str := [59].
Definition bar : str := [124].
Definition hexlist (l : list str) : str := join comma (List.map hex l).
Definition show_opt_hex (o : option str) : str :=
  match o with None => [45] | Some s => 61 :: hex s end.   (* "-" / "=<hex>" *)

(* ---- checked results (Go panics are explicit) ------------------------ *)

Inductive res (A : Type) : Type :=
| Ok : A -> res A
| Panic : res A.
Arguments Ok {A} _.
Arguments Panic {A}.

Definition rbind {A B} (r : res A) (f : A -> res B) : res B :=
  match r with Ok a => f a | Panic => Panic end.
Notation "x <- r ;; k" := (rbind r (fun x => k)) (at level 61, r at next level, right associativity).

(* s[i] *)
Definition at_ (s : str) (i : nat) : res N :=
  match nth_error s i with Some b => Ok b | None => Panic end.
(* s[i:j] with Go's bounds rule 0 <= i <= j <= len *)
Definition slice (s : str) (i j : nat) : res str :=
  if (Nat.leb i j && Nat.leb j (length s))%bool then Ok (firstn (j - i) (skipn i s)) else Panic.
Definition slice_from (s : str) (i : nat) : res str :=
  if Nat.leb i (length s) then Ok (skipn i s) else Panic.
Definition slice_to (s : str) (j : nat) : res str :=
  if Nat.leb j (length s) then Ok (firstn j s) else Panic.
