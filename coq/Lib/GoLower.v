(* strings.ToLower as far as an ASCII-only test can see it (model; no proofs here).

   cmdhandler lower-cases command names, aliases and the argument of the built-in
   help with strings.ToLower and then matches them against `^[a-z0-9-_]{1,20}$` or
   looks them up in a table whose keys all satisfy that expression.  Both only
   depend on the result when the result is pure ASCII.  strings.ToLower maps rune by
   rune with unicode.ToLower; an invalid byte becomes U+FFFD.  Exactly two non-ASCII
   runes have an ASCII lower-case image (checked over all of Unicode, see
   notes/selftest-ctcp-cmd.md and suite lib.lower): U+0130 -> 'i' and U+212A -> 'k'.

   lower_ascii_img s = Some r  when strings.ToLower(s) = r and r is pure ASCII,
                     = None    when strings.ToLower(s) contains a byte >= 0x80. *)
Require Import Bytes.

Fixpoint lower_ascii_img (s : str) : option str :=
  match s with
  | [] => Some []
  | b :: r =>
    if b <? 128 then option_map (cons (lower1 b)) (lower_ascii_img r)
    else match r with
         | [] => None
         | b1 :: r1 =>
           if (b =? 196) && (b1 =? 176) then option_map (cons 105) (lower_ascii_img r1)   (* U+0130 *)
           else match r1 with
                | [] => None
                | b2 :: r2 =>
                  if (b =? 226) && (b1 =? 132) && (b2 =? 170)
                  then option_map (cons 107) (lower_ascii_img r2)                          (* U+212A *)
                  else None
                end
         end
  end.
