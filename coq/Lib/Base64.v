(* RFC 4648 section 4 "base64" with padding, on byte strings: Go's
   base64.StdEncoding.EncodeToString / DecodeString (model; no proofs here, the
   decode-after-encode law is in Proofs/Base64Lemmas.v).

   Decoding follows Go's non-strict StdEncoding on inputs without CR/LF: input length
   a multiple of 4, '=' only as the last one or two characters, trailing bits of a
   padded group are NOT required to be zero.  (Go additionally skips '\r' and '\n';
   the validation suite sasl.b64dec draws inputs without them.) *)
Require Import Bytes.

(* 6-bit value -> alphabet character  A-Z a-z 0-9 + /  *)
Definition b64_char (i : N) : N :=
  if i <? 26 then 65 + i
  else if i <? 52 then 71 + i          (* 'a' - 26 *)
  else if i <? 62 then i - 4           (* '0' - 52 *)
  else if i =? 62 then 43 else 47.

(* alphabet character -> 6-bit value *)
Definition b64_val (c : N) : option N :=
  if (65 <=? c) && (c <=? 90) then Some (c - 65)
  else if (97 <=? c) && (c <=? 122) then Some (c - 71)
  else if (48 <=? c) && (c <=? 57) then Some (c + 4)
  else if c =? 43 then Some 62
  else if c =? 47 then Some 63
  else None.

Definition b64_pad : N := 61.   (* '=' *)

Fixpoint base64_encode (s : str) : str :=
  match s with
  | [] => []
  | [a] => [b64_char (a / 4); b64_char ((a mod 4) * 16); b64_pad; b64_pad]
  | [a; b] =>
      [b64_char (a / 4); b64_char ((a mod 4) * 16 + b / 16); b64_char ((b mod 16) * 4); b64_pad]
  | a :: b :: c :: r =>
      b64_char (a / 4) :: b64_char ((a mod 4) * 16 + b / 16) ::
      b64_char ((b mod 16) * 4 + c / 64) :: b64_char (c mod 64) :: base64_encode r
  end.

Definition is_nil {A} (l : list A) : bool := match l with [] => true | _ => false end.

Fixpoint base64_decode (s : str) : option str :=
  match s with
  | [] => Some []
  | c0 :: c1 :: c2 :: c3 :: r =>
      match b64_val c0, b64_val c1 with
      | Some v0, Some v1 =>
          if (c2 =? b64_pad) && (c3 =? b64_pad) && is_nil r then
            Some [v0 * 4 + v1 / 16]
          else match b64_val c2 with
          | Some v2 =>
              if (c3 =? b64_pad) && is_nil r then
                Some [v0 * 4 + v1 / 16; (v1 mod 16) * 16 + v2 / 4]
              else match b64_val c3, base64_decode r with
              | Some v3, Some rest =>
                  Some (v0 * 4 + v1 / 16 :: (v1 mod 16) * 16 + v2 / 4 :: (v2 mod 4) * 64 + v3 :: rest)
              | _, _ => None
              end
          | None => None
          end
      | _, _ => None
      end
  | _ => None
  end.

(* a Go string is a sequence of bytes *)
Definition bytes_ok (s : str) : Prop := Forall (fun b => b < 256) s.
Definition bytes_okb (s : str) : bool := forallb (fun b => b <? 256) s.
