(* Go's unicode/utf8 and strings.ToValidUTF8 on byte strings (model; no proofs here).
   Accept table of utf8.DecodeRune (Go 1.18+): shortest form only, no surrogates,
   max U+10FFFF; an invalid byte has width 1. *)
Require Import Bytes.

Definition is_cont (b : N) : bool := (128 <=? b) && (b <=? 191).
Definition in_range (lo hi b : N) : bool := (lo <=? b) && (b <=? hi).

(* width of the valid encoded rune at the head of s, None if the head byte starts
   no valid encoding (utf8.DecodeRune then returns RuneError, 1) or s is empty *)
Definition rune_size (s : str) : option nat :=
  match s with
  | [] => None
  | b0 :: r =>
    if b0 <? 128 then Some 1%nat
    else if in_range 194 223 b0 then
      match r with b1 :: _ => if is_cont b1 then Some 2%nat else None | _ => None end
    else if in_range 224 239 b0 then
      match r with
      | b1 :: b2 :: _ =>
        let lo := if b0 =? 224 then 160 else 128 in
        let hi := if b0 =? 237 then 159 else 191 in
        if in_range lo hi b1 && is_cont b2 then Some 3%nat else None
      | _ => None
      end
    else if in_range 240 244 b0 then
      match r with
      | b1 :: b2 :: b3 :: _ =>
        let lo := if b0 =? 240 then 144 else 128 in
        let hi := if b0 =? 244 then 143 else 191 in
        if in_range lo hi b1 && is_cont b2 && is_cont b3 then Some 4%nat else None
      | _ => None
      end
    else None
  end.

(* utf8.ValidString *)
Fixpoint valid_utf8_aux (s : str) (skip : nat) : bool :=
  match s with
  | [] => true                  (* skip is 0 here whenever rune_size accepted the head *)
  | _ :: r =>
    match skip with
    | S k => valid_utf8_aux r k
    | O => match rune_size s with
           | Some n => valid_utf8_aux r (n - 1)
           | None => false
           end
    end
  end.
Definition valid_utf8 (s : str) : bool := valid_utf8_aux s 0.

(* strings.ToValidUTF8(s, repl): every maximal run of invalid bytes becomes repl *)
Fixpoint to_valid_aux (repl s : str) (skip : nat) (inrun : bool) : str :=
  match s with
  | [] => []
  | b :: r =>
    match skip with
    | S k => b :: to_valid_aux repl r k false
    | O => match rune_size s with
           | Some n => b :: to_valid_aux repl r (n - 1) false
           | None => (if inrun then [] else repl) ++ to_valid_aux repl r 0 true
           end
    end
  end.
Definition to_valid_utf8 (repl s : str) : str := to_valid_aux repl s 0 false.

(* utf8.RuneCountInString: invalid bytes count one each *)
Fixpoint rune_count_aux (s : str) (skip : nat) : nat :=
  match s with
  | [] => 0%nat
  | _ :: r =>
    match skip with
    | S k => rune_count_aux r k
    | O => S (rune_count_aux r (match rune_size s with Some n => n - 1 | None => 0 end))
    end
  end.
Definition rune_count (s : str) : nat := rune_count_aux s 0.

(* width in bytes of the first rune as utf8.DecodeRuneInString reports it (0 on "") *)
Definition first_rune_width (s : str) : nat :=
  match s with [] => 0%nat | _ => match rune_size s with Some n => n | None => 1%nat end end.
