(* strings.ToUpper as far as the wire codec needs it (model; no proofs here).

   ParseEvent upper-cases the command with strings.ToUpper.  For a pure-ASCII string Go
   maps 'a'..'z' byte-wise.  Otherwise it runs strings.Map(unicode.ToUpper, s): every
   valid rune is re-encoded after unicode.ToUpper, every invalid byte becomes U+FFFD
   (EF BF BD).  Exactly two non-ASCII runes have an ASCII upper-case image (checked over
   all of Unicode by harness/witness/codec_test.go TestC02_UpperAsciiImage):
   U+0131 -> 'I' and U+017F -> 'S'.

   go_to_upper is exact on: ASCII bytes, those two runes, invalid bytes.  Every other
   valid non-ASCII rune is left unchanged, which is NOT what Go does for cased letters
   such as U+00E9; the result is then still non-ASCII on both sides, and the drivers
   project a non-ASCII command to "~".  No theorem depends on the approximation: the
   properties speak about ASCII commands, for which go_to_upper s = to_upper_ascii s. *)
Require Import Bytes Utf8.

Fixpoint go_to_upper_aux (s : str) (skip : nat) : str :=
  match s with
  | [] => []
  | b :: r =>
    match skip with
    | S k => b :: go_to_upper_aux r k          (* continuation byte of an accepted rune *)
    | O =>
      if b <? 128 then upper1 b :: go_to_upper_aux r 0
      else
        match r with
        | b1 :: r1 =>
          if (b =? 196) && (b1 =? 177) then 73 :: go_to_upper_aux r1 0        (* U+0131 *)
          else if (b =? 197) && (b1 =? 191) then 83 :: go_to_upper_aux r1 0   (* U+017F *)
          else match rune_size s with
               | Some n => b :: go_to_upper_aux r (n - 1)
               | None => 239 :: 191 :: 189 :: go_to_upper_aux r 0
               end
        | [] => [239; 191; 189]                 (* a lone byte >= 0x80 is invalid *)
        end
    end
  end.

Definition go_to_upper (s : str) : str := go_to_upper_aux s 0.
