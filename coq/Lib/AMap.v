(* Go maps keyed by strings as association lists.  aset replaces (removing every older
   binding) so no uniqueness invariant is needed for lookups; observations derived
   from a map are sorted before comparison. Also sort.Strings. No proofs here. *)
Require Import Bytes.

Section AMap.
  Context {V : Type}.
  Definition amap := list (str * V).

  Fixpoint alookup (k : str) (m : amap) : option V :=
    match m with
    | [] => None
    | (k', v) :: r => if streqb k k' then Some v else alookup k r
    end.

  Fixpoint aremove (k : str) (m : amap) : amap :=
    match m with
    | [] => []
    | (k', v) :: r => if streqb k k' then aremove k r else (k', v) :: aremove k r
    end.

  Definition aset (k : str) (v : V) (m : amap) : amap := (k, v) :: aremove k m.

  Definition amem (k : str) (m : amap) : bool :=
    match alookup k m with Some _ => true | None => false end.

  Definition akeys (m : amap) : list str := List.map fst m.
End AMap.
Arguments amap : clear implicits.

(* byte-lexicographic order (Go's string <) *)
Fixpoint str_ltb (a b : str) : bool :=
  match a, b with
  | [], [] => false
  | [], _ :: _ => true
  | _ :: _, [] => false
  | x :: a', y :: b' => if x <? y then true else if y <? x then false else str_ltb a' b'
  end.
Definition str_leb (a b : str) : bool := negb (str_ltb b a).

Fixpoint insert_sorted (x : str) (l : list str) : list str :=
  match l with
  | [] => [x]
  | y :: r => if str_leb x y then x :: l else y :: insert_sorted x r
  end.
(* sort.Strings: the sorted permutation is unique up to equal elements *)
Definition sort_strs (l : list str) : list str := fold_right insert_sorted [] l.

Section SortBy.
  Context {A : Type} (key : A -> str).
  Fixpoint insert_by (x : A) (l : list A) : list A :=
    match l with
    | [] => [x]
    | y :: r => if str_leb (key x) (key y) then x :: l else y :: insert_by x r
    end.
  Definition sort_by (l : list A) : list A := fold_right insert_by [] l.
End SortBy.

Fixpoint mem_str (x : str) (l : list str) : bool :=
  match l with [] => false | y :: r => streqb x y || mem_str x r end.

(* remove the first occurrence (append(l[:j], l[j+1:]...)) *)
Fixpoint remove_first (x : str) (l : list str) : list str :=
  match l with
  | [] => []
  | y :: r => if streqb x y then r else y :: remove_first x r
  end.

(* replace the first occurrence *)
Fixpoint replace_first (x y : str) (l : list str) : list str :=
  match l with
  | [] => []
  | z :: r => if streqb x z then y :: r else z :: replace_first x y r
  end.
