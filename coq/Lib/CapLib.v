(* Generic helpers for the capability / strict-transport models: Go maps as association
   lists with unique keys, byte-lexicographic sorting (sort.Strings), strconv.Atoi /
   ParseBool.  No proofs here (see Proofs/CapLemmas.v). *)
Require Import Bytes.

(* ---- Go map[string]V : association list, at most one entry per key ----- *)

Definition amap (V : Type) := list (str * V).

Fixpoint aget {V} (k : str) (m : amap V) : option V :=
  match m with
  | [] => None
  | (k', v) :: r => if streqb k' k then Some v else aget k r
  end.

Definition amem {V} (k : str) (m : amap V) : bool :=
  match aget k m with Some _ => true | None => false end.

(* delete(m, k) *)
Fixpoint adel {V} (k : str) (m : amap V) : amap V :=
  match m with
  | [] => []
  | (k', v) :: r => if streqb k' k then adel k r else (k', v) :: adel k r
  end.

(* m[k] = v : the old entry (if any) is dropped, the new one put in front; the position
   is not observable (Go map order is random, every observation is sorted). *)
Definition aset {V} (k : str) (v : V) (m : amap V) : amap V := (k, v) :: adel k m.

Definition akeys {V} (m : amap V) : list str := List.map fst m.

(* ---- sort.Strings : insertion sort, byte-lexicographic ------------------ *)

Fixpoint str_leb (a b : str) : bool :=
  match a, b with
  | [], _ => true
  | _ :: _, [] => false
  | x :: a', y :: b' => if N.ltb x y then true else if N.ltb y x then false else str_leb a' b'
  end.

Fixpoint insert_sorted (x : str) (l : list str) : list str :=
  match l with
  | [] => [x]
  | y :: r => if str_leb x y then x :: l else y :: insert_sorted x r
  end.

Definition sort_strs (l : list str) : list str := fold_right insert_sorted [] l.

Fixpoint insert_sorted_kv {V} (x : str * V) (l : amap V) : amap V :=
  match l with
  | [] => [x]
  | y :: r => if str_leb (fst x) (fst y) then x :: l else y :: insert_sorted_kv x r
  end.

Definition sort_amap {V} (m : amap V) : amap V := fold_right insert_sorted_kv [] m.

(* ---- strconv ----------------------------------------------------------- *)

Definition max_int64 : Z := 9223372036854775807%Z.
Definition min_int64 : Z := (-9223372036854775808)%Z.

(* v, _ := strconv.Atoi(s): 0 on a syntax error, the clamped value on a range error
   (ParseInt returns the nearest representable value together with ErrRange). *)
Definition atoi_go (s : str) : Z :=
  match parse_int s with
  | None => 0%Z
  | Some z => if (max_int64 <? z)%Z then max_int64 else if (z <? min_int64)%Z then min_int64 else z
  end.

(* v, _ := strconv.ParseBool(s) *)
Definition parse_bool_go (s : str) : bool :=
  streqb s (bs "1") || streqb s (bs "t") || streqb s (bs "T") || streqb s (bs "TRUE") ||
  streqb s (bs "true") || streqb s (bs "True").

Definition last_or_empty (l : list str) : str := last l [].
