(* Finite maps keyed by byte strings, kept as association lists sorted strictly by key
   (byte-lexicographic): the canonical form the reference model (Spec/NetRef.v) uses, so
   that two maps with the same bindings are the same list.  Lookup is AMap.alookup.
   `canon` turns a Go-map association list (Lib/AMap.v: newest binding first, older
   bindings of a key are dead) into this form.  No proofs here. *)
Require Import Bytes AMap.

Section SMap.
  Context {V : Type}.

  (* insert or replace *)
  Fixpoint sm_set (k : str) (v : V) (m : amap V) : amap V :=
    match m with
    | [] => [(k, v)]
    | (k', v') :: r =>
        if streqb k k' then (k, v) :: r
        else if str_ltb k k' then (k, v) :: m
        else (k', v') :: sm_set k v r
    end.

  Fixpoint sm_del (k : str) (m : amap V) : amap V :=
    match m with
    | [] => []
    | (k', v') :: r => if streqb k k' then r else (k', v') :: sm_del k r
    end.

  (* change the value bound to k, if any *)
  Fixpoint sm_adjust (k : str) (f : V -> V) (m : amap V) : amap V :=
    match m with
    | [] => []
    | (k', v') :: r => if streqb k k' then (k', f v') :: r else (k', v') :: sm_adjust k f r
    end.

  Definition sm_filter (p : str -> V -> bool) (m : amap V) : amap V :=
    List.filter (fun kv => p (fst kv) (snd kv)) m.

  (* canonical form of a Go-map association list (newest binding of a key first, older
     bindings dead): the head is inserted last, so it wins *)
  Definition canon (m : amap V) : amap V := fold_right (fun kv acc => sm_set (fst kv) (snd kv) acc) [] m.
End SMap.

Definition sm_map {V W : Type} (f : str -> V -> W) (m : amap V) : amap W :=
  List.map (fun kv => (fst kv, f (fst kv) (snd kv))) m.
