(* strings.ToUpper as far as an ASCII-only test can see it (model; no proofs here).

   CTCP.parseCMD upper-cases the name a handler is registered under with strings.ToUpper
   and then requires every byte to be A-Z / 0-9, so only the case "the result is pure
   ASCII" matters.  strings.ToUpper maps rune by rune with unicode.ToUpper (an invalid
   byte becomes U+FFFD, which is not ASCII).  Exactly two non-ASCII runes have an ASCII
   upper-case image: U+0131 (dotless i) -> 'I' and U+017F (long s) -> 'S'; suite
   ctcp.parsecmd runs every rune of Unicode whose image is ASCII through model and
   implementation on every invocation, so a third one would be a disagreement.

   upper_ascii_img s = Some r  when strings.ToUpper(s) = r and r is pure ASCII,
                     = None    when strings.ToUpper(s) contains a byte >= 0x80. *)
Require Import Bytes.

Fixpoint upper_ascii_img (s : str) : option str :=
  match s with
  | [] => Some []
  | b :: r =>
    if b <? 128 then option_map (cons (upper1 b)) (upper_ascii_img r)
    else match r with
         | [] => None
         | b1 :: r1 =>
           if (b =? 196) && (b1 =? 177) then option_map (cons 73) (upper_ascii_img r1)       (* U+0131 *)
           else if (b =? 197) && (b1 =? 191) then option_map (cons 83) (upper_ascii_img r1)  (* U+017F *)
           else None
         end
  end.
