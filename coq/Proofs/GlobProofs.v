(* C19: Glob (Model/Glob.v) decides exactly the wildcard relation of Spec/GlobSpec.v.

   Route:  glob  =  Ok (glob_parts input (Split pat))       (the special cases, the two
                                                             flags and the checked slices)
           glob_parts input parts = true  <->  M input parts (leftmost search of the middle
                                                             pieces is complete: index_some)
           M input (Split pat)  <->  wild input pat  <->  matches input (pieces pat)
                                 <->  decomposes input pat. *)
Require Import Bytes Glob GlobSpec FormatLemmas.
From Coq Require Import Lia ZifyBool ZifyN ZifyNat.

(* ---- the algorithm on the list of parts, without flags and special cases ---- *)

Fixpoint mid (input : str) (ps : list str) : bool :=
  match ps with
  | [] => false
  | [l] => suffixb l input
  | p :: ps' =>
      match index p input with
      | None => false
      | Some k => mid (skipn (k + length p) input) ps'
      end
  end.

Definition glob_parts (input : str) (parts : list str) : bool :=
  match parts with
  | [] => false
  | [p] => streqb input p
  | p0 :: ps => prefixb p0 input && mid (skipn (length p0) input) ps
  end.

(* parts-level spec: first piece is a prefix, later pieces follow after arbitrary gaps,
   the last piece ends the input *)
Inductive M : str -> list str -> Prop :=
| M1 : forall p, M p [p]
| Mc : forall p g rest ps, ps <> [] -> M rest ps -> M (p ++ g ++ rest) (p :: ps).

Definition NM (s : str) (ps : list str) : Prop := exists g rest, s = g ++ rest /\ M rest ps.

Lemma NM_weaken g s ps : NM s ps -> NM (g ++ s) ps.
Proof. intros (g' & rest & -> & H). exists (g ++ g'), rest. now rewrite app_assoc. Qed.

Lemma mid_spec ps : ps <> [] -> forall input, mid input ps = true <-> NM input ps.
Proof.
  induction ps as [|p ps IH]; [congruence|]. intros _ input.
  destruct ps as [|q ps].
  - simpl. rewrite suffixb_spec. split.
    + intros [r ->]. exists r, p. split; auto. constructor.
    + intros (g & rest & -> & H). inversion H; subst; [now exists g | congruence].
  - assert (q :: ps <> []) as Hne by congruence. specialize (IH Hne).
    change (mid input (p :: q :: ps)) with
      (match index p input with None => false | Some k => mid (skipn (k + length p) input) (q :: ps) end).
    destruct (index p input) as [k|] eqn:Ei.
    + destruct (index_some _ _ _ Ei) as (a & r & -> & Hl & Hmin).
      rewrite IH. subst k.
      replace (skipn (length a + length p) (a ++ p ++ r)) with r.
      2:{ rewrite app_assoc, <- app_length. now rewrite skipn_app_len. }
      split.
      * intros (g & rest & -> & H). exists a, (p ++ g ++ rest). split; auto. now constructor.
      * intros (g & rest & E & H). inversion H; subst; try congruence.
        match goal with HH : M ?r0 (q :: ps) |- _ => rename r0 into rest0 end.
        pose proof (Hmin g (g0 ++ rest0) E) as Hle.
        (* the leftmost occurrence ends no later than the one the witness uses, so the
           remainder after it still contains the witness's remainder as a suffix *)
        assert (exists d, r = d ++ g0 ++ rest0) as [d ->].
        { rewrite !app_assoc in E. rewrite <- !app_assoc in E.
          assert (length (a ++ p) <= length (g ++ p))%nat as L by (rewrite !app_length; lia).
          rewrite (app_assoc a p), (app_assoc g p) in E.
          exact (app_eq_suffix _ _ _ _ E L). }
        apply NM_weaken. exists g0, rest0. split; auto.
    + split; [discriminate|]. intros (g & rest & E & H). exfalso.
      inversion H; subst; try congruence. eapply index_none; eauto.
Qed.

Theorem glob_parts_exact input parts : glob_parts input parts = true <-> M input parts.
Proof.
  destruct parts as [|p0 ps]; simpl.
  - split; [discriminate|inversion 1].
  - destruct ps as [|q ps].
    + rewrite streqb_spec. split; [intros ->; constructor|inversion 1; subst; auto; congruence].
    + rewrite andb_true_iff, prefixb_spec, mid_spec by congruence. split.
      * intros [[r ->] H]. rewrite skipn_app_len in H. destruct H as (g & rest & -> & H).
        constructor; [congruence|auto].
      * inversion 1; subst. split; [eexists; reflexivity|].
        rewrite skipn_app_len. now exists g, rest.
Qed.

(* ---- glob = glob_parts on the split pattern ---------------------------- *)

(* the middle loop with checked slices never panics and computes what `mid` computes *)
Lemma glob_middle_ok mids : forall input,
  exists o, glob_middle input mids = Ok o /\
    forall l, mid input (mids ++ [l]) =
              match o with None => false | Some input2 => suffixb l input2 end.
Proof.
  induction mids as [|p mids IH]; intros input.
  - exists (Some input). split; [reflexivity|]. intros l. reflexivity.
  - cbn [glob_middle]. unfold contains.
    destruct (index p input) as [k|] eqn:Ei; cbn [negb].
    + destruct (index_some _ _ _ Ei) as (a & r & E & Hl & _).
      assert (k + length p <= length input)%nat as Hb.
      { subst input. rewrite !app_length. lia. }
      unfold slice_from. apply Nat.leb_le in Hb. rewrite Hb. cbn [rbind].
      destruct (IH (skipn (k + length p) input)) as (o & E1 & E2).
      exists o. split; [exact E1|]. intros l.
      change ((p :: mids) ++ [l]) with (p :: (mids ++ [l])).
      destruct (mids ++ [l]) as [|x xs] eqn:Em; [destruct mids; discriminate|].
      change (mid input (p :: x :: xs)) with
        (match index p input with None => false | Some k => mid (skipn (k + length p) input) (x :: xs) end).
      rewrite Ei, <- Em. apply E2.
    + exists None. split; [reflexivity|]. intros l.
      change ((p :: mids) ++ [l]) with (p :: (mids ++ [l])).
      destruct (mids ++ [l]) as [|x xs] eqn:Em; [destruct mids; discriminate|].
      change (mid input (p :: x :: xs)) with
        (match index p input with None => false | Some k => mid (skipn (k + length p) input) (x :: xs) end).
      now rewrite Ei.
Qed.

Lemma removelast_last_eq {A} (l : list A) d : l <> [] -> l = removelast l ++ [last l d].
Proof. apply app_removelast_last. Qed.

Lemma glob_refines input pat :
  glob input pat = Ok (glob_parts input (split_byte glob_char pat)).
Proof.
  unfold glob. destruct pat as [|c0 pat0] eqn:Epat; [reflexivity|]. rewrite <- Epat.
  destruct (streqb pat [glob_char]) eqn:Eone.
  - apply streqb_spec in Eone. rewrite Eone. reflexivity.
  - pose proof (split_byte_nonempty glob_char pat) as NE.
    destruct (split_byte glob_char pat) as [|p0 rest] eqn:Es; [contradiction|].
    destruct rest as [|q rest'].
    + (* no glob: the only piece is the pattern itself *)
      pose proof (split_byte_join glob_char pat) as J. rewrite Es in J. simpl in J. subst p0.
      reflexivity.
    + set (rest := q :: rest') in *.
      assert (rest <> []) as Hrest by (subst rest; discriminate).
      (* leading flag *)
      assert (prefixb [glob_char] pat = true -> p0 = []) as Hlead.
      { intros H. apply prefixb_spec in H as [r H]. rewrite H in Es. simpl in H.
        change ([glob_char] ++ r) with (glob_char :: r) in Es.
        destruct (split_byte_first_empty glob_char r) as [qs E]. rewrite E in Es. congruence. }
      (* trailing flag *)
      assert (suffixb [glob_char] pat = true -> last rest [] = []) as Htrail.
      { intros H. apply suffixb_spec in H as [r H].
        pose proof (split_byte_last_empty glob_char r) as L. rewrite <- H, Es in L.
        subst rest. exact L. }
      cbn [glob_parts].
      change (match rest with [] => streqb input p0 | _ :: _ => prefixb p0 input && mid (skipn (length p0) input) rest end)
        with (prefixb p0 input && mid (skipn (length p0) input) rest).
      (* first piece *)
      assert (exists first,
        (if negb (prefixb [glob_char] pat) then
           if negb (prefixb p0 input) then Ok None
           else (t <- slice_from input (length p0) ;; Ok (Some t))
         else Ok (Some input)) = Ok first /\
        first = if prefixb p0 input then Some (skipn (length p0) input) else None) as (first & -> & Hfirst).
      { destruct (prefixb [glob_char] pat) eqn:El; cbn [negb].
        - rewrite (Hlead eq_refl). simpl. eauto.
        - destruct (prefixb p0 input) eqn:Ep; cbn [negb]; [|eauto].
          apply prefixb_spec in Ep as [r ->]. unfold slice_from.
          assert (Nat.leb (length p0) (length (p0 ++ r)) = true) as ->
            by (apply Nat.leb_le; rewrite app_length; lia).
          cbn [rbind]. eauto. }
      cbn [rbind]. subst first.
      destruct (prefixb p0 input); cbn [andb]; [|reflexivity].
      destruct (glob_middle_ok (removelast rest) (skipn (length p0) input)) as (o & -> & Ho).
      cbn [rbind]. specialize (Ho (last rest [])).
      rewrite <- (removelast_last_eq rest [] Hrest) in Ho. rewrite Ho.
      destruct o as [input2|]; [|reflexivity].
      destruct (suffixb [glob_char] pat) eqn:Et; cbn [orb]; [|reflexivity].
      rewrite (Htrail eq_refl). reflexivity.
Qed.

(* ---- the three readings of the spec agree ------------------------------ *)

Lemma M_cons_iff c i q ps : M (c :: i) ((c :: q) :: ps) <-> M i (q :: ps).
Proof.
  split; intros H.
  - inversion H as [p E1 E2 | p g rest ps' Hne HM E1 E2]; subst.
    + constructor.
    + simpl in E1. injection E1 as <-. now constructor.
  - inversion H as [p E1 E2 | p g rest ps' Hne HM E1 E2]; subst.
    + constructor.
    + change (c :: q ++ g ++ rest) with ((c :: q) ++ g ++ rest). now constructor.
Qed.

Lemma M_head c q ps i : M i ((c :: q) :: ps) -> exists i', i = c :: i'.
Proof. inversion 1; subst; simpl; eauto. Qed.

Lemma wild_star_inv i p : wild i (star :: p) <-> exists g r, i = g ++ r /\ wild r p.
Proof.
  split.
  - inversion 1; subst; [congruence|eauto].
  - intros (g & r & -> & H). now constructor.
Qed.

Lemma wild_byte_inv c i p : c <> star -> (wild i (c :: p) <-> exists i', i = c :: i' /\ wild i' p).
Proof.
  intros Hc. split.
  - inversion 1; subst; [eauto|congruence].
  - intros (i' & -> & H). now constructor.
Qed.

Lemma M_split_wild p : forall i, M i (split_byte star p) <-> wild i p.
Proof.
  induction p as [|c r IH]; intros i.
  - simpl. split.
    + inversion 1 as [|p g rest ps Hps HM]; subst; [apply w_nil|exfalso; now apply Hps].
    + inversion 1; subst. apply M1.
  - rewrite split_byte_cons. pose proof (split_byte_nonempty star r) as NE.
    destruct (N.eqb_spec c star) as [->|Hne].
    + rewrite wild_star_inv. split.
      * inversion 1 as [|p g rest ps Hps HM]; subst; [exfalso; congruence|].
        exists g, rest. split; [reflexivity|]. now apply IH.
      * intros (g & rest & -> & H). apply IH in H.
        change (g ++ rest) with ([] ++ g ++ rest). now constructor.
    + rewrite (wild_byte_inv c i r Hne).
      destruct (split_byte star r) as [|q qs] eqn:Es; [contradiction|]. cbn [hd tl]. split.
      * intros H. destruct (M_head _ _ _ _ H) as [i' ->]. exists i'. split; [reflexivity|].
        apply IH. now apply M_cons_iff in H.
      * intros (i' & -> & H). apply M_cons_iff. now apply IH.
Qed.

Lemma matches_lit_app cur ps i :
  matches i (lit cur ++ ps) <-> exists i1, i = cur ++ i1 /\ matches i1 ps.
Proof.
  destruct cur as [|c cur]; simpl.
  - split; [eauto|]. now intros (i1 & -> & H).
  - split.
    + inversion 1 as [| s0 i0 ps0 Hm |]; subst. exists i0. split; [reflexivity|exact Hm].
    + intros (i1 & -> & H). change (c :: cur ++ i1) with ((c :: cur) ++ i1). now constructor.
Qed.

Lemma matches_pieces_acc p : forall cur i,
  matches i (pieces_acc cur p) <-> exists i', i = cur ++ i' /\ wild i' p.
Proof.
  induction p as [|c r IH]; intros cur i; cbn [pieces_acc].
  - rewrite <- (app_nil_r (lit cur)), matches_lit_app. split.
    + intros (i1 & -> & H). inversion H; subst. exists []. split; [reflexivity|constructor].
    + intros (i' & -> & H). inversion H; subst. exists []. split; [reflexivity|constructor].
  - destruct (N.eqb_spec c star) as [->|Hne].
    + rewrite matches_lit_app. split.
      * intros (i1 & -> & H). exists i1. split; [reflexivity|].
        inversion H as [| | g i2 ps0 Hm]; subst. apply IH in Hm as (i' & E & Hw).
        simpl in E. subst i'. now constructor.
      * intros (i' & -> & H). exists i'. split; [reflexivity|].
        apply wild_star_inv in H as (g & r0 & -> & H). constructor.
        apply IH. exists r0. split; [reflexivity|exact H].
    + rewrite IH. split.
      * intros (i' & -> & H). exists (c :: i'). rewrite <- app_assoc. split; [reflexivity|now constructor].
      * intros (i' & -> & H). apply (wild_byte_inv c i' r Hne) in H as (i2 & -> & H).
        exists i2. rewrite <- app_assoc. split; [reflexivity|exact H].
Qed.

Lemma matches_pieces_wild i p : matches i (pieces p) <-> wild i p.
Proof.
  unfold pieces. rewrite matches_pieces_acc. split.
  - now intros (i' & -> & H).
  - intros H. exists i. split; [reflexivity|exact H].
Qed.

Lemma literals_acc_split p : forall cur,
  literals_acc cur p = (cur ++ hd [] (split_byte star p)) :: tl (split_byte star p).
Proof.
  induction p as [|c r IH]; intros cur; cbn [literals_acc].
  - simpl. now rewrite app_nil_r.
  - rewrite split_byte_cons. change (c =? star) with (N.eqb c star). destruct (N.eqb c star).
    + cbn [hd tl]. rewrite app_nil_r. f_equal. rewrite (IH []). simpl.
      pose proof (split_byte_nonempty star r). destruct (split_byte star r); [contradiction|reflexivity].
    + cbn [hd tl]. rewrite IH. now rewrite <- app_assoc.
Qed.

Lemma literals_split p : literals p = split_byte star p.
Proof.
  unfold literals. rewrite literals_acc_split. simpl.
  pose proof (split_byte_nonempty star p). destruct (split_byte star p); [contradiction|reflexivity].
Qed.

Lemma weave_M parts : forall i, (exists gaps, weave parts gaps = Some i) <-> M i parts.
Proof.
  induction parts as [|l ls IH]; intros i.
  - split; [intros [gaps H]; destruct gaps; discriminate | inversion 1].
  - destruct ls as [|l2 ls].
    + split.
      * intros [[|g gs] H]; simpl in H; [injection H as <-; constructor|].
        destruct gs; discriminate.
      * inversion 1; subst; [exists []; reflexivity | congruence].
    + split.
      * intros [[|g gs] H]; [discriminate|].
        change (weave (l :: l2 :: ls) (g :: gs)) with
          (option_map (fun t => l ++ g ++ t) (weave (l2 :: ls) gs)) in H.
        destruct (weave (l2 :: ls) gs) as [t|] eqn:E; [|discriminate].
        injection H as <-. constructor; [discriminate|]. apply IH. eauto.
      * inversion 1 as [|p g rest ps Hps HM]; subst.
        apply IH in HM as [gs E]. exists (g :: gs).
        change (weave (l :: l2 :: ls) (g :: gs)) with
          (option_map (fun t => l ++ g ++ t) (weave (l2 :: ls) gs)).
        now rewrite E.
Qed.

Lemma decomposes_wild i p : decomposes i p <-> wild i p.
Proof. unfold decomposes. now rewrite literals_split, weave_M, M_split_wild. Qed.

(* ---- the property ------------------------------------------------------ *)

Lemma glob_char_star : glob_char = star. Proof. reflexivity. Qed.

Theorem glob_exact_wild i p : glob i p = Ok true <-> wild i p.
Proof.
  rewrite glob_refines, glob_char_star, <- M_split_wild, <- glob_parts_exact.
  split; [now intros [= ->] | now intros ->].
Qed.

Theorem glob_exact i p : glob i p = Ok true <-> matches i (pieces p).
Proof. now rewrite matches_pieces_wild, glob_exact_wild. Qed.

Theorem glob_exact_decomposes i p : glob i p = Ok true <-> decomposes i p.
Proof. now rewrite decomposes_wild, glob_exact_wild. Qed.

Theorem glob_total i p : exists b, glob i p = Ok b.
Proof. rewrite glob_refines. eauto. Qed.

Theorem glob_false_iff i p : glob i p = Ok false <-> ~ matches i (pieces p).
Proof.
  rewrite <- glob_exact. destruct (glob_total i p) as [[|] E]; rewrite E; split; congruence.
Qed.

Lemma M_first i p ps : M i (p :: ps) -> exists r, i = p ++ r.
Proof. inversion 1; subst; [exists []; now rewrite app_nil_r | eauto]. Qed.

Lemma M_last i ps : M i ps -> exists r, i = r ++ last ps [].
Proof.
  induction 1 as [p | p g rest ps Hne HM [r IH]].
  - exists []. reflexivity.
  - exists (p ++ g ++ r). destruct ps as [|q qs]; [contradiction|].
    change (last (p :: q :: qs) []) with (last (q :: qs) []). rewrite IH at 1.
    now rewrite <- !app_assoc.
Qed.

Theorem glob_first_piece i p : glob i p = Ok true -> exists r, i = hd [] (literals p) ++ r.
Proof.
  rewrite glob_exact_wild, <- M_split_wild, literals_split. intros H.
  pose proof (split_byte_nonempty star p). destruct (split_byte star p) as [|q qs]; [contradiction|].
  exact (M_first _ _ _ H).
Qed.

Theorem glob_last_piece i p : glob i p = Ok true -> exists r, i = r ++ last (literals p) [].
Proof. rewrite glob_exact_wild, <- M_split_wild, literals_split. apply M_last. Qed.

(* the special cases of the code are instances of the relation *)
Lemma wild_no_star p : ~ In star p -> forall i, wild i p <-> i = p.
Proof.
  induction p as [|c r IH]; intros Hn i.
  - split; [inversion 1; reflexivity | intros ->; constructor].
  - assert (c <> star) as Hc by (intros ->; apply Hn; now left).
    rewrite (wild_byte_inv c i r Hc). split.
    + intros (i' & -> & H). f_equal. apply IH; [|exact H]. intros X; apply Hn; now right.
    + intros ->. exists r. split; [reflexivity|]. apply IH; [|reflexivity]. intros X; apply Hn; now right.
Qed.

Theorem glob_literal_pattern i p : ~ In star p -> (glob i p = Ok true <-> i = p).
Proof. intros H. now rewrite glob_exact_wild, wild_no_star. Qed.

Theorem glob_all_stars i p : p <> [] -> Forall (fun c => c = star) p -> glob i p = Ok true.
Proof.
  intros Hne Hall. apply glob_exact_wild. revert i Hne.
  induction Hall as [|c r -> Hr IH]; intros i Hne; [congruence|].
  destruct r as [|c2 r2].
  - rewrite <- (app_nil_r i). constructor. constructor.
  - change i with ([] ++ i). constructor. apply IH. discriminate.
Qed.

(* non-vacuity / regression: overlap of first and last literal is rejected, repeated
   substrings and consecutive stars behave *)
Example glob_examples :
  glob (bs "a") (bs "a*a") = Ok false /\ glob (bs "aba") (bs "ab*ba") = Ok false /\
  glob (bs "aa") (bs "a*a") = Ok true /\ glob (bs "abcabc") (bs "*bc**a*c") = Ok true /\
  glob (bs "") (bs "") = Ok true /\ glob (bs "x") (bs "") = Ok false /\ glob (bs "") (bs "**") = Ok true.
Proof. vm_compute. repeat split. Qed.
