(* Proofs for C20 (Fmt, TrimFmt, StripRaw).  Statements are restated in Properties/C20.v. *)
Require Import Bytes Format FmtSpec FormatLemmas.
From Coq Require Import Lia ZifyBool ZifyN ZifyNat Permutation.

(* ====================================================================================== *)
(* generic                                                                                *)
(* ====================================================================================== *)

Lemma memb_In c s : memb c s = true <-> In c s.
Proof.
  induction s as [|x s IH]; simpl; [split; [discriminate|tauto]|].
  rewrite orb_true_iff, N.eqb_eq, IH. tauto.
Qed.

Lemma memb_false c s : memb c s = false <-> ~ In c s.
Proof.
  rewrite <- memb_In. destruct (memb c s); split; congruence.
Qed.

Lemma filter_all_true {A} (f : A -> bool) l : (forall x, In x l -> f x = true) -> filter f l = l.
Proof.
  induction l as [|a l IH]; simpl; intros H; [reflexivity|].
  rewrite (H a) by now left. f_equal. apply IH. intros x Hx. apply H. now right.
Qed.

Lemma filter_filter {A} (f g : A -> bool) l :
  filter f (filter g l) = filter (fun x => g x && f x) l.
Proof.
  induction l as [|a l IH]; simpl; [reflexivity|].
  destruct (g a); simpl; [destruct (f a)|]; simpl; rewrite IH; reflexivity.
Qed.

Lemma filter_ext_bool {A} (f g : A -> bool) l : (forall x, f x = g x) -> filter f l = filter g l.
Proof. intros H. induction l as [|a l IH]; simpl; [reflexivity|]. rewrite H, IH. reflexivity. Qed.

(* ====================================================================================== *)
(* strings.ReplaceAll(s, old, "")                                                         *)
(* ====================================================================================== *)

Lemma remove_all_aux_0 old c r :
  remove_all_aux old 0 (c :: r) =
  if prefixb old (c :: r) then remove_all_aux old (pred (length old)) r
  else c :: remove_all_aux old 0 r.
Proof. reflexivity. Qed.

Lemma remove_all_aux_skip old x r :
  remove_all_aux old (length x) (x ++ r) = remove_all_aux old 0 r.
Proof. induction x as [|a x IH]; simpl; auto. Qed.

Lemma remove_all_nil old : remove_all old [] = [].
Proof. destruct old; reflexivity. Qed.

(* an occurrence at the head is dropped and the scan resumes after it *)
Lemma remove_all_hit old r : old <> [] -> remove_all old (old ++ r) = remove_all old r.
Proof.
  destruct old as [|a o]; [congruence|]. intros _. unfold remove_all.
  change ((a :: o) ++ r) with (a :: (o ++ r)).
  rewrite remove_all_aux_0.
  change (a :: (o ++ r)) with ((a :: o) ++ r). rewrite prefixb_app.
  change (pred (length (a :: o))) with (length o).
  apply remove_all_aux_skip.
Qed.

(* no occurrence at the head: the byte is kept *)
Lemma remove_all_miss old c r :
  prefixb old (c :: r) = false -> remove_all old (c :: r) = c :: remove_all old r.
Proof.
  destruct old as [|a o]; [discriminate|]. intros H. unfold remove_all.
  rewrite remove_all_aux_0, H. reflexivity.
Qed.

Lemma remove_all_single c s : remove_all [c] s = filter (fun x => negb (N.eqb x c)) s.
Proof.
  induction s as [|x s IH]; [reflexivity|].
  destruct (N.eqb x c) eqn:E.
  - apply N.eqb_eq in E; subst x. change (c :: s) with ([c] ++ s).
    rewrite remove_all_hit by discriminate. simpl. rewrite N.eqb_refl. simpl. exact IH.
  - rewrite remove_all_miss.
    + simpl. rewrite E. simpl. f_equal. exact IH.
    + simpl. rewrite N.eqb_sym, E. reflexivity.
Qed.

Definition single_byte (c : str) : Prop := exists b, c = [b].

Lemma remove_singles order s :
  Forall single_byte order ->
  fold_left (fun t c => remove_all c t) order s =
  filter (fun x => negb (memb x (concat order))) s.
Proof.
  intros H. revert s. induction H as [|c order [b ->] _ IH]; intros s; cbn [fold_left].
  - symmetry. apply filter_all_true. reflexivity.
  - rewrite IH, remove_all_single, filter_filter. apply filter_ext_bool. intros x.
    simpl. rewrite (N.eqb_sym b x). rewrite negb_orb. reflexivity.
Qed.

(* ====================================================================================== *)
(* StripRaw                                                                               *)
(* ====================================================================================== *)

Lemma recolor_aux_no3 s : ~ In 3 s -> recolor_aux 0 s = s.
Proof.
  induction s as [|c s IH]; intros H; [reflexivity|]. simpl.
  destruct (N.eqb c 3) eqn:E.
  - apply N.eqb_eq in E. exfalso. apply H. now left.
  - f_equal. apply IH. intros X. apply H. now right.
Qed.

Lemma code_values_single : Forall single_byte code_values.
Proof. repeat constructor; eexists; reflexivity. Qed.

Lemma ctrl_in_code_values b : is_ctrl b = true <-> memb b (concat code_values) = true.
Proof.
  unfold is_ctrl. rewrite !memb_In. unfold ctrl_bytes. cbn. intuition.
Qed.

Lemma strip_raw_ord_filter order s :
  Forall single_byte order ->
  strip_raw_ord order s = filter (fun x => negb (memb x (concat order))) (recolor s).
Proof. intros H. unfold strip_raw_ord. now apply remove_singles. Qed.

Lemma strip_raw_filter s : strip_raw s = filter (fun x => negb (is_ctrl x)) (recolor s).
Proof.
  unfold strip_raw. rewrite strip_raw_ord_filter by exact code_values_single.
  apply filter_ext_bool. intros x. f_equal.
  destruct (is_ctrl x) eqn:E.
  - now apply ctrl_in_code_values.
  - destruct (memb x (concat code_values)) eqn:M; [|reflexivity].
    apply ctrl_in_code_values in M. congruence.
Qed.

(* the map order of the second loop is irrelevant *)
Lemma strip_raw_any_order order s :
  Permutation order code_values -> strip_raw_ord order s = strip_raw s.
Proof.
  intros P. unfold strip_raw.
  assert (Forall single_byte order) as F.
  { eapply Permutation_Forall; [apply Permutation_sym; exact P|exact code_values_single]. }
  rewrite !strip_raw_ord_filter by (exact F || exact code_values_single).
  apply filter_ext_bool. intros x. f_equal.
  assert (forall l l' : list str, Permutation l l' -> memb x (concat l) = true -> memb x (concat l') = true) as M.
  { intros l l' Pl. rewrite !memb_In, !in_concat. intros (y & Hy & Hx). exists y. split; [|exact Hx].
    eapply Permutation_in; eauto. }
  destruct (memb x (concat order)) eqn:A, (memb x (concat code_values)) eqn:B; try reflexivity.
  - apply (M _ _ P) in A. congruence.
  - apply (M _ _ (Permutation_sym P)) in B. congruence.
Qed.

(* C20_strip_clean: none of the seven control bytes is left *)
Lemma strip_raw_clean s : ctrl_free (strip_raw s).
Proof.
  intros b H. rewrite strip_raw_filter in H. apply filter_In in H as [_ H].
  now apply negb_true_iff in H.
Qed.

Lemma strip_raw_clean_bytes s b : In b ctrl_bytes -> ~ In b (strip_raw s).
Proof.
  intros Hb H. apply strip_raw_clean in H. apply memb_In in Hb. unfold is_ctrl in H. congruence.
Qed.

(* unchanged when there is nothing to strip *)
Lemma strip_raw_id s : ctrl_free s -> strip_raw s = s.
Proof.
  intros H. rewrite strip_raw_filter. unfold recolor. rewrite recolor_aux_no3.
  - apply filter_all_true. intros x Hx. rewrite (H x Hx). reflexivity.
  - intros X. apply H in X. discriminate.
Qed.

Lemma strip_raw_idem s : strip_raw (strip_raw s) = strip_raw s.
Proof. apply strip_raw_id, strip_raw_clean. Qed.

(* ====================================================================================== *)
(* Fmt: identity laws                                                                     *)
(* ====================================================================================== *)

Lemma neq_eqb_false c d : c <> d -> N.eqb c d = false.
Proof. intros H. now apply N.eqb_neq. Qed.

(* outside a token, text without '{' is copied *)
Lemma fmt_scan_copy out s t :
  no_open s -> fmt_scan out None (s ++ t) = fmt_scan (out ++ s) None t.
Proof.
  revert out. induction s as [|c s IH]; intros out H; simpl.
  - now rewrite app_nil_r.
  - rewrite neq_eqb_false by (intros ->; apply H; now left).
    rewrite IH by (intros X; apply H; now right).
    now rewrite <- app_assoc.
Qed.

Lemma fmt_no_open s : no_open s -> fmt s = s.
Proof.
  intros H. unfold fmt. rewrite <- (app_nil_r s) at 1. rewrite fmt_scan_copy by exact H. reflexivity.
Qed.

Lemma fmt_scan_no_close out last s : ~ In fmt_close s -> fmt_scan out last s = out ++ s.
Proof.
  revert out last. induction s as [|c s IH]; intros out last H; simpl.
  - now rewrite app_nil_r.
  - assert (~ In fmt_close s) as Hs by (intros X; apply H; now right).
    assert (N.eqb c fmt_close = false) as Hc by (apply neq_eqb_false; intros ->; apply H; now left).
    destruct (N.eqb c fmt_open); [|destruct last as [l|]; [rewrite Hc; destruct (is_tok_byte c)|]];
      rewrite IH by exact Hs; now rewrite <- app_assoc.
Qed.

Lemma fmt_no_close s : ~ In fmt_close s -> fmt s = s.
Proof. intros H. unfold fmt. now rewrite fmt_scan_no_close. Qed.

Lemma fmt_brace_free s : brace_free s -> fmt s = s.
Proof. intros [H _]. now apply fmt_no_open. Qed.

(* ====================================================================================== *)
(* Fmt on piece sequences                                                                 *)
(* ====================================================================================== *)

(* ---- facts about the two tables, checked by computation over the (finite) tables ---- *)

Definition table_names_lower {V} (t : list (str * V)) : bool :=
  forallb (fun nv => forallb is_lower (fst nv)) t.

Lemma colors_lower : table_names_lower fmt_colors = true.
Proof. vm_compute. reflexivity. Qed.
Lemma codes_lower : table_names_lower fmt_codes = true.
Proof. vm_compute. reflexivity. Qed.

(* Sprintf("%02d") of every colour number is the two-digit form, and its first digit is
   0, 1 or 9 (so that reColor's [019]?\d takes both digits) *)
Definition colour_ok (c : N) : bool :=
  streqb (sprintf_02d c) (two_digits c) && (in_019 (48 + c / 10) && is_digit (48 + c mod 10)).
Lemma colors_two_digits : forallb (fun nv => colour_ok (snd nv)) fmt_colors = true.
Proof. vm_compute. reflexivity. Qed.

Lemma lookup_In {V} k (t : list (str * V)) v : lookup k t = Some v -> In (k, v) t.
Proof.
  induction t as [|[n w] t IH]; simpl; [discriminate|].
  destruct (streqb n k) eqn:E.
  - intros [= ->]. apply streqb_spec in E. subst. now left.
  - intros H. right. now apply IH.
Qed.

Lemma lookup_lower {V} k (t : list (str * V)) v :
  table_names_lower t = true -> lookup k t = Some v -> forallb is_lower k = true.
Proof.
  intros T H. apply lookup_In in H. unfold table_names_lower in T.
  rewrite forallb_forall in T. exact (T _ H).
Qed.

Lemma colour_lookup_ok k c : lookup k fmt_colors = Some c -> colour_ok c = true.
Proof.
  intros H. apply lookup_In in H. pose proof colors_two_digits as T.
  rewrite forallb_forall in T. exact (T _ H).
Qed.

Lemma colour_sprintf k c : lookup k fmt_colors = Some c -> sprintf_02d c = two_digits c.
Proof.
  intros H. apply colour_lookup_ok in H. unfold colour_ok in H.
  apply andb_true_iff in H as [H _]. now apply streqb_spec.
Qed.

(* ---- bytes ---- *)

Lemma lower1_lower_alpha b : is_lower (lower1 b) = true -> is_alpha b = true.
Proof. unfold is_lower, lower1, is_alpha, is_upper, is_lower. destruct ((65 <=? b) && (b <=? 90)) eqn:E; lia. Qed.

Lemma lower_all_alpha n : forallb is_lower (to_lower_ascii n) = true -> forallb is_alpha n = true.
Proof.
  unfold to_lower_ascii. rewrite !forallb_forall. intros H x Hx.
  apply lower1_lower_alpha, H, in_map, Hx.
Qed.

Lemma alpha_tok_byte c : is_alpha c = true -> is_tok_byte c = true.
Proof. unfold is_tok_byte. intros ->. apply orb_true_r. Qed.

Lemma alpha_all_tok n : forallb is_alpha n = true -> forallb is_tok_byte n = true.
Proof. rewrite !forallb_forall. intros H x Hx. apply alpha_tok_byte, H, Hx. Qed.

Lemma lower_no_comma n : forallb is_lower n = true -> ~ In comma_c n.
Proof. rewrite forallb_forall. intros H X. apply H in X. vm_compute in X. discriminate. Qed.

Lemma tok_byte_not_open c : is_tok_byte c = true -> N.eqb c fmt_open = false.
Proof.
  unfold is_tok_byte, is_alpha, is_upper, is_lower, comma_c, fmt_open. intros H.
  apply N.eqb_neq. intros ->. vm_compute in H. discriminate.
Qed.

Lemma tok_byte_not_close c : is_tok_byte c = true -> N.eqb c fmt_close = false.
Proof.
  unfold is_tok_byte, is_alpha, is_upper, is_lower, comma_c, fmt_close. intros H.
  apply N.eqb_neq. intros ->. vm_compute in H. discriminate.
Qed.

Lemma index_byte_none c s : ~ In c s -> index_byte c s = None.
Proof.
  induction s as [|x s IH]; simpl; intros H; [reflexivity|].
  rewrite neq_eqb_false by (intros ->; apply H; now left).
  rewrite IH by (intros X; apply H; now right). reflexivity.
Qed.

Lemma index_byte_app c a b : ~ In c a -> index_byte c (a ++ c :: b) = Some (length a).
Proof.
  induction a as [|x a IH]; simpl; intros H.
  - now rewrite N.eqb_refl.
  - rewrite neq_eqb_false by (intros ->; apply H; now left).
    rewrite IH by (intros X; apply H; now right). reflexivity.
Qed.

Lemma split_comma_none s : ~ In comma_c s -> split_comma s = (s, []).
Proof. intros H. unfold split_comma. now rewrite index_byte_none. Qed.

Lemma split_comma_app a b : ~ In comma_c a -> split_comma (a ++ comma_c :: b) = (a, b).
Proof.
  intros H. unfold split_comma. rewrite index_byte_app by exact H.
  rewrite firstn_app_len.
  replace (a ++ comma_c :: b) with ((a ++ [comma_c]) ++ b) by now rewrite <- app_assoc.
  replace (S (length a)) with (length (a ++ [comma_c])) by (rewrite app_length; simpl; lia).
  now rewrite skipn_app_len.
Qed.

(* ---- the replacement of a known token is the documented sequence ---- *)

Lemma fmt_repl_colour n c : colour_of n = Some c -> fmt_repl n = colour_seq c.
Proof.
  unfold colour_of. intros H. unfold fmt_repl.
  rewrite split_comma_none by (apply lower_no_comma; eapply lookup_lower; [exact colors_lower|exact H]).
  cbn [fst snd]. unfold fmt_repl_parts. rewrite H. rewrite (colour_sprintf _ _ H). reflexivity.
Qed.

Lemma fmt_repl_code n b : colour_of n = None -> code_of n = Some b -> fmt_repl n = b.
Proof.
  unfold colour_of, code_of. intros Hc H. unfold fmt_repl.
  rewrite split_comma_none by (apply lower_no_comma; eapply lookup_lower; [exact codes_lower|exact H]).
  cbn [fst snd]. unfold fmt_repl_parts. rewrite Hc, H. reflexivity.
Qed.

Lemma to_lower_app a b : to_lower_ascii (a ++ b) = to_lower_ascii a ++ to_lower_ascii b.
Proof. apply map_app. Qed.

Lemma fmt_repl_pair f b cf cb :
  colour_of f = Some cf -> colour_of b = Some cb ->
  fmt_repl (f ++ comma_c :: b) = colour_seq cf ++ comma_c :: two_digits cb.
Proof.
  unfold colour_of. intros Hf Hb. unfold fmt_repl.
  rewrite to_lower_app. change (to_lower_ascii (comma_c :: b)) with (comma_c :: to_lower_ascii b).
  rewrite split_comma_app by (apply lower_no_comma; eapply lookup_lower; [exact colors_lower|exact Hf]).
  cbn [fst snd]. unfold fmt_repl_parts. rewrite Hf.
  destruct (to_lower_ascii b) as [|x lb] eqn:E; [vm_compute in Hb; discriminate|].
  rewrite Hb. rewrite (colour_sprintf _ _ Hf), (colour_sprintf _ _ Hb). reflexivity.
Qed.

(* ---- the scan ---- *)

Lemma fmt_scan_cons out last c r :
  fmt_scan out last (c :: r) =
  if N.eqb c fmt_open then fmt_scan (out ++ [c]) (Some (length out)) r
  else match last with
       | Some l =>
           if N.eqb c fmt_close then
             fmt_scan (firstn l out ++ fmt_repl (skipn (S l) out)) None r
           else if is_tok_byte c then fmt_scan (out ++ [c]) (Some l) r
           else fmt_scan (out ++ [c]) None r
       | None => fmt_scan (out ++ [c]) None r
       end.
Proof. reflexivity. Qed.

(* inside a token: ',' and letters are copied and `last` stays *)
Lemma fmt_scan_inside out l b t :
  forallb is_tok_byte b = true ->
  fmt_scan out (Some l) (b ++ t) = fmt_scan (out ++ b) (Some l) t.
Proof.
  revert out. induction b as [|c b IH]; intros out H.
  - now rewrite app_nil_r.
  - simpl in H. apply andb_true_iff in H as [Hc Hb].
    change ((c :: b) ++ t) with (c :: (b ++ t)). rewrite fmt_scan_cons.
    rewrite (tok_byte_not_open _ Hc), (tok_byte_not_close _ Hc), Hc.
    rewrite IH by exact Hb. now rewrite <- app_assoc.
Qed.

(* a whole {body}: replaced by fmt_repl body, whatever `last` was *)
Lemma fmt_scan_token out last b t :
  forallb is_tok_byte b = true ->
  fmt_scan out last (fmt_open :: b ++ fmt_close :: t) = fmt_scan (out ++ fmt_repl b) None t.
Proof.
  intros H. rewrite fmt_scan_cons. rewrite N.eqb_refl.
  rewrite fmt_scan_inside by exact H. rewrite fmt_scan_cons.
  change (N.eqb fmt_close fmt_open) with false. cbv iota. rewrite N.eqb_refl.
  rewrite <- app_assoc. rewrite firstn_app_len.
  replace (out ++ [fmt_open] ++ b) with ((out ++ [fmt_open]) ++ b) by now rewrite <- app_assoc.
  replace (S (length out)) with (length (out ++ [fmt_open])) by (rewrite app_length; simpl; lia).
  now rewrite skipn_app_len.
Qed.

Lemma known_tok_bytes n : colour_of n <> None \/ code_of n <> None -> forallb is_tok_byte n = true.
Proof.
  unfold colour_of, code_of. intros [H|H].
  - destruct (lookup (to_lower_ascii n) fmt_colors) eqn:E; [|congruence].
    apply alpha_all_tok, lower_all_alpha. eapply lookup_lower; [exact colors_lower|exact E].
  - destruct (lookup (to_lower_ascii n) fmt_codes) eqn:E; [|congruence].
    apply alpha_all_tok, lower_all_alpha. eapply lookup_lower; [exact codes_lower|exact E].
Qed.

Lemma forallb_app' {A} (f : A -> bool) a b : forallb f (a ++ b) = forallb f a && forallb f b.
Proof. induction a; simpl; [reflexivity|]. now rewrite IHa, andb_assoc. Qed.

(* one known piece *)
Lemma fmt_scan_piece out p t :
  (forall s, p = Lit s -> no_open s) -> known1 p ->
  fmt_scan out None (render1 p ++ t) = fmt_scan (out ++ expected1 p) None t.
Proof.
  intros HL HK. destruct p as [s|n|f b]; simpl render1; simpl expected1.
  - apply fmt_scan_copy. now apply HL.
  - simpl in HK. change ((fmt_open :: n ++ [fmt_close]) ++ t) with (fmt_open :: (n ++ [fmt_close]) ++ t).
    rewrite <- app_assoc. change ([fmt_close] ++ t) with (fmt_close :: t).
    rewrite fmt_scan_token by now apply known_tok_bytes.
    destruct (colour_of n) as [c|] eqn:Ec.
    + now rewrite (fmt_repl_colour _ _ Ec).
    + destruct HK as [HK|HK]; [congruence|].
      destruct (code_of n) as [cb|] eqn:Ed; [|congruence].
      now rewrite (fmt_repl_code _ _ Ec Ed).
  - simpl in HK. destruct HK as [Hf Hb].
    change ((fmt_open :: (f ++ comma_c :: b) ++ [fmt_close]) ++ t)
      with (fmt_open :: ((f ++ comma_c :: b) ++ [fmt_close]) ++ t).
    rewrite <- app_assoc. change ([fmt_close] ++ t) with (fmt_close :: t).
    rewrite fmt_scan_token.
    + destruct (colour_of f) as [cf|] eqn:Ef; [|congruence].
      destruct (colour_of b) as [cb|] eqn:Eb; [|congruence].
      now rewrite (fmt_repl_pair _ _ _ _ Ef Eb).
    + rewrite forallb_app'. simpl. rewrite (known_tok_bytes f), (known_tok_bytes b) by (now left).
      reflexivity.
Qed.

Lemma fmt_scan_pieces ps out t :
  lits_ok no_open ps -> Forall known1 ps ->
  fmt_scan out None (render ps ++ t) = fmt_scan (out ++ expected ps) None t.
Proof.
  revert out. induction ps as [|p ps IH]; intros out HL HK.
  - simpl. now rewrite app_nil_r.
  - unfold render, expected. simpl map. simpl concat. fold (render ps). fold (expected ps).
    rewrite <- app_assoc. inversion HK as [|? ? K1 K2]; subst.
    rewrite fmt_scan_piece; [|intros s ->; apply HL; now left|exact K1].
    rewrite IH; [|intros s Hs; apply HL; now right|exact K2].
    now rewrite <- app_assoc.
Qed.

(* C20_fmt (literals need only be free of '{') *)
Lemma fmt_pieces ps :
  lits_ok no_open ps -> Forall known1 ps -> fmt (render ps) = expected ps.
Proof.
  intros HL HK. unfold fmt. rewrite <- (app_nil_r (render ps)).
  rewrite fmt_scan_pieces by assumption. reflexivity.
Qed.

Lemma fmt_pieces_brace_free ps :
  lits_ok brace_free ps -> Forall known1 ps -> fmt (render ps) = expected ps.
Proof. intros HL. apply fmt_pieces. intros s Hs. exact (proj1 (HL s Hs)). Qed.

(* the hypotheses are satisfiable, with tokens in mixed case, and the conclusion is the
   documented text *)
Example fmt_pieces_example :
  let ps := [Tok (bs "rEd"); Tok (bs "B"); Lit (bs "Hello "); Tok2 (bs "Red") (bs "BLUE");
             Lit (bs "World}"); Tok (bs "c")] in
  lits_ok no_open ps /\ Forall known1 ps /\
  fmt (render ps) = [3; 48; 52; 2] ++ bs "Hello " ++ [3; 48; 52; 44; 48; 50] ++ bs "World}" ++ [3].
Proof.
  cbv zeta. split; [|split].
  - intros s [H|[H|[H|[H|[H|[H|[]]]]]]]; try discriminate; injection H as <-; vm_compute;
      intuition discriminate.
  - repeat (apply Forall_cons;
      [vm_compute; ((left; discriminate) || (right; discriminate) || (split; discriminate) || exact I)|]).
    apply Forall_nil.
  - vm_compute. reflexivity.
Qed.

(* ====================================================================================== *)
(* TrimFmt                                                                                *)
(* ====================================================================================== *)

Lemma streqb_sym a b : streqb a b = streqb b a.
Proof.
  destruct (streqb a b) eqn:E; symmetry.
  - apply streqb_spec in E. subst. apply streqb_refl.
  - apply streqb_false in E. apply streqb_false. congruence.
Qed.

(* {n} is a prefix of {b}R exactly when n = b (neither contains '}') *)
Lemma prefix_close n b R :
  ~ In fmt_close n -> ~ In fmt_close b ->
  prefixb (n ++ [fmt_close]) (b ++ fmt_close :: R) = streqb n b.
Proof.
  revert b. induction n as [|y n IH]; intros [|x b] Hn Hb; cbn [app prefixb streqb].
  - now rewrite N.eqb_refl.
  - rewrite neq_eqb_false; [reflexivity|]. intros E. apply Hb. left. congruence.
  - rewrite neq_eqb_false; [reflexivity|]. intros E. apply Hn. left. congruence.
  - rewrite IH; [reflexivity| |]; intros X; [apply Hn|apply Hb]; now right.
Qed.

Lemma prefix_pat_tok n b R :
  ~ In fmt_close n -> ~ In fmt_close b ->
  prefixb (tok_pat n) (fmt_open :: b ++ fmt_close :: R) = streqb n b.
Proof.
  intros Hn Hb. unfold tok_pat. cbn [prefixb]. rewrite N.eqb_refl. simpl andb.
  now apply prefix_close.
Qed.

(* text without '{' contains no occurrence and is copied *)
Lemma remove_pat_copy n s R :
  no_open s -> remove_all (tok_pat n) (s ++ R) = s ++ remove_all (tok_pat n) R.
Proof.
  induction s as [|c s IH]; intros H; [reflexivity|].
  change ((c :: s) ++ R) with (c :: (s ++ R)). rewrite remove_all_miss.
  - rewrite IH by (intros X; apply H; now right). reflexivity.
  - unfold tok_pat. cbn [prefixb]. rewrite N.eqb_sym.
    rewrite neq_eqb_false by (intros ->; apply H; now left). reflexivity.
Qed.

Lemma tok_pat_nonempty n : tok_pat n <> [].
Proof. discriminate. Qed.

(* a whole token {b} in front of R *)
Lemma remove_pat_token n b R :
  ~ In fmt_close n -> brace_free b ->
  remove_all (tok_pat n) (tok_pat b ++ R) =
  if streqb n b then remove_all (tok_pat n) R else tok_pat b ++ remove_all (tok_pat n) R.
Proof.
  intros Hn [Hbo Hbc]. destruct (streqb n b) eqn:E.
  - apply streqb_spec in E. subst b. apply remove_all_hit, tok_pat_nonempty.
  - unfold tok_pat at 2 4. change ((fmt_open :: b ++ [fmt_close]) ++ R) with (fmt_open :: (b ++ [fmt_close]) ++ R).
    rewrite remove_all_miss.
    + rewrite remove_pat_copy; [reflexivity|].
      intros X. apply in_app_or in X as [X|[X|[]]]; [now apply Hbo|discriminate].
    + rewrite <- app_assoc. change ([fmt_close] ++ R) with (fmt_close :: R).
      rewrite prefix_pat_tok by assumption. exact E.
Qed.

Lemma render1_tok p : is_tok p = true -> render1 p = tok_pat (body p).
Proof. destruct p; [discriminate| |]; reflexivity. Qed.

Lemma body_brace_free p : is_tok p = true -> tok_wf p -> brace_free (body p).
Proof.
  destruct p as [s|n|f b]; [discriminate|auto|]. intros _ [[Hfo Hfc] [Hbo Hbc]]. simpl.
  split; intros X; apply in_app_or in X as [X|[X|X]]; try discriminate; auto.
Qed.

(* pieces that one ReplaceAll pass of {n} deletes *)
Definition hit (n : str) (p : piece) : bool := is_tok p && streqb n (body p).

Definition pieces_ok (ps : list piece) : Prop := lits_ok no_open ps /\ Forall tok_wf ps.

Lemma pieces_ok_cons p ps : pieces_ok (p :: ps) ->
  (forall s, p = Lit s -> no_open s) /\ tok_wf p /\ pieces_ok ps.
Proof.
  intros [HL HW]. inversion HW; subst. repeat split; auto.
  - intros s ->. apply HL. now left.
  - intros s Hs. apply HL. now right.
Qed.

Lemma pieces_ok_filter f ps : pieces_ok ps -> pieces_ok (filter f ps).
Proof.
  intros [HL HW]. split.
  - intros s Hs. apply filter_In in Hs as [Hs _]. now apply HL.
  - rewrite Forall_forall in *. intros p Hp. apply filter_In in Hp as [Hp _]. now apply HW.
Qed.

Lemma render_cons p ps : render (p :: ps) = render1 p ++ render ps.
Proof. reflexivity. Qed.

Lemma remove_pat_pieces n ps :
  ~ In fmt_close n -> pieces_ok ps ->
  remove_all (tok_pat n) (render ps) = render (filter (fun p => negb (hit n p)) ps).
Proof.
  intros Hn. induction ps as [|p ps IH]; intros Hok.
  - apply remove_all_nil.
  - apply pieces_ok_cons in Hok as (HL & HW & Hok). rewrite render_cons.
    cbn [filter]. unfold hit at 1. destruct (is_tok p) eqn:Et.
    + rewrite (render1_tok _ Et). rewrite remove_pat_token by (auto using body_brace_free).
      cbn [andb]. destruct (streqb n (body p)); cbn [negb].
      * now apply IH.
      * rewrite render_cons, (render1_tok _ Et). f_equal. now apply IH.
    + cbn [andb negb]. destruct p as [s| |]; try discriminate. rewrite render_cons.
      cbn [render1]. rewrite remove_pat_copy by (now apply HL). f_equal. now apply IH.
Qed.

Definition removed (order : list str) (p : piece) : bool :=
  is_tok p && existsb (fun n => streqb n (body p)) order.

Lemma trim_fmt_pieces order ps :
  Forall (fun n => ~ In fmt_close n) order -> pieces_ok ps ->
  trim_fmt order (render ps) = render (filter (fun p => negb (removed order p)) ps).
Proof.
  unfold trim_fmt. intros H. revert ps. induction H as [|n order Hn _ IH]; intros ps Hok; cbn [fold_left].
  - f_equal. symmetry. apply filter_all_true. intros p _. unfold removed. cbn [existsb].
    now rewrite andb_false_r.
  - rewrite remove_pat_pieces by assumption. rewrite IH by now apply pieces_ok_filter.
    f_equal. rewrite filter_filter. apply filter_ext_bool. intros p.
    unfold removed, hit. cbn [existsb]. destruct (is_tok p); cbn [andb]; [|reflexivity].
    now rewrite negb_orb.
Qed.

Lemma existsb_perm {A} (f : A -> bool) l l' : Permutation l l' -> existsb f l = existsb f l'.
Proof.
  intros P. destruct (existsb f l) eqn:E, (existsb f l') eqn:E'; try reflexivity.
  - apply existsb_exists in E as (x & Hx & Hf). assert (existsb f l' = true); [|congruence].
    apply existsb_exists. exists x. split; [eapply Permutation_in; eauto|exact Hf].
  - apply existsb_exists in E' as (x & Hx & Hf). assert (existsb f l = true); [|congruence].
    apply existsb_exists. exists x. split; [eapply Permutation_in; [apply Permutation_sym|]; eauto|exact Hf].
Qed.

(* facts about the key set, by computation *)
Lemma trim_names_lower : forallb (forallb is_lower) trim_names = true.
Proof. vm_compute. reflexivity. Qed.

Lemma trim_name_props n : In n trim_names -> ~ In fmt_close n /\ ~ In comma_c n.
Proof.
  intros H. pose proof trim_names_lower as T. rewrite forallb_forall in T. specialize (T _ H).
  rewrite forallb_forall in T. split; intros X; apply T in X; vm_compute in X; discriminate.
Qed.

Lemma removed_lower_known p : removed trim_names p = lower_known p.
Proof.
  unfold removed. destruct p as [s|n|f b]; cbn [is_tok andb body lower_known]; [reflexivity| |].
  - clear. induction trim_names as [|x l IH]; simpl; [reflexivity|]. now rewrite IH, streqb_sym.
  - destruct (existsb _ trim_names) eqn:E; [|reflexivity].
    apply existsb_exists in E as (x & Hx & E). apply streqb_spec in E. subst x.
    apply trim_name_props in Hx as [_ Hx]. exfalso. apply Hx. apply in_or_app. right. now left.
Qed.

Lemma render_filter_expected ps :
  render (filter (fun p => negb (lower_known p)) ps) = trim_expected ps.
Proof.
  unfold trim_expected. induction ps as [|p ps IH]; [reflexivity|]. cbn [filter map concat].
  destruct (lower_known p); cbn [negb]; [exact IH|]. rewrite render_cons. now rewrite IH.
Qed.

(* C20_trim: whatever the iteration order of the two maps *)
Lemma trim_fmt_any_order order ps :
  Permutation order trim_names -> pieces_ok ps ->
  trim_fmt order (render ps) = trim_expected ps.
Proof.
  intros P Hok. rewrite trim_fmt_pieces; [|
    rewrite Forall_forall; intros n Hn; apply trim_name_props; eapply Permutation_in; eauto | exact Hok].
  rewrite <- render_filter_expected. f_equal. apply filter_ext_bool. intros p. f_equal.
  rewrite <- removed_lower_known. unfold removed. f_equal. now apply existsb_perm.
Qed.

(* in the words of the statement: brace-free literals *)
Lemma trim_fmt_any_order_brace_free order ps :
  Permutation order trim_names -> lits_ok brace_free ps -> Forall tok_wf ps ->
  trim_fmt order (render ps) = trim_expected ps.
Proof.
  intros P HL HW. apply trim_fmt_any_order; [exact P|]. split; [|exact HW].
  intros s Hs. exact (proj1 (HL s Hs)).
Qed.

(* satisfiable, with a non-trivial order (the reverse), upper-case and pair tokens kept *)
Example trim_fmt_example :
  let ps := [Tok (bs "red"); Lit (bs "a}"); Tok (bs "RED"); Tok2 (bs "red") (bs "blue");
             Tok (bs "b"); Tok (bs "foo"); Lit (bs "z")] in
  Permutation (rev trim_names) trim_names /\ pieces_ok ps /\
  trim_fmt (rev trim_names) (render ps) = bs "a}{RED}{red,blue}{foo}z".
Proof.
  cbv zeta. split; [apply Permutation_sym, Permutation_rev|]. split; [split|].
  - intros s [H|[H|[H|[H|[H|[H|[H|[]]]]]]]]; try discriminate; injection H as <-; vm_compute;
      intuition discriminate.
  - repeat (apply Forall_cons; [vm_compute; intuition discriminate|]). apply Forall_nil.
  - vm_compute. reflexivity.
Qed.

Lemma trim_fmt_any_order_no_open order ps :
  Permutation order trim_names -> lits_ok no_open ps -> Forall tok_wf ps ->
  trim_fmt order (render ps) = trim_expected ps.
Proof. intros P HL HW. apply trim_fmt_any_order; [exact P|split; assumption]. Qed.

(* ====================================================================================== *)
(* StripRaw after Fmt                                                                     *)
(* ====================================================================================== *)

Lemma recolor_aux_cons0 c r :
  recolor_aux 0 (c :: r) =
  if N.eqb c 3 then
    match match_color_tail r with
    | Some n => recolor_aux n r
    | None => c :: recolor_aux 0 r
    end
  else c :: recolor_aux 0 r.
Proof. reflexivity. Qed.

Lemma recolor_copy s R : ~ In 3 s -> recolor_aux 0 (s ++ R) = s ++ recolor_aux 0 R.
Proof.
  induction s as [|c s IH]; intros H; [reflexivity|].
  change ((c :: s) ++ R) with (c :: (s ++ R)). rewrite recolor_aux_cons0.
  rewrite neq_eqb_false by (intros ->; apply H; now left).
  rewrite IH by (intros X; apply H; now right). reflexivity.
Qed.

Definition head_digit (s : str) : bool := match s with c :: _ => is_digit c | [] => false end.
Definition head_comma (s : str) : bool := match s with c :: _ => N.eqb c comma_c | [] => false end.

Lemma starts_split s : starts_digit_or_comma s = head_digit s || head_comma s.
Proof. destruct s; reflexivity. Qed.

Lemma in_019_digit a : in_019 a = true -> is_digit a = true.
Proof. unfold in_019, is_digit. lia. Qed.

Lemma match_num_none s : head_digit s = false -> match_num s = None.
Proof.
  destruct s as [|a [|b s]]; simpl; intros H; [reflexivity|now rewrite H|].
  rewrite H. destruct (in_019 a) eqn:E; [apply in_019_digit in E; congruence|reflexivity].
Qed.

(* a bare \x03 (the {c}/{clear} code) in front of text that does not start with a digit *)
Lemma recolor_bare R : head_digit R = false -> recolor_aux 0 (3 :: R) = 3 :: recolor_aux 0 R.
Proof.
  intros H. rewrite recolor_aux_cons0. cbn [N.eqb Pos.eqb]. unfold match_color_tail.
  now rewrite match_num_none.
Qed.

Lemma match_num_two d1 d2 R : in_019 d1 = true -> is_digit d2 = true -> match_num (d1 :: d2 :: R) = Some 2%nat.
Proof. intros H1 H2. cbn [match_num]. now rewrite H1, H2. Qed.

(* "\x03NN" in front of text that does not start with a comma *)
Lemma recolor_colour c R :
  colour_ok c = true -> head_comma R = false ->
  recolor_aux 0 (colour_seq c ++ R) = recolor_aux 0 R.
Proof.
  unfold colour_ok. intros H HR. apply andb_true_iff in H as [_ H]. apply andb_true_iff in H as [H1 H2].
  unfold colour_seq, two_digits. cbn [app]. rewrite recolor_aux_cons0. cbn [N.eqb Pos.eqb].
  unfold match_color_tail. rewrite match_num_two by assumption. cbn [skipn].
  destruct R as [|c0 R]; [reflexivity|]. cbn [head_comma] in HR. rewrite HR. reflexivity.
Qed.

(* "\x03NN,MM" whatever follows *)
Lemma recolor_pair cf cb R :
  colour_ok cf = true -> colour_ok cb = true ->
  recolor_aux 0 ((colour_seq cf ++ comma_c :: two_digits cb) ++ R) = recolor_aux 0 R.
Proof.
  unfold colour_ok. intros Hf Hb.
  apply andb_true_iff in Hf as [_ Hf]. apply andb_true_iff in Hf as [F1 F2].
  apply andb_true_iff in Hb as [_ Hb]. apply andb_true_iff in Hb as [B1 B2].
  unfold colour_seq, two_digits. cbn [app]. rewrite recolor_aux_cons0. cbn [N.eqb Pos.eqb].
  unfold match_color_tail. rewrite match_num_two by assumption. cbn [skipn].
  rewrite N.eqb_refl. rewrite match_num_two by assumption. reflexivity.
Qed.

(* the values of fmtCodes: one control byte each *)
Lemma code_value_cases k b : lookup k fmt_codes = Some b ->
  b = [1] \/ b = [2] \/ b = [3] \/ b = [15] \/ b = [22] \/ b = [29] \/ b = [31].
Proof.
  intros H. apply lookup_In in H. apply (in_map snd) in H. cbn in H.
  repeat (destruct H as [H|H]; [rewrite <- H; tauto|]). destruct H.
Qed.

(* what reColor leaves of the expected text: the colour sequences are gone *)
Definition decolored1 (p : piece) : str :=
  match p with
  | Lit s => s
  | Tok n => match colour_of n with
             | Some _ => []
             | None => match code_of n with Some b => b | None => [] end
             end
  | Tok2 _ _ => []
  end.
Definition decolored (ps : list piece) : str := concat (List.map decolored1 ps).

Lemma expected_cons p ps : expected (p :: ps) = expected1 p ++ expected ps.
Proof. reflexivity. Qed.

(* Fmt's output starts with a digit / a comma only if the format text does *)
Lemma expected_head ps (h : str -> bool) :
  (h = head_digit \/ h = head_comma) ->
  Forall known1 ps -> h (render ps) = false -> h (expected ps) = false.
Proof.
  intros Hh HK. induction HK as [|p ps K _ IH]; intros H; [destruct Hh; subst; reflexivity|].
  rewrite render_cons in H. rewrite expected_cons.
  destruct p as [s|n|f b].
  - cbn [render1 expected1] in *. destruct s as [|c s]; [now apply IH|].
    destruct Hh; subst; exact H.
  - cbn [expected1]. cbn [known1] in K. destruct (colour_of n) as [c|] eqn:Ec.
    + destruct Hh; subst; reflexivity.
    + destruct K as [K|K]; [congruence|]. destruct (code_of n) as [cb|] eqn:Ed; [|congruence].
      apply code_value_cases in Ed.
      destruct Ed as [->|[->|[->|[->|[->|[->| ->]]]]]]; destruct Hh; subst; reflexivity.
  - cbn [expected1]. cbn [known1] in K. destruct K as [Kf Kb].
    destruct (colour_of f) eqn:Ef; [|congruence]. destruct (colour_of b) eqn:Eb; [|congruence].
    destruct Hh; subst; reflexivity.
Qed.

Lemma starts_false s : starts_digit_or_comma s = false -> head_digit s = false /\ head_comma s = false.
Proof. rewrite starts_split. now apply orb_false_iff. Qed.

Lemma ctrl_free_no3 s : ctrl_free s -> ~ In 3 s.
Proof. intros H X. apply H in X. discriminate. Qed.

Lemma recolor_pieces ps :
  lits_ok ctrl_free ps -> Forall known1 ps -> spaced colourish ps ->
  recolor_aux 0 (expected ps) = decolored ps.
Proof.
  intros HL HK. revert HL. induction HK as [|p ps K HK IH]; intros HL HS; [reflexivity|].
  cbn [spaced] in HS. destruct HS as [HS1 HS].
  assert (recolor_aux 0 (expected ps) = decolored ps) as IH'.
  { apply IH; [intros s Hs; apply HL; now right|exact HS]. }
  rewrite expected_cons. unfold decolored. cbn [map concat]. fold (decolored ps).
  destruct p as [s|n|f b].
  - cbn [expected1 decolored1]. rewrite recolor_copy; [now rewrite IH'|].
    apply ctrl_free_no3, HL. now left.
  - cbn [expected1 decolored1]. cbn [known1] in K. cbn [colourish] in HS1.
    destruct (colour_of n) as [c|] eqn:Ec.
    + specialize (HS1 eq_refl). apply starts_false in HS1 as [_ HC].
      rewrite recolor_colour; [exact IH'|eapply colour_lookup_ok; exact Ec|].
      apply (expected_head ps head_comma); auto.
    + destruct K as [K|K]; [congruence|]. destruct (code_of n) as [cb|] eqn:Ed; [|congruence].
      pose proof (code_value_cases _ _ Ed) as Cases.
      destruct Cases as [->|[->|[->|[->|[->|[->| ->]]]]]];
        try (cbn [app]; rewrite recolor_aux_cons0; cbn [N.eqb Pos.eqb]; now rewrite IH').
      specialize (HS1 eq_refl). apply starts_false in HS1 as [HD _].
      cbn [app]. rewrite recolor_bare; [now rewrite IH'|].
      apply (expected_head ps head_digit); auto.
  - cbn [expected1 decolored1]. cbn [known1] in K. destruct K as [Kf Kb].
    destruct (colour_of f) as [cf|] eqn:Ef; [|congruence].
    destruct (colour_of b) as [cb|] eqn:Eb; [|congruence].
    rewrite recolor_pair; [exact IH'| |]; eapply colour_lookup_ok; eassumption.
Qed.

Lemma filter_decolored ps :
  lits_ok ctrl_free ps -> Forall known1 ps ->
  filter (fun x => negb (is_ctrl x)) (decolored ps) = literals ps.
Proof.
  intros HL HK. revert HL. induction HK as [|p ps K HK IH]; intros HL; [reflexivity|].
  unfold decolored, literals. cbn [map concat]. fold (decolored ps). fold (literals ps).
  rewrite filter_app. rewrite IH by (intros s Hs; apply HL; now right). f_equal.
  destruct p as [s|n|f b]; cbn [decolored1 literals1].
  - apply filter_all_true. intros x Hx. assert (ctrl_free s) as C by (apply HL; now left).
    now rewrite (C x Hx).
  - destruct (colour_of n); [reflexivity|]. destruct (code_of n) as [cb|] eqn:Ed; [|reflexivity].
    apply code_value_cases in Ed. destruct Ed as [->|[->|[->|[->|[->|[->| ->]]]]]]; reflexivity.
  - reflexivity.
Qed.

(* C20_strip_fmt *)
Lemma strip_fmt_pieces ps :
  lits_ok (fun s => no_open s /\ ctrl_free s) ps -> Forall known1 ps -> spaced colourish ps ->
  strip_raw (fmt (render ps)) = literals ps.
Proof.
  intros HL HK HS.
  assert (lits_ok no_open ps) as H1 by (intros s Hs; exact (proj1 (HL s Hs))).
  assert (lits_ok ctrl_free ps) as H2 by (intros s Hs; exact (proj2 (HL s Hs))).
  rewrite fmt_pieces by assumption. rewrite strip_raw_filter. unfold recolor.
  rewrite recolor_pieces by assumption. now apply filter_decolored.
Qed.

Lemma strip_fmt_pieces_brace_free ps :
  lits_ok (fun s => brace_free s /\ ctrl_free s) ps -> Forall known1 ps -> spaced colourish ps ->
  strip_raw (fmt (render ps)) = literals ps.
Proof.
  intros HL. apply strip_fmt_pieces. intros s Hs. destruct (HL s Hs) as [[H _] C]. now split.
Qed.

Example strip_fmt_example :
  let ps := [Tok (bs "rEd"); Lit (bs "apples, 5"); Tok (bs "B"); Lit (bs "1 pear");
             Tok2 (bs "Red") (bs "BLUE"); Lit (bs "x,2}"); Tok (bs "c"); Lit (bs " 7")] in
  lits_ok (fun s => no_open s /\ ctrl_free s) ps /\ Forall known1 ps /\ spaced colourish ps /\
  strip_raw (fmt (render ps)) = bs "apples, 51 pearx,2} 7".
Proof.
  cbv zeta. split; [|split; [|split]].
  - intros s [H|[H|[H|[H|[H|[H|[H|[H|[]]]]]]]]]; try discriminate; injection H as <-; split;
      try (vm_compute; intuition discriminate);
      intros x Hx; vm_compute in Hx;
      repeat (destruct Hx as [<-|Hx]; [reflexivity|]); destruct Hx.
  - repeat (apply Forall_cons;
      [vm_compute; ((left; discriminate) || (right; discriminate) || (split; discriminate) || exact I)|]).
    apply Forall_nil.
  - vm_compute. intuition discriminate.
  - vm_compute. reflexivity.
Qed.

(* Read literally - "colour token" = a name of fmtColors or a pair - the clause does not
   hold: the code of {c}/{clear} is the bare colour introducer \x03, so a digit after it is
   read as a colour number.  Fmt("{c}5") = "\x035" and StripRaw of it is "", not "5".
   `colourish` therefore counts {c}/{clear} among the colour tokens. *)
Example strip_fmt_literal_reading_refuted :
  exists ps,
    lits_ok (fun s => brace_free s /\ ctrl_free s) ps /\ Forall known1 ps /\ spaced colour_tok ps /\
    fmt (render ps) = [3; 53] /\ strip_raw (fmt (render ps)) = [] /\ literals ps = [53].
Proof.
  exists [Tok (bs "c"); Lit [53]]. split; [|split; [|split; [|split; [|split]]]].
  - intros s [H|[H|[]]]; try discriminate. injection H as <-. split.
    + vm_compute. intuition discriminate.
    + intros x [<-|[]]. reflexivity.
  - repeat (apply Forall_cons; [vm_compute; ((right; discriminate) || exact I)|]). apply Forall_nil.
  - vm_compute. intuition discriminate.
  - vm_compute. reflexivity.
  - vm_compute. reflexivity.
  - vm_compute. reflexivity.
Qed.

(* ====================================================================================== *)
(* StripRaw: ordinary text is untouched                                                   *)
(* ====================================================================================== *)


Lemma recolor_aux_skipn n r : recolor_aux n r = recolor_aux 0 (skipn n r).
Proof.
  revert r. induction n as [|n IH]; intros r; [reflexivity|].
  destruct r as [|c r]; [reflexivity|]. simpl. apply IH.
Qed.

Lemma plain_skip n r : forallb erasable (firstn n r) = true -> plain_text (skipn n r) = plain_text r.
Proof.
  revert r. induction n as [|n IH]; intros r H; [reflexivity|].
  destruct r as [|c r]; [reflexivity|]. simpl in H. apply andb_true_iff in H as [Hc H].
  simpl. rewrite Hc. simpl. now apply IH.
Qed.

Lemma digit_erasable b : is_digit b = true -> erasable b = true.
Proof. unfold erasable. intros ->. now rewrite orb_true_r. Qed.

Lemma match_num_erasable s n : match_num s = Some n -> forallb erasable (firstn n s) = true.
Proof.
  destruct s as [|a [|b s]]; simpl; [discriminate| |].
  - destruct (is_digit a) eqn:A; [|discriminate]. intros [= <-]. simpl. now rewrite digit_erasable.
  - destruct (in_019 a && is_digit b) eqn:E.
    + intros [= <-]. apply andb_true_iff in E as [E1 E2]. apply in_019_digit in E1. simpl.
      now rewrite !digit_erasable.
    + destruct (is_digit a) eqn:A; [|discriminate]. intros [= <-]. simpl. now rewrite digit_erasable.
Qed.

Lemma forallb_firstn_add (f : N -> bool) n m s :
  forallb f (firstn n s) = true -> forallb f (firstn m (skipn n s)) = true ->
  forallb f (firstn (n + m) s) = true.
Proof.
  revert s. induction n as [|n IH]; intros s H1 H2; [exact H2|].
  destruct s as [|c s]; [reflexivity|]. simpl in *. apply andb_true_iff in H1 as [Hc H1].
  rewrite Hc. simpl. now apply IH.
Qed.

Lemma match_color_tail_erasable s n :
  match_color_tail s = Some n -> forallb erasable (firstn n s) = true.
Proof.
  unfold match_color_tail. destruct (match_num s) as [n1|] eqn:E1; [|discriminate].
  pose proof (match_num_erasable _ _ E1) as H1.
  destruct (skipn n1 s) as [|c r2] eqn:Es; [intros [= <-]; exact H1|].
  destruct (N.eqb c comma_c) eqn:Ec; [|intros [= <-]; exact H1].
  destruct (match_num r2) as [n2|] eqn:E2; [|intros [= <-]; exact H1].
  intros [= <-]. rewrite <- Nat.add_assoc. apply forallb_firstn_add; [exact H1|].
  rewrite Es. simpl. unfold erasable at 1. rewrite Ec, orb_true_r. simpl.
  now apply match_num_erasable.
Qed.

Lemma skipn_length_le {A} n (s : list A) : (length (skipn n s) <= length s)%nat.
Proof. rewrite skipn_length. lia. Qed.

Lemma recolor_plain_fuel fuel s :
  (length s <= fuel)%nat -> plain_text (recolor_aux 0 s) = plain_text s.
Proof.
  revert s. induction fuel as [|f IH]; intros s Hl.
  - destruct s; [reflexivity|simpl in Hl; lia].
  - destruct s as [|c r]; [reflexivity|]. simpl in Hl. rewrite recolor_aux_cons0.
    assert (plain_text (c :: recolor_aux 0 r) = plain_text (c :: r)) as Keep.
    { simpl. rewrite IH by lia. reflexivity. }
    destruct (N.eqb c 3) eqn:E3; [|exact Keep].
    destruct (match_color_tail r) as [n|] eqn:M; [|exact Keep].
    apply N.eqb_eq in E3. subst c. rewrite recolor_aux_skipn.
    rewrite IH by (pose proof (skipn_length_le n r); lia).
    rewrite plain_skip by (now apply match_color_tail_erasable). reflexivity.
Qed.

(* every byte that is not a control byte, a digit or a comma survives, in order *)
Lemma strip_raw_plain s : plain_text (strip_raw s) = plain_text s.
Proof.
  rewrite strip_raw_filter. unfold plain_text at 1. rewrite filter_filter.
  rewrite <- (recolor_plain_fuel (length s) s (le_n _)). unfold plain_text, recolor.
  apply filter_ext_bool. intros x. unfold erasable. destruct (is_ctrl x); reflexivity.
Qed.

(* and nothing is added or reordered: the result is a subsequence of the input *)

Lemma subseq_nil_l b : subseq [] b.
Proof. induction b; constructor; auto. Qed.

Lemma subseq_filter f s : subseq (filter f s) s.
Proof. induction s as [|c s IH]; simpl; [constructor|]. destruct (f c); constructor; exact IH. Qed.

Lemma subseq_trans a b c : subseq a b -> subseq b c -> subseq a c.
Proof.
  intros H1 H2. revert a H1. induction H2 as [|x b c H2 IH|x b c H2 IH]; intros a H1.
  - exact H1.
  - inversion H1; subst; [constructor; auto|apply sub_drop; auto].
  - apply sub_drop. auto.
Qed.

Lemma subseq_skipn n s : subseq (skipn n s) s.
Proof.
  revert s. induction n as [|n IH]; intros s; simpl.
  - induction s; constructor; auto.
  - destruct s; [constructor|apply sub_drop, IH].
Qed.

Lemma recolor_subseq_fuel fuel s : (length s <= fuel)%nat -> subseq (recolor_aux 0 s) s.
Proof.
  revert s. induction fuel as [|f IH]; intros s Hl.
  - destruct s; [constructor|simpl in Hl; lia].
  - destruct s as [|c r]; [constructor|]. simpl in Hl. rewrite recolor_aux_cons0.
    assert (subseq (c :: recolor_aux 0 r) (c :: r)) as Keep by (constructor; apply IH; lia).
    destruct (N.eqb c 3); [|exact Keep].
    destruct (match_color_tail r) as [n|]; [|exact Keep].
    apply sub_drop. rewrite recolor_aux_skipn.
    eapply subseq_trans; [apply IH; pose proof (skipn_length_le n r); lia|apply subseq_skipn].
Qed.

Lemma strip_raw_subseq s : subseq (strip_raw s) s.
Proof.
  rewrite strip_raw_filter. eapply subseq_trans; [apply subseq_filter|].
  apply (recolor_subseq_fuel (length s)), le_n.
Qed.

(* ====================================================================================== *)
(* Fmt: a {word} that is not a known name is deleted                                      *)
(* ====================================================================================== *)

Lemma alpha_lower_no_comma n : forallb is_alpha n = true -> ~ In comma_c (to_lower_ascii n).
Proof.
  rewrite forallb_forall. intros H X. unfold to_lower_ascii in X. apply in_map_iff in X as (x & E & Hx).
  apply H in Hx. unfold lower1, is_alpha, is_upper, is_lower, comma_c in *.
  destruct ((65 <=? x) && (x <=? 90)) eqn:U; lia.
Qed.

Lemma fmt_repl_unknown n :
  forallb is_alpha n = true -> colour_of n = None -> code_of n = None -> fmt_repl n = [].
Proof.
  unfold colour_of, code_of. intros Ha Hc Hd. unfold fmt_repl.
  rewrite split_comma_none by now apply alpha_lower_no_comma.
  cbn [fst snd]. unfold fmt_repl_parts. now rewrite Hc, Hd.
Qed.


Lemma fmt_scan_piece_word out p t :
  (forall s, p = Lit s -> no_open s) -> word_or_known p ->
  fmt_scan out None (render1 p ++ t) = fmt_scan (out ++ expected1 p) None t.
Proof.
  intros HL HK. destruct p as [s|n|f b]; try (now apply fmt_scan_piece).
  simpl in HK. simpl render1. simpl expected1.
  change ((fmt_open :: n ++ [fmt_close]) ++ t) with (fmt_open :: (n ++ [fmt_close]) ++ t).
  rewrite <- app_assoc. change ([fmt_close] ++ t) with (fmt_close :: t).
  rewrite fmt_scan_token by now apply alpha_all_tok.
  destruct (colour_of n) as [c|] eqn:Ec; [now rewrite (fmt_repl_colour _ _ Ec)|].
  destruct (code_of n) as [cb|] eqn:Ed; [now rewrite (fmt_repl_code _ _ Ec Ed)|].
  now rewrite fmt_repl_unknown.
Qed.

Lemma fmt_pieces_words ps :
  lits_ok no_open ps -> Forall word_or_known ps -> fmt (render ps) = expected ps.
Proof.
  intros HL HK. unfold fmt. rewrite <- (app_nil_r (render ps)).
  assert (forall out t, fmt_scan out None (render ps ++ t) = fmt_scan (out ++ expected ps) None t) as G.
  { induction HK as [|p ps K HK IH]; intros out t.
    - simpl. now rewrite app_nil_r.
    - rewrite render_cons, expected_cons, <- app_assoc.
      rewrite fmt_scan_piece_word; [|intros s ->; apply HL; now left|exact K].
      rewrite IH by (intros s Hs; apply HL; now right). now rewrite <- app_assoc. }
  rewrite G. reflexivity.
Qed.

Example fmt_unknown_word_deleted :
  fmt (bs "use {braces} here, {RED}now") = bs "use  here, " ++ [3; 48; 52] ++ bs "now".
Proof. vm_compute. reflexivity. Qed.

(* ====================================================================================== *)
(* StripRaw after Fmt, with the exact side condition                                      *)
(* ====================================================================================== *)

Lemma head_is_digit_eq s : head_is_digit s = head_digit s.
Proof. reflexivity. Qed.

Lemma comma_digit_cons c s : comma_digit (c :: s) = N.eqb c comma_c && head_digit s.
Proof. destruct s; simpl; [now rewrite andb_false_r|reflexivity]. Qed.

Lemma match_num_some_head s n : match_num s = Some n -> head_digit s = true.
Proof.
  intros H. destruct (head_digit s) eqn:E; [reflexivity|]. apply match_num_none in E. congruence.
Qed.

Lemma recolor_colour_sharp c R :
  colour_ok c = true -> comma_digit R = false ->
  recolor_aux 0 (colour_seq c ++ R) = recolor_aux 0 R.
Proof.
  unfold colour_ok. intros H HR. apply andb_true_iff in H as [_ H]. apply andb_true_iff in H as [H1 H2].
  unfold colour_seq, two_digits. cbn [app]. rewrite recolor_aux_cons0. cbn [N.eqb Pos.eqb].
  unfold match_color_tail. rewrite match_num_two by assumption. cbn [skipn].
  destruct R as [|c0 R]; [reflexivity|]. rewrite comma_digit_cons in HR.
  destruct (N.eqb c0 comma_c); [|reflexivity]. cbn [andb] in HR.
  destruct (match_num R) as [n2|] eqn:M; [|reflexivity].
  apply match_num_some_head in M. congruence.
Qed.

Lemma expected_comma_digit ps :
  Forall known1 ps -> comma_digit (render ps) = false -> comma_digit (expected ps) = false.
Proof.
  intros HK. induction HK as [|p ps K HK IH]; intros H; [reflexivity|].
  rewrite render_cons in H. rewrite expected_cons.
  destruct p as [s|n|f b].
  - cbn [render1 expected1] in *. destruct s as [|c s]; [now apply IH|].
    destruct s as [|d s]; [|exact H].
    cbn [app] in *. rewrite comma_digit_cons in *. destruct (N.eqb c comma_c); [|reflexivity].
    cbn [andb] in *. apply (expected_head ps head_digit); auto.
  - cbn [expected1]. cbn [known1] in K. destruct (colour_of n) as [c|] eqn:Ec; [reflexivity|].
    destruct K as [K|K]; [congruence|]. destruct (code_of n) as [cb|] eqn:Ed; [|congruence].
    apply code_value_cases in Ed.
    destruct Ed as [->|[->|[->|[->|[->|[->| ->]]]]]]; cbn [app]; rewrite comma_digit_cons; reflexivity.
  - cbn [expected1]. cbn [known1] in K. destruct K as [Kf Kb].
    destruct (colour_of f) eqn:Ef; [|congruence]. destruct (colour_of b) eqn:Eb; [|congruence].
    reflexivity.
Qed.

Lemma recolor_pieces_sharp ps :
  lits_ok ctrl_free ps -> Forall known1 ps -> spaced_sharp ps ->
  recolor_aux 0 (expected ps) = decolored ps.
Proof.
  intros HL HK. revert HL. induction HK as [|p ps K HK IH]; intros HL HS; [reflexivity|].
  cbn [spaced_sharp] in HS. destruct HS as (HS1 & HS2 & HS).
  assert (recolor_aux 0 (expected ps) = decolored ps) as IH'.
  { apply IH; [intros s Hs; apply HL; now right|exact HS]. }
  rewrite expected_cons. unfold decolored. cbn [map concat]. fold (decolored ps).
  destruct p as [s|n|f b].
  - cbn [expected1 decolored1]. rewrite recolor_copy; [now rewrite IH'|].
    apply ctrl_free_no3, HL. now left.
  - cbn [expected1 decolored1]. cbn [known1] in K. cbn [single_colour] in HS1. cbn [clear_tok] in HS2.
    destruct (colour_of n) as [c|] eqn:Ec.
    + specialize (HS1 eq_refl).
      rewrite recolor_colour_sharp; [exact IH'|eapply colour_lookup_ok; exact Ec|].
      now apply expected_comma_digit.
    + destruct K as [K|K]; [congruence|]. destruct (code_of n) as [cb|] eqn:Ed; [|congruence].
      pose proof (code_value_cases _ _ Ed) as Cases.
      destruct Cases as [->|[->|[->|[->|[->|[->| ->]]]]]];
        try (cbn [app]; rewrite recolor_aux_cons0; cbn [N.eqb Pos.eqb]; now rewrite IH').
      specialize (HS2 eq_refl).
      cbn [app]. rewrite recolor_bare; [now rewrite IH'|].
      apply (expected_head ps head_digit); auto.
  - cbn [expected1 decolored1]. cbn [known1] in K. destruct K as [Kf Kb].
    destruct (colour_of f) as [cf|] eqn:Ef; [|congruence].
    destruct (colour_of b) as [cb|] eqn:Eb; [|congruence].
    rewrite recolor_pair; [exact IH'| |]; eapply colour_lookup_ok; eassumption.
Qed.

Lemma strip_fmt_pieces_sharp ps :
  lits_ok (fun s => no_open s /\ ctrl_free s) ps -> Forall known1 ps -> spaced_sharp ps ->
  strip_raw (fmt (render ps)) = literals ps.
Proof.
  intros HL HK HS.
  assert (lits_ok no_open ps) as H1 by (intros s Hs; exact (proj1 (HL s Hs))).
  assert (lits_ok ctrl_free ps) as H2 by (intros s Hs; exact (proj2 (HL s Hs))).
  rewrite fmt_pieces by assumption. rewrite strip_raw_filter. unfold recolor.
  rewrite recolor_pieces_sharp by assumption. now apply filter_decolored.
Qed.

(* the stated condition implies the exact one *)
Lemma spaced_implies_sharp ps : spaced colourish ps -> spaced_sharp ps.
Proof.
  induction ps as [|p r IH]; [auto|]. cbn [spaced spaced_sharp]. intros [H HS].
  split; [|split; [|auto]].
  - intros Hp. assert (colourish p = true) as C.
    { destruct p as [s|n|f b]; try discriminate. cbn [single_colour colourish] in *. destruct (colour_of n); [reflexivity|discriminate]. }
    specialize (H C). destruct (render r) as [|c [|d s]]; try reflexivity.
    simpl in H |- *. apply orb_false_iff in H as [_ H]. now rewrite H.
  - intros Hp. assert (colourish p = true) as C.
    { destruct p as [s|n|f b]; try discriminate. cbn [clear_tok colourish] in *. destruct (colour_of n); [discriminate|exact Hp]. }
    specialize (H C). destruct (render r) as [|c s]; [reflexivity|].
    simpl in H |- *. now apply orb_false_iff in H as [H _].
Qed.

(* digits straight after colour tokens, anything after a pair: all harmless *)
Example strip_fmt_sharp_example :
  let ps := [Tok (bs "red"); Lit (bs "1234"); Tok2 (bs "red") (bs "yellow"); Lit (bs ",5 and 6");
             Tok (bs "blue"); Lit (bs ", ok"); Tok (bs "c"); Lit (bs ",7")] in
  lits_ok (fun s => no_open s /\ ctrl_free s) ps /\ Forall known1 ps /\ spaced_sharp ps /\
  ~ spaced colourish ps /\
  strip_raw (fmt (render ps)) = bs "1234,5 and 6, ok,7".
Proof.
  cbv zeta. split; [|split; [|split; [|split]]].
  - intros s [H|[H|[H|[H|[H|[H|[H|[H|[]]]]]]]]]; try discriminate; injection H as <-; split;
      try (vm_compute; intuition discriminate);
      intros x Hx; vm_compute in Hx;
      repeat (destruct Hx as [<-|Hx]; [reflexivity|]); destruct Hx.
  - repeat (apply Forall_cons;
      [vm_compute; ((left; discriminate) || (right; discriminate) || (split; discriminate) || exact I)|]).
    apply Forall_nil.
  - vm_compute. intuition discriminate.
  - vm_compute. intros [H _]. specialize (H eq_refl). discriminate.
  - vm_compute. reflexivity.
Qed.
