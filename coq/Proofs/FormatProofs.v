(* Proofs for C20 (Fmt, TrimFmt, StripRaw).  Statements are restated in Properties/C20.v. *)
Require Import Bytes Format FmtSpec FormatLemmas.
From Coq Require Import Lia ZifyBool ZifyN ZifyNat Permutation.

(* ====================================================================================== *)
(* generic                                                                                *)
(* ====================================================================================== *)

Lemma memb_In c s : memb c s = true <-> In c s.
Proof.
  induction s as [|x s IH]; simpl; [split; [discriminate|tauto]|].
  rewrite orb_true_iff, N.eqb_eq, IH. tauto.
Qed.

Lemma memb_false c s : memb c s = false <-> ~ In c s.
Proof.
  rewrite <- memb_In. destruct (memb c s); split; congruence.
Qed.

Lemma filter_all_true {A} (f : A -> bool) l : (forall x, In x l -> f x = true) -> filter f l = l.
Proof.
  induction l as [|a l IH]; simpl; intros H; [reflexivity|].
  rewrite (H a) by now left. f_equal. apply IH. intros x Hx. apply H. now right.
Qed.

Lemma filter_filter {A} (f g : A -> bool) l :
  filter f (filter g l) = filter (fun x => g x && f x) l.
Proof.
  induction l as [|a l IH]; simpl; [reflexivity|].
  destruct (g a); simpl; [destruct (f a)|]; simpl; rewrite IH; reflexivity.
Qed.

Lemma filter_ext_bool {A} (f g : A -> bool) l : (forall x, f x = g x) -> filter f l = filter g l.
Proof. intros H. induction l as [|a l IH]; simpl; [reflexivity|]. rewrite H, IH. reflexivity. Qed.

(* ====================================================================================== *)
(* strings.ReplaceAll(s, old, "")                                                         *)
(* ====================================================================================== *)

Lemma remove_all_aux_0 old c r :
  remove_all_aux old 0 (c :: r) =
  if prefixb old (c :: r) then remove_all_aux old (pred (length old)) r
  else c :: remove_all_aux old 0 r.
Proof. reflexivity. Qed.

Lemma remove_all_aux_skip old x r :
  remove_all_aux old (length x) (x ++ r) = remove_all_aux old 0 r.
Proof. induction x as [|a x IH]; simpl; auto. Qed.

Lemma remove_all_nil old : remove_all old [] = [].
Proof. destruct old; reflexivity. Qed.

(* an occurrence at the head is dropped and the scan resumes after it *)
Lemma remove_all_hit old r : old <> [] -> remove_all old (old ++ r) = remove_all old r.
Proof.
  destruct old as [|a o]; [congruence|]. intros _. unfold remove_all.
  change ((a :: o) ++ r) with (a :: (o ++ r)).
  rewrite remove_all_aux_0.
  change (a :: (o ++ r)) with ((a :: o) ++ r). rewrite prefixb_app.
  change (pred (length (a :: o))) with (length o).
  apply remove_all_aux_skip.
Qed.

(* no occurrence at the head: the byte is kept *)
Lemma remove_all_miss old c r :
  prefixb old (c :: r) = false -> remove_all old (c :: r) = c :: remove_all old r.
Proof.
  destruct old as [|a o]; [discriminate|]. intros H. unfold remove_all.
  rewrite remove_all_aux_0, H. reflexivity.
Qed.

Lemma remove_all_single c s : remove_all [c] s = filter (fun x => negb (N.eqb x c)) s.
Proof.
  induction s as [|x s IH]; [reflexivity|].
  destruct (N.eqb x c) eqn:E.
  - apply N.eqb_eq in E; subst x. change (c :: s) with ([c] ++ s).
    rewrite remove_all_hit by discriminate. simpl. rewrite N.eqb_refl. simpl. exact IH.
  - rewrite remove_all_miss.
    + simpl. rewrite E. simpl. f_equal. exact IH.
    + simpl. rewrite N.eqb_sym, E. reflexivity.
Qed.

Definition single_byte (c : str) : Prop := exists b, c = [b].

Lemma remove_singles order s :
  Forall single_byte order ->
  fold_left (fun t c => remove_all c t) order s =
  filter (fun x => negb (memb x (concat order))) s.
Proof.
  intros H. revert s. induction H as [|c order [b ->] _ IH]; intros s; cbn [fold_left].
  - symmetry. apply filter_all_true. reflexivity.
  - rewrite IH, remove_all_single, filter_filter. apply filter_ext_bool. intros x.
    simpl. rewrite (N.eqb_sym b x). rewrite negb_orb. reflexivity.
Qed.

(* ====================================================================================== *)
(* StripRaw                                                                               *)
(* ====================================================================================== *)

Lemma recolor_aux_no3 s : ~ In 3 s -> recolor_aux 0 s = s.
Proof.
  induction s as [|c s IH]; intros H; [reflexivity|]. simpl.
  destruct (N.eqb c 3) eqn:E.
  - apply N.eqb_eq in E. exfalso. apply H. now left.
  - f_equal. apply IH. intros X. apply H. now right.
Qed.

Lemma code_values_single : Forall single_byte code_values.
Proof. repeat constructor; eexists; reflexivity. Qed.

Lemma ctrl_in_code_values b : is_ctrl b = true <-> memb b (concat code_values) = true.
Proof.
  unfold is_ctrl. rewrite !memb_In. unfold ctrl_bytes. cbn. intuition.
Qed.

Lemma strip_raw_ord_filter order s :
  Forall single_byte order ->
  strip_raw_ord order s = filter (fun x => negb (memb x (concat order))) (recolor s).
Proof. intros H. unfold strip_raw_ord. now apply remove_singles. Qed.

Lemma strip_raw_filter s : strip_raw s = filter (fun x => negb (is_ctrl x)) (recolor s).
Proof.
  unfold strip_raw. rewrite strip_raw_ord_filter by exact code_values_single.
  apply filter_ext_bool. intros x. f_equal.
  destruct (is_ctrl x) eqn:E.
  - now apply ctrl_in_code_values.
  - destruct (memb x (concat code_values)) eqn:M; [|reflexivity].
    apply ctrl_in_code_values in M. congruence.
Qed.

(* the map order of the second loop is irrelevant *)
Lemma strip_raw_any_order order s :
  Permutation order code_values -> strip_raw_ord order s = strip_raw s.
Proof.
  intros P. unfold strip_raw.
  assert (Forall single_byte order) as F.
  { eapply Permutation_Forall; [apply Permutation_sym; exact P|exact code_values_single]. }
  rewrite !strip_raw_ord_filter by (exact F || exact code_values_single).
  apply filter_ext_bool. intros x. f_equal.
  assert (forall l l' : list str, Permutation l l' -> memb x (concat l) = true -> memb x (concat l') = true) as M.
  { intros l l' Pl. rewrite !memb_In, !in_concat. intros (y & Hy & Hx). exists y. split; [|exact Hx].
    eapply Permutation_in; eauto. }
  destruct (memb x (concat order)) eqn:A, (memb x (concat code_values)) eqn:B; try reflexivity.
  - apply (M _ _ P) in A. congruence.
  - apply (M _ _ (Permutation_sym P)) in B. congruence.
Qed.

(* C20_strip_clean: none of the seven control bytes is left *)
Lemma strip_raw_clean s : ctrl_free (strip_raw s).
Proof.
  intros b H. rewrite strip_raw_filter in H. apply filter_In in H as [_ H].
  now apply negb_true_iff in H.
Qed.

Lemma strip_raw_clean_bytes s b : In b ctrl_bytes -> ~ In b (strip_raw s).
Proof.
  intros Hb H. apply strip_raw_clean in H. apply memb_In in Hb. unfold is_ctrl in H. congruence.
Qed.

(* unchanged when there is nothing to strip *)
Lemma strip_raw_id s : ctrl_free s -> strip_raw s = s.
Proof.
  intros H. rewrite strip_raw_filter. unfold recolor. rewrite recolor_aux_no3.
  - apply filter_all_true. intros x Hx. rewrite (H x Hx). reflexivity.
  - intros X. apply H in X. discriminate.
Qed.

Lemma strip_raw_idem s : strip_raw (strip_raw s) = strip_raw s.
Proof. apply strip_raw_id, strip_raw_clean. Qed.

(* ====================================================================================== *)
(* Fmt: identity laws                                                                     *)
(* ====================================================================================== *)

Lemma neq_eqb_false c d : c <> d -> N.eqb c d = false.
Proof. intros H. now apply N.eqb_neq. Qed.

(* outside a token, text without '{' is copied *)
Lemma fmt_scan_copy out s t :
  no_open s -> fmt_scan out None (s ++ t) = fmt_scan (out ++ s) None t.
Proof.
  revert out. induction s as [|c s IH]; intros out H; simpl.
  - now rewrite app_nil_r.
  - rewrite neq_eqb_false by (intros ->; apply H; now left).
    rewrite IH by (intros X; apply H; now right).
    now rewrite <- app_assoc.
Qed.

Lemma fmt_no_open s : no_open s -> fmt s = s.
Proof.
  intros H. unfold fmt. rewrite <- (app_nil_r s) at 1. rewrite fmt_scan_copy by exact H. reflexivity.
Qed.

Lemma fmt_scan_no_close out last s : ~ In fmt_close s -> fmt_scan out last s = out ++ s.
Proof.
  revert out last. induction s as [|c s IH]; intros out last H; simpl.
  - now rewrite app_nil_r.
  - assert (~ In fmt_close s) as Hs by (intros X; apply H; now right).
    assert (N.eqb c fmt_close = false) as Hc by (apply neq_eqb_false; intros ->; apply H; now left).
    destruct (N.eqb c fmt_open); [|destruct last as [l|]; [rewrite Hc; destruct (is_tok_byte c)|]];
      rewrite IH by exact Hs; now rewrite <- app_assoc.
Qed.

Lemma fmt_no_close s : ~ In fmt_close s -> fmt s = s.
Proof. intros H. unfold fmt. now rewrite fmt_scan_no_close. Qed.

Lemma fmt_brace_free s : brace_free s -> fmt s = s.
Proof. intros [H _]. now apply fmt_no_open. Qed.
