(* Elementary facts about the object store of Model/Heap.v: reads after allocation and
   after a write, reachability, what a typed read tells. *)
Require Import Bytes AMap Names State Heap.
From Coq Require Import Lia.
Local Open Scope nat_scope.

Lemma upd_length {A} (l : list A) i x : length (upd l i x) = length l.
Proof. revert i; induction l as [|y l IH]; intros [|i]; simpl; auto. Qed.

Lemma nth_error_upd_eq {A} (l : list A) i x : i < length l -> nth_error (upd l i x) i = Some x.
Proof. revert i; induction l as [|y l IH]; intros [|i] H; simpl in *; try lia; auto. apply IH. lia. Qed.

Lemma nth_error_upd_neq {A} (l : list A) i j x : i <> j -> nth_error (upd l i x) j = nth_error l j.
Proof. revert i j; induction l as [|y l IH]; intros [|i] [|j] H; simpl; auto; try congruence. Qed.

Lemma hset_length h o c : length (hset h o c) = length h.
Proof. apply upd_length. Qed.

Lemma hget_hset_eq h o c : o < length h -> hget (hset h o c) o = Some c.
Proof. apply nth_error_upd_eq. Qed.

Lemma hget_hset_neq h o o' c : o <> o' -> hget (hset h o c) o' = hget h o'.
Proof. apply nth_error_upd_neq. Qed.

Lemma hget_some_lt h o c : hget h o = Some c -> o < length h.
Proof. intros H. apply nth_error_Some. unfold hget in H. congruence. Qed.

Lemma hget_ge_none h o : length h <= o -> hget h o = None.
Proof. apply nth_error_None. Qed.

(* a write to an allocated cell reads back; anywhere else nothing changes *)
Lemma hget_hset h o o' c :
  hget (hset h o c) o' = if Nat.eqb o o' then (if Nat.ltb o (length h) then Some c else None) else hget h o'.
Proof.
  destruct (Nat.eqb o o') eqn:E.
  - apply Nat.eqb_eq in E. subst o'. destruct (Nat.ltb o (length h)) eqn:L.
    + apply Nat.ltb_lt in L. apply hget_hset_eq. exact L.
    + apply Nat.ltb_ge in L. apply hget_ge_none. rewrite hset_length. exact L.
  - apply Nat.eqb_neq in E. apply hget_hset_neq. exact E.
Qed.

Lemma hget_app_old h l o : o < length h -> hget (h ++ l) o = hget h o.
Proof. intros H. unfold hget. apply nth_error_app1. exact H. Qed.

Lemma hget_app_new h c : hget (h ++ [c]) (length h) = Some c.
Proof. unfold hget. rewrite nth_error_app2 by lia. rewrite Nat.sub_diag. reflexivity. Qed.

Lemma halloc_spec h c h' o : halloc h c = (h', o) -> h' = h ++ [c] /\ o = length h.
Proof. unfold halloc. intros H. injection H as <- <-. auto. Qed.

(* typed reads *)
Lemma get_user_ok h o u : get_user h o = Ok u <-> hget h o = Some (CUser u).
Proof. unfold get_user. destruct (hget h o) as [[| | |u'| |pl]|]; split; intros H; try discriminate; congruence. Qed.
Lemma get_chan_ok h o c : get_chan h o = Ok c <-> hget h o = Some (CChan c).
Proof. unfold get_chan. destruct (hget h o) as [[| | | |c'|pl]|]; split; intros H; try discriminate; congruence. Qed.
Lemma get_strs_ok h o l : get_strs h o = Ok l <-> hget h o = Some (CStrs l).
Proof. unfold get_strs. destruct (hget h o) as [[l'| | | | |pl]|]; split; intros H; try discriminate; congruence. Qed.
Lemma get_modes_ok h o l : get_modes h o = Ok l <-> hget h o = Some (CModes l).
Proof. unfold get_modes. destruct (hget h o) as [[|l'| | | |pl]|]; split; intros H; try discriminate; congruence. Qed.
Lemma get_perms_ok h o m : get_perms h o = Ok m <-> hget h o = Some (CPerms m).
Proof. unfold get_perms. destruct (hget h o) as [[| |m'| | |pl]|]; split; intros H; try discriminate; congruence. Qed.

Lemma rbind_ok {A B} (r : res A) (f : A -> res B) b : rbind r f = Ok b -> exists a, r = Ok a /\ f a = Ok b.
Proof. destruct r; simpl; [eauto|discriminate]. Qed.

(* reachability *)
Lemma reach_self h o : In o (reach h o).
Proof. left. reflexivity. Qed.
Lemma reach_ptr h o c p : hget h o = Some c -> In p (ptrs c) -> In p (reach h o).
Proof. intros H Hp. unfold reach. rewrite H. right. exact Hp. Qed.
Lemma reach_inv h o x : In x (reach h o) -> x = o \/ exists c, hget h o = Some c /\ In x (ptrs c).
Proof. unfold reach. intros [<-|H]; [auto|]. destruct (hget h o) as [c|]; [eauto|contradiction]. Qed.

Lemma reach_same_cell h h' o : hget h' o = hget h o -> reach h' o = reach h o.
Proof. unfold reach. intros ->. reflexivity. Qed.

Lemma seg_length_le {A} (a : list A) s : length (seg a s) <= sl_len s.
Proof. unfold seg. rewrite firstn_length. lia. Qed.

Lemma seg_full {A} (l : list A) : seg l (mkSlice 0 0 (length l) (length l)) = l.
Proof. unfold seg. simpl. apply firstn_all. Qed.
Lemma seg_full' {A} (l : list A) id : seg l (mkSlice id 0 (length l) (length l)) = l.
Proof. unfold seg. simpl. apply firstn_all. Qed.
