(* C11: msg_words is the tokenisation of the trimmed, sanitised text in the sense of
   Spec/SplitSpec.v `tokenised` (an independent, relational definition of "the words"). *)
Require Import Bytes Utf8 Split SplitSpec SplitUtf8 SplitProofs SplitWords SplitValid SplitContent.
From Coq Require Import Lia ZifyBool ZifyN ZifyNat.
Local Open Scope nat_scope.

(* ------------------------------------------------------------------ *)
(* a scanner generic in the separator detector                         *)
(* ------------------------------------------------------------------ *)

Section Gen.
  Variable sl : str -> nat.

  Definition gunit (u : str) : Prop := u <> [] /\ forall y, sl (u ++ y) = length u.

  (* whatever sl detects is a unit, whole *)
  Hypothesis sl_unit : forall s k, sl s = S k -> exists u y, s = u ++ y /\ gunit u /\ length u = S k.

  Fixpoint gfields_aux (s : str) (skip : nat) (cur : str) : list str :=
    match s with
    | [] => emit cur
    | b :: r =>
      match skip with
      | S k => gfields_aux r k cur
      | O => match sl s with
             | O => gfields_aux r 0 (b :: cur)
             | S k => emit cur ++ gfields_aux r k []
             end
      end
    end.

  Lemma gfields_skip s : forall k cur, gfields_aux s k cur = gfields_aux (skipn k s) 0 cur.
  Proof.
    induction s as [|b r IH]; intros k cur.
    - rewrite skipn_nil. reflexivity.
    - destruct k as [|k]; [reflexivity|]. cbn [gfields_aux skipn]. apply IH.
  Qed.

  (* the word in front, the length of the unit that ends it (0: none), what follows the unit *)
  Fixpoint brk (s : str) : str * nat * str :=
    match s with
    | [] => ([], 0, [])
    | b :: r =>
      match sl s with
      | S k => ([], S k, skipn k r)
      | O => let '(w, k, rest) := brk r in (b :: w, k, rest)
      end
    end.

  Lemma gfields_brk s : forall cur,
    gfields_aux s 0 cur =
    let '(w, k, rest) := brk s in
    emit (rev_append w cur) ++ match k with O => [] | S _ => gfields_aux rest 0 [] end.
  Proof.
    induction s as [|b r IH]; intros cur; cbn [gfields_aux brk].
    - cbn [rev_append]. rewrite app_nil_r. reflexivity.
    - destruct (sl (b :: r)) as [|k] eqn:E.
      + rewrite IH. destruct (brk r) as [[w k] rest]. reflexivity.
      + cbn [rev_append]. rewrite gfields_skip. reflexivity.
  Qed.

  Lemma brk_spec s :
    let '(w, k, rest) := brk s in
    (k = 0 -> s = w /\ rest = []) /\
    (0 < k -> exists u, gunit u /\ length u = k /\ s = w ++ u ++ rest) /\
    (forall a c, w = a ++ c -> c <> [] -> sl (c ++ skipn (length w) s) = 0).
  Proof.
    induction s as [|b r IH]; cbn [brk].
    - split; [auto|]. split; [lia|]. intros a c E Hc. destruct a, c; try discriminate. congruence.
    - destruct (sl (b :: r)) as [|k] eqn:E.
      + destruct (brk r) as [[w k] rest]. destruct IH as (I1 & I2 & I3). split; [|split].
        * intros Hk. destruct (I1 Hk) as [-> ->]. auto.
        * intros Hk. destruct (I2 Hk) as (u & Hu & Hl & ->). exists u. auto.
        * intros a c Ew Hc. cbn [length skipn].
          destruct a as [|a0 a'].
          -- cbn [app] in Ew. subst c.
             assert (Hs : (b :: w) ++ skipn (length w) r = b :: r).
             { cbn [app]. f_equal. destruct k as [|k'].
               - destruct (I1 eq_refl) as [-> _]. rewrite skipn_all. apply app_nil_r.
               - destruct (I2 ltac:(lia)) as (u & _ & _ & ->). rewrite skipn_app, skipn_all, Nat.sub_diag. reflexivity. }
             rewrite Hs. exact E.
          -- cbn [app] in Ew. inversion Ew; subst. apply (I3 a' c eq_refl Hc).
      + split; [lia|]. split.
        * intros _. destruct (sl_unit _ _ E) as (u & y & Es & Hu & Hl). exists u. split; [exact Hu|]. split; [exact Hl|].
          cbn [app]. rewrite Es. f_equal.
          assert (skipn (S k) (b :: r) = y).
          { rewrite Es. rewrite skipn_app, <- Hl, skipn_all, Nat.sub_diag. reflexivity. }
          cbn [skipn] in H. symmetry. exact H.
        * intros a c Ew Hc. destruct a, c; try discriminate. congruence.
  Qed.

  Lemma emit_rev w : emit (rev_append w []) = match w with [] => [] | _ => [w] end.
  Proof.
    unfold emit. rewrite rev_append_rev, app_nil_r. destruct w as [|b r]; [reflexivity|].
    destruct (rev (b :: r)) eqn:E.
    - apply (f_equal (@length N)) in E. rewrite rev_length in E. discriminate.
    - rewrite <- E. rewrite frev_rev, rev_involutive. reflexivity.
  Qed.

  Theorem gfields_tokenised : forall n s, length s <= n -> tokenisedU gunit s (gfields_aux s 0 []).
  Proof.
    induction n as [|n IH]; intros s Hn.
    - destruct s; [constructor|cbn [length] in Hn; lia].
    - rewrite gfields_brk. pose proof (brk_spec s) as B. destruct (brk s) as [[w k] rest].
      destruct B as (B1 & B2 & B3). rewrite emit_rev.
      assert (Hfree : free_of gunit w).
      { intros a u b Hu Ew. destruct Hu as [Hne Hu].
        specialize (B3 a (u ++ b) Ew ltac:(destruct u; [congruence|discriminate])).
        rewrite <- app_assoc, Hu in B3. destruct u; [congruence|discriminate]. }
      destruct k as [|k].
      + destruct (B1 eq_refl) as [-> ->]. rewrite app_nil_r. destruct w as [|b r]; [constructor|].
        rewrite <- (app_nil_r (b :: r)) at 1. apply tk_word; [discriminate|exact Hfree|left; reflexivity|constructor].
      + destruct (B2 ltac:(lia)) as (u & Hu & Hl & ->).
        assert (Hrest : tokenisedU gunit (u ++ rest) (gfields_aux rest 0 [])).
        { apply tk_sep; [exact Hu|]. apply IH. rewrite !app_length in Hn. lia. }
        destruct w as [|b r]; [exact Hrest|].
        apply tk_word; [discriminate|exact Hfree| |exact Hrest].
        right. exists u, rest. auto.
  Qed.
End Gen.

(* ------------------------------------------------------------------ *)
(* instance 1: FieldsFunc                                              *)
(* ------------------------------------------------------------------ *)

Lemma fields_gfields s : forall skip cur, fields_aux s skip cur = gfields_aux sep_len s skip cur.
Proof.
  induction s as [|b r IH]; intros skip cur; cbn [fields_aux gfields_aux]; [reflexivity|].
  destruct skip; [|apply IH]. destruct (sep_len (b :: r)); rewrite IH; reflexivity.
Qed.

Lemma sep_len_unit s k : sep_len s = S k -> exists u y, s = u ++ y /\ gunit sep_len u /\ length u = S k.
Proof.
  unfold sep_len. destruct s as [|b r]; [discriminate|].
  destruct (is_sep_byte b) eqn:Es.
  - intros H; inversion H; subst. exists [b], r. split; [reflexivity|]. split; [|reflexivity].
    split; [discriminate|]. intros y. cbn [app sep_len]. rewrite Es. reflexivity.
  - destruct (b =? 194)%N eqn:Eb; [|discriminate]. apply N.eqb_eq in Eb. subst b.
    destruct r as [|c r']; [discriminate|].
    destruct ((c =? 133) || (c =? 160))%N eqn:Ec; [|discriminate].
    intros H; inversion H; subst. exists [194%N; c], r'. split; [reflexivity|]. split; [|reflexivity].
    split; [discriminate|]. intros y. cbn [app sep_len]. rewrite Es. cbn. rewrite Ec. reflexivity.
Qed.

(* ------------------------------------------------------------------ *)
(* instance 2: the newline loop                                        *)
(* ------------------------------------------------------------------ *)

Definition nl_len (s : str) : nat := match s with b :: _ => if is_nl b then 1 else 0 | [] => 0 end.

Lemma nl_len_unit s k : nl_len s = S k -> exists u y, s = u ++ y /\ gunit nl_len u /\ length u = S k.
Proof.
  unfold nl_len. destruct s as [|b r]; [discriminate|]. destruct (is_nl b) eqn:E; [|discriminate].
  intros H; inversion H; subst. exists [b], r. split; [reflexivity|]. split; [|reflexivity].
  split; [discriminate|]. intros y. cbn. rewrite E. reflexivity.
Qed.

Lemma frev_nil_iff cur : frev cur = [] <-> cur = [].
Proof.
  rewrite frev_rev. split; [|intros ->; reflexivity].
  intros H. apply (f_equal (@length N)) in H. rewrite rev_length in H. destruct cur; [reflexivity|discriminate].
Qed.

Lemma nonempty_emit cur : nonempty_words [frev cur] = emit cur.
Proof.
  unfold nonempty_words, emit. cbn [filter]. destruct cur as [|b r]; [reflexivity|].
  destruct (frev (b :: r)) eqn:E; [apply (proj1 (frev_nil_iff _)) in E; discriminate E|reflexivity].
Qed.

Lemma nl_word_gfields s : forall cur sk, (sk = true -> cur = []) ->
  nonempty_words (nl_word_aux s cur sk) = gfields_aux nl_len s 0 cur.
Proof.
  induction s as [|b r IH]; intros cur sk Hsk; cbn [nl_word_aux gfields_aux].
  - apply nonempty_emit.
  - unfold nl_len. destruct (is_nl b) eqn:E.
    + destruct sk.
      * rewrite (Hsk eq_refl). cbn [emit app]. apply IH. reflexivity.
      * change (frev cur :: [] :: nl_word_aux r [] true) with ([frev cur] ++ [[]] ++ nl_word_aux r [] true).
        rewrite !nonempty_words_app, nonempty_emit. cbn [nonempty_words filter is_nil negb app].
        f_equal. apply IH. reflexivity.
    + apply IH. discriminate.
Qed.

(* ------------------------------------------------------------------ *)
(* the two stages together                                             *)
(* ------------------------------------------------------------------ *)

Definition UF := gunit sep_len.
Definition UN := gunit nl_len.

Lemma UF_sep u : UF u -> sep_unit u.
Proof.
  intros [Hne H]. specialize (H []). rewrite app_nil_r in H. unfold sep_len in H.
  destruct u as [|b r]; [congruence|]. destruct (is_sep_byte b) eqn:Es.
  - destruct r; [|discriminate]. apply su_byte. unfold is_sep_byte in Es. unfold sep1. lia.
  - destruct (b =? 194)%N eqn:Eb; [|discriminate]. apply N.eqb_eq in Eb. subst.
    destruct r as [|c [|d r']]; try discriminate.
    + destruct ((c =? 133) || (c =? 160))%N eqn:Ec; [|discriminate].
      assert (c = 133 \/ c = 160)%N as [->| ->] by lia; constructor.
    + destruct ((c =? 133) || (c =? 160))%N; discriminate.
Qed.

Lemma UN_sep u : UN u -> sep_unit u.
Proof.
  intros [Hne H]. specialize (H []). rewrite app_nil_r in H. unfold nl_len in H.
  destruct u as [|b r]; [congruence|]. destruct (is_nl b) eqn:E; [|discriminate].
  destruct r; [|discriminate]. apply su_byte. unfold is_nl in E. unfold sep1. lia.
Qed.

Lemma sep_UF_UN u : sep_unit u -> UF u \/ UN u.
Proof.
  intros H. destruct H as [b Hb| |].
  - destruct (is_nl b) eqn:E.
    + right. split; [discriminate|]. intros y. cbn. rewrite E. reflexivity.
    + left. split; [discriminate|]. intros y. cbn [app sep_len].
      assert (is_sep_byte b = true) by (unfold sep1, is_nl, is_sep_byte in *; lia). rewrite H. reflexivity.
  - left. split; [discriminate|]. intros y. reflexivity.
  - left. split; [discriminate|]. intros y. reflexivity.
Qed.

(* a field, tokenised at line breaks, glued in front of an already tokenised rest *)
Lemma glue f ns : tokenisedU UN f ns -> free_of UF f ->
  forall s ws, at_unit UF s -> tokenised s ws -> tokenised (f ++ s) (ns ++ ws).
Proof.
  induction 1 as [|u f1 ns1 Hu Hf1 IH|w f1 ns1 Hne Hfree Hat Hf1 IH]; intros HF s ws Hs Ht.
  - exact Ht.
  - rewrite <- app_assoc. apply tk_sep; [apply UN_sep; exact Hu|]. apply IH; [|exact Hs|exact Ht].
    intros a u' b Hu' E. apply (HF (u ++ a) u' b Hu'). rewrite E, <- app_assoc. reflexivity.
  - rewrite <- !app_assoc. cbn [app]. apply tk_word.
    + exact Hne.
    + intros a u b Hu E. destruct (sep_UF_UN _ Hu) as [H1|H1].
      * apply (HF a u (b ++ f1) H1). rewrite E, <- !app_assoc. reflexivity.
      * exact (Hfree a u b H1 E).
    + destruct Hat as [->|(u & s' & Hu & ->)].
      * cbn [app]. destruct Hs as [->|(u & s' & Hu & ->)]; [left; reflexivity|].
        right. exists u, s'. split; [apply UF_sep; exact Hu|reflexivity].
      * right. exists u, (s' ++ s). split; [apply UN_sep; exact Hu|rewrite <- app_assoc; reflexivity].
    + apply IH; [|exact Hs|exact Ht].
      intros a u b Hu E. apply (HF (w ++ a) u b Hu). rewrite E, <- app_assoc. reflexivity.
Qed.

Lemma two_stage s fs : tokenisedU UF s fs ->
  tokenised s (nonempty_words (flat_map nl_word fs)).
Proof.
  induction 1 as [|u s ws Hu Hs IH|w s ws Hne Hfree Hat Hs IH].
  - constructor.
  - apply tk_sep; [apply UF_sep; exact Hu|exact IH].
  - cbn [flat_map]. rewrite nonempty_words_app. apply glue; [|exact Hfree|exact Hat|exact IH].
    unfold nl_word. rewrite nl_word_gfields by discriminate.
    apply (gfields_tokenised nl_len nl_len_unit (length w)). lia.
Qed.

Theorem words_tokenised s : tokenised (trim_space s) (nonempty_words (split_words s)).
Proof.
  unfold split_words. apply two_stage. unfold fields. rewrite fields_gfields.
  apply (gfields_tokenised sep_len sep_len_unit (length (trim_space s))). lia.
Qed.

(* the words of C11_content are the tokenisation of the sanitised, edge-trimmed text *)
Theorem msg_words_tokenised text :
  tokenised (trim_space (to_valid_utf8 qmark text)) (msg_words text).
Proof. apply words_tokenised. Qed.
