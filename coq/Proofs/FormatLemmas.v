(* Generic facts about the Lib/Bytes string fragments used by the Glob and Format proofs. *)
Require Import Bytes.
From Coq Require Import Lia ZifyBool ZifyN ZifyNat.

Lemma prefixb_spec p s : prefixb p s = true <-> exists r, s = p ++ r.
Proof.
  revert s; induction p as [|a p IH]; intros s; simpl.
  - split; [intros _; now exists s | reflexivity].
  - destruct s as [|b s].
    + split; [discriminate | intros [r H]; discriminate].
    + rewrite andb_true_iff, N.eqb_eq, IH. split.
      * intros [-> [r ->]]. now exists r.
      * intros [r H]. injection H as -> ->. split; [reflexivity | now exists r].
Qed.

Lemma prefixb_app p r : prefixb p (p ++ r) = true.
Proof. apply prefixb_spec. now exists r. Qed.

Lemma suffixb_spec p s : suffixb p s = true <-> exists r, s = r ++ p.
Proof.
  unfold suffixb. rewrite prefixb_spec. split.
  - intros [r H]. exists (rev r). apply (f_equal (@rev N)) in H.
    rewrite rev_involutive, rev_app_distr, rev_involutive in H. exact H.
  - intros [r ->]. exists (rev r). now rewrite rev_app_distr.
Qed.

Lemma streqb_spec a b : streqb a b = true <-> a = b.
Proof.
  revert b; induction a as [|x a IH]; intros [|y b]; simpl; try (split; [discriminate|congruence]).
  - split; reflexivity.
  - rewrite andb_true_iff, N.eqb_eq, IH. split; [intros [-> ->]; reflexivity|].
    intros H; injection H as -> ->; auto.
Qed.

Lemma streqb_refl a : streqb a a = true.
Proof. now apply streqb_spec. Qed.

Lemma streqb_false a b : streqb a b = false <-> a <> b.
Proof.
  split.
  - intros H E. apply streqb_spec in E. congruence.
  - intros H. destruct (streqb a b) eqn:E; [|reflexivity]. apply streqb_spec in E. contradiction.
Qed.

Lemma skipn_app_len {A} (a b : list A) : skipn (length a) (a ++ b) = b.
Proof. induction a; simpl; auto. Qed.

Lemma firstn_app_len {A} (a b : list A) : firstn (length a) (a ++ b) = a.
Proof. induction a; simpl; [destruct b|]; congruence. Qed.

(* strings.Index: the leftmost occurrence *)
Lemma index_some sub s k : index sub s = Some k ->
  exists a r, s = a ++ sub ++ r /\ length a = k /\
    (forall a' r', s = a' ++ sub ++ r' -> (k <= length a')%nat).
Proof.
  revert k; induction s as [|b s IH]; intros k; simpl.
  - destruct (prefixb sub []) eqn:E; [|discriminate].
    intros [= <-]. apply prefixb_spec in E as [r E]. exists [], r. simpl.
    repeat split; auto. intros; lia.
  - destruct (prefixb sub (b :: s)) eqn:E.
    + intros [= <-]. apply prefixb_spec in E as [r E]. exists [], r. simpl.
      repeat split; auto. intros; lia.
    + destruct (index sub s) as [k'|] eqn:Ei; [|discriminate]. simpl.
      intros [= <-]. destruct (IH k' eq_refl) as (a & r & -> & Hl & Hmin).
      exists (b :: a), r. simpl. repeat split; [now rewrite Hl|].
      intros a' r' H. destruct a' as [|c a'].
      * exfalso. simpl in H. assert (prefixb sub (b :: a ++ sub ++ r) = true) as X
          by (apply prefixb_spec; now exists r'). congruence.
      * simpl in H. injection H as -> H. simpl. apply Hmin in H. lia.
Qed.

Lemma index_none sub s : index sub s = None -> forall a r, s <> a ++ sub ++ r.
Proof.
  induction s as [|b s IH]; simpl; intros H a r E.
  - destruct (prefixb sub []) eqn:P; [discriminate|].
    destruct a; [|discriminate]. simpl in E.
    assert (prefixb sub [] = true) by (apply prefixb_spec; now exists r). congruence.
  - destruct (prefixb sub (b :: s)) eqn:P; [discriminate|].
    destruct (index sub s) eqn:Ei; [discriminate|].
    destruct a as [|c a].
    + simpl in E. assert (prefixb sub (b :: s) = true) by (apply prefixb_spec; now exists r). congruence.
    + simpl in E. injection E as -> E. eapply IH; eauto.
Qed.

(* if a ++ x = g ++ y and |a| <= |g| then y is a suffix of x *)
Lemma app_eq_suffix {A} (a x g y : list A) :
  a ++ x = g ++ y -> (length a <= length g)%nat -> exists d, x = d ++ y.
Proof.
  revert g; induction a as [|h a IH]; intros g E Hle.
  - simpl in E. exists g. exact E.
  - destruct g as [|h' g]; simpl in Hle; [lia|].
    simpl in E. injection E as -> E. apply (IH g E). lia.
Qed.

(* ---- strings.Split on one byte ---------------------------------------- *)

Lemma split_byte_nonempty c s : split_byte c s <> [].
Proof.
  induction s as [|x s IH]; simpl; [discriminate|].
  destruct (N.eqb x c); [discriminate|]. destruct (split_byte c s); discriminate.
Qed.

Lemma split_byte_cons c x s :
  split_byte c (x :: s) =
  if N.eqb x c then [] :: split_byte c s
  else (x :: hd [] (split_byte c s)) :: tl (split_byte c s).
Proof.
  simpl. destruct (N.eqb x c); [reflexivity|].
  pose proof (split_byte_nonempty c s). destruct (split_byte c s); [contradiction|reflexivity].
Qed.

Lemma split_byte_join c s : join [c] (split_byte c s) = s.
Proof.
  induction s as [|x s IH]; [reflexivity|].
  rewrite split_byte_cons. pose proof (split_byte_nonempty c s) as NE.
  destruct (split_byte c s) as [|q qs]; [contradiction|].
  destruct (N.eqb_spec x c) as [->|Hne].
  - change (join [c] ([] :: q :: qs)) with ([] ++ [c] ++ join [c] (q :: qs)).
    rewrite IH. reflexivity.
  - cbn [hd tl]. destruct qs as [|q2 qs].
    + simpl in *. now rewrite IH.
    + change (join [c] ((x :: q) :: q2 :: qs)) with (x :: (q ++ [c] ++ join [c] (q2 :: qs))).
      change (join [c] (q :: q2 :: qs)) with (q ++ [c] ++ join [c] (q2 :: qs)) in IH.
      now rewrite IH.
Qed.

Lemma split_byte_free c s : Forall (fun p => ~ In c p) (split_byte c s).
Proof.
  induction s as [|x s IH]; [repeat constructor; auto|].
  rewrite split_byte_cons. pose proof (split_byte_nonempty c s) as NE.
  destruct (split_byte c s) as [|q qs]; [contradiction|].
  destruct (N.eqb_spec x c) as [->|Hne].
  - constructor; auto.
  - cbn [hd tl]. inversion IH as [|? ? Hq Hqs]; subst. constructor; auto.
    intros [E|E]; [congruence|auto].
Qed.

Lemma join_last sep (ps : list str) : ps <> [] -> exists pre, join sep ps = pre ++ last ps [].
Proof.
  induction ps as [|p ps IH]; [congruence|]. intros _.
  destruct ps as [|q ps].
  - exists []. reflexivity.
  - destruct IH as [pre E]; [discriminate|].
    change (join sep (p :: q :: ps)) with (p ++ sep ++ join sep (q :: ps)).
    change (last (p :: q :: ps) []) with (last (q :: ps) []).
    exists (p ++ sep ++ pre). rewrite E. now rewrite !app_assoc.
Qed.

(* a pattern ending with the separator has an empty last piece *)
Lemma split_byte_last_empty c r : last (split_byte c (r ++ [c])) [] = [].
Proof.
  pose proof (split_byte_free c (r ++ [c])) as F.
  pose proof (split_byte_join c (r ++ [c])) as J.
  destruct (join_last [c] (split_byte c (r ++ [c])) (split_byte_nonempty _ _)) as [pre E].
  rewrite E in J.
  assert (In (last (split_byte c (r ++ [c])) []) (split_byte c (r ++ [c]))) as Hin.
  { pose proof (split_byte_nonempty c (r ++ [c])) as NE. revert NE.
    generalize (split_byte c (r ++ [c])). intros l. induction l as [|a l IHl]; [congruence|].
    intros _. destruct l; [left; reflexivity|]. right. apply IHl. discriminate. }
  rewrite Forall_forall in F. specialize (F _ Hin).
  destruct (last (split_byte c (r ++ [c])) []) as [|y l] eqn:EL using rev_ind; [reflexivity|].
  exfalso. rewrite app_assoc in J. apply app_inj_tail in J as [_ ->]. apply F.
  apply in_or_app. right. left. reflexivity.
Qed.

(* a pattern starting with the separator has an empty first piece *)
Lemma split_byte_first_empty c r : exists qs, split_byte c (c :: r) = [] :: qs.
Proof. rewrite split_byte_cons, N.eqb_refl. eauto. Qed.
