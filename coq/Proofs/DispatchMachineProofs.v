(* C06 — theorems about every schedule of the interleaving machine
   (Model/DispatchMachine.v).

   A run is an action list [tr] with [exec sc (init sc) tr = Some s].  What the theorems
   say about a run is phrased with functions of the trace alone:
   * [reg_of sc tr]   the registry of the statement (Spec/DispatchSpec.v) after the
                      operations that took effect in tr (ALin, ATmpRemove), in that order;
   * [spawned sc tr n h]  how many snapshots ASnap n k of tr found h registered and routed
                      to phase k for event n;
   * [cnt p tr]       how many actions of tr satisfy p. *)
From Coq Require Import Lia ZifyBool ZifyN ZifyNat Permutation.
Require Import Bytes AMap OrderLemmas AMapLemmas Dispatch DispatchSpec DispatchTableProofs
  DispatchMachine.

(* ---- runs ---------------------------------------------------------------------------- *)

Lemma exec_app sc s tr1 tr2 :
  exec sc s (tr1 ++ tr2) =
  match exec sc s tr1 with Some s' => exec sc s' tr2 | None => None end.
Proof.
  revert s. induction tr1 as [|a tr1 IH]; simpl; intros s; [reflexivity|].
  destruct (step sc s a); [apply IH|reflexivity].
Qed.

Lemma exec_snoc sc s tr a s2 :
  exec sc s (tr ++ [a]) = Some s2 <-> exists s1, exec sc s tr = Some s1 /\ step sc s1 a = Some s2.
Proof.
  rewrite exec_app. destruct (exec sc s tr) as [s1|]; simpl.
  - split.
    + intros H. exists s1. split; [reflexivity|].
      destruct (step sc s1 a) as [x|]; [exact H|discriminate H].
    + intros [s1' [[= <-] H]]. rewrite H. reflexivity.
  - split; [discriminate|]. intros [s1 [H _]]. discriminate.
Qed.

(* induction over the runs from a state *)
Lemma run_ind sc (s0 : state) (P : list action -> state -> Prop) :
  P [] s0 ->
  (forall tr s a s', exec sc s0 tr = Some s -> P tr s -> step sc s a = Some s' -> P (tr ++ [a]) s') ->
  forall tr s, exec sc s0 tr = Some s -> P tr s.
Proof.
  intros H0 Hs tr. induction tr as [|a tr IH] using rev_ind; intros s He.
  - simpl in He. inversion He. subst. exact H0.
  - apply exec_snoc in He as [s1 [He Hst]]. exact (Hs tr s1 a s He (IH s1 He) Hst).
Qed.

Lemma exec_prefix sc s tr1 tr2 s2 :
  exec sc s (tr1 ++ tr2) = Some s2 -> exists s1, exec sc s tr1 = Some s1 /\ exec sc s1 tr2 = Some s2.
Proof.
  rewrite exec_app. destruct (exec sc s tr1) as [s1|]; [|discriminate]. eauto.
Qed.

(* ---- counting actions ------------------------------------------------------------------ *)

Definition cnt (p : action -> bool) (tr : list action) : nat := length (filter p tr).

Lemma cnt_app p a b : cnt p (a ++ b) = (cnt p a + cnt p b)%nat.
Proof. unfold cnt. rewrite filter_app, app_length. reflexivity. Qed.

Lemma cnt_snoc p tr a : cnt p (tr ++ [a]) = (cnt p tr + if p a then 1 else 0)%nat.
Proof. rewrite cnt_app. unfold cnt. simpl. destruct (p a); reflexivity. Qed.

Lemma cnt_pos_in p tr : (0 < cnt p tr)%nat -> exists a, In a tr /\ p a = true.
Proof.
  unfold cnt. destruct (filter p tr) as [|a l] eqn:E; simpl; [lia|]. intros _.
  exists a. apply filter_In. rewrite E. simpl. auto.
Qed.

Lemma in_cnt_pos p tr a : In a tr -> p a = true -> (0 < cnt p tr)%nat.
Proof.
  intros Hi Hp. unfold cnt. assert (In a (filter p tr)) as H by (apply filter_In; auto).
  destruct (filter p tr); [destruct H|simpl; lia].
Qed.

Definition is_start (n : nat) (h : N) (a : action) : bool :=
  match a with AStart n' h' => Nat.eqb n' n && (h' =? h) | _ => false end.
Definition is_end (n : nat) (h : N) (a : action) : bool :=
  match a with AEnd n' h' _ => Nat.eqb n' n && (h' =? h) | _ => false end.
Definition is_close (h : N) (a : action) : bool :=
  match a with AClose h' => h' =? h | _ => false end.
Definition is_tmprm (h : N) (a : action) : bool :=
  match a with ATmpRemove h' => h' =? h | _ => false end.

(* ---- the registry and the snapshots, as functions of the trace --------------------------- *)

Section Ghost.
  Variable sc : scenario.
  Notation decl := (sc_decl sc).

  Definition reg_step (reg : list N) (a : action) : list N :=
    match a with
    | ALin _ op => fst (sp_apply decl reg (top_of op))
    | ATmpRemove h => fst (sp_remove decl reg h)
    | _ => reg
    end.

  Definition reg0 : list N := sp_run decl [] (List.map TAdd (sc_init sc)).
  Definition reg_of (tr : list action) : list N := fold_left reg_step tr reg0.

  Lemma reg_of_snoc tr a : reg_of (tr ++ [a]) = reg_step (reg_of tr) a.
  Proof. unfold reg_of. rewrite fold_left_app. reflexivity. Qed.

  (* every handler ever registered *)
  Definition added_step (l : list N) (a : action) : list N :=
    match a with ALin _ (RAdd h) => h :: l | _ => l end.
  Definition added (tr : list action) : list N := fold_left added_step tr (sc_init sc).

  Lemma added_snoc tr a : added (tr ++ [a]) = added_step (added tr) a.
  Proof. unfold added. rewrite fold_left_app. reflexivity. Qed.

  (* does snapshot a, taken with registry reg, pick handler h for event n? *)
  Definition snap_hit (n : nat) (h : N) (reg : list N) (a : action) : bool :=
    match a with
    | ASnap n' k =>
      Nat.eqb n' n && mem_id h reg &&
      match route decl h (ev_at sc n) with Some k' => Nat.eqb k' k | None => false end
    | _ => false
    end.

  Definition spawned_step (n : nat) (h : N) (acc : list N * nat) (a : action) : list N * nat :=
    (reg_step (fst acc) a, (snd acc + if snap_hit n h (fst acc) a then 1 else 0)%nat).

  Definition spawned_acc (n : nat) (h : N) (tr : list action) : list N * nat :=
    fold_left (spawned_step n h) tr (reg0, 0%nat).

  Definition spawned (tr : list action) (n : nat) (h : N) : nat := snd (spawned_acc n h tr).

  Lemma spawned_acc_fst n h tr : fst (spawned_acc n h tr) = reg_of tr.
  Proof.
    unfold spawned_acc, reg_of. induction tr as [|a tr IH] using rev_ind; [reflexivity|].
    rewrite !fold_left_app. simpl. rewrite IH. reflexivity.
  Qed.

  Lemma spawned_snoc tr a n h :
    spawned (tr ++ [a]) n h = (spawned tr n h + if snap_hit n h (reg_of tr) a then 1 else 0)%nat.
  Proof.
    unfold spawned, spawned_acc. rewrite fold_left_app. simpl.
    fold (spawned_acc n h tr). rewrite spawned_acc_fst. reflexivity.
  Qed.

  Lemma spawned_nil n h : spawned [] n h = 0%nat.
  Proof. reflexivity. Qed.

  (* a counted snapshot is a snapshot of the trace at which h was registered and routed *)
  Lemma spawned_pos_split tr n h :
    (0 < spawned tr n h)%nat ->
    exists tr1 k tr2, tr = tr1 ++ ASnap n k :: tr2 /\ In h (reg_of tr1) /\
                      route decl h (ev_at sc n) = Some k.
  Proof.
    induction tr as [|a tr IH] using rev_ind; [rewrite spawned_nil; lia|].
    rewrite spawned_snoc. destruct (snap_hit n h (reg_of tr) a) eqn:E.
    - intros _. destruct a; simpl in E; try discriminate.
      apply Bool.andb_true_iff in E as [E Er]. apply Bool.andb_true_iff in E as [En Em].
      apply Nat.eqb_eq in En. subst n0. apply mem_id_in in Em.
      destruct (route decl h (ev_at sc n)) as [k'|] eqn:Ert; [|discriminate].
      apply Nat.eqb_eq in Er. subst k'.
      exists tr, k, []. auto.
    - rewrite Nat.add_0_r. intros H. destruct (IH H) as [tr1 [k [tr2 [-> [Hi Hr]]]]].
      exists tr1, k, (tr2 ++ [a]). rewrite <- app_assoc. simpl. auto.
  Qed.

  Lemma spawned_split_pos tr1 k tr2 n h :
    In h (reg_of tr1) -> route decl h (ev_at sc n) = Some k ->
    (0 < spawned (tr1 ++ ASnap n k :: tr2) n h)%nat.
  Proof.
    intros Hi Hr. induction tr2 as [|a tr2 IH] using rev_ind.
    - rewrite spawned_snoc. simpl. rewrite Nat.eqb_refl, Hr, Nat.eqb_refl.
      apply mem_id_in in Hi. rewrite Hi. simpl. lia.
    - replace (tr1 ++ ASnap n k :: tr2 ++ [a]) with ((tr1 ++ ASnap n k :: tr2) ++ [a])
        by (rewrite <- app_assoc; reflexivity).
      rewrite spawned_snoc. lia.
  Qed.
End Ghost.

(* ---- well-formed scenarios ------------------------------------------------------------------ *)

Definition wf_sc (sc : scenario) : Prop := wf_scb sc = true /\ uid_ok (sc_uid sc).

Lemma mem_N_in h l : mem_N h l = true <-> In h l.
Proof.
  induction l as [|x l IH]; simpl; [split; [discriminate|tauto]|].
  rewrite Bool.orb_true_iff, IH, N.eqb_eq. tauto.
Qed.

Lemma nodup_N_spec l : nodup_N l = true -> NoDup l.
Proof.
  induction l as [|x l IH]; simpl; [constructor|].
  intros H. apply Bool.andb_true_iff in H as [Hm Hn]. constructor; [|auto].
  intros Hi. apply mem_N_in in Hi. rewrite Hi in Hm. discriminate.
Qed.

Lemma rop_eqb_eq a b : rop_eqb a b = true -> a = b.
Proof.
  destruct a, b; simpl; try discriminate; intros H; try reflexivity.
  - apply N.eqb_eq in H. congruence.
  - apply N.eqb_eq in H. congruence.
  - apply streqb_eq in H. congruence.
Qed.

Definition decl_ok (sc : scenario) (h : N) : Prop :=
  cmd_ok (sc_decl sc) h /\
  (hd_tmp (sc_decl sc h) = true -> hd_bg (sc_decl sc h) = true /\ hd_int (sc_decl sc h) = false) /\
  (hd_deadline (sc_decl sc h) = true -> hd_tmp (sc_decl sc h) = true).

Lemma decl_okb_ok sc h : decl_okb (sc_decl sc h) = true -> decl_ok sc h.
Proof.
  unfold decl_okb, decl_ok, cmd_ok, cmd_okb. intros H.
  apply Bool.andb_true_iff in H as [H Hti]. apply Bool.andb_true_iff in H as [H Hdt].
  apply Bool.andb_true_iff in H as [Hc Htb]. apply Bool.andb_true_iff in Hc as [Hcol Hne].
  apply Bool.negb_true_iff in Hcol.
  repeat split.
  - exact Hcol.
  - intros E. rewrite E in Hne. discriminate.
  - destruct (hd_tmp (sc_decl sc h)), (hd_bg (sc_decl sc h)); simpl in *; congruence.
  - destruct (hd_tmp (sc_decl sc h)), (hd_int (sc_decl sc h)); simpl in *; congruence.
  - destruct (hd_deadline (sc_decl sc h)), (hd_tmp (sc_decl sc h)); simpl in *; congruence.
Qed.

Section WF.
  Variable sc : scenario.
  Hypothesis Hwf : wf_sc sc.

  Lemma wf_parts :
    NoDup (sc_init sc ++ flat_map adds_of (sc_threads sc)) /\
    (forall d, In d (sc_decls sc) -> decl_okb d = true) /\
    (forall h, In h (sc_init sc ++ flat_map handles_of (sc_threads sc)) ->
               (N.to_nat h < length (sc_decls sc))%nat) /\
    (forall h, In h (flat_map adds_of (sc_threads sc)) -> hd_int (sc_decl sc h) = false) /\
    (forall e, In e (sc_events sc) -> ev_cmd e <> star).
  Proof.
    destruct Hwf as [H _]. unfold wf_scb in H.
    apply Bool.andb_true_iff in H as [H Hev]. apply Bool.andb_true_iff in H as [H Hext].
    apply Bool.andb_true_iff in H as [H Hlt]. apply Bool.andb_true_iff in H as [Hnd Hdecl].
    rewrite forallb_forall in Hev, Hext, Hlt, Hdecl.
    repeat split.
    - apply nodup_N_spec. exact Hnd.
    - exact Hdecl.
    - intros h Hi. specialize (Hlt h Hi). lia.
    - intros h Hi. specialize (Hext h Hi). apply Bool.negb_true_iff. exact Hext.
    - intros e Hi. specialize (Hev e Hi). apply Bool.negb_true_iff in Hev.
      apply streqb_neq. exact Hev.
  Qed.

  Lemma wf_uid : uid_ok (sc_uid sc).
  Proof. exact (proj2 Hwf). Qed.

  (* every declared handler is well formed; an undeclared id is not an AddTmp handler *)
  Lemma wf_declared h : (N.to_nat h < length (sc_decls sc))%nat -> decl_ok sc h.
  Proof.
    intros Hl. apply decl_okb_ok. destruct wf_parts as [_ [Hd _]]. apply Hd.
    unfold sc_decl. apply nth_In. exact Hl.
  Qed.

  Lemma wf_tmp_ok h : hd_tmp (sc_decl sc h) = true -> decl_ok sc h.
  Proof.
    intros Ht. destruct (Nat.lt_ge_cases (N.to_nat h) (length (sc_decls sc))) as [Hl|Hl].
    - apply wf_declared. exact Hl.
    - unfold sc_decl in Ht. rewrite nth_overflow in Ht by exact Hl. discriminate.
  Qed.

  Lemma wf_event n : ev_cmd (ev_at sc n) <> star.
  Proof.
    unfold ev_at. destruct (Nat.lt_ge_cases n (length (sc_events sc))) as [Hl|Hl].
    - destruct wf_parts as [_ [_ [_ [_ He]]]]. apply He. apply nth_In. exact Hl.
    - rewrite nth_overflow by exact Hl. discriminate.
  Qed.
End WF.

(* ---- state updates ------------------------------------------------------------------------- *)

Lemma upd2_get f n h v n' h' :
  upd2 f n h v n' h' = if Nat.eqb n' n && (h' =? h) then v else f n' h'.
Proof. reflexivity. Qed.

Lemma upd1_get f h v h' : upd1 f h v h' = if h' =? h then v else f h'.
Proof. reflexivity. Qed.

Lemma spawn_all_spec sel : forall f n n' h,
  spawn_all f n sel n' h =
  (f n' h + if Nat.eqb n' n then count_occ N.eq_dec sel h else 0)%nat.
Proof.
  induction sel as [|x sel IH]; intros f n n' h; simpl.
  - destruct (Nat.eqb n' n); lia.
  - rewrite IH, upd2_get. destruct (Nat.eqb n' n) eqn:En; simpl.
    + apply Nat.eqb_eq in En. subst n'. destruct (N.eq_dec x h) as [->|Hne].
      * rewrite N.eqb_refl. lia.
      * assert ((h =? x) = false) as -> by (apply N.eqb_neq; congruence). lia.
    + lia.
Qed.

Lemma remove1_count h l x :
  count_occ N.eq_dec (remove1 h l) x =
  (count_occ N.eq_dec l x - if N.eqb x h && mem_N h l then 1 else 0)%nat.
Proof.
  induction l as [|y l IH]; simpl.
  - destruct (N.eqb x h); reflexivity.
  - destruct (y =? h) eqn:Ey.
    + apply N.eqb_eq in Ey. subst y. simpl. rewrite Bool.andb_true_r.
      destruct (N.eq_dec h x) as [->|Hne].
      * rewrite N.eqb_refl. lia.
      * assert ((x =? h) = false) as -> by (apply N.eqb_neq; congruence). lia.
    + apply N.eqb_neq in Ey. simpl. rewrite IH.
      destruct (N.eq_dec y x) as [->|Hne].
      * assert ((x =? h) = false) as -> by (apply N.eqb_neq; congruence). simpl. lia.
      * reflexivity.
Qed.

Lemma mem_N_count h l : mem_N h l = true -> (0 < count_occ N.eq_dec l h)%nat.
Proof. intros H. apply mem_N_in in H. apply count_occ_In. exact H. Qed.

Lemma remove1_in h l x : In x (remove1 h l) -> In x l.
Proof.
  induction l as [|y l IH]; simpl; [tauto|].
  destruct (y =? h); simpl; [auto|]. intros [->|H]; auto.
Qed.

Lemma nodup_count (l : list N) h : NoDup l -> count_occ N.eq_dec l h = if mem_id h l then 1%nat else 0%nat.
Proof.
  intros Hnd. destruct (mem_id h l) eqn:E.
  - apply mem_id_in in E. apply NoDup_count_occ' with (decA := N.eq_dec) in E; auto.
  - apply count_occ_not_In. intros Hi. apply mem_id_in in Hi. congruence.
Qed.

(* wrappers of the current barrier: how many of handler h (event n) have not called wg.Done *)
Definition outc (s : state) (n : nat) (h : N) : nat :=
  match s_disp s with
  | DWait n' _ out => if Nat.eqb n' n then count_occ N.eq_dec out h else 0%nat
  | _ => 0%nat
  end.

(* how far the dispatcher has come *)
Definition dpos (d : dstate) : nat :=
  match d with
  | DIdle n => 9 * n
  | DPhase n k => 9 * n + 1 + 2 * Nat.min k 3
  | DWait n k _ => 9 * n + 2 + 2 * Nat.min k 3
  end%nat.

Ltac bm H :=
  match type of H with
  | context [match ?x with _ => _ end] =>
    let E := fresh "E" in destruct x eqn:E; try discriminate H
  end.
Ltac step_inv H := unfold step in H; repeat bm H; inversion H; subst; clear H; simpl in *.

Lemma step_dpos sc s a s' : step sc s a = Some s' -> (dpos (s_disp s) <= dpos (s_disp s'))%nat.
Proof.
  intros H. destruct a; step_inv H; try lia;
    repeat match goal with
           | X : (_ && _)%bool = true |- _ => apply Bool.andb_true_iff in X as [? ?]
           | X : Nat.eqb _ _ = true |- _ => apply Nat.eqb_eq in X
           | X : Nat.ltb _ _ = true |- _ => apply Nat.ltb_lt in X
           | X : Nat.ltb _ _ = false |- _ => apply Nat.ltb_ge in X
           end; subst; simpl; try lia.
Qed.

(* ---- programs --------------------------------------------------------------------------------- *)

Lemma adds_of_app a b : adds_of (a ++ b) = adds_of a ++ adds_of b.
Proof.
  induction a as [|o a IH]; simpl; [reflexivity|]. destruct o; simpl; rewrite IH; reflexivity.
Qed.

Lemma handles_of_app a b : handles_of (a ++ b) = handles_of a ++ handles_of b.
Proof.
  induction a as [|o a IH]; simpl; [reflexivity|]. destruct o; simpl; rewrite IH; reflexivity.
Qed.

Lemma adds_handles p h : In h (adds_of p) -> In h (handles_of p).
Proof.
  induction p as [|o p IH]; simpl; [tauto|]. destruct o; simpl; intuition.
Qed.

Lemma in_nth_flat_map {A B} (f : list A -> list B) (l : list (list A)) i x :
  In x (f (nth i l [])) -> f [] = [] -> In x (flat_map f l).
Proof.
  intros Hi Hnil. destruct (nth_in_or_default i l []) as [Hin|Hd].
  - apply in_flat_map. eauto.
  - rewrite Hd, Hnil in Hi. destruct Hi.
Qed.

Lemma nodup_app_r {A} (a b : list A) : NoDup (a ++ b) -> NoDup b.
Proof. induction a as [|x a IH]; simpl; [auto|]. intros H. inversion H; auto. Qed.

Lemma nodup_app_l {A} (a b : list A) : NoDup (a ++ b) -> NoDup a.
Proof.
  induction a as [|x a IH]; simpl; [constructor|]. intros H. inversion H; subst.
  constructor; [|auto]. intros Hi. apply H2. apply in_app_iff. auto.
Qed.

Lemma nodup_app_disj {A} (a b : list A) x : NoDup (a ++ b) -> In x a -> In x b -> False.
Proof.
  induction a as [|y a IH]; simpl; [tauto|]. intros H [->|Hi] Hb; inversion H; subst.
  - apply H2. apply in_app_iff. auto.
  - auto.
Qed.

Lemma nodup_flat_map_nth {A B} (f : list A -> list B) (l : list (list A)) i :
  f [] = [] -> NoDup (flat_map f l) -> NoDup (f (nth i l [])).
Proof.
  intros Hnil. revert i. induction l as [|x l IH]; intros i Hnd; simpl in *.
  - destruct i; rewrite Hnil; constructor.
  - destruct i; [apply nodup_app_l in Hnd; exact Hnd|].
    apply IH. apply nodup_app_r in Hnd. exact Hnd.
Qed.

Lemma nodup_flat_map_disjoint {A B} (f : list A -> list B) (l : list (list A)) i j x :
  f [] = [] -> NoDup (flat_map f l) -> i <> j ->
  In x (f (nth i l [])) -> In x (f (nth j l [])) -> False.
Proof.
  intros Hnil. revert i j. induction l as [|y l IH]; intros i j Hnd Hij Hi Hj; simpl in *.
  - destruct i; rewrite Hnil in Hi; destruct Hi.
  - destruct i, j; try congruence.
    + apply (in_nth_flat_map f l j x) in Hj; [|exact Hnil].
      exact (nodup_app_disj _ _ x Hnd Hi Hj).
    + apply (in_nth_flat_map f l i x) in Hi; [|exact Hnil].
      exact (nodup_app_disj _ _ x Hnd Hj Hi).
    + apply (IH i j); auto. apply nodup_app_r in Hnd. exact Hnd.
Qed.

(* ---- registry operations shrink or extend the registry as expected ----------------------------- *)

Section RegFacts.
  Variable decl : N -> hdecl.

  Lemma sp_remove_sub reg h x : In x (fst (sp_remove decl reg h)) -> In x reg.
  Proof.
    unfold sp_remove. destruct (mem_id h reg && sp_ext decl h); simpl; [|auto].
    intros H. apply remove_id_in in H. tauto.
  Qed.

  Lemma sp_remove_gone reg h : sp_ext decl h = true -> ~ In h (fst (sp_remove decl reg h)).
  Proof.
    intros He. unfold sp_remove. rewrite He, Bool.andb_true_r.
    destruct (mem_id h reg) eqn:E; simpl.
    - intros H. apply remove_id_in in H. tauto.
    - intros H. apply mem_id_in in H. congruence.
  Qed.

  Lemma sp_apply_sub reg o x :
    In x (fst (sp_apply decl reg o)) -> In x reg \/ o = TAdd x.
  Proof.
    destruct o; simpl.
    - intros [->|H]; auto.
    - intros H. left. eapply sp_remove_sub. exact H.
    - auto.
    - unfold sp_clear. intros H. apply filter_In in H. tauto.
    - unfold sp_clear_all. intros H. apply filter_In in H. tauto.
  Qed.

  Lemma sp_run_adds l : forall reg x, In x (sp_run decl reg (List.map TAdd l)) <-> In x reg \/ In x l.
  Proof.
    induction l as [|h l IH]; intros reg x; simpl; [tauto|].
    rewrite IH. unfold sp_add. simpl. intuition.
  Qed.
End RegFacts.

Lemma tops_ok_adds uid decl l : forall reg,
  NoDup l -> (forall h, In h l -> ~ In h reg) -> (forall h, In h l -> cmd_ok decl h) ->
  tops_ok uid decl reg (List.map TAdd l).
Proof.
  induction l as [|h l IH]; intros reg Hnd Hdis Hok; simpl; [exact I|].
  inversion Hnd; subst. split.
  - split; [apply Hdis; simpl; auto|apply Hok; simpl; auto].
  - apply IH; auto.
    + intros x Hx [->|Hr]; [contradiction|]. apply (Hdis x); simpl; auto.
    + intros x Hx. apply Hok. simpl. auto.
Qed.

(* ---- invariant A: the table follows the registry; handler ids stay fresh ------------------------- *)

Definition unlinned (t : list rop * rstage) : list rop :=
  match snd t with RLinned _ => tl (fst t) | _ => fst t end.

Record InvA (sc : scenario) (tr : list action) (s : state) : Prop := mkInvA {
  a_rel : Rel (sc_uid sc) (sc_decl sc) (s_tbl s) (reg_of sc tr);
  a_sub : forall h, In h (reg_of sc tr) -> In h (added sc tr);
  a_decl : forall h, In h (added sc tr) -> (N.to_nat h < length (sc_decls sc))%nat;
  a_thr : forall i, exists pre, nth i (sc_threads sc) [] = pre ++ fst (s_thr s i);
  a_fresh : forall i h, In h (adds_of (unlinned (s_thr s i))) -> ~ In h (added sc tr);
  a_pend : forall h, (0 < s_pend s h)%nat -> hd_tmp (sc_decl sc h) = true }.

Section InvA.
  Variable sc : scenario.
  Hypothesis Hwf : wf_sc sc.

  Lemma declared_cmd_ok h : (N.to_nat h < length (sc_decls sc))%nat -> cmd_ok (sc_decl sc) h.
  Proof. intros H. exact (proj1 (wf_declared sc Hwf h H)). Qed.

  Lemma invA_init : InvA sc [] (init sc).
  Proof.
    destruct (wf_parts sc Hwf) as [Hnd [Hd [Hlt [Hext Hev]]]].
    destruct (wf_uid sc Hwf) as [U1 [U2 U3]].
    constructor.
    - unfold init, init_tbl, reg_of, reg0. simpl.
      apply run_tops_refines; auto; [apply rel_empty|].
      apply tops_ok_adds.
      + apply nodup_app_l in Hnd. exact Hnd.
      + intros h _ [].
      + intros h Hi. apply declared_cmd_ok. apply Hlt. apply in_app_iff. auto.
    - intros h Hi. unfold reg_of, reg0 in Hi. simpl in Hi. apply sp_run_adds in Hi as [[]|Hi]. exact Hi.
    - intros h Hi. apply Hlt. apply in_app_iff. left. exact Hi.
    - intros i. exists []. reflexivity.
    - intros i h Hi Hinit. unfold init, unlinned in Hi. simpl in Hi.
      apply (in_nth_flat_map adds_of) in Hi; [|reflexivity].
      exact (nodup_app_disj _ _ h Hnd Hinit Hi).
    - intros h Hp. unfold init in Hp. simpl in Hp.
      destruct (mem_N h (sc_init sc) && hd_deadline (sc_decl sc h)) eqn:E; [|lia].
      apply Bool.andb_true_iff in E as [Em Ed]. apply mem_N_in in Em.
      assert (decl_ok sc h) as [_ [_ Hdl]].
      { apply wf_declared; auto. apply Hlt. apply in_app_iff. auto. }
      auto.
  Qed.

  Lemma thread_op_declared s tr i op rest st h :
    InvA sc tr s -> s_thr s i = (op :: rest, st) -> (op = RAdd h \/ op = RRemove h) ->
    (N.to_nat h < length (sc_decls sc))%nat.
  Proof.
    intros HA Et Hop. destruct (wf_parts sc Hwf) as [_ [_ [Hlt _]]].
    destruct (a_thr _ _ _ HA i) as [pre Hpre]. rewrite Et in Hpre. simpl in Hpre.
    apply Hlt. apply in_app_iff. right.
    apply (in_nth_flat_map handles_of _ i); [|reflexivity].
    rewrite Hpre, handles_of_app. apply in_app_iff. right.
    destruct Hop as [-> | ->]; simpl; auto.
  Qed.

  Lemma thread_top_ok tr s i r l0 :
    InvA sc tr s -> s_thr s i = (r :: l0, RCalled) ->
    top_ok (sc_uid sc) (sc_decl sc) (reg_of sc tr) (top_of r).
  Proof.
    intros HA E0. pose proof HA as [Hrel Hsub Hdecl Hthr Hfresh Hpend].
    destruct r as [h|h|c|]; simpl; auto.
    - split.
      + intros Hi. apply (Hfresh i h); [rewrite E0; simpl; auto|auto].
      + apply declared_cmd_ok. eapply thread_op_declared; eauto.
    - apply declared_cmd_ok. eapply thread_op_declared; eauto.
  Qed.

  Lemma invA_step tr s a s' : InvA sc tr s -> step sc s a = Some s' -> InvA sc (tr ++ [a]) s'.
  Proof.
    intros HA Hst.
    destruct (wf_parts sc Hwf) as [Hnd [Hd [Hlt [Hext Hev]]]].
    destruct a.
    all: try (step_inv Hst; destruct HA as [Hrel Hsub Hdecl Hthr Hfresh Hpend];
              constructor; rewrite ?reg_of_snoc, ?added_snoc; simpl; auto; fail).
    - (* AEnd: an AddTmp function that returned true queues a Remove call *)
      step_inv Hst; destruct HA as [Hrel Hsub Hdecl Hthr Hfresh Hpend];
        constructor; rewrite ?reg_of_snoc, ?added_snoc; simpl; auto;
        intros h0; rewrite upd1_get; destruct (h0 =? h) eqn:Eh; auto;
        apply N.eqb_eq in Eh; subst h0; auto.
    - (* ACall *)
      unfold step in Hst. destruct (s_crashed s); [discriminate|].
      destruct (s_thr s i) as [[|r l0] [| |res']] eqn:E0; try discriminate.
      destruct (rop_eqb op r) eqn:E3; [|discriminate]. inversion Hst; subst; clear Hst.
      destruct HA as [Hrel Hsub Hdecl Hthr Hfresh Hpend].
      constructor; rewrite ?reg_of_snoc, ?added_snoc; simpl; auto.
      + intros i0. unfold updt. destruct (Nat.eqb i0 i) eqn:Ei; [|apply Hthr].
        apply Nat.eqb_eq in Ei. subst i0. specialize (Hthr i). rewrite E0 in Hthr. exact Hthr.
      + intros i0 h0. unfold updt. destruct (Nat.eqb i0 i) eqn:Ei; [|apply Hfresh].
        apply Nat.eqb_eq in Ei. subst i0. specialize (Hfresh i h0). rewrite E0 in Hfresh. exact Hfresh.
    - (* ALin: the operation takes effect *)
      unfold step in Hst. destruct (s_crashed s); [discriminate|].
      destruct (s_thr s i) as [[|r l0] [| |res']] eqn:E0; try discriminate.
      destruct (rop_eqb op r) eqn:E3; [|discriminate].
      destruct (apply_top (sc_uid sc) (sc_decl sc) (s_tbl s) (top_of r)) as [t' res] eqn:E4.
      inversion Hst; subst; clear Hst.
      apply rop_eqb_eq in E3. subst op.
      pose proof HA as [Hrel Hsub Hdecl Hthr Hfresh Hpend].
      assert (top_ok (sc_uid sc) (sc_decl sc) (reg_of sc tr) (top_of r)) as Hok.
      { destruct r as [h|h|c|]; simpl; auto.
        - split.
          + intros Hi. apply (Hfresh i h); [rewrite E0; simpl; auto|auto].
          + apply declared_cmd_ok. eapply thread_op_declared; eauto.
        - apply declared_cmd_ok. eapply thread_op_declared; eauto. }
      destruct (table_step _ (sc_decl sc) (wf_uid sc Hwf) _ _ _ Hrel Hok) as [Hrel' Hres].
      rewrite E4 in Hrel', Hres. simpl in Hrel', Hres.
      constructor; rewrite ?reg_of_snoc, ?added_snoc; simpl; auto.
      + intros h Hi. apply sp_apply_sub in Hi as [Hi|Hi].
        * destruct r; simpl; auto.
        * destruct r; simpl in Hi; try discriminate. inversion Hi. subst. simpl. auto.
      + intros h Hi. destruct r as [h1|h1|c|]; simpl in Hi; auto.
        destruct Hi as [<-|Hi]; auto. eapply thread_op_declared; eauto.
      + intros i0. unfold updt. destruct (Nat.eqb i0 i) eqn:Ei; [|apply Hthr].
        apply Nat.eqb_eq in Ei. subst i0. specialize (Hthr i). rewrite E0 in Hthr. exact Hthr.
      + intros i0 h0. unfold updt. destruct (Nat.eqb i0 i) eqn:Ei.
        * apply Nat.eqb_eq in Ei. subst i0. unfold unlinned. simpl. intros Hi.
          assert (~ In h0 (added sc tr)) as Hn.
          { apply (Hfresh i h0). rewrite E0. unfold unlinned. simpl.
            destruct r; simpl; auto. }
          destruct r as [h1|h1|c|]; simpl; auto.
          intros [<-|Ha]; [|auto].
          destruct (Hthr i) as [pre Hpre]. rewrite E0 in Hpre. simpl in Hpre.
          pose proof (nodup_flat_map_nth adds_of (sc_threads sc) i eq_refl (nodup_app_r _ _ Hnd)) as Hndi.
          rewrite Hpre, adds_of_app in Hndi. simpl in Hndi.
          apply nodup_app_r in Hndi. inversion Hndi. auto.
        * apply Nat.eqb_neq in Ei. intros Hi.
          assert (~ In h0 (added sc tr)) as Hn by (apply (Hfresh i0 h0); exact Hi).
          destruct r as [h1|h1|c|]; simpl; auto.
          intros [<-|Ha]; [|auto].
          destruct (Hthr i) as [pre Hpre]. rewrite E0 in Hpre. simpl in Hpre.
          destruct (Hthr i0) as [pre0 Hpre0].
          apply (nodup_flat_map_disjoint adds_of (sc_threads sc) i i0 h1 eq_refl (nodup_app_r _ _ Hnd)); auto.
          -- rewrite Hpre, adds_of_app. apply in_app_iff. right. simpl. auto.
          -- rewrite Hpre0, adds_of_app. apply in_app_iff. right.
             unfold unlinned in Hi. destruct (s_thr s i0) as [todo st]. simpl in *.
             destruct st; auto. destruct todo as [|o todo]; simpl in *; [destruct Hi|].
             destruct o; simpl; auto.
      + intros h0. destruct r as [h1|h1|c|]; auto.
        destruct (hd_deadline (sc_decl sc h1)) eqn:Ed; auto.
        rewrite upd1_get. destruct (h0 =? h1) eqn:Eh; auto.
        apply N.eqb_eq in Eh. subst h0. intros _.
        assert (decl_ok sc h1) as [_ [_ Hdl]]; auto.
        apply wf_declared; auto. eapply thread_op_declared; eauto.
    - (* ARet *)
      unfold step in Hst. destruct (s_crashed s); [discriminate|].
      destruct (s_thr s i) as [[|r l0] [| |res']] eqn:E0; try discriminate.
      destruct (rop_eqb op r && Bool.eqb res res') eqn:E3; [|discriminate].
      inversion Hst; subst; clear Hst.
      destruct HA as [Hrel Hsub Hdecl Hthr Hfresh Hpend].
      constructor; rewrite ?reg_of_snoc, ?added_snoc; simpl; auto.
      + intros i0. unfold updt. destruct (Nat.eqb i0 i) eqn:Ei; [|apply Hthr].
        apply Nat.eqb_eq in Ei. subst i0. destruct (Hthr i) as [pre Hpre]. rewrite E0 in Hpre.
        simpl in *. exists (pre ++ [r]). rewrite <- app_assoc. exact Hpre.
      + intros i0 h0. unfold updt. destruct (Nat.eqb i0 i) eqn:Ei; [|apply Hfresh].
        apply Nat.eqb_eq in Ei. subst i0. specialize (Hfresh i h0). rewrite E0 in Hfresh. exact Hfresh.
    - (* ATmpRemove *)
      unfold step in Hst. destruct (s_crashed s); [discriminate|].
      destruct (Nat.ltb 0 (s_pend s h)) eqn:Ep; [|discriminate]. apply Nat.ltb_lt in Ep.
      destruct (remove (s_tbl s) (reg_cuid (sc_uid sc) (sc_decl sc) h)) as [t' ok] eqn:E1.
      inversion Hst; subst; clear Hst.
      pose proof HA as [Hrel Hsub Hdecl Hthr Hfresh Hpend].
      assert (cmd_ok (sc_decl sc) h) as Hc by (apply (wf_tmp_ok sc Hwf); auto).
      destruct (wf_uid sc Hwf) as [U1 [U2 U3]].
      destruct (rel_remove _ (sc_decl sc) U1 U2 U3 _ _ h Hrel Hc) as [Hrel' _].
      rewrite E1 in Hrel'. simpl in Hrel'.
      constructor; rewrite ?reg_of_snoc, ?added_snoc; simpl; auto.
      + intros h0 Hi. apply sp_remove_sub in Hi. auto.
      + intros h0. rewrite upd1_get. destruct (h0 =? h) eqn:Eh; auto.
        apply N.eqb_eq in Eh. subst h0. auto.
  Qed.
End InvA.

(* ---- invariant B: the dispatcher, its goroutines, and the counts of the trace -------------------- *)

Record InvB (sc : scenario) (tr : list action) (s : state) : Prop := mkInvB {
  b_out : forall n k out, s_disp s = DWait n k out ->
            forall h, In h out -> is_bgh sc h = bg_phase k;
  b_fg : forall n h, is_bgh sc h = false ->
            (s_sp s n h + s_rn s n h = outc s n h)%nat /\ s_sg s n h = 0%nat;
  b_bg : forall n h, is_bgh sc h = true -> s_sp s n h = outc s n h;
  b_c1 : forall n h, (cnt (is_start n h) tr + s_sp s n h + s_sg s n h = spawned sc tr n h)%nat;
  b_c2 : forall n h, cnt (is_start n h) tr = (cnt (is_end n h) tr + s_rn s n h)%nat;
  b_c3 : forall n h, (spawned sc tr n h <= 1)%nat /\
            ((0 < spawned sc tr n h)%nat ->
             exists k, route (sc_decl sc) h (ev_at sc n) = Some k /\
                       (9 * n + 2 + 2 * k <= dpos (s_disp s))%nat);
  b_added : forall n h, (0 < s_sp s n h + s_sg s n h + s_rn s n h)%nat -> In h (added sc tr) }.

Lemma added_mono sc tr a h : In h (added sc tr) -> In h (added sc (tr ++ [a])).
Proof.
  rewrite added_snoc. destruct a; simpl; auto. destruct op; simpl; auto.
Qed.

Section InvB.
  Variable sc : scenario.
  Hypothesis Hwf : wf_sc sc.

  Lemma invB_init : InvB sc [] (init sc).
  Proof.
    constructor; unfold init, outc; simpl; intros; try discriminate; try lia; auto.
    rewrite spawned_nil. split; lia.
  Qed.

  (* the selection of a snapshot, counted *)
  Lemma snap_count tr s n k h :
    InvA sc tr s ->
    count_occ N.eq_dec (phase_ids (s_tbl s) (ev_at sc n) k) h =
    if snap_hit sc n h (reg_of sc tr) (ASnap n k) then 1%nat else 0%nat.
  Proof.
    intros HA. destruct (wf_uid sc Hwf) as [U1 [U2 U3]].
    pose proof (a_rel _ _ _ HA) as Hrel.
    pose proof (phase_ids_nodup _ (sc_decl sc) U2 _ _ (ev_at sc n) k Hrel) as Hnd.
    pose proof (phase_ids_in _ (sc_decl sc) U2 _ _ (ev_at sc n) k h Hrel (wf_event sc Hwf n)) as Hin.
    simpl. rewrite Nat.eqb_refl. simpl.
    destruct (mem_id h (reg_of sc tr)) eqn:Em; simpl.
    - apply mem_id_in in Em.
      destruct (route (sc_decl sc) h (ev_at sc n)) as [k'|] eqn:Er.
      + destruct (Nat.eqb k' k) eqn:Ek.
        * apply Nat.eqb_eq in Ek. subst k'.
          apply NoDup_count_occ'; [exact Hnd|]. apply Hin. auto.
        * apply count_occ_not_In. intros Hi. apply Hin in Hi as [_ Hi].
          inversion Hi. subst. rewrite Nat.eqb_refl in Ek. discriminate.
      + apply count_occ_not_In. intros Hi. apply Hin in Hi as [_ Hi]. discriminate.
    - apply count_occ_not_In. intros Hi. apply Hin in Hi as [Hi _].
      apply mem_id_in in Hi. congruence.
  Qed.

  Lemma snap_bg tr s n k h :
    InvA sc tr s -> In h (phase_ids (s_tbl s) (ev_at sc n) k) -> is_bgh sc h = bg_phase k.
  Proof.
    intros HA Hi. destruct (wf_uid sc Hwf) as [U1 [U2 U3]].
    pose proof (a_rel _ _ _ HA) as Hrel.
    apply (phase_ids_in _ (sc_decl sc) U2 _ _ (ev_at sc n) k h Hrel (wf_event sc Hwf n)) in Hi as [_ Hr].
    apply (route_spec (sc_decl sc) h (ev_at sc n) k (wf_event sc Hwf n)) in Hr.
    unfold is_bgh, bg_phase. destruct (hd_bg (sc_decl sc h)); destruct Hr as [[_ ->]|[_ [_ ->]]]; reflexivity.
  Qed.

  Ltac eqb_cases :=
    repeat match goal with
    | |- context [Nat.eqb ?a ?b] =>
      let E := fresh "En" in destruct (Nat.eqb a b) eqn:E;
      [apply Nat.eqb_eq in E; try subst a|apply Nat.eqb_neq in E]
    | |- context [N.eqb ?a ?b] =>
      let E := fresh "Eh" in destruct (N.eqb a b) eqn:E;
      [apply N.eqb_eq in E; try subst a|apply N.eqb_neq in E]
    end; simpl.

  (* steps that touch neither the dispatcher nor a goroutine nor count in the trace functions *)
  Lemma invB_frame tr s a s' :
    InvB sc tr s ->
    s_disp s' = s_disp s -> s_sp s' = s_sp s -> s_sg s' = s_sg s -> s_rn s' = s_rn s ->
    (forall n h, is_start n h a = false /\ is_end n h a = false) ->
    (forall n h reg, snap_hit sc n h reg a = false) ->
    InvB sc (tr ++ [a]) s'.
  Proof.
    intros [Hout Hfg Hbg Hc1 Hc2 Hc3 Hadd] Ed Esp Esg Ern Hcnt Hsnap.
    constructor; unfold outc; rewrite ?Ed, ?Esp, ?Esg, ?Ern; intros.
    - eapply Hout; eauto.
    - apply Hfg; auto.
    - apply Hbg; auto.
    - rewrite cnt_snoc, spawned_snoc, Hsnap, (proj1 (Hcnt n h)). rewrite <- Hc1. lia.
    - rewrite !cnt_snoc, (proj1 (Hcnt n h)), (proj2 (Hcnt n h)). rewrite (Hc2 n h). lia.
    - rewrite spawned_snoc, Hsnap, Nat.add_0_r. apply Hc3.
    - apply added_mono. eapply Hadd; eauto.
  Qed.

  Lemma invB_step tr s a s' :
    InvA sc tr s -> InvB sc tr s -> step sc s a = Some s' -> InvB sc (tr ++ [a]) s'.
  Proof.
    intros HA HB Hst. destruct a.
    - (* AArrive *)
      apply (invB_frame tr s); auto; step_inv Hst; auto.
    - (* ADeliver *)
      unfold step in Hst. destruct (s_crashed s); [discriminate|].
      destruct (s_disp s) as [m| |] eqn:Ed; try discriminate.
      destruct (Nat.eqb n m && Nat.ltb n (s_arrived s)) eqn:Eg; [|discriminate].
      apply Bool.andb_true_iff in Eg as [En _]. apply Nat.eqb_eq in En. subst m.
      inversion Hst; subst; clear Hst.
      destruct HB as [Hout Hfg Hbg Hc1 Hc2 Hc3 Hadd].
      constructor; unfold outc in *; simpl; rewrite ?Ed in *; intros; try discriminate; auto.
      + rewrite cnt_snoc, spawned_snoc. simpl. rewrite <- Hc1. lia.
      + rewrite !cnt_snoc. simpl. rewrite (Hc2 n0 h). lia.
      + rewrite spawned_snoc. simpl. rewrite Nat.add_0_r.
        destruct (Hc3 n0 h) as [H1 H2]. split; [exact H1|].
        intros Hp. destruct (H2 Hp) as [k [Hr Hk]]. exists k. split; [exact Hr|]. simpl in *. lia.
      + apply added_mono. eapply Hadd; eauto.
    - (* ASnap *)
      unfold step in Hst. destruct (s_crashed s); [discriminate|].
      destruct (s_disp s) as [|n' k'|] eqn:Ed; try discriminate.
      destruct (Nat.eqb n n' && Nat.eqb k k') eqn:Eg; [|discriminate].
      apply Bool.andb_true_iff in Eg as [En Ek]. apply Nat.eqb_eq in En, Ek. subst n' k'.
      inversion Hst; subst; clear Hst.
      pose proof (fun h => snap_count tr s n k h HA) as Hcount.
      destruct HB as [Hout Hfg Hbg Hc1 Hc2 Hc3 Hadd].
      constructor; unfold outc in *; simpl; rewrite ?Ed in *.
      + intros n1 k1 out [= <- <- <-] h Hi. eapply snap_bg; eauto.
      + intros n1 h Hb. rewrite spawn_all_spec. specialize (Hfg n1 h Hb). eqb_cases; lia.
      + intros n1 h Hb. rewrite spawn_all_spec. specialize (Hbg n1 h Hb). eqb_cases; lia.
      + intros n1 h. rewrite cnt_snoc, spawned_snoc, spawn_all_spec. simpl is_start. cbv iota.
        specialize (Hc1 n1 h). destruct (Nat.eqb n1 n) eqn:En.
        * apply Nat.eqb_eq in En. subst n1. rewrite Hcount. lia.
        * simpl. rewrite Nat.eqb_sym, En. simpl. lia.
      + intros n1 h. rewrite !cnt_snoc. simpl. rewrite (Hc2 n1 h). lia.
      + intros n1 h. rewrite spawned_snoc. destruct (Hc3 n1 h) as [H1 H2].
        destruct (snap_hit sc n1 h (reg_of sc tr) (ASnap n k)) eqn:Eh.
        * simpl in Eh. apply Bool.andb_true_iff in Eh as [Eh Er].
          apply Bool.andb_true_iff in Eh as [En _]. apply Nat.eqb_eq in En. subst n1.
          destruct (route (sc_decl sc) h (ev_at sc n)) as [k1|] eqn:Ert; [|discriminate].
          apply Nat.eqb_eq in Er. subst k1.
          assert (spawned sc tr n h = 0)%nat as Hz.
          { destruct (spawned sc tr n h) eqn:Es; [reflexivity|].
            destruct H2 as [k2 [Hr2 Hk2]]; [lia|]. inversion Hr2. subst k2. simpl in Hk2.
            pose proof (Nat.le_min_l k 3). lia. }
          rewrite Hz. split; [lia|]. intros _. exists k. split; [reflexivity|]. simpl.
          assert (k <= 3)%nat as Hk3.
          { apply (route_spec (sc_decl sc) h (ev_at sc n) k (wf_event sc Hwf n)) in Ert.
            destruct (hd_bg (sc_decl sc h)); destruct Ert as [[_ ->]|[_ [_ ->]]]; lia. }
          rewrite Nat.min_l by exact Hk3. lia.
        * rewrite Nat.add_0_r. split; [exact H1|]. intros Hp. destruct (H2 Hp) as [k2 [Hr2 Hk2]].
          exists k2. split; [exact Hr2|]. simpl in *. lia.
      + intros n1 h. rewrite spawn_all_spec. intros Hp. apply added_mono.
        destruct (Nat.eqb n1 n) eqn:En.
        * destruct (count_occ N.eq_dec (phase_ids (s_tbl s) (ev_at sc n) k) h) eqn:Ec.
          -- eapply Hadd. rewrite Nat.add_0_r in Hp. exact Hp.
          -- apply (a_sub _ _ _ HA). destruct (wf_uid sc Hwf) as [U1 [U2 U3]].
             assert (In h (phase_ids (s_tbl s) (ev_at sc n) k)) as Hi
               by (apply (count_occ_In N.eq_dec); lia).
             apply (phase_ids_in _ (sc_decl sc) U2 _ _ (ev_at sc n) k h (a_rel _ _ _ HA) (wf_event sc Hwf n)) in Hi.
             tauto.
        * eapply Hadd. rewrite Nat.add_0_r in Hp. exact Hp.
    - (* ASignal *)
      unfold step in Hst. destruct (s_crashed s); [discriminate|].
      destruct (s_disp s) as [| |n' k out] eqn:Ed; try discriminate.
      destruct (Nat.eqb n n' && bg_phase k && mem_N h out && Nat.ltb 0 (s_sp s n h)) eqn:Eg; [|discriminate].
      apply Bool.andb_true_iff in Eg as [Eg Esp]. apply Bool.andb_true_iff in Eg as [Eg Em].
      apply Bool.andb_true_iff in Eg as [En Ebg]. apply Nat.eqb_eq in En. subst n'.
      apply Nat.ltb_lt in Esp. inversion Hst; subst; clear Hst.
      destruct HB as [Hout Hfg Hbg Hc1 Hc2 Hc3 Hadd].
      assert (is_bgh sc h = true) as Hhbg.
      { rewrite (Hout n k out Ed h); [exact Ebg|]. apply mem_N_in. exact Em. }
      pose proof (mem_N_count h out Em) as Hcnt.
      constructor; unfold outc in *; simpl; rewrite ?Ed in *.
      + intros n1 k1 out1 [= <- <- <-] h1 Hi. apply (Hout n k out eq_refl). eapply remove1_in; eauto.
      + intros n1 h1 Hb. specialize (Hfg n1 h1 Hb). rewrite !upd2_get, remove1_count.
        assert (h1 <> h) by congruence. eqb_cases; try congruence; lia.
      + intros n1 h1 Hb. specialize (Hbg n1 h1 Hb). rewrite !upd2_get, remove1_count, Em.
        eqb_cases; try congruence; simpl; try lia.
      + intros n1 h1. rewrite cnt_snoc, spawned_snoc. simpl. specialize (Hc1 n1 h1).
        rewrite !upd2_get. eqb_cases; simpl; lia.
      + intros n1 h1. rewrite !cnt_snoc. simpl. rewrite (Hc2 n1 h1). lia.
      + intros n1 h1. rewrite spawned_snoc. simpl. rewrite Nat.add_0_r. apply Hc3.
      + intros n1 h1. rewrite !upd2_get. intros Hp. apply added_mono. apply (Hadd n1 h1).
        revert Hp. eqb_cases; simpl; lia.
    - (* AStart *)
      unfold step in Hst. destruct (s_crashed s); [discriminate|].
      destruct (is_bgh sc h) eqn:Ebgh.
      + (* background: the inner goroutine enters the function *)
        destruct (Nat.ltb 0 (s_sg s n h)) eqn:Esg; [|discriminate]. apply Nat.ltb_lt in Esg.
        inversion Hst; subst; clear Hst.
        destruct HB as [Hout Hfg Hbg Hc1 Hc2 Hc3 Hadd].
        constructor; unfold outc in *; simpl.
        * exact Hout.
        * intros n1 h1 Hb. specialize (Hfg n1 h1 Hb). rewrite !upd2_get.
          assert (h1 <> h) by congruence. eqb_cases; try congruence; lia.
        * intros n1 h1 Hb. exact (Hbg n1 h1 Hb).
        * intros n1 h1. rewrite cnt_snoc, spawned_snoc. simpl. specialize (Hc1 n1 h1).
          rewrite !upd2_get. rewrite (Nat.eqb_sym n n1), (N.eqb_sym h h1). eqb_cases; simpl; lia.
        * intros n1 h1. rewrite !cnt_snoc. simpl. specialize (Hc2 n1 h1).
          rewrite !upd2_get. rewrite (Nat.eqb_sym n n1), (N.eqb_sym h h1). eqb_cases; simpl; lia.
        * intros n1 h1. rewrite spawned_snoc. simpl. rewrite Nat.add_0_r. apply Hc3.
        * intros n1 h1. rewrite !upd2_get. intros Hp. apply added_mono. apply (Hadd n1 h1).
          revert Hp. eqb_cases; simpl; lia.
      + (* foreground: the wrapper enters the function *)
        destruct (s_disp s) as [| |n' k out] eqn:Ed; try discriminate.
        destruct (Nat.eqb n n' && negb (bg_phase k) && mem_N h out && Nat.ltb 0 (s_sp s n h)) eqn:Eg; [|discriminate].
        apply Bool.andb_true_iff in Eg as [Eg Esp]. apply Nat.ltb_lt in Esp.
        inversion Hst; subst; clear Hst.
        destruct HB as [Hout Hfg Hbg Hc1 Hc2 Hc3 Hadd].
        constructor; unfold outc in *; simpl; rewrite ?Ed in *.
        * exact Hout.
        * intros n1 h1 Hb. specialize (Hfg n1 h1 Hb). rewrite !upd2_get. eqb_cases; lia.
        * intros n1 h1 Hb. specialize (Hbg n1 h1 Hb). rewrite !upd2_get.
          assert (h1 <> h) by congruence. eqb_cases; try congruence; lia.
        * intros n1 h1. rewrite cnt_snoc, spawned_snoc. simpl. specialize (Hc1 n1 h1).
          rewrite !upd2_get. rewrite (Nat.eqb_sym n n1), (N.eqb_sym h h1). eqb_cases; simpl; lia.
        * intros n1 h1. rewrite !cnt_snoc. simpl. specialize (Hc2 n1 h1).
          rewrite !upd2_get. rewrite (Nat.eqb_sym n n1), (N.eqb_sym h h1). eqb_cases; simpl; lia.
        * intros n1 h1. rewrite spawned_snoc. simpl. rewrite Nat.add_0_r. apply Hc3.
        * intros n1 h1. rewrite !upd2_get. intros Hp. apply added_mono. apply (Hadd n1 h1).
          revert Hp. eqb_cases; simpl; lia.
    - (* AEnd *)
      unfold step in Hst. destruct (s_crashed s); [discriminate|].
      destruct (Nat.ltb 0 (s_rn s n h)) eqn:Ern; [|discriminate]. apply Nat.ltb_lt in Ern.
      destruct (is_bgh sc h) eqn:Ebgh.
      + inversion Hst; subst; clear Hst.
        destruct HB as [Hout Hfg Hbg Hc1 Hc2 Hc3 Hadd].
        constructor; unfold outc in *; simpl.
        * exact Hout.
        * intros n1 h1 Hb. specialize (Hfg n1 h1 Hb). rewrite !upd2_get.
          assert (h1 <> h) by congruence. eqb_cases; try congruence; lia.
        * intros n1 h1 Hb. exact (Hbg n1 h1 Hb).
        * intros n1 h1. rewrite cnt_snoc, spawned_snoc. simpl. specialize (Hc1 n1 h1). lia.
        * intros n1 h1. rewrite !cnt_snoc. simpl. specialize (Hc2 n1 h1).
          rewrite !upd2_get. rewrite (Nat.eqb_sym n n1), (N.eqb_sym h h1). eqb_cases; simpl; lia.
        * intros n1 h1. rewrite spawned_snoc. simpl. rewrite Nat.add_0_r. apply Hc3.
        * intros n1 h1. rewrite !upd2_get. intros Hp. apply added_mono. apply (Hadd n1 h1).
          revert Hp. eqb_cases; simpl; lia.
      + destruct (s_disp s) as [| |n' k out] eqn:Ed; try discriminate.
        destruct (Nat.eqb n n' && mem_N h out) eqn:Eg; [|discriminate].
        apply Bool.andb_true_iff in Eg as [En Em]. apply Nat.eqb_eq in En. subst n'.
        inversion Hst; subst; clear Hst.
        pose proof (mem_N_count h out Em) as Hcnt.
        destruct HB as [Hout Hfg Hbg Hc1 Hc2 Hc3 Hadd].
        constructor; unfold outc in *; simpl; rewrite ?Ed in *.
        * intros n1 k1 out1 [= <- <- <-] h1 Hi. apply (Hout n k out eq_refl). eapply remove1_in; eauto.
        * intros n1 h1 Hb. specialize (Hfg n1 h1 Hb). rewrite !upd2_get, remove1_count, Em.
          eqb_cases; try congruence; simpl; lia.
        * intros n1 h1 Hb. specialize (Hbg n1 h1 Hb). rewrite remove1_count.
          assert (h1 <> h) by congruence. eqb_cases; try congruence; simpl; lia.
        * intros n1 h1. rewrite cnt_snoc, spawned_snoc. simpl. specialize (Hc1 n1 h1). lia.
        * intros n1 h1. rewrite !cnt_snoc. simpl. specialize (Hc2 n1 h1).
          rewrite !upd2_get. rewrite (Nat.eqb_sym n n1), (N.eqb_sym h h1). eqb_cases; simpl; lia.
        * intros n1 h1. rewrite spawned_snoc. simpl. rewrite Nat.add_0_r. apply Hc3.
        * intros n1 h1. rewrite !upd2_get. intros Hp. apply added_mono. apply (Hadd n1 h1).
          revert Hp. eqb_cases; simpl; lia.
    - (* ABarrier *)
      unfold step in Hst. destruct (s_crashed s); [discriminate|].
      destruct (s_disp s) as [| |n' k' [|x out]] eqn:Ed; try discriminate.
      destruct (Nat.eqb n n' && Nat.eqb k k') eqn:Eg; [|discriminate].
      apply Bool.andb_true_iff in Eg as [En Ek]. apply Nat.eqb_eq in En, Ek. subst n' k'.
      inversion Hst; subst; clear Hst.
      destruct HB as [Hout Hfg Hbg Hc1 Hc2 Hc3 Hadd].
      assert (forall n1 h1, outc (set_disp s (if Nat.ltb k 3 then DPhase n (S k) else DIdle (S n))) n1 h1 = 0%nat) as Hz.
      { intros. unfold outc. simpl. destruct (Nat.ltb k 3); reflexivity. }
      constructor; simpl; try (unfold outc in Hfg, Hbg; rewrite Ed in Hfg, Hbg).
      * intros n1 k1 out1 Heq. destruct (Nat.ltb k 3); discriminate.
      * intros n1 h1 Hb. rewrite Hz. specialize (Hfg n1 h1 Hb). simpl in Hfg.
        destruct (Nat.eqb n n1); exact Hfg.
      * intros n1 h1 Hb. rewrite Hz. specialize (Hbg n1 h1 Hb). simpl in Hbg.
        destruct (Nat.eqb n n1); exact Hbg.
      * intros n1 h1. rewrite cnt_snoc, spawned_snoc. simpl. specialize (Hc1 n1 h1). lia.
      * intros n1 h1. rewrite !cnt_snoc. simpl. rewrite (Hc2 n1 h1). lia.
      * intros n1 h1. rewrite spawned_snoc. simpl. rewrite Nat.add_0_r.
        destruct (Hc3 n1 h1) as [H1 H2]. split; [exact H1|].
        intros Hp. destruct (H2 Hp) as [k2 [Hr Hk]]. exists k2. split; [exact Hr|].
        rewrite Ed in Hk. simpl in Hk. destruct (Nat.ltb k 3) eqn:Ek3; simpl.
        -- apply Nat.ltb_lt in Ek3. lia.
        -- apply Nat.ltb_ge in Ek3. lia.
      * intros n1 h1 Hp. apply added_mono. eapply Hadd; eauto.
    - (* ACall *) apply (invB_frame tr s); auto; step_inv Hst; auto.
    - (* ALin *) apply (invB_frame tr s); auto; step_inv Hst; auto.
    - (* ARet *) apply (invB_frame tr s); auto; step_inv Hst; auto.
    - (* ATmpRemove *) apply (invB_frame tr s); auto; step_inv Hst; auto.
    - (* AClose *) apply (invB_frame tr s); auto; step_inv Hst; auto.
  Qed.
End InvB.

(* ---- the theorems about every run ------------------------------------------------------------ *)

Lemma exec_dpos sc tr : forall s s', exec sc s tr = Some s' -> (dpos (s_disp s) <= dpos (s_disp s'))%nat.
Proof.
  induction tr as [|a tr IH]; simpl; intros s s' H; [inversion H; lia|].
  destruct (step sc s a) as [s1|] eqn:E; [|discriminate].
  apply step_dpos in E. apply IH in H. lia.
Qed.

Lemma is_start_in n h tr : (0 < cnt (is_start n h) tr)%nat <-> In (AStart n h) tr.
Proof.
  split.
  - intros H. apply cnt_pos_in in H as [a [Hi Hp]]. destruct a; simpl in Hp; try discriminate.
    apply Bool.andb_true_iff in Hp as [Hn Hh]. apply Nat.eqb_eq in Hn. apply N.eqb_eq in Hh.
    subst. exact Hi.
  - intros H. apply (in_cnt_pos _ _ _ H). simpl. rewrite Nat.eqb_refl, N.eqb_refl. reflexivity.
Qed.

Lemma is_end_in n h tr : (0 < cnt (is_end n h) tr)%nat <-> exists o, In (AEnd n h o) tr.
Proof.
  split.
  - intros H. apply cnt_pos_in in H as [a [Hi Hp]]. destruct a; simpl in Hp; try discriminate.
    apply Bool.andb_true_iff in Hp as [Hn Hh]. apply Nat.eqb_eq in Hn. apply N.eqb_eq in Hh.
    subst. eauto.
  - intros [o H]. apply (in_cnt_pos _ _ _ H). simpl. rewrite Nat.eqb_refl, N.eqb_refl. reflexivity.
Qed.

Section Theorems.
  Variable sc : scenario.
  Hypothesis Hwf : wf_sc sc.
  Notation decl := (sc_decl sc).

  Lemma inv_run tr s : exec sc (init sc) tr = Some s -> InvA sc tr s /\ InvB sc tr s.
  Proof.
    revert tr s. apply run_ind.
    - split; [apply invA_init|apply invB_init]; exact Hwf.
    - intros tr s a s' _ [HA HB] Hst. split.
      + eapply invA_step; eauto.
      + eapply invB_step; eauto.
  Qed.

  (* C06_exactly_once: for every schedule, event n starts handler h at most once; it starts
     it only if the snapshot of h's phase found h registered (and h is routed to that
     phase: registered for the event's command or "*", echo => "*" only); and a snapshot
     that found h registered and routed does start it — the goroutine is started already
     or is one of the goroutines still waiting to be scheduled. *)
  Theorem exactly_once tr s n h :
    exec sc (init sc) tr = Some s ->
    (cnt (is_start n h) tr <= 1)%nat /\
    (In (AStart n h) tr ->
       exists tr1 k tr2, tr = tr1 ++ ASnap n k :: tr2 /\ In h (reg_of sc tr1) /\
                         route decl h (ev_at sc n) = Some k) /\
    (forall tr1 k tr2, tr = tr1 ++ ASnap n k :: tr2 -> In h (reg_of sc tr1) ->
       route decl h (ev_at sc n) = Some k ->
       (cnt (is_start n h) tr + s_sp s n h + s_sg s n h = 1)%nat).
  Proof.
    intros Hrun. destruct (inv_run tr s Hrun) as [HA HB].
    pose proof (b_c1 _ _ _ HB n h) as H1. destruct (b_c3 _ _ _ HB n h) as [H3 _].
    split; [lia|split].
    - intros Hi. apply is_start_in in Hi. apply spawned_pos_split. lia.
    - intros tr1 k tr2 -> Hi Hr. pose proof (spawned_split_pos sc tr1 k tr2 n h Hi Hr). lia.
  Qed.

  (* a foreground goroutine of event n exists only while the dispatcher waits in a phase of n *)
  Lemma fg_past tr s n h :
    exec sc (init sc) tr = Some s -> is_bgh sc h = false ->
    (9 * S n <= dpos (s_disp s))%nat ->
    cnt (is_start n h) tr = cnt (is_end n h) tr.
  Proof.
    intros Hrun Hfg Hpos. destruct (inv_run tr s Hrun) as [HA HB].
    destruct (b_fg _ _ _ HB n h Hfg) as [H1 _]. pose proof (b_c2 _ _ _ HB n h) as H2.
    assert (outc s n h = 0)%nat as Hz.
    { unfold outc. destruct (s_disp s) as [| |n' k out] eqn:Ed; auto.
      destruct (Nat.eqb n' n) eqn:En; auto. apply Nat.eqb_eq in En. subst n'.
      simpl in Hpos. pose proof (Nat.le_min_r k 3). lia. }
    lia.
  Qed.

  Lemma fg_start_pos s n h s' :
    step sc s (AStart n h) = Some s' -> is_bgh sc h = false -> (dpos (s_disp s) < 9 * S n)%nat.
  Proof.
    intros Hst Hfg. unfold step in Hst. destruct (s_crashed s); [discriminate|].
    rewrite Hfg in Hst. destruct (s_disp s) as [| |n' k out]; try discriminate.
    destruct (Nat.eqb n n') eqn:En; simpl in Hst; [|discriminate].
    apply Nat.eqb_eq in En. subst n'. simpl. pose proof (Nat.le_min_r k 3). lia.
  Qed.

  (* once the dispatcher is past event n, every foreground handler started for n has ended,
     and none is started later *)
  Lemma fg_ended_before tr1 tr2 s1 s n h :
    exec sc (init sc) tr1 = Some s1 -> exec sc s1 tr2 = Some s ->
    (9 * S n <= dpos (s_disp s1))%nat -> is_bgh sc h = false ->
    In (AStart n h) (tr1 ++ tr2) -> exists o, In (AEnd n h o) tr1.
  Proof.
    intros H1 H2 Hpos Hfg Hin.
    assert (In (AStart n h) tr1) as Hin1.
    { apply in_app_iff in Hin as [Hin|Hin]; [exact Hin|]. exfalso.
      apply in_split in Hin as [u [v ->]].
      apply exec_prefix in H2 as [s2 [Hu Hv]]. simpl in Hv.
      destruct (step sc s2 (AStart n h)) as [s3|] eqn:Est; [|discriminate].
      pose proof (fg_start_pos _ _ _ _ Est Hfg). pose proof (exec_dpos _ _ _ _ Hu). lia. }
    apply is_end_in. rewrite <- (fg_past tr1 s1 n h H1 Hfg Hpos). apply is_start_in. exact Hin1.
  Qed.

  (* C06_ordered: every foreground handler started for event n has returned before
     execLoop takes event n+1 *)
  Theorem ordered tr1 tr2 s n h :
    exec sc (init sc) (tr1 ++ ADeliver (S n) :: tr2) = Some s ->
    is_bgh sc h = false ->
    In (AStart n h) (tr1 ++ ADeliver (S n) :: tr2) ->
    exists o, In (AEnd n h o) tr1.
  Proof.
    intros Hrun Hfg Hin. apply exec_prefix in Hrun as [s1 [H1 H2]].
    apply (fg_ended_before tr1 (ADeliver (S n) :: tr2) s1 s n h H1 H2); auto.
    simpl in H2. destruct (step sc s1 (ADeliver (S n))) as [s2|] eqn:Est; [|discriminate].
    unfold step in Est. destruct (s_crashed s1); [discriminate|].
    destruct (s_disp s1) as [m| |]; try discriminate.
    destruct (Nat.eqb (S n) m) eqn:En; simpl in Est; [|discriminate].
    apply Nat.eqb_eq in En. subst m. simpl. lia.
  Qed.

  (* the same, between what handlers see: before any handler is started for a later event *)
  Theorem ordered_starts tr1 tr2 s n m h h' :
    exec sc (init sc) (tr1 ++ AStart m h' :: tr2) = Some s ->
    (n < m)%nat -> is_bgh sc h = false ->
    In (AStart n h) (tr1 ++ AStart m h' :: tr2) ->
    exists o, In (AEnd n h o) tr1.
  Proof.
    intros Hrun Hnm Hfg Hin.
    replace (tr1 ++ AStart m h' :: tr2) with ((tr1 ++ [AStart m h']) ++ tr2) in Hrun, Hin
      by (rewrite <- app_assoc; reflexivity).
    apply exec_prefix in Hrun as [s1 [H1 H2]].
    assert (9 * S n <= dpos (s_disp s1))%nat as Hpos.
    { destruct (inv_run _ _ H1) as [HA HB].
      pose proof (b_c1 _ _ _ HB m h') as Hc1. destruct (b_c3 _ _ _ HB m h') as [_ Hc3].
      rewrite cnt_snoc in Hc1. simpl in Hc1. rewrite Nat.eqb_refl, N.eqb_refl in Hc1. simpl in Hc1.
      destruct Hc3 as [k [_ Hk]]; lia. }
    destruct (fg_ended_before _ _ _ _ n h H1 H2 Hpos Hfg Hin) as [o Ho].
    apply in_app_iff in Ho as [Ho|[Ho|[]]]; [eauto|discriminate].
  Qed.
End Theorems.

Section Removed.
  Variable sc : scenario.
  Hypothesis Hwf : wf_sc sc.
  Notation decl := (sc_decl sc).

  (* handler ids are never reused: a handler that was registered and is gone stays gone *)
  Lemma removed_stays t2 : forall t1 s h,
    exec sc (init sc) (t1 ++ t2) = Some s ->
    In h (added sc t1) -> ~ In h (reg_of sc t1) ->
    In h (added sc (t1 ++ t2)) /\ ~ In h (reg_of sc (t1 ++ t2)).
  Proof.
    induction t2 as [|a t2 IH] using rev_ind; intros t1 s h Hrun Ha Hr.
    - rewrite app_nil_r. auto.
    - rewrite app_assoc in Hrun |- *. apply exec_snoc in Hrun as [s1 [H1 Hst]].
      destruct (IH t1 s1 h H1 Ha Hr) as [Ha' Hr']. split; [apply added_mono; exact Ha'|].
      rewrite reg_of_snoc. intros Hi. destruct a; simpl in Hi; auto.
      + (* ALin *)
        apply sp_apply_sub in Hi as [Hi|Hi]; [auto|].
        destruct op; simpl in Hi; try discriminate. inversion Hi. subst h0.
        destruct (inv_run sc Hwf _ _ H1) as [HA _].
        unfold step in Hst. destruct (s_crashed s1); [discriminate|].
        destruct (s_thr s1 i) as [[|r l0] [| |res']] eqn:E0; try discriminate.
        destruct (rop_eqb (RAdd h) r) eqn:E3; [|discriminate].
        apply rop_eqb_eq in E3. subst r.
        apply (a_fresh _ _ _ HA i h); [rewrite E0; simpl; auto|exact Ha'].
      + apply sp_remove_sub in Hi. auto.
  Qed.

  Lemma removed_no_spawn t2 : forall t1 s n h,
    exec sc (init sc) (t1 ++ t2) = Some s ->
    In h (added sc t1) -> ~ In h (reg_of sc t1) ->
    spawned sc (t1 ++ t2) n h = spawned sc t1 n h.
  Proof.
    induction t2 as [|a t2 IH] using rev_ind; intros t1 s n h Hrun Ha Hr.
    - rewrite app_nil_r. reflexivity.
    - rewrite app_assoc in Hrun |- *. apply exec_snoc in Hrun as [s1 [H1 Hst]].
      rewrite spawned_snoc, (IH t1 s1 n h H1 Ha Hr).
      destruct (removed_stays t2 t1 s1 h H1 Ha Hr) as [_ Hr'].
      assert (mem_id h (reg_of sc (t1 ++ t2)) = false) as Hm.
      { destruct (mem_id h (reg_of sc (t1 ++ t2))) eqn:E; [|reflexivity].
        apply mem_id_in in E. contradiction. }
      destruct a; simpl; try lia. rewrite Hm, Bool.andb_false_r. simpl. lia.
  Qed.

  (* C06_removed_silent: a handler that was registered and is no longer registered when
     execLoop takes event n (removed by Remove, Clear, ClearAll, by its own AddTmp wrapper
     or by its deadline goroutine) is not started for event n — in no schedule *)
  Theorem removed_silent tr1 tr2 s n h :
    exec sc (init sc) (tr1 ++ ADeliver n :: tr2) = Some s ->
    In h (added sc tr1) -> ~ In h (reg_of sc tr1) ->
    ~ In (AStart n h) (tr1 ++ ADeliver n :: tr2).
  Proof.
    intros Hrun Ha Hr Hin. apply is_start_in in Hin.
    destruct (inv_run sc Hwf _ _ Hrun) as [_ HB].
    pose proof (b_c1 _ _ _ HB n h) as Hc1.
    rewrite (removed_no_spawn _ tr1 s n h Hrun Ha Hr) in Hc1.
    apply exec_prefix in Hrun as [s1 [H1 H2]].
    destruct (inv_run sc Hwf _ _ H1) as [_ HB1]. destruct (b_c3 _ _ _ HB1 n h) as [_ Hc3].
    simpl in H2. destruct (step sc s1 (ADeliver n)) as [s2|] eqn:Est; [|discriminate].
    unfold step in Est. destruct (s_crashed s1); [discriminate|].
    destruct (s_disp s1) as [m| |] eqn:Ed; try discriminate.
    destruct (Nat.eqb n m) eqn:En; simpl in Est; [|discriminate].
    apply Nat.eqb_eq in En. subst m.
    destruct (spawned sc tr1 n h) eqn:Es; [lia|].
    destruct Hc3 as [k [_ Hk]]; [lia|]. simpl in Hk. lia.
  Qed.
End Removed.

(* ---- invariant C: AddTmp wrappers, deadline goroutines, done channels, Remove results ------------ *)

Definition is_end_true (h : N) (a : action) : bool :=
  match a with AEnd _ h' (ORet true) => h' =? h | _ => false end.
Definition is_lin_add (h : N) (a : action) : bool :=
  match a with ALin _ (RAdd h') => h' =? h | _ => false end.

(* deadline goroutines of h started so far *)
Definition deadlines (sc : scenario) (tr : list action) (h : N) : nat :=
  if hd_deadline (sc_decl sc h)
  then ((if mem_N h (sc_init sc) then 1 else 0) + cnt (is_lin_add h) tr)%nat else 0%nat.

Record InvC (sc : scenario) (tr : list action) (s : state) : Prop := mkInvC {
  c_closed : forall h, cnt (is_close h) tr = s_closed s h;
  c_le : forall h, (s_closed s h <= 1)%nat;
  c_fin : forall h, cnt (is_tmprm h) tr = (s_toclose s h + s_closed s h)%nat;
  c_gone : forall h, (0 < cnt (is_tmprm h) tr)%nat -> In h (added sc tr) /\ ~ In h (reg_of sc tr);
  c_lin : forall i h rest, s_thr s i = (RRemove h :: rest, RLinned true) ->
             In h (added sc tr) /\ ~ In h (reg_of sc tr);
  c_pa : forall h, (0 < s_pend s h)%nat -> In h (added sc tr);
  c_pend : forall h, hd_tmp (sc_decl sc h) = true ->
             (cnt (is_end_true h) tr + deadlines sc tr h = s_pend s h + cnt (is_tmprm h) tr)%nat }.

Section InvC.
  Variable sc : scenario.
  Hypothesis Hwf : wf_sc sc.
  Notation decl := (sc_decl sc).

  Lemma invC_init : InvC sc [] (init sc).
  Proof.
    constructor; unfold init; simpl; intros; auto.
    - unfold cnt in H. simpl in H. lia.
    - discriminate.
    - destruct (mem_N h (sc_init sc) && hd_deadline (decl h)) eqn:E; [|lia].
      apply Bool.andb_true_iff in E as [E _]. apply mem_N_in in E. exact E.
    - unfold deadlines, cnt. simpl.
      destruct (hd_deadline (decl h)); destruct (mem_N h (sc_init sc)); simpl; lia.
  Qed.

  Lemma gone_step tr s a s' h :
    exec sc (init sc) tr = Some s -> step sc s a = Some s' ->
    In h (added sc tr) /\ ~ In h (reg_of sc tr) ->
    In h (added sc (tr ++ [a])) /\ ~ In h (reg_of sc (tr ++ [a])).
  Proof.
    intros Hrun Hst [Ha Hr]. apply (removed_stays sc Hwf [a] tr s' h); auto.
    apply exec_snoc. eauto.
  Qed.

  (* steps that do not touch pending finish calls or done channels *)
  Lemma invC_frame tr s a s' :
    exec sc (init sc) tr = Some s -> step sc s a = Some s' ->
    InvC sc tr s ->
    (forall i h rest, s_thr s' i = (RRemove h :: rest, RLinned true) ->
                      exists rest0, s_thr s i = (RRemove h :: rest0, RLinned true)) ->
    s_pend s' = s_pend s -> s_toclose s' = s_toclose s -> s_closed s' = s_closed s ->
    (forall h, is_close h a = false /\ is_end_true h a = false /\ is_lin_add h a = false /\ is_tmprm h a = false) ->
    InvC sc (tr ++ [a]) s'.
  Proof.
    intros Hrun Hst [Hcl Hle Hfin Hgone Hlin Hpa Hpend] Et Ep Etc Ec Hno.
    constructor; rewrite ?Ep, ?Etc, ?Ec; intros.
    - rewrite cnt_snoc. destruct (Hno h) as [-> _]. rewrite <- Hcl. lia.
    - apply Hle.
    - rewrite cnt_snoc. destruct (Hno h) as [_ [_ [_ ->]]]. rewrite <- Hfin. lia.
    - rewrite cnt_snoc in H. destruct (Hno h) as [_ [_ [_ E]]]. rewrite E in H.
      apply (gone_step tr s a s' h Hrun Hst). apply Hgone. lia.
    - apply (gone_step tr s a s' h Hrun Hst). destruct (Et i h rest H) as [rest0 H0]. eapply Hlin; eauto.
    - apply added_mono. auto.
    - unfold deadlines. rewrite !cnt_snoc. destruct (Hno h) as [_ [-> [-> ->]]].
      specialize (Hpend h H). unfold deadlines in Hpend.
      destruct (hd_deadline (decl h)); lia.
  Qed.

  Lemma invC_step tr s a s' :
    exec sc (init sc) tr = Some s -> InvC sc tr s -> step sc s a = Some s' -> InvC sc (tr ++ [a]) s'.
  Proof.
    intros Hrun HC Hst. destruct (inv_run sc Hwf tr s Hrun) as [HA HB].
    pose proof Hst as Hst'.
    destruct a.
    1-5,7: (apply (invC_frame tr s _ s' Hrun Hst' HC);
            [step_inv Hst; eauto|step_inv Hst; reflexivity|step_inv Hst; reflexivity
            |step_inv Hst; reflexivity|intros; simpl; auto]).
    - (* AEnd *)
      assert (s_thr s' = s_thr s /\ s_toclose s' = s_toclose s /\ s_closed s' = s_closed s /\
              s_pend s' = (if outcome_eqb o (ORet true) && hd_tmp (decl h)
                           then upd1 (s_pend s) h (S (s_pend s h)) else s_pend s) /\
              (0 < s_rn s n h)%nat) as [Et [Etc [Ec [Ep Ern]]]].
      { unfold step in Hst. destruct (s_crashed s); [discriminate|].
        destruct (Nat.ltb 0 (s_rn s n h)) eqn:Ern; [|discriminate]. apply Nat.ltb_lt in Ern.
        destruct (is_bgh sc h).
        - inversion Hst; subst; simpl. repeat split; auto.
          destruct o as [[|]|]; simpl; auto.
        - destruct (s_disp s); try discriminate. destruct (Nat.eqb n n0 && mem_N h out); [|discriminate].
          inversion Hst; subst; simpl. repeat split; auto.
          destruct o as [[|]|]; simpl; auto. }
      destruct HC as [Hcl Hle Hfin Hgone Hlin Hpa Hpend].
      constructor; rewrite ?Et, ?Etc, ?Ec, ?Ep; intros.
      + rewrite cnt_snoc. simpl. rewrite <- Hcl. lia.
      + apply Hle.
      + rewrite cnt_snoc. simpl. rewrite <- Hfin. lia.
      + rewrite cnt_snoc in H. simpl in H. apply (gone_step tr s _ s' h0 Hrun Hst'). apply Hgone. lia.
      + apply (gone_step tr s _ s' h0 Hrun Hst'). eapply Hlin; eauto.
      + apply added_mono. revert H.
        destruct (outcome_eqb o (ORet true) && hd_tmp (decl h)); [|apply Hpa].
        rewrite upd1_get. destruct (h0 =? h) eqn:Eh; [|apply Hpa].
        apply N.eqb_eq in Eh. subst h0. intros _. apply (b_added _ _ _ HB n h). lia.
      + unfold deadlines. rewrite !cnt_snoc. simpl (is_lin_add _ _). simpl (is_tmprm _ _).
        specialize (Hpend h0 H). unfold deadlines in Hpend.
        assert ((if is_end_true h0 (AEnd n h o) then 1 else 0) =
                (if outcome_eqb o (ORet true) && hd_tmp (decl h) && N.eqb h0 h then 1 else 0))%nat as Hx.
        { simpl. destruct o as [[|]|]; simpl; auto. rewrite (N.eqb_sym h h0).
          destruct (h0 =? h) eqn:Eh; [|rewrite Bool.andb_false_r; reflexivity].
          apply N.eqb_eq in Eh. subst h0. rewrite H. reflexivity. }
        rewrite Hx. destruct (outcome_eqb o (ORet true) && hd_tmp (decl h)); simpl.
        * rewrite upd1_get. destruct (h0 =? h) eqn:Eh.
          -- apply N.eqb_eq in Eh. subst h0. destruct (hd_deadline (decl h)); lia.
          -- destruct (hd_deadline (decl h0)); lia.
        * destruct (hd_deadline (decl h0)); lia.
    - (* ACall *)
      apply (invC_frame tr s _ s' Hrun Hst' HC).
      + unfold step in Hst. destruct (s_crashed s); [discriminate|].
        destruct (s_thr s i) as [[|r l0] [| |res']] eqn:E0; try discriminate.
        destruct (rop_eqb op r); [|discriminate]. inversion Hst; subst; clear Hst. simpl.
        intros i1 h1 rest. unfold updt. destruct (Nat.eqb i1 i); [discriminate|eauto].
      + step_inv Hst; reflexivity.
      + step_inv Hst; reflexivity.
      + step_inv Hst; reflexivity.
      + intros; simpl; auto.
    - (* ALin *)
      unfold step in Hst. destruct (s_crashed s); [discriminate|].
      destruct (s_thr s i) as [[|r l0] [| |res']] eqn:E0; try discriminate.
      destruct (rop_eqb op r) eqn:E3; [|discriminate].
      destruct (apply_top (sc_uid sc) decl (s_tbl s) (top_of r)) as [t' res] eqn:E4.
      inversion Hst; subst; clear Hst. apply rop_eqb_eq in E3. subst op.
      pose proof (thread_top_ok sc Hwf tr s i r l0 HA E0) as Hok.
      destruct (table_step _ decl (wf_uid sc Hwf) _ _ _ (a_rel _ _ _ HA) Hok) as [_ Hres].
      rewrite E4 in Hres. simpl in Hres.
      destruct HC as [Hcl Hle Hfin Hgone Hlin Hpa Hpend].
      constructor; simpl; intros.
      + rewrite cnt_snoc. simpl. rewrite <- Hcl. lia.
      + apply Hle.
      + rewrite cnt_snoc. simpl. rewrite <- Hfin. lia.
      + rewrite cnt_snoc in H. simpl in H. apply (gone_step tr s _ _ h Hrun Hst'). apply Hgone. lia.
      + unfold updt in H. destruct (Nat.eqb i0 i) eqn:Ei.
        * injection H as Hr _ Hrt. rewrite Hr in *. rewrite Hrt in Hres.
          simpl in Hres. unfold sp_remove in Hres.
          destruct (mem_id h (reg_of sc tr) && sp_ext decl h) eqn:Em; [|discriminate].
          apply Bool.andb_true_iff in Em as [Em Ex]. apply mem_id_in in Em. split.
          -- apply added_mono. apply (a_sub _ _ _ HA). exact Em.
          -- rewrite reg_of_snoc. simpl. apply sp_remove_gone. exact Ex.
        * apply (gone_step tr s _ _ h Hrun Hst'). eapply Hlin; eauto.
      + revert H. destruct r as [h1|h1|c|]; try (intros; apply added_mono; auto; fail).
        destruct (hd_deadline (decl h1)); [|intros; apply added_mono; auto].
        rewrite upd1_get. destruct (h =? h1) eqn:Eh; [|intros; apply added_mono; auto].
        apply N.eqb_eq in Eh. subst h. intros _. rewrite added_snoc. simpl. auto.
      + unfold deadlines. rewrite !cnt_snoc. simpl (is_end_true _ _). simpl (is_tmprm _ _).
        specialize (Hpend h H). unfold deadlines in Hpend.
        destruct r as [h1|h1|c|]; simpl; try (destruct (hd_deadline (decl h)); lia).
        rewrite (N.eqb_sym h1 h). destruct (h =? h1) eqn:Eh.
        * apply N.eqb_eq in Eh. subst h1. destruct (hd_deadline (decl h)).
          -- rewrite upd1_get, N.eqb_refl. lia.
          -- lia.
        * destruct (hd_deadline (decl h1)); [rewrite upd1_get, Eh|];
            destruct (hd_deadline (decl h)); lia.
    - (* ARet *)
      apply (invC_frame tr s _ s' Hrun Hst' HC).
      + unfold step in Hst. destruct (s_crashed s); [discriminate|].
        destruct (s_thr s i) as [[|r l0] [| |res']] eqn:E0; try discriminate.
        destruct (rop_eqb op r && Bool.eqb res res'); [|discriminate]. inversion Hst; subst; clear Hst. simpl.
        intros i1 h1 rest. unfold updt. destruct (Nat.eqb i1 i); [discriminate|eauto].
      + step_inv Hst; reflexivity.
      + step_inv Hst; reflexivity.
      + step_inv Hst; reflexivity.
      + intros; simpl; auto.
    - (* ATmpRemove: finish calls Remove *)
      unfold step in Hst. destruct (s_crashed s); [discriminate|].
      destruct (Nat.ltb 0 (s_pend s h)) eqn:Ep; [|discriminate]. apply Nat.ltb_lt in Ep.
      destruct (remove (s_tbl s) (reg_cuid (sc_uid sc) decl h)) as [t' ok] eqn:E1.
      inversion Hst; subst; clear Hst.
      pose proof (a_pend _ _ _ HA h Ep) as Htmp.
      destruct HC as [Hcl Hle Hfin Hgone Hlin Hpa Hpend].
      constructor; simpl; intros.
      + rewrite cnt_snoc. simpl. rewrite <- Hcl. lia.
      + apply Hle.
      + rewrite cnt_snoc. simpl. specialize (Hfin h0). rewrite upd1_get, (N.eqb_sym h h0).
        destruct (h0 =? h) eqn:Eh; [apply N.eqb_eq in Eh; subst h0|]; lia.
      + rewrite cnt_snoc in H. simpl in H. destruct (h =? h0) eqn:Eh.
        * apply N.eqb_eq in Eh. subst h0. split.
          -- apply added_mono. apply Hpa. exact Ep.
          -- rewrite reg_of_snoc. simpl. apply sp_remove_gone. unfold sp_ext.
             destruct (wf_tmp_ok sc Hwf h Htmp) as [_ [Hx _]]. destruct (Hx Htmp) as [_ ->]. reflexivity.
        * apply (gone_step tr s _ _ h0 Hrun Hst'). apply Hgone. lia.
      + apply (gone_step tr s _ _ h0 Hrun Hst'). eapply Hlin; eauto.
      + apply added_mono. apply Hpa. revert H. rewrite upd1_get.
        destruct (h0 =? h) eqn:Eh; [apply N.eqb_eq in Eh; subst h0|]; lia.
      + unfold deadlines. rewrite !cnt_snoc. simpl (is_end_true _ _). simpl (is_lin_add _ _).
        specialize (Hpend h0 H). unfold deadlines in Hpend. simpl (is_tmprm _ _).
        rewrite upd1_get. rewrite (N.eqb_sym h h0). destruct (h0 =? h) eqn:Eh.
        * apply N.eqb_eq in Eh. subst h0. destruct (hd_deadline (decl h)); lia.
        * destruct (hd_deadline (decl h0)); lia.
    - (* AClose: the first finish closes done *)
      unfold step in Hst. destruct (s_crashed s); [discriminate|].
      destruct (Nat.ltb 0 (s_toclose s h) && Nat.eqb (s_closed s h) 0) eqn:Ep; [|discriminate].
      apply Bool.andb_true_iff in Ep as [Ep Ez]. apply Nat.ltb_lt in Ep. apply Nat.eqb_eq in Ez.
      inversion Hst; subst; clear Hst.
      destruct HC as [Hcl Hle Hfin Hgone Hlin Hpa Hpend].
      constructor; simpl; intros.
      + rewrite cnt_snoc. simpl. rewrite upd1_get, (N.eqb_sym h h0).
        pose proof (Hcl h0). pose proof (Hcl h).
        destruct (h0 =? h) eqn:Eh; [apply N.eqb_eq in Eh; subst h0|]; lia.
      + rewrite upd1_get. destruct (h0 =? h); [lia|apply Hle].
      + rewrite cnt_snoc. simpl. specialize (Hfin h0). rewrite !upd1_get.
        destruct (h0 =? h) eqn:Eh; [apply N.eqb_eq in Eh; subst h0|]; lia.
      + rewrite cnt_snoc in H. simpl in H. apply (gone_step tr s _ _ h0 Hrun Hst'). apply Hgone. lia.
      + apply (gone_step tr s _ _ h0 Hrun Hst'). eapply Hlin; eauto.
      + apply added_mono. auto.
      + unfold deadlines. rewrite !cnt_snoc. simpl. specialize (Hpend h0 H).
        unfold deadlines in Hpend. destruct (hd_deadline (decl h0)); lia.
  Qed.

  Lemma invC_run tr s : exec sc (init sc) tr = Some s -> InvC sc tr s.
  Proof.
    revert tr s. apply run_ind; [apply invC_init|].
    intros tr s a s' Hrun HC Hst. eapply invC_step; eauto.
  Qed.
End InvC.

(* ---- temporary handlers, Remove results, panics -------------------------------------------------- *)

Lemma is_close_in h tr : (0 < cnt (is_close h) tr)%nat <-> In (AClose h) tr.
Proof.
  split.
  - intros H. apply cnt_pos_in in H as [a [Hi Hp]]. destruct a; simpl in Hp; try discriminate.
    apply N.eqb_eq in Hp. subst. exact Hi.
  - intros H. apply (in_cnt_pos _ _ _ H). simpl. apply N.eqb_refl.
Qed.

Section Tmp.
  Variable sc : scenario.
  Hypothesis Hwf : wf_sc sc.
  Notation decl := (sc_decl sc).

  (* close(done) runs at most once per AddTmp (a second close would panic in Go) *)
  Theorem done_closed_once tr s h :
    exec sc (init sc) tr = Some s -> (cnt (is_close h) tr <= 1)%nat.
  Proof.
    intros Hrun. pose proof (invC_run sc Hwf tr s Hrun) as HC.
    rewrite (c_closed _ _ _ HC h). apply (c_le _ _ _ HC).
  Qed.

  (* ... and only after a finish has removed the handler for good *)
  Theorem close_implies_removed tr s h :
    exec sc (init sc) tr = Some s -> In (AClose h) tr ->
    In h (added sc tr) /\ ~ In h (reg_of sc tr).
  Proof.
    intros Hrun Hin. pose proof (invC_run sc Hwf tr s Hrun) as HC.
    apply is_close_in in Hin. rewrite (c_closed _ _ _ HC h) in Hin.
    apply (c_gone _ _ _ HC). rewrite (c_fin _ _ _ HC h). lia.
  Qed.

  (* a Remove that returned true removed the handler for good *)
  Theorem remove_true_removed tr s i h :
    exec sc (init sc) tr = Some s -> In (ARet i (RRemove h) true) tr ->
    In h (added sc tr) /\ ~ In h (reg_of sc tr).
  Proof.
    intros Hrun Hin. apply in_split in Hin as [u [v ->]].
    replace (u ++ ARet i (RRemove h) true :: v) with (u ++ ARet i (RRemove h) true :: v) by reflexivity.
    pose proof Hrun as Hrun'. apply exec_prefix in Hrun as [su [Hu Hv]].
    pose proof (invC_run sc Hwf u su Hu) as HC.
    simpl in Hv. destruct (step sc su (ARet i (RRemove h) true)) as [s1|] eqn:Est; [|discriminate].
    assert (In h (added sc u) /\ ~ In h (reg_of sc u)) as [Ha Hr].
    { unfold step in Est. destruct (s_crashed su); [discriminate|].
      destruct (s_thr su i) as [[|r l0] [| |res']] eqn:E0; try discriminate.
      destruct (rop_eqb (RRemove h) r && Bool.eqb true res') eqn:E3; [|discriminate].
      apply Bool.andb_true_iff in E3 as [E3 E5]. apply rop_eqb_eq in E3. subst r.
      destruct res'; [|discriminate]. eapply (c_lin _ _ _ HC); eauto. }
    exact (removed_stays sc Hwf _ u s h Hrun' Ha Hr).
  Qed.

  (* C06_removed_silent for AddTmp: once the function has returned true or the deadline
     goroutine exists, and every finish call these have queued has done its Remove
     (s_pend = 0), the handler is gone for good — whoever removed it — and done has been
     closed exactly once, or a finish is between its Remove and its once.Do(close(done)) *)
  Theorem tmp_removed tr s h :
    exec sc (init sc) tr = Some s -> hd_tmp (decl h) = true ->
    (0 < cnt (is_end_true h) tr + deadlines sc tr h)%nat -> s_pend s h = 0%nat ->
    In h (added sc tr) /\ ~ In h (reg_of sc tr) /\
    (cnt (is_close h) tr = 1%nat \/ (cnt (is_close h) tr = 0%nat /\ (0 < s_toclose s h)%nat)).
  Proof.
    intros Hrun Htmp Hpos Hp0. pose proof (invC_run sc Hwf tr s Hrun) as HC.
    pose proof (c_pend _ _ _ HC h Htmp) as Hacc. rewrite Hp0 in Hacc.
    assert (0 < cnt (is_tmprm h) tr)%nat as Hrm by lia.
    destruct (c_gone _ _ _ HC h Hrm) as [Ha Hr]. split; [exact Ha|split; [exact Hr|]].
    rewrite (c_closed _ _ _ HC h). pose proof (c_fin _ _ _ HC h). pose proof (c_le _ _ _ HC h). lia.
  Qed.

  (* C06_panic_isolated: with a recover function a panic has the effect of a return, on
     every later step of every schedule; and the machine never crashes *)
  Lemma panic_as_return s n h :
    sc_recover sc = true -> step sc s (AEnd n h OPanic) = step sc s (AEnd n h (ORet false)).
  Proof. intros Hr. unfold step. rewrite Hr. reflexivity. Qed.

  Theorem panic_isolated tr1 tr2 n h :
    sc_recover sc = true ->
    exec sc (init sc) (tr1 ++ AEnd n h OPanic :: tr2) =
    exec sc (init sc) (tr1 ++ AEnd n h (ORet false) :: tr2).
  Proof.
    intros Hr. rewrite !exec_app. destruct (exec sc (init sc) tr1) as [s1|]; [|reflexivity].
    simpl. rewrite (panic_as_return s1 n h Hr). reflexivity.
  Qed.

  Theorem recover_never_crashes tr s :
    sc_recover sc = true -> exec sc (init sc) tr = Some s -> s_crashed s = false.
  Proof.
    intros Hr. revert tr s. apply run_ind; [reflexivity|].
    intros tr s a s' _ IH Hst. destruct a; step_inv Hst; try reflexivity; try assumption;
      rewrite Hr; reflexivity.
  Qed.
End Tmp.

(* ---- trace acceptance: soundness, and what an accepted observation enjoys ------------------------ *)

Lemma outcome_eqb_eq a b : outcome_eqb a b = true -> a = b.
Proof. destruct a as [[|]|], b as [[|]|]; simpl; congruence. Qed.

Lemma action_eqb_eq a b : action_eqb a b = true -> a = b.
Proof.
  destruct a, b; simpl; try discriminate; intros H;
    repeat match goal with
           | X : (_ && _)%bool = true |- _ => apply Bool.andb_true_iff in X as [? ?]
           end;
    repeat match goal with
           | X : Nat.eqb _ _ = true |- _ => apply Nat.eqb_eq in X
           | X : N.eqb _ _ = true |- _ => apply N.eqb_eq in X
           | X : rop_eqb _ _ = true |- _ => apply rop_eqb_eq in X
           | X : outcome_eqb _ _ = true |- _ => apply outcome_eqb_eq in X
           | X : Bool.eqb _ _ = true |- _ => apply Bool.eqb_prop in X
           end; subst; reflexivity.
Qed.

Lemma actions_eqb_eq a : forall b, actions_eqb a b = true -> a = b.
Proof.
  induction a as [|x a IH]; destruct b as [|y b]; simpl; try discriminate; [reflexivity|].
  intros H. apply Bool.andb_true_iff in H as [H1 H2]. apply action_eqb_eq in H1.
  rewrite (IH b H2), H1. reflexivity.
Qed.

(* soundness of the checker: an accepted observation is what an observer sees of a run of
   the machine (for a well-formed scenario) *)
Theorem accepts_sound sc cert obs :
  accepts sc cert obs = true -> uid_ok (sc_uid sc) ->
  wf_sc sc /\ exists s, exec sc (init sc) cert = Some s /\ filter observable cert = obs.
Proof.
  unfold accepts. intros H Hu. apply Bool.andb_true_iff in H as [Hw H].
  split; [split; assumption|].
  destruct (exec sc (init sc) cert) as [s|]; [|discriminate].
  exists s. split; [reflexivity|]. apply actions_eqb_eq. exact H.
Qed.

Lemma filter_split {A} (p : A -> bool) (l : list A) : forall o1 a o2,
  filter p l = o1 ++ a :: o2 ->
  exists l1 l2, l = l1 ++ a :: l2 /\ filter p l1 = o1 /\ filter p l2 = o2.
Proof.
  induction l as [|x l IH]; intros o1 a o2 H; simpl in H.
  - destruct o1; discriminate.
  - destruct (p x) eqn:Ep.
    + destruct o1 as [|y o1]; simpl in H.
      * inversion H; subst. exists [], l. simpl. auto.
      * inversion H; subst. destruct (IH o1 a o2 H2) as [l1 [l2 [-> [H3 H4]]]].
        exists (y :: l1), l2. simpl. rewrite Ep, H3. auto.
    + destruct (IH o1 a o2 H) as [l1 [l2 [-> [H3 H4]]]].
      exists (x :: l1), l2. simpl. rewrite Ep. auto.
Qed.

Lemma cnt_filter p q l : (forall a, p a = true -> q a = true) -> cnt p (filter q l) = cnt p l.
Proof.
  intros Hpq. unfold cnt. induction l as [|a l IH]; simpl; [reflexivity|].
  destruct (q a) eqn:Eq; simpl.
  - destruct (p a); simpl; rewrite IH; reflexivity.
  - destruct (p a) eqn:Ep; [rewrite (Hpq a Ep) in Eq; discriminate|exact IH].
Qed.

Section Arrival.
  Variable sc : scenario.
  Hypothesis Hwf : wf_sc sc.

  Lemma step_arrived s a s' : step sc s a = Some s' -> (s_arrived s <= s_arrived s')%nat.
  Proof.
    intros H. destruct a; step_inv H; lia.
  Qed.

  Lemma exec_arrived tr : forall s s', exec sc s tr = Some s' -> (s_arrived s <= s_arrived s')%nat.
  Proof.
    induction tr as [|a tr IH]; simpl; intros s s' H; [inversion H; lia|].
    destruct (step sc s a) as [s1|] eqn:E; [|discriminate].
    apply step_arrived in E. apply IH in H. lia.
  Qed.

  (* the dispatcher only works on events that have arrived *)
  Lemma arrived_inv tr s :
    exec sc (init sc) tr = Some s -> (dpos (s_disp s) <= 9 * s_arrived s)%nat.
  Proof.
    revert tr s.
    assert (forall tr s, exec sc (init sc) tr = Some s ->
              match s_disp s with
              | DIdle m => (m <= s_arrived s)%nat
              | DPhase m _ => (m < s_arrived s)%nat
              | DWait m _ _ => (m < s_arrived s)%nat
              end) as H.
    { apply run_ind; [simpl; lia|].
      intros tr s a s' _ IH Hst. destruct a; step_inv Hst; try rewrite E0 in IH; try rewrite E1 in IH;
        try exact IH;
        repeat match goal with
               | X : (_ && _)%bool = true |- _ => apply Bool.andb_true_iff in X as [? ?]
               | X : Nat.eqb _ _ = true |- _ => apply Nat.eqb_eq in X
               | X : Nat.ltb _ _ = true |- _ => apply Nat.ltb_lt in X
               end; subst; try lia.
      destruct (s_disp s); lia. }
    intros tr s Hrun. specialize (H tr s Hrun). destruct (s_disp s); simpl.
    - lia.
    - pose proof (Nat.le_min_r k 3). lia.
    - pose proof (Nat.le_min_r k 3). lia.
  Qed.

  (* a handler that is gone before event n arrives is not started for event n *)
  Theorem removed_before_arrival c1 c2 s n h :
    exec sc (init sc) (c1 ++ c2) = Some s ->
    In h (added sc c1) -> ~ In h (reg_of sc c1) -> In (AArrive n) c2 ->
    ~ In (AStart n h) (c1 ++ c2).
  Proof.
    intros Hrun Ha Hr Harr Hin. apply is_start_in in Hin.
    destruct (inv_run sc Hwf _ _ Hrun) as [_ HB]. pose proof (b_c1 _ _ _ HB n h) as Hc1.
    rewrite (removed_no_spawn sc Hwf c2 c1 s n h Hrun Ha Hr) in Hc1.
    apply exec_prefix in Hrun as [s1 [H1 H2]].
    assert (s_arrived s1 <= n)%nat as Hle.
    { apply in_split in Harr as [u [v ->]]. apply exec_prefix in H2 as [su [Hu Hv]].
      simpl in Hv. destruct (step sc su (AArrive n)) as [s3|] eqn:Est; [|discriminate].
      pose proof (exec_arrived _ _ _ Hu). unfold step in Est.
      destruct (s_crashed su); [discriminate|].
      destruct (Nat.eqb n (s_arrived su)) eqn:En; simpl in Est; [|discriminate].
      apply Nat.eqb_eq in En. lia. }
    pose proof (arrived_inv c1 s1 H1) as Hpos.
    destruct (inv_run sc Hwf _ _ H1) as [_ HB1]. destruct (b_c3 _ _ _ HB1 n h) as [_ Hc3].
    destruct (spawned sc c1 n h) eqn:Es; [lia|].
    destruct Hc3 as [k [_ Hk]]; lia.
  Qed.
End Arrival.

Section Accepted.
  Variable sc : scenario.
  Variables cert obs : list action.
  Hypothesis Hacc : accepts sc cert obs = true.
  Hypothesis Huid : uid_ok (sc_uid sc).

  Lemma obs_in a : In a obs -> In a cert.
  Proof.
    destruct (accepts_sound sc cert obs Hacc Huid) as [_ [s [_ <-]]].
    intros H. apply filter_In in H. tauto.
  Qed.

  (* exactly once, and only to handlers that were registered and are routed *)
  Theorem accepted_exactly_once n h :
    (cnt (is_start n h) obs <= 1)%nat /\
    (In (AStart n h) obs -> In h (added sc cert) /\ routed (sc_decl sc) h (ev_at sc n) = true).
  Proof.
    destruct (accepts_sound sc cert obs Hacc Huid) as [Hwf [s [Hrun Hobs]]].
    destruct (exactly_once sc Hwf cert s n h Hrun) as [H1 [H2 _]]. split.
    - rewrite <- Hobs, cnt_filter; [exact H1|]. intros a. destruct a; simpl; congruence.
    - intros Hin. apply obs_in in Hin. destruct (H2 Hin) as [tr1 [k [tr2 [E [Hi Hr]]]]].
      split.
      + subst cert. apply exec_prefix in Hrun as [s1 [Hr1 Hr2]].
        destruct (inv_run sc Hwf _ _ Hr1) as [HA _]. apply (a_sub _ _ _ HA) in Hi.
        clear -Hi. induction (ASnap n k :: tr2) as [|a l IH] using rev_ind; [rewrite app_nil_r; exact Hi|].
        rewrite app_assoc. apply added_mono. exact IH.
      + unfold routed. rewrite Hr. reflexivity.
  Qed.

  (* ordered: a foreground handler of event n has returned before any handler is started for a
     later event *)
  Theorem accepted_ordered o1 o2 n m h h' :
    obs = o1 ++ AStart m h' :: o2 -> (n < m)%nat -> is_bgh sc h = false ->
    In (AStart n h) obs -> exists o, In (AEnd n h o) o1.
  Proof.
    intros E Hnm Hfg Hin.
    destruct (accepts_sound sc cert obs Hacc Huid) as [Hwf [s [Hrun Hobs]]].
    rewrite E in Hobs. destruct (filter_split _ _ _ _ _ Hobs) as [c1 [c2 [Ec [H1 H2]]]].
    apply obs_in in Hin. rewrite Ec in Hrun, Hin.
    destruct (ordered_starts sc Hwf c1 c2 s n m h h' Hrun Hnm Hfg Hin) as [o Ho].
    exists o. rewrite <- H1. apply filter_In. auto.
  Qed.

  (* removed handlers stay silent: after Remove returned true, or after done was seen closed,
     no event that arrives later starts the handler *)
  Theorem accepted_removed_silent o1 o2 i n h :
    obs = o1 ++ ARet i (RRemove h) true :: o2 -> In (AArrive n) o2 -> ~ In (AStart n h) obs.
  Proof.
    intros E Harr Hin.
    destruct (accepts_sound sc cert obs Hacc Huid) as [Hwf [s [Hrun Hobs]]].
    rewrite E in Hobs. destruct (filter_split _ _ _ _ _ Hobs) as [c1 [c2 [Ec [H1 H2]]]].
    apply obs_in in Hin. rewrite Ec in Hrun, Hin.
    replace (c1 ++ ARet i (RRemove h) true :: c2) with ((c1 ++ [ARet i (RRemove h) true]) ++ c2) in Hrun, Hin
      by (rewrite <- app_assoc; reflexivity).
    pose proof Hrun as Hrun'. apply exec_prefix in Hrun' as [s1 [Hr1 _]].
    destruct (remove_true_removed sc Hwf _ s1 i h Hr1) as [Ha Hr]; [apply in_app_iff; simpl; auto|].
    apply (removed_before_arrival sc Hwf _ c2 s n h Hrun Ha Hr); auto.
    rewrite <- H2 in Harr. apply filter_In in Harr. tauto.
  Qed.

  Theorem accepted_closed_silent o1 o2 n h :
    obs = o1 ++ AClose h :: o2 -> In (AArrive n) o2 -> ~ In (AStart n h) obs.
  Proof.
    intros E Harr Hin.
    destruct (accepts_sound sc cert obs Hacc Huid) as [Hwf [s [Hrun Hobs]]].
    rewrite E in Hobs. destruct (filter_split _ _ _ _ _ Hobs) as [c1 [c2 [Ec [H1 H2]]]].
    apply obs_in in Hin. rewrite Ec in Hrun, Hin.
    replace (c1 ++ AClose h :: c2) with ((c1 ++ [AClose h]) ++ c2) in Hrun, Hin
      by (rewrite <- app_assoc; reflexivity).
    pose proof Hrun as Hrun'. apply exec_prefix in Hrun' as [s1 [Hr1 _]].
    destruct (close_implies_removed sc Hwf _ s1 h Hr1) as [Ha Hr]; [apply in_app_iff; simpl; auto|].
    apply (removed_before_arrival sc Hwf _ c2 s n h Hrun Ha Hr); auto.
    rewrite <- H2 in Harr. apply filter_In in Harr. tauto.
  Qed.

  Theorem accepted_done_once h : (cnt (is_close h) obs <= 1)%nat.
  Proof.
    destruct (accepts_sound sc cert obs Hacc Huid) as [Hwf [s [Hrun Hobs]]].
    rewrite <- Hobs, cnt_filter; [exact (done_closed_once sc Hwf cert s h Hrun)|].
    intros a. destruct a; simpl; congruence.
  Qed.
End Accepted.

(* ---- the dispatcher cannot get stuck -------------------------------------------------------------- *)

Definition dispatch_action (a : action) : bool :=
  match a with
  | ADeliver _ | ASnap _ _ | ASignal _ _ | AStart _ _ | AEnd _ _ _ | ABarrier _ _ => true
  | _ => false
  end.

Section Progress.
  Variable sc : scenario.
  Hypothesis Hwf : wf_sc sc.

  (* In every reachable state that has not crashed, either every event that has arrived is
     completely dispatched, or one of the dispatcher's own steps is enabled: take the next
     event, snapshot the next phase, let a spawned wrapper signal / enter its handler, let a
     running foreground handler return, pass the barrier.  No step of a registrar, no new
     arrival is needed — nothing a handler did earlier (a panic that was recovered
     included) can block the delivery of later events. *)
  Theorem dispatcher_progress tr s :
    exec sc (init sc) tr = Some s -> s_crashed s = false ->
    s_disp s = DIdle (s_arrived s) \/
    exists a s', step sc s a = Some s' /\ dispatch_action a = true.
  Proof.
    intros Hrun Hnc. destruct (inv_run sc Hwf tr s Hrun) as [HA HB].
    pose proof (arrived_inv sc tr s Hrun) as Harr.
    destruct (s_disp s) as [n|n k|n k out] eqn:Ed.
    - simpl in Harr. destruct (Nat.eq_dec n (s_arrived s)) as [->|Hne]; [left; reflexivity|].
      right. exists (ADeliver n). unfold step. rewrite Hnc, Ed, Nat.eqb_refl.
      assert (Nat.ltb n (s_arrived s) = true) as -> by (apply Nat.ltb_lt; lia).
      simpl. eexists. split; reflexivity.
    - right. exists (ASnap n k). unfold step. rewrite Hnc, Ed, !Nat.eqb_refl. simpl.
      eexists. split; reflexivity.
    - right. destruct out as [|h out].
      + exists (ABarrier n k). unfold step. rewrite Hnc, Ed, !Nat.eqb_refl. simpl.
        eexists. split; reflexivity.
      + pose proof (b_out _ _ _ HB n k (h :: out) Ed h (or_introl eq_refl)) as Hkind.
        assert (outc s n h = S (count_occ N.eq_dec out h)) as Hout.
        { unfold outc. rewrite Ed, Nat.eqb_refl. simpl. destruct (N.eq_dec h h); congruence. }
        assert (mem_N h (h :: out) = true) as Hmem by (simpl; rewrite N.eqb_refl; reflexivity).
        destruct (bg_phase k) eqn:Ebg.
        * (* background phase: the wrapper of h has not signalled yet *)
          pose proof (b_bg _ _ _ HB n h Hkind) as Hsp. rewrite Hout in Hsp.
          exists (ASignal n h). unfold step. rewrite Hnc, Ed, Nat.eqb_refl, Ebg, Hmem.
          assert (Nat.ltb 0 (s_sp s n h) = true) as -> by (apply Nat.ltb_lt; lia).
          simpl. eexists. split; reflexivity.
        * (* foreground phase: the wrapper of h is about to run h, or h is running *)
          destruct (b_fg _ _ _ HB n h Hkind) as [Hsum _]. rewrite Hout in Hsum.
          destruct (s_sp s n h) as [|p] eqn:Esp.
          -- exists (AEnd n h (ORet false)). unfold step. rewrite Hnc.
             assert (Nat.ltb 0 (s_rn s n h) = true) as -> by (apply Nat.ltb_lt; lia).
             rewrite Hkind, Ed, Nat.eqb_refl, Hmem. simpl. eexists. split; reflexivity.
          -- exists (AStart n h). unfold step. rewrite Hnc, Hkind, Ed, Nat.eqb_refl, Ebg, Hmem, Esp.
             simpl. eexists. split; reflexivity.
  Qed.
End Progress.

(* ---- the hypotheses are satisfiable: a well-formed scenario and an accepted run of it ----------- *)

Definition ex_sc : scenario :=
  mkSc ex_uid
       [mkHD (bs "Foo") false false false false;      (* 0: Add("Foo") *)
        mkHD (bs "*") true false false false;         (* 1: AddBg("*") *)
        mkHD (bs "foo") true true false true]         (* 2: AddTmp("foo", deadline > 0) *)
       [0; 1]
       [mkEv (bs "FOO") false; mkEv (bs "PRIVMSG") true]
       [[RAdd 2; RRemove 0]]
       true.

Definition ex_cert : list action :=
  [AArrive 0; ACall 0 (RAdd 2); ALin 0 (RAdd 2); ARet 0 (RAdd 2) true;
   ADeliver 0; ASnap 0 0; ASignal 0 1; ABarrier 0 0; ASnap 0 1; ASignal 0 2; ABarrier 0 1;
   ASnap 0 2; ABarrier 0 2; ASnap 0 3; AStart 0 0; AEnd 0 0 OPanic; ABarrier 0 3;
   AStart 0 1; AEnd 0 1 (ORet false); AStart 0 2; AEnd 0 2 (ORet true); ATmpRemove 2; AClose 2;
   ACall 0 (RRemove 0); ALin 0 (RRemove 0); ARet 0 (RRemove 0) true;
   AArrive 1; ADeliver 1; ASnap 1 0; ASignal 1 1; ABarrier 1 0; ASnap 1 1; ABarrier 1 1;
   ASnap 1 2; ABarrier 1 2; ASnap 1 3; ABarrier 1 3; AStart 1 1; AEnd 1 1 (ORet false);
   ATmpRemove 2].

Example ex_sc_wf : wf_sc ex_sc.
Proof. split; [reflexivity|exact ex_uid_ok]. Qed.

Example ex_accepted : accepts ex_sc ex_cert (filter observable ex_cert) = true.
Proof. vm_compute. reflexivity. Qed.

Example ex_is_trace : is_trace ex_sc ex_cert /\ In (AStart 0 2) ex_cert /\ In (AClose 2) ex_cert.
Proof.
  split.
  - destruct (accepts_sound _ _ _ ex_accepted ex_uid_ok) as [_ [s [H _]]]. exists s. exact H.
  - split; simpl; tauto.
Qed.
