(* C07 — soundness of the executable trace checker `accepts` of Model/Lifecycle.v:
   every visible trace it accepts is a trace of the machine (weak execution from `init`).
   The proof does not depend on the hash key, on state_eqb being exact, or on the
   reduction `norm` being complete: candidate sets only ever contain states the machine
   reaches. *)
Require Import Bytes Lifecycle LifecycleSteps.
From Coq Require Import List Bool Arith Lia FMapPositive.
Import ListNotations.

(* ---- boolean equalities used on labels ---- *)
Lemma str_eqb_eq a : forall b, str_eqb a b = true -> a = b.
Proof.
  induction a as [|x a IH]; intros [|y b] H; simpl in H; try discriminate; [reflexivity|].
  apply andb_prop in H. destruct H as [H1 H2]. apply N.eqb_eq in H1. subst y.
  f_equal. apply IH. exact H2.
Qed.

Lemma event_eqb_eq a b : event_eqb a b = true -> a = b.
Proof.
  destruct a as [x|x], b as [y|y]; simpl; intros H; try discriminate;
    apply str_eqb_eq in H; subst; reflexivity.
Qed.

Lemma err_eqb_eq a b : err_eqb a b = true -> a = b.
Proof.
  destruct a, b; simpl; intros H; try discriminate; try reflexivity.
  apply str_eqb_eq in H. subst. reflexivity.
Qed.

Lemma label_eqb_eq a b : label_eqb a b = true -> a = b.
Proof.
  destruct a, b; simpl; intros H; try discriminate; try reflexivity.
  - apply event_eqb_eq in H. subst. reflexivity.
  - apply err_eqb_eq in H. subst. reflexivity.
Qed.

Lemma is_tau_eq l : is_tau l = true -> l = Tau.
Proof. destruct l; simpl; intros H; try discriminate; reflexivity. Qed.

(* ---- weak executions compose ---- *)
Lemma wexec_trans a t1 b : wexec a t1 b -> forall t2 c, wexec b t2 c -> wexec a (t1 ++ t2) c.
Proof.
  induction 1 as [s|s s1 tr s' Hs _ IH|s l s1 tr s' Hl Hs _ IH]; intros t2 c H2; simpl.
  - exact H2.
  - eapply wexec_tau; [exact Hs|]. apply IH. exact H2.
  - eapply wexec_vis; [exact Hl|exact Hs|]. apply IH. exact H2.
Qed.

Lemma wexec_snoc_taus a t b c : wexec a t b -> wexec b [] c -> wexec a t c.
Proof. intros H1 H2. rewrite <- (app_nil_r t). eapply wexec_trans; eauto. Qed.

(* ---- the restricted successor function stays inside the machine ---- *)
Lemma step_read_gen_incl s p : In p (step_read_gen false s) -> In p (step_read s).
Proof.
  unfold step_read, step_read_gen. destruct (rpc s); try (intros H; exact H).
  destruct (length (rx s) <? cap); simpl; intros H; [exact H|contradiction].
Qed.

Lemma sys_core_incl s p : In p (sys_core false s) -> In p (sys_next s).
Proof.
  unfold sys_next, sys_next_gen, sys_core. rewrite !in_app_iff.
  intros [H|[H|[H|H]]]; auto 6.
  left. right. right. left. apply step_read_gen_incl. exact H.
Qed.

(* ---- each stage of `norm` is the identity or one Tau step ---- *)
Definition tau_or_id (s s' : state) : Prop := s' = s \/ In (Tau, s') (sys_next s).

Lemma tau_or_id_wexec s s' : tau_or_id s s' -> wexec s [] s'.
Proof.
  intros [E|H]; [subst; apply wexec_nil|].
  eapply wexec_tau; [left; exact H|apply wexec_nil].
Qed.

Lemma in_sys_connect s p : In p (step_connect s) -> In p (sys_next s).
Proof. unfold sys_next, sys_next_gen, sys_core. rewrite !in_app_iff. auto 12. Qed.
Lemma in_sys_exec s p : In p (step_exec s) -> In p (sys_next s).
Proof. unfold sys_next, sys_next_gen, sys_core. rewrite !in_app_iff. auto 12. Qed.
Lemma in_sys_read s p : In p (step_read s) -> In p (sys_next s).
Proof. unfold sys_next, sys_next_gen, sys_core. rewrite !in_app_iff. auto 12. Qed.
Lemma in_sys_linger s p : In p (step_linger s) -> In p (sys_next s).
Proof. unfold sys_next, sys_next_gen, sys_core. rewrite !in_app_iff. auto 12. Qed.
Lemma in_sys_send s p : In p (step_send s) -> In p (sys_next s).
Proof. unfold sys_next, sys_next_gen, sys_core. rewrite !in_app_iff. auto 12. Qed.
Lemma in_sys_ping s p : In p (step_ping s) -> In p (sys_next s).
Proof. unfold sys_next, sys_next_gen, sys_core. rewrite !in_app_iff. auto 12. Qed.
Lemma in_sys_app s p : In p (step_app s) -> In p (sys_next s).
Proof. unfold sys_next, sys_next_gen, sys_core. rewrite !in_app_iff. auto 12. Qed.

Lemma norm_ping_ok s : tau_or_id s (norm_ping s).
Proof.
  unfold norm_ping, tau_or_id. destruct (ppc s) eqn:E; [|left; reflexivity].
  destruct (cancelled s) eqn:C; [|left; reflexivity].
  right. apply in_sys_ping. unfold step_ping. rewrite E, C. left. reflexivity.
Qed.

Lemma norm_exec_ok s : tau_or_id s (norm_exec s).
Proof.
  unfold norm_exec, tau_or_id. destruct (xpc s) as [|e d|e d| |] eqn:E; try (left; reflexivity).
  destruct d.
  - destruct e; right; apply in_sys_exec; unfold step_exec; rewrite E; left; reflexivity.
  - destruct e; [|left; reflexivity].
    right. apply in_sys_exec. unfold step_exec. rewrite E. left. reflexivity.
Qed.

Lemma norm_read_ok s : tau_or_id s (norm_read s).
Proof.
  unfold norm_read, tau_or_id. destruct (rpc s) eqn:E; try (left; reflexivity).
  destruct (cancelled s) eqn:C; [|left; reflexivity].
  right. apply in_sys_read. unfold step_read, step_read_gen. rewrite E, C. left. reflexivity.
Qed.

Lemma norm_linger_ok s : tau_or_id s (norm_linger s).
Proof.
  unfold norm_linger, tau_or_id.
  destruct (linger s && (sock_closed s || peer_closed s || negb (is_nil (inbuf s)))) eqn:E; [|left; reflexivity].
  right. apply in_sys_linger. unfold step_linger. rewrite E. left. reflexivity.
Qed.

Lemma norm_reach s : wexec s [] (norm s).
Proof.
  unfold norm.
  eapply wexec_snoc_taus; [|apply tau_or_id_wexec, norm_linger_ok].
  eapply wexec_snoc_taus; [|apply tau_or_id_wexec, norm_read_ok].
  eapply wexec_snoc_taus; [|apply tau_or_id_wexec, norm_exec_ok].
  apply tau_or_id_wexec, norm_ping_ok.
Qed.

(* losing all unread lines at once is losing them one by one *)
Lemma set_inbuf_nil_id s : inbuf s = [] -> set_inbuf [] s = s.
Proof. destruct s; simpl; intros ->; reflexivity. Qed.

Lemma drop_all_reach n : forall s, length (inbuf s) = n -> peer_closed s = true -> wexec s [] (set_inbuf [] s).
Proof.
  induction n as [|n IH]; intros s Hl Hp.
  - destruct (inbuf s) eqn:E; [|discriminate]. rewrite set_inbuf_nil_id by exact E. apply wexec_nil.
  - assert (Hne : inbuf s <> []) by (intros E; rewrite E in Hl; discriminate).
    eapply wexec_tau with (s1 := set_inbuf (removelast (inbuf s)) s).
    + left. unfold sys_next, sys_next_gen. apply in_or_app. right. unfold step_net. rewrite Hp.
      destruct (inbuf s); [congruence|]. left. reflexivity.
    + replace (set_inbuf [] s) with (set_inbuf [] (set_inbuf (removelast (inbuf s)) s)) by (destruct s; reflexivity).
      apply IH; [|exact Hp].
      cbn [inbuf set_inbuf]. pose proof (removelast_shorter (inbuf s) Hne) as X. rewrite Hl in X. lia.
Qed.

Lemma chk_next_reach s l s' : In (l, s') (chk_next s) ->
  In (l, s') (sys_next s) \/ (l = Tau /\ wexec s [] s').
Proof.
  unfold chk_next. rewrite in_app_iff. intros [H|H]; [left; apply sys_core_incl; exact H|].
  unfold step_net_all in H. destruct (peer_closed s && negb (is_nil (inbuf s))) eqn:E; [|contradiction].
  destruct H as [H|[]]. injection H as <- <-. right. split; [reflexivity|].
  apply andb_prop in E. destruct E as [E _]. eapply drop_all_reach; eauto.
Qed.

(* ---- successors computed by the checker are reached by the machine ---- *)
(* vexec s tr s': some execution from s to s' whose visible part is tr *)
Definition vexec (s : state) (tr : list label) (s' : state) : Prop :=
  exists h, visible h = tr /\ wexec s h s'.

Lemma visible_app a b : visible (a ++ b) = visible a ++ visible b.
Proof. unfold visible. apply filter_app. Qed.

Lemma vexec_refl s : vexec s [] s.
Proof. exists []. split; [reflexivity|apply wexec_nil]. Qed.

Lemma vexec_trans a t1 b t2 c : vexec a t1 b -> vexec b t2 c -> vexec a (t1 ++ t2) c.
Proof.
  intros [h1 [E1 H1]] [h2 [E2 H2]]. exists (h1 ++ h2). split.
  - rewrite visible_app, E1, E2. reflexivity.
  - eapply wexec_trans; eauto.
Qed.

Lemma vexec_snoc_hidden a t b c : vexec a t b -> vexec b [] c -> vexec a t c.
Proof. intros H1 H2. rewrite <- (app_nil_r t). eapply vexec_trans; eauto. Qed.

Lemma wexec_vexec_nil s s' : wexec s [] s' -> vexec s [] s'.
Proof. intros H. exists []. split; [reflexivity|exact H]. Qed.

Lemma hidden_cases l : is_hidden l = true -> l = Tau \/ (l <> Tau /\ visible [l] = []).
Proof.
  destruct l; simpl; intros H; try discriminate; [left; reflexivity| |]; right; split; try discriminate; reflexivity.
Qed.

Lemma tau_succs_reach s s' : In s' (tau_succs s) -> vexec s [] s'.
Proof.
  unfold tau_succs. rewrite in_map_iff. intros [[l s1] [E H]]. simpl in E. subst s'.
  apply filter_In in H. destruct H as [H T]. simpl in T.
  eapply vexec_snoc_hidden; [|apply wexec_vexec_nil, norm_reach].
  apply chk_next_reach in H. destruct H as [H|[-> H]]; [|apply wexec_vexec_nil; exact H].
  apply hidden_cases in T. destruct T as [T|[Tn Tv]].
  - subst l. exists []. split; [reflexivity|]. eapply wexec_tau; [left; exact H|apply wexec_nil].
  - exists [l]. split; [exact Tv|].
    eapply wexec_vis; [exact Tn|left; exact H|apply wexec_nil].
Qed.

Lemma vis_succs_reach l s s' : is_hidden l = false -> In s' (vis_succs l s) -> vexec s [l] s'.
Proof.
  intros Hl.
  assert (Hnt : l <> Tau) by (intros E; subst l; discriminate).
  assert (Hv : visible [l] = [l]) by (unfold visible; simpl; rewrite Hl; reflexivity).
  unfold vis_succs. rewrite in_app_iff. intros [H|H].
  - rewrite in_map_iff in H. destruct H as [[l1 s1] [E H]]. simpl in E. subst s'.
    apply filter_In in H. destruct H as [H T]. simpl in T. apply label_eqb_eq in T. subst l1.
    eapply vexec_snoc_hidden; [|apply wexec_vexec_nil, norm_reach].
    apply chk_next_reach in H. destruct H as [H|[E _]]; [|congruence].
    exists [l]. split; [exact Hv|].
    eapply wexec_vis; [exact Hnt|left; exact H|apply wexec_nil].
  - destruct (env_step l s) as [s0|] eqn:E; [|contradiction].
    destruct H as [H|[]]. subst s'.
    eapply vexec_snoc_hidden; [|apply wexec_vexec_nil, norm_reach].
    exists [l]. split; [exact Hv|].
    eapply wexec_vis; [exact Hnt|right; exact E|apply wexec_nil].
Qed.

(* ---- set bookkeeping never invents states ---- *)
Lemma add_new_fst_incl cand : forall new seen x,
  In x (fst (add_new cand new seen)) -> In x cand \/ In x new.
Proof.
  induction cand as [|c r IH]; intros new seen x H; cbn [add_new] in H; [right; exact H|].
  destruct (smem c seen).
  - apply IH in H. destruct H; [left; right; assumption|right; assumption].
  - apply IH in H. destruct H as [H|[H|H]]; [left; right; assumption|left; left; assumption|right; assumption].
Qed.

Lemma tau_close_aux_inv (P : state -> Prop) :
  (forall s s', P s -> In s' (tau_succs s) -> P s') ->
  forall fuel frontier acc seen,
    (forall x, In x frontier -> P x) -> (forall x, In x acc -> P x) ->
    forall x, In x (tau_close_aux fuel frontier acc seen) -> P x.
Proof.
  intros Hclosed. induction fuel as [|f IH]; intros frontier acc seen Hf Ha x Hx; cbn [tau_close_aux] in Hx.
  - apply Ha. exact Hx.
  - destruct (add_new (flat_map tau_succs frontier) [] seen) as [new seen'] eqn:E.
    assert (Hnew : forall y, In y new -> P y).
    { intros y Hy. assert (Hy' : In y (fst (add_new (flat_map tau_succs frontier) [] seen))) by (rewrite E; exact Hy).
      apply add_new_fst_incl in Hy'. destruct Hy' as [Hy'|[]].
      apply in_flat_map in Hy'. destruct Hy' as [z [Hz1 Hz2]]. eapply Hclosed; [apply Hf; exact Hz1|exact Hz2]. }
    destruct new as [|n0 new'].
    + apply Ha. exact Hx.
    + eapply IH; [| |exact Hx].
      * exact Hnew.
      * intros y Hy. apply in_app_or in Hy. destruct Hy; [apply Hnew|apply Ha]; assumption.
Qed.

Lemma tau_close_inv (P : state -> Prop) :
  (forall s s', P s -> In s' (tau_succs s) -> P s') ->
  forall fuel l, (forall x, In x l -> P x) -> forall x, In x (tau_close fuel l) -> P x.
Proof.
  intros Hclosed fuel l Hl x Hx. unfold tau_close in Hx.
  destruct (add_new l [] sempty) as [l' seen] eqn:E.
  assert (Hl' : forall y, In y l' -> P y).
  { intros y Hy. assert (Hy' : In y (fst (add_new l [] sempty))) by (rewrite E; exact Hy).
    apply add_new_fst_incl in Hy'. destruct Hy' as [Hy'|[]]. apply Hl. exact Hy'. }
  eapply tau_close_aux_inv; eauto.
Qed.

Lemma run_reach fuel tr : Forall (fun l => is_hidden l = false) tr ->
  forall cur x, In x (run fuel tr cur) -> exists y, In y cur /\ vexec y tr x.
Proof.
  induction tr as [|l tr IH]; intros Hnt cur x Hx; cbn [run] in Hx.
  - exists x. split; [exact Hx|apply vexec_refl].
  - inversion Hnt as [|? ? Hl Hnt']; subst.
    apply IH in Hx; [|exact Hnt']. destruct Hx as [z [Hz Hzx]].
    set (P := fun z => exists y, In y cur /\ vexec y [l] z).
    assert (HP : P z).
    { eapply (tau_close_inv P) with (fuel := fuel); [| |exact Hz].
      - intros s s' [y [Hy Hys]] Hs'. exists y. split; [exact Hy|].
        eapply vexec_snoc_hidden; [exact Hys|apply tau_succs_reach; exact Hs'].
      - intros w Hw. apply in_flat_map in Hw. destruct Hw as [y [Hy Hyw]].
        exists y. split; [exact Hy|apply vis_succs_reach; assumption]. }
    destruct HP as [y [Hy Hyz]]. exists y. split; [exact Hy|].
    change (l :: tr) with ([l] ++ tr). eapply vexec_trans; eauto.
Qed.

Definition trace_budget (tr : list label) : nat := fold_right (fun l n => label_cost l + n) 0 tr.

Lemma after_reach fuel tr : Forall (fun l => is_hidden l = false) tr ->
  forall x, In x (after fuel tr) -> vexec (init (trace_budget tr)) tr x.
Proof.
  intros Hnt x Hx. unfold after in Hx. apply run_reach in Hx; [|exact Hnt].
  destruct Hx as [y [Hy Hyx]].
  set (s0 := init (trace_budget tr)) in *.
  assert (H0 : vexec s0 [] y).
  { eapply (tau_close_inv (fun z => vexec s0 [] z)) with (fuel := fuel); [| |exact Hy].
    - intros s s' Hs Hs'. eapply vexec_snoc_hidden; [exact Hs|apply tau_succs_reach; exact Hs'].
    - intros w [Hw|[]]. subst w. apply vexec_refl. }
  change tr with ([] ++ tr). eapply vexec_trans; eauto.
Qed.

Lemma no_hidden_forall tr : existsb is_hidden tr = false -> Forall (fun l => is_hidden l = false) tr.
Proof.
  induction tr as [|l tr IH]; simpl; intros H; constructor; apply orb_false_iff in H; [tauto|].
  apply IH. tauto.
Qed.

(* Soundness: an accepted trace is the visible part of a trace of the machine. *)
Theorem accepts_sound fuel tr :
  accepts fuel tr = true ->
  exists tr' s, visible tr' = tr /\ wexec (init (trace_budget tr)) tr' s.
Proof.
  unfold accepts. destruct (existsb is_hidden tr) eqn:E; [discriminate|]. intros H.
  destruct (after fuel tr) as [|x r] eqn:A; [simpl in H; discriminate|].
  destruct (after_reach fuel tr (no_hidden_forall tr E) x) as [h [Hv Hw]]; [rewrite A; left; reflexivity|].
  exists h, x. split; assumption.
Qed.

(* The hypothesis is satisfiable: a complete session (Close after registration). *)
Example accepts_example :
  accepts 50 [LConnCall [mkOut false [78%N]] true; LInit; LPeerRecv (mkOut false [78%N]);
              LCloseCall; LCloseRet; LClosed; LDisc; LReturn ENil; LIsConn false; LPeerEOF] = true.
Proof. vm_compute. reflexivity. Qed.

(* The checker discriminates: sessions that break a clause of the property are not traces of
   (the checker's view of) the machine. *)
Definition xa : event := EvMsg [97%N].
Definition xb : event := EvMsg [98%N].
Definition xe : event := EvError [120%N].

(* nil result without CLOSED *)
Example rejects_missing_closed :
  accepts 50 [LConnCall [] true; LInit; LCloseCall; LCloseRet; LDisc; LReturn ENil] = false.
Proof. vm_compute. reflexivity. Qed.
(* CLOSED although the result is an error *)
Example rejects_closed_on_error :
  accepts 50 [LConnCall [] true; LInit; LPeerClose; LClosed; LDisc; LReturn EIO] = false.
Proof. vm_compute. reflexivity. Qed.
(* nil although nobody asked to close *)
Example rejects_nil_unrequested :
  accepts 50 [LConnCall [] true; LInit; LPeerClose; LClosed; LDisc; LReturn ENil] = false.
Proof. vm_compute. reflexivity. Qed.
(* ErrEvent returned but the ERROR was never delivered *)
Example rejects_error_not_delivered :
  accepts 50 [LConnCall [] true; LInit; LPeerSend (LnEv xe); LDisc; LReturn (EErrEvent [120%N])] = false.
Proof. vm_compute. reflexivity. Qed.
(* an event overtakes another *)
Example rejects_reordering :
  accepts 50 [LConnCall [] true; LInit; LPeerSend (LnEv xa); LPeerSend (LnEv xb); LDeliver xb] = false.
Proof. vm_compute. reflexivity. Qed.
(* an event sent before the ERROR is skipped *)
Example rejects_unflushed :
  accepts 50 [LConnCall [] true; LInit; LPeerSend (LnEv xa); LPeerSend (LnEv xe); LDeliver xe] = false.
Proof. vm_compute. reflexivity. Qed.
(* an event of the first connection is delivered on the second *)
Example rejects_stale_event :
  accepts 50 [LConnCall [] true; LInit; LPeerSend (LnEv xe); LPeerSend (LnEv xa); LDeliver xe; LDisc;
              LReturn (EErrEvent [120%N]); LConnCall [] true; LInit; LDeliver xa] = false.
Proof. vm_compute. reflexivity. Qed.
(* output of the first connection is written on the second *)
Example rejects_stale_output :
  accepts 50 [LConnCall [] true; LInit; LPeerClose; LSend (mkOut false [111%N]); LDisc; LReturn EIO;
              LConnCall [] true; LInit; LPeerRecv (mkOut false [111%N])] = false.
Proof. vm_compute. reflexivity. Qed.
(* IsConnected() true after the return *)
Example rejects_still_connected :
  accepts 50 [LConnCall [] true; LInit; LCloseCall; LCloseRet; LClosed; LDisc; LReturn ENil; LIsConn true] = false.
Proof. vm_compute. reflexivity. Qed.
(* the same sessions with the clause respected are accepted *)
Example accepts_after_error :
  accepts 50 [LConnCall [] true; LInit; LPeerSend (LnEv xa); LPeerSend (LnEv xe); LDeliver xa; LDeliver xe;
              LDisc; LReturn (EErrEvent [120%N]); LIsConn false; LPeerEOF;
              LConnCall [] true; LInit; LPeerSend (LnEv xb); LDeliver xb] = true.
Proof. vm_compute. reflexivity. Qed.

(* the sending direction breaks, then Quit(): the failed write of the QUIT is ignored, Connect
   returns nil with CLOSED - and nothing else *)
Example accepts_quit_write_fault_nil :
  accepts 50 [LConnCall [] true; LInit; LWFault; LSend (mkOut true [113%N]); LClosed; LDisc; LReturn ENil] = true.
Proof. vm_compute. reflexivity. Qed.
Example rejects_quit_write_fault_error :
  accepts 50 [LConnCall [] true; LInit; LWFault; LSend (mkOut true [113%N]); LDisc; LReturn EIO] = false.
Proof. vm_compute. reflexivity. Qed.
(* whereas a failed write of any other line ends the connection with that error *)
Example accepts_write_fault_error :
  accepts 50 [LConnCall [] true; LInit; LWFault; LSend (mkOut false [111%N]); LDisc; LReturn EIO] = true.
Proof. vm_compute. reflexivity. Qed.
