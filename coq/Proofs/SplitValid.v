(* C11: every piece splitMessage returns is well-formed UTF-8 (cuts fall on character
   boundaries), for every text; hence the final ToValidUTF8 pass changes nothing. *)
Require Import Bytes Utf8 Split SplitUtf8 SplitProofs SplitWords.
From Coq Require Import Lia ZifyBool ZifyN ZifyNat.
Local Open Scope nat_scope.

Definition ascii (s : str) : Prop := Forall (fun b => (b <? 128)%N = true) s.

Lemma ascii_wf s : ascii s -> wf s.
Proof.
  induction 1 as [|b r Hb Hr IH]; [constructor|].
  apply (wf_cons _ 1); [cbn; rewrite Hb; reflexivity|exact IH].
Qed.

Lemma ascii_app a b : ascii a -> ascii b -> ascii (a ++ b).
Proof. intros. apply Forall_app. split; assumption. Qed.

Lemma is_code_ascii b : is_code b = true -> (b <? 128)%N = true.
Proof. unfold is_code. lia. Qed.

Lemma is_digit_ascii b : is_digit b = true -> (b <? 128)%N = true.
Proof. unfold is_digit. lia. Qed.

Lemma color_a_ascii s n : color_a s = Some n -> ascii (firstn n s).
Proof.
  unfold color_a. destruct s as [|a r]; [discriminate|]. destruct r as [|b r'].
  - destruct (is_digit a) eqn:Ea; [|discriminate]. intros H; inversion H; subst.
    constructor; [apply is_digit_ascii; exact Ea|constructor].
  - destruct (is_019 a && is_digit b) eqn:E1.
    + intros H; inversion H; subst. apply andb_true_iff in E1. destruct E1 as [E1 E2].
      constructor; [unfold is_019 in E1; lia|]. constructor; [apply is_digit_ascii; exact E2|constructor].
    + destruct (is_digit a) eqn:Ea; [|discriminate]. intros H; inversion H; subst.
      constructor; [apply is_digit_ascii; exact Ea|constructor].
Qed.

Lemma color_b_ascii s : ascii (firstn (color_b s) s).
Proof.
  unfold color_b. destruct s as [|c r]; [constructor|].
  destruct (c =? 44)%N eqn:Ec; [|constructor].
  destruct (color_a r) as [n|] eqn:Ea; [|constructor].
  cbn [firstn]. constructor; [lia|]. apply color_a_ascii. exact Ea.
Qed.

Lemma color_match_ascii s n : color_match s = Some n -> ascii (firstn n s).
Proof.
  unfold color_match. destruct (color_a s) as [k|] eqn:Ea; [|discriminate].
  intros H; inversion H; subst. rewrite firstn_add. apply ascii_app; [apply color_a_ascii; exact Ea|apply color_b_ascii].
Qed.

Lemma last_color_aux_ascii s : forall skip acc, (forall m, acc = Some m -> ascii m) ->
  forall m, last_color_aux s skip acc = Some m -> ascii m.
Proof.
  induction s as [|b r IH]; intros skip acc Hacc m H; cbn [last_color_aux] in H; [apply Hacc; exact H|].
  destruct skip as [|k]; [|eapply IH; eassumption].
  destruct (b =? 3)%N eqn:Eb; [|eapply IH; eassumption].
  destruct (color_match r) as [n|] eqn:Ec; [|eapply IH; eassumption].
  eapply IH; [|exact H]. intros m' Hm'. inversion Hm'; subst.
  constructor; [reflexivity|]. apply color_match_ascii. exact Ec.
Qed.

Lemma remove_first_ascii m l l' : Split.remove_first m l = Some l' -> ascii l -> ascii l'.
Proof.
  revert l'. induction l as [|x r IH]; intros l' H Ha; cbn [Split.remove_first] in H; [discriminate|].
  inversion Ha as [|? ? Hx Hr]; subst.
  destruct (x =? m)%N. { inversion H; subst. exact Hr. }
  destruct (Split.remove_first m r) as [r'|]; [|discriminate]. inversion H; subst.
  constructor; [exact Hx|]. apply IH; [reflexivity|exact Hr].
Qed.

Lemma track_ascii st m : is_code m = true -> ascii (fst st) -> ascii (snd st) ->
  ascii (fst (track st m)) /\ ascii (snd (track st m)).
Proof.
  destruct st as [codes lastc]. cbn [fst snd]. intros Hm Hc Hl. unfold track.
  destruct (m =? 15)%N; [split; constructor|].
  destruct (Split.remove_first m codes) as [codes'|] eqn:Er.
  - cbn [fst snd]. split; [eapply remove_first_ascii; eassumption|]. destruct (m =? 3)%N; [constructor|exact Hl].
  - match goal with |- context [if ?c then _ else _] => destruct c end; cbn [fst snd]; split; try assumption.
    apply ascii_app; [exact Hc|]. constructor; [apply is_code_ascii; exact Hm|constructor].
Qed.

Lemma fold_track_ascii l : forall st, Forall (fun m => is_code m = true) l -> ascii (fst st) -> ascii (snd st) ->
  ascii (fst (fold_left track l st)) /\ ascii (snd (fold_left track l st)).
Proof.
  induction l as [|m r IH]; intros st Hl Hc Hs; cbn [fold_left]; [split; assumption|].
  inversion Hl as [|? ? Hm Hr]; subst.
  destruct (track_ascii st m Hm Hc Hs) as [H1 H2]. apply IH; assumption.
Qed.

Lemma track_word_ascii codes lastc word : ascii codes -> ascii lastc ->
  ascii (fst (track_word codes lastc word)) /\ ascii (snd (track_word codes lastc word)).
Proof.
  intros Hc Hl. unfold track_word. apply fold_track_ascii.
  - apply Forall_forall. intros m Hm. apply filter_In in Hm. apply Hm.
  - exact Hc.
  - cbn [snd]. destruct (last_color word) as [m|] eqn:E; [|exact Hl].
    unfold last_color in E. eapply last_color_aux_ascii; [|exact E]. intros m' H'. discriminate.
Qed.

Lemma prefix_of_wf codes lastc w : ascii codes -> ascii lastc -> wf (prefix_of codes lastc w).
Proof.
  intros Hc Hl. unfold prefix_of. match goal with |- context [if ?c then _ else _] => destruct c end; [constructor|].
  apply ascii_wf. apply ascii_app; assumption.
Qed.

(* ------------------------------------------------------------------ *)
(* the line loop keeps everything well-formed                          *)
(* ------------------------------------------------------------------ *)

Definition wf_inv (st : lst) : Prop := Forall wf (l_out st) /\ wf (l_cur st).

Lemma wf_space : wf [32%N].
Proof. apply wf_ascii. reflexivity. Qed.

Lemma wf_inv_add t st : wf t -> wf_inv st -> wf_inv (add t st).
Proof.
  intros Ht [Ho Hc]. split; cbn [add l_out l_cur]; [exact Ho|].
  apply wf_app; [exact Hc|]. apply wf_app; [destruct (l_has st); [apply wf_space|constructor]|exact Ht].
Qed.

Lemma wf_inv_flush pfx st : wf pfx -> wf_inv st -> wf_inv (flush pfx st).
Proof.
  intros Hp [Ho Hc]. split; cbn [flush l_out l_cur]; [|exact Hp].
  apply Forall_app. split; [exact Ho|constructor; [exact Hc|constructor]].
Qed.

Lemma place_wf fuel : forall pfx w word st st', wf pfx -> wf word -> wf_inv st ->
  place fuel pfx w word st = Ok st' -> wf_inv st'.
Proof.
  induction fuel as [|f IH]; intros pfx w word st st' Hp Hw Hi H.
  { destruct word; cbn [place] in H; [inversion H; subst; exact Hi|discriminate]. }
  destruct word as [|b r]; [cbn [place] in H; inversion H; subst; exact Hi|].
  remember (b :: r) as word eqn:Eword.
  unfold place in H; fold place in H. rewrite Eword in H at 1. cbv beta iota in H.
  destruct (Zlen word <=? room_of w st)%Z.
  - inversion H; subst st'. exact (wf_inv_add _ _ Hw Hi).
  - destruct (l_has st && ((Zlen pfx + Zlen word <=? w)%Z || (room_of w st <? 4)%Z)).
    + eapply IH; [exact Hp|exact Hw| |exact H]. exact (wf_inv_flush _ _ Hp Hi).
    + set (n := cut_len (length word) word 0 (room_of w st) (l_has st)) in *.
      unfold slice_to, slice_from in H.
      destruct (Nat.leb n (length word)); [|discriminate]. cbn [rbind] in H.
      destruct (cut_len_wf (length word) word 0 (room_of w st) (l_has st) Hw) as [W1 W2].
      fold n in W1, W2. rewrite Nat.sub_0_r in W1, W2.
      eapply IH; [exact Hp|exact W2| |exact H].
      exact (wf_inv_flush _ _ Hp (wf_inv_add _ _ W1 Hi)).
Qed.

Definition swf_inv (st : sst) : Prop := ascii (s_codes st) /\ ascii (s_lastc st) /\ wf_inv (s_l st).

Lemma step_wf w st word st' : wf word -> swf_inv st -> step w (Ok st) word = Ok st' -> swf_inv st'.
Proof.
  intros Hw (Hc & Hl & Hi) H. unfold step in H; cbn [rbind] in H. destruct word as [|b r].
  - destruct (l_has (s_l st)); inversion H; subst; [|exact (conj Hc (conj Hl Hi))].
    cbn [s_codes s_lastc s_l]. split; [exact Hc|]. split; [exact Hl|].
    apply wf_inv_flush; [apply prefix_of_wf; assumption|exact Hi].
  - pose proof (track_word_ascii (s_codes st) (s_lastc st) (b :: r) Hc Hl) as A. revert A.
    destruct (track_word (s_codes st) (s_lastc st) (b :: r)) as [codes lastc]. cbn [fst snd]. intros [A1 A2].
    destruct (place (2 * length (b :: r) + 2) (prefix_of codes lastc w) w (b :: r) (s_l st)) as [l|] eqn:Ep;
      cbn [rbind] in H; [|discriminate].
    inversion H; subst. cbn [s_codes s_lastc s_l]. split; [exact A1|]. split; [exact A2|].
    exact (place_wf _ _ _ _ _ _ (prefix_of_wf codes lastc w A1 A2) Hw Hi Ep).
Qed.

Lemma fold_step_wf w words : forall st st', Forall wf words -> swf_inv st ->
  fold_left (step w) words (Ok st) = Ok st' -> swf_inv st'.
Proof.
  induction words as [|x r IH]; intros st st' Hw Hi H; cbn [fold_left] in H; [inversion H; subst; exact Hi|].
  inversion Hw as [|? ? Hx Hr]; subst.
  destruct (step_ok w st x) as [st1 H1]. rewrite H1 in H.
  eapply IH; [exact Hr| |exact H]. eapply step_wf; eassumption.
Qed.

Lemma wf_qmark : wf qmark.
Proof. apply wf_ascii. reflexivity. Qed.

(* the model's result, without the final pass *)
Definition split_raw (text : str) (w : Z) : res (list str) :=
  st <- fold_left (step w) (split_words (to_valid_utf8 qmark text)) (Ok sst_init) ;;
  Ok (finish (s_l st)).

Theorem split_raw_wf text w ps : split_raw text w = Ok ps -> Forall wf ps.
Proof.
  unfold split_raw. intros H.
  destruct (fold_left (step w) (split_words (to_valid_utf8 qmark text)) (Ok sst_init)) as [st|] eqn:E;
    cbn [rbind] in H; [|discriminate].
  inversion H; subst ps. clear H.
  assert (Hi : swf_inv st).
  { eapply fold_step_wf; [| |exact E].
    - apply split_words_wf. apply to_valid_utf8_wf. exact wf_qmark.
    - repeat split; constructor. }
  destruct Hi as (_ & _ & Ho & Hc). unfold finish. destruct (l_has (s_l st)); [|exact Ho].
  apply Forall_app. split; [exact Ho|constructor; [exact Hc|constructor]].
Qed.

Lemma map_id_wf l : Forall wf l -> List.map (to_valid_utf8 qmark) l = l.
Proof.
  induction 1 as [|x r Hx Hr IH]; [reflexivity|]. cbn [List.map]. rewrite IH, to_valid_utf8_id by exact Hx. reflexivity.
Qed.

(* the final ToValidUTF8 pass is the identity *)
Theorem split_message_raw text w : split_message text w = split_raw text w.
Proof.
  unfold split_message. destruct (split_raw text w) as [ps|] eqn:E.
  - pose proof (split_raw_wf _ _ _ E) as Hw. unfold split_raw in E.
    destruct (fold_left (step w) (split_words (to_valid_utf8 qmark text)) (Ok sst_init)) as [st|];
      cbn [rbind] in *; [|discriminate].
    inversion E; subst ps. rewrite map_id_wf by exact Hw. reflexivity.
  - unfold split_raw in E.
    destruct (fold_left (step w) (split_words (to_valid_utf8 qmark text)) (Ok sst_init)) as [st|];
      cbn [rbind] in *; [discriminate|reflexivity].
Qed.

(* every piece is well-formed UTF-8: chunk boundaries are character boundaries *)
Theorem split_message_wf text w ps : split_message text w = Ok ps -> Forall wf ps.
Proof. rewrite split_message_raw. apply split_raw_wf. Qed.
