(* Proofs for C14, registration side: parseCMD only produces keys a decoded command can
   equal (or the wildcard), Set/Clear behave as a finite map, CTCP.call with ANY table is
   "wildcard handler, then the command's handler or the library's ERRMSG", and a table
   whose handlers stay silent on replies cannot be driven into a reply loop. *)
Require Import Bytes Names GoUpperAscii Ctcp CtcpSpec FormatLemmas NamesProofs CtcpProofs.
From Coq Require Import Lia ZifyBool ZifyN ZifyNat.

Local Arguments N.add : simpl never.
Local Arguments N.sub : simpl never.
Local Arguments N.ltb : simpl never.
Local Arguments N.leb : simpl never.
Local Arguments N.eqb : simpl never.

(* ---- parseCMD ----------------------------------------------------------- *)

Lemma wildcard_not_tag : ~ ctcp_tag ctcp_wildcard.
Proof.
  intros (_ & H). inversion H as [|? ? Hb _]. unfold tag_byte in Hb. lia.
Qed.

Theorem parse_cmd_keys n :
  parse_cmd n = [] \/ parse_cmd n = ctcp_wildcard \/ ctcp_tag (parse_cmd n).
Proof.
  unfold parse_cmd. destruct (streqb n ctcp_wildcard); [auto|].
  destruct (upper_ascii_img n) as [u|]; [|auto].
  destruct (forallb tag_byte_ok u) eqn:Hf; [|auto].
  destruct u as [|b u]; [auto|]. right. right. split; [discriminate|].
  apply forallb_tag. exact Hf.
Qed.

Theorem parse_cmd_wild_iff n : parse_cmd n = ctcp_wildcard <-> n = ctcp_wildcard.
Proof.
  split.
  - intros H. destruct (streqb n ctcp_wildcard) eqn:E; [apply streqb_spec; exact E|].
    exfalso. unfold parse_cmd in H. rewrite E in H.
    destruct (upper_ascii_img n) as [u|]; [|discriminate].
    destruct (forallb tag_byte_ok u) eqn:Hf; [|discriminate].
    subst u. discriminate Hf.
  - intros ->. reflexivity.
Qed.

Lemma upper1_tag b : tag_byte b -> upper1 b = b.
Proof. unfold tag_byte, upper1, is_lower. intros H. destruct ((97 <=? b) && (b <=? 122)) eqn:E; [lia | reflexivity]. Qed.

Lemma upper_img_tag k : Forall tag_byte k -> upper_ascii_img k = Some k.
Proof.
  induction 1 as [|b k Hb _ IH]; [reflexivity|].
  cbn [upper_ascii_img]. replace (b <? 128) with true by (unfold tag_byte in Hb; lia).
  rewrite IH. cbn [option_map]. rewrite upper1_tag by exact Hb. reflexivity.
Qed.

(* registering under a command as DecodeCTCP spells it registers exactly that key *)
Theorem parse_cmd_tag k : ctcp_tag k -> parse_cmd k = k.
Proof.
  intros Ht. pose proof Ht as (Hne & Hf). unfold parse_cmd.
  destruct (streqb k ctcp_wildcard) eqn:E.
  { apply streqb_spec in E. subst k. exfalso. exact (wildcard_not_tag Ht). }
  rewrite upper_img_tag by exact Hf. apply forallb_tag in Hf. rewrite Hf. reflexivity.
Qed.

Lemma upper_img_ascii n : is_ascii n = true -> upper_ascii_img n = Some (to_upper_ascii n).
Proof.
  unfold is_ascii, to_upper_ascii. induction n as [|b n IH]; [reflexivity|].
  cbn [forallb upper_ascii_img map]. intros H. apply andb_true_iff in H. destruct H as (Hb & Hn).
  rewrite Hb, (IH Hn). reflexivity.
Qed.

(* ... and under any ASCII spelling whose upper-case form is a command: the handler set
   with "version" serves VERSION *)
Theorem parse_cmd_ascii n : is_ascii n = true -> ctcp_tag (to_upper_ascii n) ->
  parse_cmd n = to_upper_ascii n.
Proof.
  intros Ha Ht. unfold parse_cmd.
  destruct (streqb n ctcp_wildcard) eqn:E.
  { apply streqb_spec in E. subst n. exfalso. exact (wildcard_not_tag Ht). }
  rewrite upper_img_ascii by exact Ha. destruct Ht as (_ & Hf). apply forallb_tag in Hf.
  rewrite Hf. reflexivity.
Qed.

Example parse_cmd_examples :
  parse_cmd (bs "version") = bs "VERSION" /\ parse_cmd (bs "*") = bs "*" /\
  parse_cmd (bs "fo o") = [] /\ parse_cmd [] = [] /\ parse_cmd (bs "**") = [] /\
  parse_cmd [197; 191; 111; 117; 114; 99; 101] = bs "SOURCE".   (* U+017F "ource" *)
Proof. vm_compute. repeat split. Qed.

(* a decoded command is never the wildcard key: the wildcard handler runs once *)
Theorem decoded_not_wildcard e c : ctcp_message e c -> c_command c <> ctcp_wildcard.
Proof.
  intros (_ & (t & p & _ & Ht & _) & _) H. rewrite H in Ht. exact (wildcard_not_tag Ht).
Qed.

(* ---- the table as a finite map ------------------------------------------ *)

Lemma lookup_remove_same k t : lookup k (table_remove k t) = None.
Proof.
  induction t as [|(k', h) t IH]; [reflexivity|]. cbn [table_remove].
  destruct (streqb k' k) eqn:E; [exact IH|]. cbn [lookup]. rewrite E. exact IH.
Qed.

Lemma lookup_remove_other k k' t : k <> k' -> lookup k' (table_remove k t) = lookup k' t.
Proof.
  intros Hne. induction t as [|(k0, h) t IH]; [reflexivity|]. cbn [table_remove lookup].
  destruct (streqb k0 k) eqn:E.
  - apply streqb_spec in E. subst k0.
    replace (streqb k k') with false by (symmetry; apply streqb_false; exact Hne). exact IH.
  - cbn [lookup]. rewrite IH. reflexivity.
Qed.

Theorem lookup_set_same t n h : parse_cmd n <> [] -> lookup (parse_cmd n) (table_set t n h) = Some h.
Proof.
  intros Hne. unfold table_set. destruct (parse_cmd n) as [|b k] eqn:E; [congruence|].
  cbn [lookup]. rewrite streqb_refl. reflexivity.
Qed.

Theorem lookup_set_other t n h k : k <> parse_cmd n -> lookup k (table_set t n h) = lookup k t.
Proof.
  intros Hne. unfold table_set. destruct (parse_cmd n) as [|b k0] eqn:E; [reflexivity|].
  cbn [lookup]. replace (streqb (b :: k0) k) with false by (symmetry; apply streqb_false; congruence).
  apply lookup_remove_other. congruence.
Qed.

Theorem set_invalid t n h : parse_cmd n = [] -> table_set t n h = t.
Proof. intros E. unfold table_set. rewrite E. reflexivity. Qed.

Theorem lookup_clear_same t n : parse_cmd n <> [] -> lookup (parse_cmd n) (table_clear t n) = None.
Proof.
  intros Hne. unfold table_clear. destruct (parse_cmd n) as [|b k] eqn:E; [congruence|].
  apply lookup_remove_same.
Qed.

Theorem lookup_clear_other t n k : k <> parse_cmd n -> lookup k (table_clear t n) = lookup k t.
Proof.
  intros Hne. unfold table_clear. destruct (parse_cmd n) as [|b k0] eqn:E; [reflexivity|].
  apply lookup_remove_other. congruence.
Qed.

Theorem set_lookup t n h k :
  (parse_cmd n = [] -> table_set t n h = t) /\
  (parse_cmd n <> [] -> lookup (parse_cmd n) (table_set t n h) = Some h) /\
  (k <> parse_cmd n -> lookup k (table_set t n h) = lookup k t).
Proof. split; [apply set_invalid|]. split; [apply lookup_set_same | apply lookup_set_other]. Qed.

Theorem clear_lookup t n k :
  (parse_cmd n <> [] -> lookup (parse_cmd n) (table_clear t n) = None) /\
  (k <> parse_cmd n -> lookup k (table_clear t n) = lookup k t).
Proof. split; [apply lookup_clear_same | apply lookup_clear_other]. Qed.

(* every key of a table built by Set/Clear/ClearAll is the wildcard or a command *)
Definition keys_ok (t : table) : Prop :=
  forall k h, lookup k t = Some h -> k = ctcp_wildcard \/ ctcp_tag k.

Lemma lookup_key_in k t h : lookup k t = Some h -> In k (List.map fst t).
Proof.
  induction t as [|(k', h') t IH]; [discriminate|]. cbn [lookup map fst In].
  destruct (streqb k' k) eqn:E; [apply streqb_spec in E; auto | auto].
Qed.

Lemma keys_ok_default v : keys_ok (default_table v).
Proof.
  intros k h Hl. right. apply lookup_key_in in Hl. cbn [default_table map fst In] in Hl.
  assert (Hall : forall x, In x [CTCP_PING; CTCP_PONG; CTCP_VERSION; CTCP_SOURCE; CTCP_TIME; CTCP_FINGER] -> ctcp_tag x).
  { intros x Hx. split; [intros ->; cbn [In] in Hx; intuition discriminate|].
    apply forallb_tag. cbn [In] in Hx.
    destruct Hx as [<- | [<- | [<- | [<- | [<- | [<- | []]]]]]]; reflexivity. }
  apply Hall. cbn [In]. tauto.
Qed.

Lemma lookup_remove_some k k' t h : lookup k' (table_remove k t) = Some h -> lookup k' t = Some h.
Proof.
  destruct (list_eq_dec N.eq_dec k k') as [<- | Hne].
  - rewrite lookup_remove_same. discriminate.
  - rewrite lookup_remove_other by exact Hne. auto.
Qed.

Theorem keys_ok_ops v ops t : keys_ok t -> keys_ok (apply_ops v t ops).
Proof.
  revert t. induction ops as [|o ops IH]; intros t Ht; [exact Ht|].
  cbn [apply_ops fold_left]. apply IH. destruct o as [n h | n |]; cbn [apply_op].
  - unfold table_set. destruct (parse_cmd_keys n) as [E | [E | E]].
    + rewrite E. exact Ht.
    + rewrite E. intros k h' Hl. cbn [lookup ctcp_wildcard] in Hl.
      destruct (streqb [42] k) eqn:Ek; [apply streqb_spec in Ek; auto|].
      apply lookup_remove_some in Hl. eapply Ht; exact Hl.
    + destruct (parse_cmd n) as [|b k0] eqn:En; [exact Ht|].
      intros k h' Hl. cbn [lookup] in Hl.
      destruct (streqb (b :: k0) k) eqn:Ek; [apply streqb_spec in Ek; subst k; auto|].
      apply lookup_remove_some in Hl. eapply Ht; exact Hl.
  - unfold table_clear. destruct (parse_cmd n) as [|b k0]; [exact Ht|].
    intros k h' Hl. apply lookup_remove_some in Hl. eapply Ht; exact Hl.
  - apply keys_ok_default.
Qed.

Theorem table_keys v ops : keys_ok (apply_ops v (default_table v) ops).
Proof. apply keys_ok_ops. apply keys_ok_default. Qed.

(* ---- CTCP.call with any table -------------------------------------------- *)

(* what the library itself writes when no handler is registered for the command *)
Definition lib_errmsg (c : ctcp_event) : list event :=
  if streqb (c_command c) CTCP_ACTION then [] else
  match c_source c with
  | Some name =>
      if negb (c_reply c) && is_valid_nick (to_rfc1459 name)
      then [notice (to_rfc1459 name) (encode_ctcp_raw CTCP_ERRMSG errmsg_text)]
      else []
  | None => []
  end.

Definition run_opt (o : option handler) (c : ctcp_event) : res (list event) :=
  match o with Some h => h c | None => Ok [] end.

Theorem call_structure t c :
  ctcp_call t c =
    w <- run_opt (lookup ctcp_wildcard t) c ;;
    r <- match lookup (c_command c) t with Some h => h c | None => Ok (lib_errmsg c) end ;;
    Ok (w ++ r).
Proof.
  unfold ctcp_call, run_opt, lib_errmsg.
  destruct (match lookup ctcp_wildcard t with Some h => h c | None => Ok [] end) as [w|]; cbn [rbind]; [|reflexivity].
  destruct (lookup (c_command c) t) as [h|]; [reflexivity|].
  destruct (streqb (c_command c) CTCP_ACTION); [cbn [rbind]; rewrite app_nil_r; reflexivity|].
  destruct (c_source c) as [name|]; [|cbn [rbind]; rewrite app_nil_r; reflexivity].
  unfold source_id. destruct (negb (c_reply c) && is_valid_nick (to_rfc1459 name));
    [|cbn [rbind]; rewrite app_nil_r; reflexivity].
  rewrite send_reply_ok by discriminate. reflexivity.
Qed.

Theorem lib_errmsg_discipline c o : In o (lib_errmsg c) ->
  c_reply c = false /\ c_command c <> CTCP_ACTION /\
  exists name, c_source c = Some name /\ is_valid_nick (to_rfc1459 name) = true /\
    lib_errmsg c = [o] /\ o = notice (to_rfc1459 name) (encode_ctcp_raw CTCP_ERRMSG errmsg_text).
Proof.
  unfold lib_errmsg. destruct (streqb (c_command c) CTCP_ACTION) eqn:Ea; [intros []|].
  destruct (c_source c) as [name|]; [|intros []].
  destruct (c_reply c); cbn [negb andb]; [intros []|].
  destruct (is_valid_nick (to_rfc1459 name)) eqn:Hv; [|intros []].
  intros [<- | []]. split; [reflexivity|]. split; [apply streqb_false; exact Ea|].
  exists name. auto.
Qed.

(* ---- loop freedom for user tables ---------------------------------------- *)

Definition handler_reply_silent (h : handler) : Prop := forall c, c_reply c = true -> h c = Ok [].
Definition reply_silent (t : table) : Prop := forall k h, lookup k t = Some h -> handler_reply_silent h.

Theorem reply_silent_notice t e : reply_silent t -> ev_command e = NOTICE -> ctcp_stage t e = Ok [].
Proof.
  intros Hs Hn. unfold ctcp_stage. destruct (decode_total e) as ([c|] & Hd); rewrite Hd; cbn [rbind]; [|reflexivity].
  apply decode_exact in Hd. pose proof (message_reply e c) as Hr.
  assert (Hrep : c_reply c = true) by (destruct Hd as (_ & _ & Hi & _); apply Hi; exact Hn).
  rewrite call_structure. unfold run_opt, lib_errmsg.
  destruct (lookup ctcp_wildcard t) as [hw|] eqn:Hw.
  - rewrite (Hs _ _ Hw c Hrep). cbn [rbind].
    destruct (lookup (c_command c) t) as [h|] eqn:Hh.
    + rewrite (Hs _ _ Hh c Hrep). reflexivity.
    + rewrite Hrep. cbn [negb andb]. destruct (streqb _ _); [reflexivity|]. destruct (c_source c); reflexivity.
  - cbn [rbind]. destruct (lookup (c_command c) t) as [h|] eqn:Hh.
    + rewrite (Hs _ _ Hh c Hrep). reflexivity.
    + rewrite Hrep. cbn [negb andb]. destruct (streqb _ _); [reflexivity|]. destruct (c_source c); reflexivity.
Qed.

Lemma replier_silent body : handler_reply_silent (replier body).
Proof. intros c Hr. unfold replier. rewrite Hr. reflexivity. Qed.

Lemma reply_silent_default v : reply_silent (default_table v).
Proof.
  intros k h Hl. unfold default_table in Hl. cbn [lookup] in Hl.
  repeat match type of Hl with
  | (if ?b then _ else _) = _ => destruct b; [injection Hl as <-; apply replier_silent|]
  end.
  discriminate.
Qed.

Definition op_reply_silent (o : table_op) : Prop :=
  match o with OpSet _ h => handler_reply_silent h | _ => True end.

Theorem reply_silent_ops v ops t : reply_silent t -> Forall op_reply_silent ops ->
  reply_silent (apply_ops v t ops).
Proof.
  intros Ht Hops. revert t Ht. induction Hops as [|o ops Ho _ IH]; intros t Ht; [exact Ht|].
  cbn [apply_ops fold_left]. apply IH. destruct o as [n h | n |]; cbn [apply_op].
  - unfold table_set. destruct (parse_cmd n) as [|b k0]; [exact Ht|].
    intros k h' Hl. cbn [lookup] in Hl. destruct (streqb (b :: k0) k).
    + injection Hl as <-. exact Ho.
    + apply lookup_remove_some in Hl. eapply Ht; exact Hl.
  - unfold table_clear. destruct (parse_cmd n) as [|b k0]; [exact Ht|].
    intros k h' Hl. apply lookup_remove_some in Hl. eapply Ht; exact Hl.
  - apply reply_silent_default.
Qed.

(* whatever handlers a program registers on top of the default table: if each of them stays
   silent on replies, no NOTICE elicits anything - no loop with any peer *)
Theorem user_table_no_loop v ops e : Forall op_reply_silent ops -> ev_command e = NOTICE ->
  ctcp_stage (apply_ops v (default_table v) ops) e = Ok [].
Proof.
  intros Hops Hn. apply reply_silent_notice; [|exact Hn].
  apply reply_silent_ops; [apply reply_silent_default | exact Hops].
Qed.

(* the hypothesis is needed: a handler that answers replies makes two such clients loop *)
Definition h_echo : handler := fun c =>
  match c_source c with
  | Some n => one (send_ctcp_reply (source_id n) (c_command c) (c_text c))
  | None => Ok []
  end.

Example careless_handler_loops :
  let t := table_set (default_table (ex_env true)) (bs "foo") h_echo in
  let e := mk_event (Some (bs "peer")) NOTICE [bs "me"; [1] ++ bs "FOO x" ++ [1]] in
  ctcp_stage t e = Ok [notice (bs "peer") ([1] ++ bs "FOO x" ++ [1])] /\
  (* the peer, running the same table, sees it from us and answers again, for ever *)
  ctcp_stage t (mk_event (Some (bs "me")) NOTICE [bs "peer"; [1] ++ bs "FOO x" ++ [1]])
    = Ok [notice (bs "me") ([1] ++ bs "FOO x" ++ [1])].
Proof. vm_compute. split; reflexivity. Qed.

(* ---- never panics, user tables ------------------------------------------- *)

Definition handler_total (h : handler) : Prop := forall c, exists r, h c = Ok r.
Definition table_total (t : table) : Prop := forall k h, lookup k t = Some h -> handler_total h.

Theorem stage_total_table t e : table_total t -> exists outs, ctcp_stage t e = Ok outs.
Proof.
  intros Ht. unfold ctcp_stage. destruct (decode_total e) as ([c|] & ->); cbn [rbind]; [|eauto].
  rewrite call_structure. unfold run_opt.
  assert (Hw : exists w, match lookup ctcp_wildcard t with Some h => h c | None => Ok [] end = Ok w).
  { destruct (lookup ctcp_wildcard t) as [h|] eqn:E; [exact (Ht _ _ E c) | eauto]. }
  destruct Hw as (w & ->). cbn [rbind].
  destruct (lookup (c_command c) t) as [h|] eqn:E.
  - destruct (Ht _ _ E c) as (r & ->). cbn [rbind]. eauto.
  - cbn [rbind]. eauto.
Qed.

(* clearing a default replier turns its query into an unknown one *)
Example cleared_version_is_unknown :
  ctcp_stage (table_clear (default_table (ex_env true)) (bs "version"))
    (mk_event (Some (bs "nick")) PRIVMSG [bs "me"; [1] ++ bs "VERSION" ++ [1]])
  = Ok [notice (bs "nick") ([1] ++ bs "ERRMSG that is an unknown CTCP query" ++ [1])].
Proof. vm_compute. reflexivity. Qed.

(* a wildcard handler sees every CTCP event first; it does not count as "the" handler of a
   command, so the ERRMSG for an unknown query is still sent after it *)
Example wildcard_then_errmsg :
  ctcp_stage (table_set (default_table (ex_env true)) (bs "*") (fun c => Ok [notice (bs "log") (c_command c)]))
    (mk_event (Some (bs "nick")) PRIVMSG [bs "me"; [1] ++ bs "FOO" ++ [1]])
  = Ok [notice (bs "log") (bs "FOO");
        notice (bs "nick") ([1] ++ bs "ERRMSG that is an unknown CTCP query" ++ [1])].
Proof. vm_compute. reflexivity. Qed.

(* ---- echo-message ---------------------------------------------------------- *)

(* RunHandlers skips the command's ordinary handlers for an echo (a PRIVMSG/NOTICE whose
   source is the client itself) but not the CTCP stage, which does not read Event.Echo: a
   request the client sent and the server echoes back (echo-message), or a CTCP query to
   itself, is answered - to itself -, and that answer, being a NOTICE, ends the exchange. *)
Example echo_is_answered_once :
  let v := ex_env true in
  ctcp_stage (default_table v) (mk_event (Some (bs "me")) PRIVMSG [bs "bob"; [1] ++ bs "PING 42" ++ [1]])
    = Ok [notice (bs "me") ([1] ++ bs "PING 42" ++ [1])] /\
  ctcp_stage (default_table v) (mk_event (Some (bs "me")) NOTICE [bs "me"; [1] ++ bs "PING 42" ++ [1]]) = Ok [].
Proof. vm_compute. split; reflexivity. Qed.
