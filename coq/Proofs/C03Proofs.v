(* C03 — proofs about Event.Bytes / Event.Len / sendLoop (Model/Event.v, Model/Tags.v,
   Model/SendPath.v).  Part 1: no CR/LF, one line, the peer's view of the stream.
   Part 2: Len() is the length of the buffer before cleaning.  Part 3: equality for
   plain events. *)
Require Import Bytes Utf8 AMap WireOut GoUpper Tags Event Commands SendPath WireLines
  OrderLemmas C03Utf8.
From Coq Require Import Lia ZifyBool ZifyN ZifyNat.

Local Open Scope N_scope.

(* ---- Part 1: one line ---------------------------------------------------------- *)

Lemma event_bytes_clean : forall e, event_bytes e = clean (event_raw_bytes e).
Proof. reflexivity. Qed.

Theorem event_bytes_no_crlf : forall e,
  ~ In 13 (event_bytes e) /\ ~ In 10 (event_bytes e) /\ valid_utf8 (event_bytes e) = true.
Proof.
  intro e. rewrite event_bytes_clean.
  destruct (clean_no_crlf (event_raw_bytes e)) as [A B].
  repeat split; [exact A|exact B|apply clean_valid].
Qed.

Lemma cut_lf_aux_line : forall body rest cur, ~ In 10 body ->
  cut_lf_aux (body ++ 10 :: rest) cur = (rev cur ++ body ++ [10]) :: cut_lf_aux rest [].
Proof.
  induction body as [|b r IH]; intros rest cur H.
  - cbn [app cut_lf_aux]. change (10 =? 10) with true. cbn [rev]. reflexivity.
  - cbn [app cut_lf_aux]. destruct (b =? 10) eqn:E.
    + exfalso. apply H. left. apply N.eqb_eq. exact E.
    + rewrite IH by (intro X; apply H; right; exact X).
      cbn [rev]. rewrite <- app_assoc. reflexivity.
Qed.

Theorem one_line : forall mt e,
  wire_line (send_loop_write mt e) (event_bytes (strip_tags mt e)).
Proof.
  intros mt e. destruct (event_bytes_no_crlf (strip_tags mt e)) as (A & B & _).
  split; [reflexivity|split; assumption].
Qed.

Lemma write_split : forall mt e rest,
  send_loop_write mt e ++ rest = (event_bytes (strip_tags mt e) ++ [13]) ++ 10 :: rest.
Proof. intros. unfold send_loop_write, endline. rewrite <- !app_assoc. reflexivity. Qed.

Lemma no10_body13 : forall mt e, ~ In 10 (event_bytes (strip_tags mt e) ++ [13]).
Proof.
  intros mt e H. apply in_app_or in H. destruct H as [H|H].
  - destruct (event_bytes_no_crlf (strip_tags mt e)) as (_ & B & _). exact (B H).
  - cbn in H. destruct H as [H|[]]. discriminate.
Qed.

(* the peer recovers exactly one piece per event, and that piece is the event's line *)
Theorem stream_lines : forall mt es,
  cut_lf (concat (map (send_loop_write mt) es)) = map (send_loop_write mt) es.
Proof.
  intros mt. induction es as [|e es IH]; [reflexivity|].
  cbn [map concat]. rewrite write_split. unfold cut_lf.
  rewrite cut_lf_aux_line by apply no10_body13.
  fold (cut_lf (concat (map (send_loop_write mt) es))). rewrite IH.
  cbn [rev app]. f_equal. unfold send_loop_write, endline. rewrite <- app_assoc. reflexivity.
Qed.

Corollary one_line_cut : forall mt e, cut_lf (send_loop_write mt e) = [send_loop_write mt e].
Proof.
  intros mt e. pose proof (stream_lines mt [e]) as H. cbn [map concat] in H.
  rewrite app_nil_r in H. exact H.
Qed.

(* ---- Part 2: Len() = length of the buffer before cleaning ------------------------ *)

Lemma params_len_ok : forall l, length (params_bytes l) = params_len l.
Proof.
  induction l as [|p r IH]; [reflexivity|]. destruct r as [|q r'].
  - cbn [params_bytes params_len]. destruct (needs_colon p); cbn [app length]; lia.
  - change (params_bytes (p :: q :: r')) with (32 :: p ++ params_bytes (q :: r')).
    change (params_len (p :: q :: r')) with (1 + length p + params_len (q :: r'))%nat.
    cbn [length]. rewrite app_length, IH. lia.
Qed.

Lemma source_len_ok : forall s, length (source_write s) = source_len s.
Proof.
  intros [n i h]. unfold source_write, source_len. cbn [ws_name ws_ident ws_host]. cbv zeta.
  destruct (Nat.ltb 0 (length i)); destruct (Nat.ltb 0 (length h));
    rewrite !app_length; cbn [length]; lia.
Qed.

Lemma tags_loop_prefix : forall m max names cur buf,
  exists suf, tags_bytes_loop m max names cur buf = buf ++ suf.
Proof.
  intros m max. induction names as [|n rest IH]; intros cur buf.
  - exists []. cbn [tags_bytes_loop]. rewrite app_nil_r. reflexivity.
  - cbn [tags_bytes_loop]. cbv zeta.
    match goal with |- exists suf, (if ?c then _ else _) = _ => destruct c end.
    + exists []. rewrite app_nil_r. reflexivity.
    + match goal with |- context [tags_bytes_loop m max rest (S cur) ?b] =>
        destruct (IH (S cur) b) as [suf E]; rewrite E end.
      eexists. rewrite <- app_assoc. reflexivity.
Qed.

Lemma tagmap_bytes_cons : forall x m, exists suf, tagmap_bytes (x :: m) = 64 :: suf.
Proof.
  intros x m. unfold tagmap_bytes.
  destruct (tags_loop_prefix (x :: m) (length (x :: m)) (sort_strs (akeys (x :: m))) 0 [64])
    as [suf E].
  rewrite E. exists suf. reflexivity.
Qed.

Lemma tags_write_length : forall t,
  length (tags_write t) = if Nat.ltb 0 (tags_count t) then (tags_len t + 1)%nat else 0%nat.
Proof.
  intros [m|]; [|reflexivity]. destruct m as [|x m]; [reflexivity|].
  unfold tags_write, tags_len, tags_count, tags_bytes.
  destruct (tagmap_bytes_cons x m) as [suf E]. rewrite E.
  cbn [length Nat.ltb Nat.leb]. rewrite app_length. cbn [length]. lia.
Qed.

Theorem event_len_raw : forall b e, event_len_opts b e = length (event_raw_bytes e).
Proof.
  intros b [t s c ps]. unfold event_len_opts, event_raw_bytes.
  cbn [we_tags we_src we_cmd we_params].
  rewrite !app_length, tags_write_length, params_len_ok.
  destruct (Nat.ltb 0 (tags_count t)); destruct s as [s|]; cbn [length];
    rewrite ?app_length, ?source_len_ok; cbn [length]; lia.
Qed.

Theorem len_ge : forall e, (length (event_bytes e) <= event_len e)%nat.
Proof.
  intro e. unfold event_len. rewrite event_len_raw, event_bytes_clean. apply clean_length.
Qed.

(* ---- Part 3: equality for plain events ------------------------------------------- *)

Lemma plain_nil : plain [].
Proof. split; [reflexivity|split; intros []]. Qed.

Lemma plain_app : forall a b, plain a -> plain b -> plain (a ++ b).
Proof.
  intros a b (Va & A13 & A10) (Vb & B13 & B10). split; [apply valid_app; assumption|].
  split; intro H; apply in_app_or in H; tauto.
Qed.

Lemma plain_ascii : forall c, c < 128 -> c <> 13 -> c <> 10 -> plain [c].
Proof.
  intros c H H13 H10. split; [apply valid_ascii1; exact H|].
  split; intros [E|[]]; congruence.
Qed.

Lemma plain_cons : forall c s, c < 128 -> c <> 13 -> c <> 10 -> plain s -> plain (c :: s).
Proof. intros c s H H13 H10 P. apply (plain_app [c] s); [apply plain_ascii; assumption|exact P]. Qed.

Ltac plain_byte := first [apply plain_ascii; lia | apply plain_cons; [lia|lia|lia|]].

Lemma plain_params : forall l, Forall plain l -> plain (params_bytes l).
Proof.
  induction l as [|p r IH]; intro F; [apply plain_nil|].
  inversion F as [|p' r' Pp Fr]; subst. destruct r as [|q r'].
  - cbn [params_bytes]. plain_byte. apply plain_app; [|exact Pp].
    destruct (needs_colon p); [plain_byte|apply plain_nil].
  - change (params_bytes (p :: q :: r')) with (32 :: p ++ params_bytes (q :: r')).
    plain_byte. apply plain_app; [exact Pp|apply IH; exact Fr].
Qed.

Lemma plain_source_write : forall s, plain_source s -> plain (source_write s).
Proof.
  intros [n i h] (Pn & Pi & Ph). cbn [ws_name ws_ident ws_host] in *. unfold source_write.
  cbn [ws_name ws_ident ws_host].
  apply plain_app; [exact Pn|]. apply plain_app.
  - destruct (Nat.ltb 0 (length i)); [plain_byte; exact Pi|apply plain_nil].
  - destruct (Nat.ltb 0 (length h)); [plain_byte; exact Ph|apply plain_nil].
Qed.

Lemma alookup_in : forall (m : tagmap) k v, alookup k m = Some v -> In (k, v) m.
Proof.
  induction m as [|[k' v'] m IH]; intros k v H; [discriminate|]. cbn [alookup] in H.
  destruct (streqb k k') eqn:E.
  - apply streqb_eq in E. subst k'. injection H as <-. left. reflexivity.
  - right. apply IH. exact H.
Qed.

Lemma akeys_in : forall (m : tagmap) k, In k (akeys m) -> exists v, In (k, v) m.
Proof.
  intros m k H. unfold akeys in H. apply in_map_iff in H. destruct H as ([k' v] & E & I).
  cbn in E. subst k'. exists v. exact I.
Qed.

Lemma plain_tags_loop : forall m max names cur buf,
  Forall (fun kv : str * str => plain (fst kv) /\ plain (snd kv)) m ->
  (forall n, In n names -> In n (akeys m)) ->
  plain buf -> plain (tags_bytes_loop m max names cur buf).
Proof.
  intros m max names. induction names as [|n rest IH]; intros cur buf F Hn Pb.
  - exact Pb.
  - cbn [tags_bytes_loop]. cbv zeta.
    match goal with |- plain (if ?c then _ else _) => destruct c end; [exact Pb|].
    apply IH; [exact F|intros x Hx; apply Hn; right; exact Hx|].
    assert (Pname : plain n).
    { destruct (akeys_in m n (Hn n (or_introl eq_refl))) as [v I].
      rewrite Forall_forall in F. apply (F _ I). }
    assert (Pv : plain (match alookup n m with Some v => v | None => [] end)).
    { destruct (alookup n m) as [v|] eqn:E; [|apply plain_nil].
      rewrite Forall_forall in F. apply (F _ (alookup_in _ _ _ E)). }
    apply plain_app; [exact Pb|]. apply plain_app; [exact Pname|]. apply plain_app.
    + match goal with |- plain (if ?c then _ else _) => destruct c end;
        [plain_byte; exact Pv|apply plain_nil].
    + match goal with |- plain (if ?c then _ else _) => destruct c end;
        [plain_byte|apply plain_nil].
Qed.

Lemma plain_tags_write : forall t, plain_tags t -> plain (tags_write t).
Proof.
  intros [m|] F; [|apply plain_nil]. cbn [plain_tags] in F.
  assert (P : plain (tagmap_bytes m)).
  { unfold tagmap_bytes. destruct m as [|x m']; [apply plain_nil|].
    apply plain_tags_loop; [exact F| |plain_byte].
    intros n Hn. apply (proj1 (sort_strs_in _ n)). exact Hn. }
  unfold tags_write, tags_bytes. destruct (tagmap_bytes m) as [|b0 b'] eqn:E; [apply plain_nil|].
  apply plain_app; [exact P|plain_byte].
Qed.

Lemma plain_raw : forall e, plain_event e -> plain (event_raw_bytes e).
Proof.
  intros [t s c ps] (Pt & Ps & Pc & Pp). cbn [we_tags we_src we_cmd we_params] in *.
  unfold event_raw_bytes. cbn [we_tags we_src we_cmd we_params].
  apply plain_app; [apply plain_tags_write; exact Pt|]. apply plain_app.
  - destruct s as [s|]; [|apply plain_nil]. plain_byte.
    apply plain_app; [apply plain_source_write; exact Ps|plain_byte].
  - apply plain_app; [exact Pc|apply plain_params; exact Pp].
Qed.

(* for a plain event Bytes() is the assembled buffer itself *)
Theorem plain_bytes_raw : forall e, plain_event e -> event_bytes e = event_raw_bytes e.
Proof.
  intros e P. destruct (plain_raw e P) as (V & H13 & H10).
  rewrite event_bytes_clean. apply clean_id; assumption.
Qed.

Theorem len_eq : forall e, plain_event e -> event_len e = length (event_bytes e).
Proof.
  intros e P. unfold event_len. rewrite event_len_raw, (plain_bytes_raw e P). reflexivity.
Qed.

(* the hypotheses of len_eq are satisfiable by an event using every section *)
Example plain_event_example :
  plain_event (mkWEvent (Some [(bs "time", bs "12:00"); (bs "a", [])])
                        (Some (mkWSource (bs "nick") (bs "user") (bs "host")))
                        (bs "PRIVMSG") [bs "#chan"; bs "hello world"]).
Proof.
  assert (P : forall s, (valid_utf8 s && negb (memb 13 s) && negb (memb 10 s))%bool = true -> plain s).
  { intros s H. apply andb_prop in H. destruct H as [H H10]. apply andb_prop in H.
    destruct H as [V H13]. split; [exact V|].
    assert (M : forall c l, memb c l = false -> ~ In c l).
    { intros c l. induction l as [|x l IH]; intros Hm []; cbn [memb] in Hm;
        apply orb_false_elim in Hm; destruct Hm as [Hx Hl].
      - subst. rewrite N.eqb_refl in Hx. discriminate.
      - exact (IH Hl H). }
    split; apply M; [destruct (memb 13 s)|destruct (memb 10 s)]; cbn in *; congruence. }
  repeat split; cbn [we_tags we_src we_cmd we_params plain_tags ws_name ws_ident ws_host];
    repeat constructor; cbn [fst snd]; apply P; vm_compute; reflexivity.
Qed.
