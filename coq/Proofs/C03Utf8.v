(* Lemmas about Lib/Utf8.v (rune_size, valid_utf8, to_valid_utf8 with an empty
   replacement = bytes.ToValidUTF8(b, nil)) and WireOut.strip_crlf, used by C03.
   Main results:
     tv_app_ascii     : an ASCII byte is a barrier for ToValidUTF8
     tv_valid         : the result of ToValidUTF8 is valid UTF-8
     strip_valid      : deleting CR and LF keeps a string valid UTF-8
     tv_id            : ToValidUTF8 is the identity on valid UTF-8
     valid_app        : valid ++ valid is valid
     tv_length, strip_length : neither step ever adds a byte *)
Require Import Bytes Utf8 WireOut.
From Coq Require Import Lia ZifyBool ZifyN ZifyNat Arith Wf_nat.

Local Open Scope N_scope.

Notation tv := (to_valid_utf8 []).

Ltac brk := repeat match goal with
  | H : context [if ?c then _ else _] |- _ => let E := fresh "E" in destruct c eqn:E
  | |- context [if ?c then _ else _] => let E := fresh "E" in destruct c eqn:E
  end.

Ltac rs_unfold := cbv beta iota zeta delta [rune_size in_range is_cont].
Ltac rs_unfold_in H := cbv beta iota zeta delta [rune_size in_range is_cont] in H.

(* ---- strip_crlf -------------------------------------------------------- *)

Lemma strip_app : forall a b, strip_crlf (a ++ b) = strip_crlf a ++ strip_crlf b.
Proof. intros. unfold strip_crlf. apply filter_app. Qed.

Lemma strip_no_crlf : forall s, ~ In 13 (strip_crlf s) /\ ~ In 10 (strip_crlf s).
Proof.
  intros s. unfold strip_crlf. split; intro H; apply filter_In in H; destruct H as [_ H];
    cbv in H; discriminate.
Qed.

Lemma strip_length : forall s, (length (strip_crlf s) <= length s)%nat.
Proof.
  intros. unfold strip_crlf. induction s as [|x r IH]; cbn [filter length]; [lia|].
  destruct (negb ((x =? 10) || (x =? 13))); cbn [length]; lia.
Qed.

Lemma strip_cons_keep : forall x r, x <> 10 -> x <> 13 ->
  strip_crlf (x :: r) = x :: strip_crlf r.
Proof.
  intros x r H10 H13. unfold strip_crlf. cbn [filter].
  destruct (x =? 10) eqn:E1; [lia|]. destruct (x =? 13) eqn:E2; [lia|]. reflexivity.
Qed.

Lemma strip_cons_drop : forall x r, x = 10 \/ x = 13 -> strip_crlf (x :: r) = strip_crlf r.
Proof.
  intros x r H. unfold strip_crlf. cbn [filter].
  destruct (x =? 10) eqn:E1; destruct (x =? 13) eqn:E2; try reflexivity; lia.
Qed.

Lemma strip_id : forall s, ~ In 13 s -> ~ In 10 s -> strip_crlf s = s.
Proof.
  induction s as [|x r IH]; intros H13 H10; [reflexivity|].
  rewrite strip_cons_keep.
  - f_equal. apply IH; intro H; [apply H13 | apply H10]; right; exact H.
  - intro E. apply H10. left. exact E.
  - intro E. apply H13. left. exact E.
Qed.

(* ---- rune_size ---------------------------------------------------------- *)

Lemma rs_nil : rune_size [] = None.
Proof. reflexivity. Qed.

Lemma rs_bounds : forall s n, rune_size s = Some n -> (1 <= n <= 4)%nat /\ (n <= length s)%nat.
Proof.
  intros s n H. destruct s as [|b0 [|b1 [|b2 [|b3 r]]]]; rs_unfold_in H; brk;
    try discriminate; injection H as <-; cbn [length]; lia.
Qed.

Lemma rs_ascii_head : forall c r, c < 128 -> rune_size (c :: r) = Some 1%nat.
Proof. intros c r H. rs_unfold. destruct (c <? 128) eqn:E; [reflexivity|lia]. Qed.

(* rune_size only reads the bytes of the rune it accepts *)
Lemma rs_prefix : forall s n t, rune_size s = Some n -> rune_size (firstn n s ++ t) = Some n.
Proof.
  intros s n t H. destruct s as [|b0 [|b1 [|b2 [|b3 r]]]]; rs_unfold_in H; brk;
    try discriminate; injection H as <-; cbn [firstn app]; rs_unfold; brk; congruence.
Qed.

Lemma rs_app : forall s n t, rune_size s = Some n -> rune_size (s ++ t) = Some n.
Proof.
  intros s n t H. pose proof (rs_prefix s n (skipn n s ++ t) H) as P.
  rewrite app_assoc, firstn_skipn in P. exact P.
Qed.

(* an ASCII byte can not be part of a multi-byte rune: it ends every look-ahead *)
Lemma rs_ascii_break : forall a c b, c < 128 -> a <> [] -> rune_size (a ++ c :: b) = rune_size a.
Proof.
  intros a c b Hc Ha.
  destruct a as [|x [|y [|z [|w a']]]]; [congruence|..]; cbn [app];
    destruct b as [|c1 [|c2 b']]; rs_unfold; brk; try reflexivity; exfalso; lia.
Qed.

(* the accepted rune is one ASCII byte, or consists of bytes >= 128 only *)
Lemma rs_shape : forall s n, rune_size s = Some n ->
  (exists x r, s = x :: r /\ x < 128 /\ n = 1%nat) \/
  (Forall (fun b => 128 <= b) (firstn n s)).
Proof.
  intros s n H. destruct s as [|b0 [|b1 [|b2 [|b3 r]]]]; rs_unfold_in H; brk;
    try discriminate; injection H as <-;
    try (left; do 2 eexists; repeat split; lia);
    right; cbn [firstn]; repeat constructor; lia.
Qed.

Lemma strip_hi : forall l, Forall (fun b => 128 <= b) l -> strip_crlf l = l.
Proof.
  induction 1 as [|x l Hx _ IH]; [reflexivity|].
  rewrite strip_cons_keep by lia. f_equal. exact IH.
Qed.

(* ---- the skip counters of the two scanners ------------------------------ *)

Lemma tva_inrun : forall s k i, to_valid_aux [] s k i = to_valid_aux [] s k false.
Proof.
  intros [|b r] k i; [reflexivity|]. destruct k; cbn [to_valid_aux]; [|reflexivity].
  destruct (rune_size (b :: r)); [reflexivity|]. destruct i; reflexivity.
Qed.

Lemma tva_skip : forall k s i,
  to_valid_aux [] s k i = firstn k s ++ to_valid_aux [] (skipn k s) 0 false.
Proof.
  induction k as [|k IH]; intros s i.
  - cbn [firstn skipn app]. apply tva_inrun.
  - destruct s as [|b r]; [reflexivity|]. cbn [to_valid_aux firstn skipn].
    rewrite <- app_comm_cons. f_equal. apply IH.
Qed.

Lemma va_skip : forall k s, valid_utf8_aux s k = valid_utf8_aux (skipn k s) 0.
Proof.
  induction k as [|k IH]; intros s; [reflexivity|].
  destruct s as [|b r]; [reflexivity|]. cbn [valid_utf8_aux skipn]. apply IH.
Qed.

Lemma tv_nil : tv [] = [].
Proof. reflexivity. Qed.

Lemma tv_step_some : forall b r n, rune_size (b :: r) = Some n ->
  tv (b :: r) = firstn n (b :: r) ++ tv (skipn n (b :: r)).
Proof.
  intros b r n H. pose proof (rs_bounds _ _ H) as [Hn _].
  unfold to_valid_utf8. cbn [to_valid_aux]. rewrite H. rewrite tva_skip.
  destruct n as [|n]; [lia|]. replace (S n - 1)%nat with n by lia.
  cbn [firstn skipn]. reflexivity.
Qed.

Lemma tv_step_none : forall b r, rune_size (b :: r) = None -> tv (b :: r) = tv r.
Proof.
  intros b r H. unfold to_valid_utf8. cbn [to_valid_aux]. rewrite H. cbn [app].
  apply tva_inrun.
Qed.

Lemma valid_nil : valid_utf8 [] = true.
Proof. reflexivity. Qed.

Lemma valid_step_some : forall b r n, rune_size (b :: r) = Some n ->
  valid_utf8 (b :: r) = valid_utf8 (skipn n (b :: r)).
Proof.
  intros b r n H. pose proof (rs_bounds _ _ H) as [Hn _].
  unfold valid_utf8. cbn [valid_utf8_aux]. rewrite H. rewrite va_skip.
  destruct n as [|n]; [lia|]. replace (S n - 1)%nat with n by lia.
  cbn [skipn]. reflexivity.
Qed.

Lemma valid_step_none : forall b r, rune_size (b :: r) = None -> valid_utf8 (b :: r) = false.
Proof. intros b r H. unfold valid_utf8. cbn [valid_utf8_aux]. rewrite H. reflexivity. Qed.

(* ---- rune-wise induction -------------------------------------------------- *)

Lemma rune_ind : forall (P : list N -> Prop),
  P [] ->
  (forall b r n, rune_size (b :: r) = Some n -> P (skipn n (b :: r)) -> P (b :: r)) ->
  (forall b r, rune_size (b :: r) = None -> P r -> P (b :: r)) ->
  forall s, P s.
Proof.
  intros P H0 HS HN s. remember (length s) as m eqn:Hm. revert s Hm.
  induction m as [m IH] using lt_wf_ind. intros [|b r] Hm; [exact H0|].
  destruct (rune_size (b :: r)) as [n|] eqn:E.
  - apply (HS _ _ _ E). pose proof (rs_bounds _ _ E) as [Hn Hl].
    apply (IH (length (skipn n (b :: r)))); [|reflexivity].
    rewrite skipn_length. lia.
  - apply (HN _ _ E). apply (IH (length r)); [|reflexivity]. cbn [length] in Hm. lia.
Qed.

(* ---- main lemmas ---------------------------------------------------------- *)

Lemma firstn_app_le : forall (n : nat) (a b : str), (n <= length a)%nat ->
  firstn n (a ++ b) = firstn n a.
Proof.
  intros n a b H. rewrite firstn_app. replace (n - length a)%nat with 0%nat by lia.
  cbn [firstn]. apply app_nil_r.
Qed.

Lemma skipn_app_le : forall (n : nat) (a b : str), (n <= length a)%nat ->
  skipn n (a ++ b) = skipn n a ++ b.
Proof.
  intros n a b H. rewrite skipn_app. replace (n - length a)%nat with 0%nat by lia.
  reflexivity.
Qed.

Theorem tv_app_ascii : forall c b a, c < 128 -> tv (a ++ c :: b) = tv a ++ c :: tv b.
Proof.
  intros c b a Hc. induction a as [|x r n E IH|x r E IH] using rune_ind.
  - cbn [app]. rewrite (tv_step_some c b 1) by (apply rs_ascii_head; exact Hc).
    reflexivity.
  - pose proof (rs_bounds _ _ E) as [_ Hl].
    assert (E2 : rune_size (x :: (r ++ c :: b)) = Some n).
    { change (x :: (r ++ c :: b)) with ((x :: r) ++ c :: b).
      rewrite rs_ascii_break; [exact E|exact Hc|discriminate]. }
    change ((x :: r) ++ c :: b) with (x :: (r ++ c :: b)).
    rewrite (tv_step_some _ _ _ E2), (tv_step_some _ _ _ E).
    change (x :: (r ++ c :: b)) with ((x :: r) ++ c :: b).
    rewrite firstn_app_le, skipn_app_le by exact Hl.
    rewrite IH. rewrite app_assoc. reflexivity.
  - assert (E2 : rune_size (x :: (r ++ c :: b)) = None).
    { change (x :: (r ++ c :: b)) with ((x :: r) ++ c :: b).
      rewrite rs_ascii_break; [exact E|exact Hc|discriminate]. }
    change ((x :: r) ++ c :: b) with (x :: (r ++ c :: b)).
    rewrite (tv_step_none _ _ E2), (tv_step_none _ _ E). exact IH.
Qed.

Corollary tv_app_ascii_l : forall c b, c < 128 -> tv (c :: b) = c :: tv b.
Proof. intros c b H. apply (tv_app_ascii c b [] H). Qed.

(* a ends with an ASCII byte (or is empty): the scanner is in its initial state after a *)
Lemma tv_app_ascii_end : forall a c b, c < 128 -> tv ((a ++ [c]) ++ b) = tv (a ++ [c]) ++ tv b.
Proof.
  intros a c b H. rewrite <- app_assoc. cbn [app].
  rewrite !tv_app_ascii by exact H. rewrite tv_nil, <- app_assoc. reflexivity.
Qed.

Theorem tv_valid : forall s, valid_utf8 (tv s) = true.
Proof.
  induction s as [|x r n E IH|x r E IH] using rune_ind.
  - reflexivity.
  - rewrite (tv_step_some _ _ _ E). pose proof (rs_bounds _ _ E) as [Hn Hl].
    remember (firstn n (x :: r)) as p eqn:Hp.
    assert (Lp : length p = n) by (subst p; apply firstn_length_le; exact Hl).
    assert (R : rune_size (p ++ tv (skipn n (x :: r))) = Some n)
      by (subst p; apply rs_prefix; exact E).
    destruct p as [|p0 p']; [cbn [length] in Lp; lia|].
    cbn [app] in *. rewrite (valid_step_some _ _ _ R).
    change (p0 :: (p' ++ tv (skipn n (x :: r)))) with ((p0 :: p') ++ tv (skipn n (x :: r))).
    rewrite skipn_app_le by lia. rewrite <- Lp at 1. rewrite skipn_all. exact IH.
  - rewrite (tv_step_none _ _ E). exact IH.
Qed.

Theorem tv_id : forall s, valid_utf8 s = true -> tv s = s.
Proof.
  induction s as [|x r n E IH|x r E IH] using rune_ind; intro V.
  - reflexivity.
  - rewrite (tv_step_some _ _ _ E). rewrite (valid_step_some _ _ _ E) in V.
    rewrite (IH V). apply firstn_skipn.
  - rewrite (valid_step_none _ _ E) in V. discriminate.
Qed.

Theorem tv_length : forall s, (length (tv s) <= length s)%nat.
Proof.
  induction s as [|x r n E IH|x r E IH] using rune_ind.
  - cbn. lia.
  - rewrite (tv_step_some _ _ _ E). rewrite app_length.
    rewrite <- (firstn_skipn n (x :: r)) at 3. rewrite app_length. lia.
  - rewrite (tv_step_none _ _ E). cbn [length]. lia.
Qed.

Theorem valid_app : forall a b, valid_utf8 a = true -> valid_utf8 b = true ->
  valid_utf8 (a ++ b) = true.
Proof.
  intros a b. induction a as [|x r n E IH|x r E IH] using rune_ind; intros Va Vb.
  - exact Vb.
  - pose proof (rs_bounds _ _ E) as [_ Hl].
    rewrite (valid_step_some _ _ _ E) in Va.
    assert (E2 : rune_size (x :: (r ++ b)) = Some n)
      by (change (x :: (r ++ b)) with ((x :: r) ++ b); apply rs_app; exact E).
    change ((x :: r) ++ b) with (x :: (r ++ b)). rewrite (valid_step_some _ _ _ E2).
    change (x :: (r ++ b)) with ((x :: r) ++ b). rewrite skipn_app_le by exact Hl.
    apply IH; assumption.
  - rewrite (valid_step_none _ _ E) in Va. discriminate.
Qed.

Lemma valid_ascii1 : forall c, c < 128 -> valid_utf8 [c] = true.
Proof.
  intros c H. rewrite (valid_step_some c [] 1) by (apply rs_ascii_head; exact H). reflexivity.
Qed.

Theorem strip_valid : forall s, valid_utf8 s = true -> valid_utf8 (strip_crlf s) = true.
Proof.
  induction s as [|x r n E IH|x r E IH] using rune_ind; intro V.
  - reflexivity.
  - rewrite (valid_step_some _ _ _ E) in V. specialize (IH V).
    pose proof (rs_bounds _ _ E) as [Hn Hl].
    rewrite <- (firstn_skipn n (x :: r)). rewrite strip_app.
    destruct (rs_shape _ _ E) as [(x' & r' & Hs & Hx & H1)|Hhi].
    + injection Hs as <- <-. subst n. cbn [firstn].
      apply valid_app; [|exact IH].
      destruct (N.eq_dec x 10) as [->|N10]; [reflexivity|].
      destruct (N.eq_dec x 13) as [->|N13]; [reflexivity|].
      rewrite strip_cons_keep by assumption. apply valid_ascii1. exact Hx.
    + rewrite (strip_hi _ Hhi). remember (firstn n (x :: r)) as p eqn:Hp.
      assert (Lp : length p = n) by (subst p; apply firstn_length_le; exact Hl).
      assert (R : rune_size (p ++ strip_crlf (skipn n (x :: r))) = Some n)
        by (subst p; apply rs_prefix; exact E).
      destruct p as [|p0 p']; [cbn [length] in Lp; lia|].
      cbn [app] in *. rewrite (valid_step_some _ _ _ R).
      change (p0 :: (p' ++ strip_crlf (skipn n (x :: r))))
        with ((p0 :: p') ++ strip_crlf (skipn n (x :: r))).
      rewrite skipn_app_le by lia. rewrite <- Lp at 1. rewrite skipn_all. exact IH.
  - rewrite (valid_step_none _ _ E) in V. discriminate.
Qed.

(* what Event.Bytes does after assembling the buffer *)
Definition clean (s : str) : str := strip_crlf (tv s).

Theorem clean_no_crlf : forall s, ~ In 13 (clean s) /\ ~ In 10 (clean s).
Proof. intros. apply strip_no_crlf. Qed.

Theorem clean_valid : forall s, valid_utf8 (clean s) = true.
Proof. intros. apply strip_valid, tv_valid. Qed.

Theorem clean_length : forall s, (length (clean s) <= length s)%nat.
Proof. intros. unfold clean. pose proof (strip_length (tv s)). pose proof (tv_length s). lia. Qed.

Theorem clean_id : forall s, valid_utf8 s = true -> ~ In 13 s -> ~ In 10 s -> clean s = s.
Proof. intros s V H13 H10. unfold clean. rewrite (tv_id _ V). apply strip_id; assumption. Qed.

Theorem clean_app_ascii : forall a c b, c < 128 ->
  clean (a ++ c :: b) = clean a ++ clean [c] ++ clean b.
Proof.
  intros a c b H. unfold clean. rewrite tv_app_ascii by exact H.
  rewrite strip_app. change (c :: tv b) with ([c] ++ tv b). rewrite strip_app.
  rewrite (tv_app_ascii_l c []) by exact H. reflexivity.
Qed.
