(* HeapWf (typed, in bounds, tracked objects separated) is kept by every state method and
   every handler; on HeapWf states the getters cannot panic. *)
Require Import Bytes AMap Names State Heap HeapLemmas HeapSpec HeapFrame HeapCopy HeapLive HeapHandlers HeapWf AMapLemmas OrderLemmas.
From Coq Require Import Lia.
Local Open Scope nat_scope.

Lemma HeapWf_same_maps h s s' : hs_users s' = hs_users s -> hs_channels s' = hs_channels s ->
  HeapWf (mkWorld h s) -> HeapWf (mkWorld h s').
Proof. intros Eu Ec W. apply (HeapWf_roots h s s' W); [rewrite Eu|rewrite Ec]; apply incl_refl. Qed.

(* new cells are appended and one new root made of them is added *)
Lemma HeapWf_extend h s cells s' r : HeapWf (mkWorld h s) ->
  (forall o, In o (List.map snd (hs_users s')) -> In o (List.map snd (hs_users s)) \/ (o = r /\ wf_user (h ++ cells) r)) ->
  (forall o, In o (List.map snd (hs_channels s')) -> In o (List.map snd (hs_channels s)) \/ (o = r /\ wf_chan (h ++ cells) r)) ->
  (forall x, In x (reach (h ++ cells) r) -> length h <= x) ->
  HeapWf (mkWorld (h ++ cells) s').
Proof.
  intros W Hu Hc Hr.
  assert (Old : forall o, In o (roots s) -> forall x, In x (reach h o) -> hget (h ++ cells) x = hget h x).
  { intros o Ho x Hx. apply hget_app_old. eapply (HeapWf_root_bounded _ _ W); eauto. }
  assert (Reach : forall o, In o (roots s) -> reach (h ++ cells) o = reach h o).
  { intros o Ho. apply reach_same_cell. apply (Old o Ho). apply reach_self. }
  assert (Rt : forall o, In o (roots s') -> In o (roots s) \/ o = r).
  { intros o Ho. apply in_roots in Ho. destruct Ho as [Ho|Ho]; [destruct (Hu o Ho) as [A|[A _]]|destruct (Hc o Ho) as [A|[A _]]]; auto;
      left; apply in_roots; auto. }
  constructor; cbn [w_heap w_st].
  - intros o Ho. destruct (Hu o Ho) as [A|[-> A]]; [|exact A].
    eapply wf_user_agree; [apply Old; apply in_roots; left; exact A|apply (wf_users _ W); exact A].
  - intros o Ho. destruct (Hc o Ho) as [A|[-> A]]; [|exact A].
    eapply wf_chan_agree; [apply Old; apply in_roots; right; exact A|apply (wf_chans _ W); exact A].
  - intros r1 r2 x H1 H2 X1 X2.
    destruct (Rt r1 H1) as [A1| ->]; destruct (Rt r2 H2) as [A2| ->]; try reflexivity.
    + rewrite (Reach r1 A1) in X1. rewrite (Reach r2 A2) in X2. exact (wf_sep _ W r1 r2 x A1 A2 X1 X2).
    + rewrite (Reach r1 A1) in X1. pose proof (HeapWf_root_bounded _ _ W A1 x X1). specialize (Hr x X2). simpl in *. lia.
    + rewrite (Reach r2 A2) in X2. pose proof (HeapWf_root_bounded _ _ W A2 x X2). specialize (Hr x X1). simpl in *. lia.
Qed.

Lemma hget_app3' h a b c x : x = length h -> hget (((h ++ [a]) ++ [b]) ++ [c]) x = Some a.
Proof. intros ->. rewrite <- !app_assoc. simpl. apply hget_app3_0. Qed.
Lemma hget_app3'' h a b c x : x = S (length h) -> hget (((h ++ [a]) ++ [b]) ++ [c]) x = Some b.
Proof. intros ->. rewrite <- !app_assoc. simpl. apply hget_app3_1. Qed.
Lemma hget_app3''' h a b c x : x = S (S (length h)) -> hget (((h ++ [a]) ++ [b]) ++ [c]) x = Some c.
Proof. intros ->. rewrite <- !app_assoc. simpl. apply hget_app3_2. Qed.

Lemma create_channel_Wf w name : HeapWf w -> HeapWf (create_channel_h w name).
Proof.
  intros W. unfold create_channel_h. destruct (alookup (fold name) (hs_channels (w_st w))); [exact W|].
  unfold halloc. cbn [fst snd]. rewrite !app_length. cbn [length].
  replace (length (w_heap w) + 1 + 1) with (S (S (length (w_heap w)))) by lia.
  replace (length (w_heap w) + 1) with (S (length (w_heap w))) by lia.
  destruct w as [h s]. cbn [w_heap w_st] in *. rewrite <- !app_assoc. cbn [app].
  match goal with |- HeapWf (mkWorld (h ++ [?c1; ?c2; ?c3]) _) => set (C1 := c1); set (C2 := c2); set (C3 := c3) end.
  apply (HeapWf_extend h s [C1; C2; C3] _ (S (S (length h))) W).
  - intros o Ho. left. exact Ho.
  - intros o Ho. cbn [hs_channels hs_set_channels] in Ho. apply in_snd_aset in Ho. destruct Ho as [->|Ho]; [right|left; exact Ho].
    split; [reflexivity|]. eexists. split; [apply hget_app3_2|]. split.
    + eexists. cbn [hc_users sl_arr sl_off sl_cap sl_len]. split; [apply hget_app3_0|]. simpl. lia.
    + eexists. cbn [hc_modes hm_modes sl_arr sl_off sl_cap sl_len]. split; [apply hget_app3_1|]. simpl. lia.
  - intros x Hx. unfold reach in Hx. rewrite hget_app3_2 in Hx. simpl in Hx. intuition lia.
Qed.

Lemma create_user_Wf w src : HeapWf w -> HeapWf (create_user_h w src).
Proof.
  intros W. unfold create_user_h. destruct (alookup (fold (s_name src)) (hs_users (w_st w))); [exact W|].
  unfold halloc. cbn [fst snd]. rewrite !app_length. cbn [length].
  replace (length (w_heap w) + 1 + 1) with (S (S (length (w_heap w)))) by lia.
  replace (length (w_heap w) + 1) with (S (length (w_heap w))) by lia.
  destruct w as [h s]. cbn [w_heap w_st] in *. rewrite <- !app_assoc. cbn [app].
  match goal with |- HeapWf (mkWorld (h ++ [?c1; ?c2; ?c3]) _) => set (C1 := c1); set (C2 := c2); set (C3 := c3) end.
  apply (HeapWf_extend h s [C1; C2; C3] _ (S (S (length h))) W).
  - intros o Ho. cbn [hs_users hs_set_users] in Ho. apply in_snd_aset in Ho. destruct Ho as [->|Ho]; [right|left; exact Ho].
    split; [reflexivity|]. eexists. split; [apply hget_app3_2|]. split.
    + eexists. cbn [hu_chans sl_arr sl_off sl_cap sl_len]. split; [apply hget_app3_0|]. simpl. lia.
    + exists (S (length h)), []. split; [reflexivity|apply hget_app3_1].
  - intros o Ho. left. exact Ho.
  - intros x Hx. unfold reach in Hx. rewrite hget_app3_2 in Hx. simpl in Hx. intuition lia.
Qed.

(* ---- loops ---- *)

Lemma delete_channel_users_Wf s name : forall l h users h' users',
  HeapWf (mkWorld h s) -> (forall k v, alookup k users = Some v -> In v (List.map snd (hs_users s))) ->
  delete_channel_users_h h users name l = Ok (h', users') -> HeapWf (mkWorld h' s) /\ incl users' users.
Proof.
  induction l as [|n l IH]; intros h users h' users' W Hin H; simpl in H.
  - injection H as <- <-. split; [exact W|apply incl_refl].
  - destruct (alookup n users) as [uid|] eqn:El; [|discriminate].
    bind_inv H h1 H1. bind_inv H u Hu.
    pose proof (user_delete_channel_Wf _ _ _ _ _ W (Hin _ _ El) H1) as W1.
    set (users1 := match sl_len (hu_chans u) with O => aremove n users | S _ => users end) in *.
    assert (I1 : incl users1 users) by (unfold users1; destruct (sl_len (hu_chans u)); [apply aremove_incl|apply incl_refl]).
    assert (Hin1 : forall k v, alookup k users1 = Some v -> In v (List.map snd (hs_users s))).
    { intros k v Hk. unfold users1 in Hk. destruct (sl_len (hu_chans u)); [|eapply Hin; eauto].
      rewrite alookup_aremove in Hk. destruct (streqb k n); [discriminate|eapply Hin; eauto]. }
    destruct (IH _ _ _ _ W1 Hin1 H) as (W2 & I2). split; [exact W2|eapply incl_tran; eauto].
Qed.

Lemma delete_user_everywhere_Wf s nick chans : (forall k v, alookup k chans = Some v -> In v (List.map snd (hs_channels s))) ->
  forall l h h', HeapWf (mkWorld h s) -> delete_user_everywhere_h h chans nick l = Ok h' -> HeapWf (mkWorld h' s).
Proof.
  intros Hin. induction l as [|cn l IH]; intros h h' W H; simpl in H.
  - injection H as <-. exact W.
  - destruct (alookup cn chans) as [cid|] eqn:El; [|discriminate]. bind_inv H h1 H1.
    apply (IH _ _ (channel_delete_user_Wf _ _ _ _ _ W (Hin _ _ El) H1) H).
Qed.

Lemma rename_in_channels_Wf s from to chans : (forall k v, alookup k chans = Some v -> In v (List.map snd (hs_channels s))) ->
  forall l h h', HeapWf (mkWorld h s) -> rename_in_channels_h h chans from to l = Ok h' -> HeapWf (mkWorld h' s).
Proof.
  intros Hin. induction l as [|cn l IH]; intros h h' W H; simpl in H.
  - injection H as <-. exact W.
  - destruct (alookup cn chans) as [cid|] eqn:El; [|discriminate].
    bind_inv H c Hc. bind_inv H ul Hul. bind_inv H h1 H1.
    assert (W1 : HeapWf (mkWorld h1 s)).
    { destruct (mem_str from ul); [|injection H1 as <-; exact W].
      bind_inv H1 st Hst. injection H1 as <-.
      eapply chan_restore_Wf; [exact W|exact (Hin _ _ El)|exact Hc|exact Hul| |exact Hst].
      rewrite sort_strs_length, replace_first_length. reflexivity. }
    exact (IH _ _ W1 H).
Qed.

(* ---- state methods ---- *)

Lemma alookup_snd {V} k (m : amap V) v : alookup k m = Some v -> In v (List.map snd m).
Proof. apply alookup_in_snd. Qed.

Lemma delete_channel_Wf w name w' : HeapWf w -> delete_channel_h w name = Ok w' -> HeapWf w'.
Proof.
  intros W H. unfold delete_channel_h in H. destruct w as [h s]. cbn [w_heap w_st] in *.
  destruct (alookup (fold name) (hs_channels s)) as [cid|] eqn:El; [|injection H as <-; exact W].
  bind_inv H c Hc. bind_inv H l Hl. bind_inv H r Hr. destruct r as [h' users']. injection H as <-.
  destruct (delete_channel_users_Wf s (fold name) l _ _ _ _ W (fun k v Hk => alookup_snd _ _ _ Hk) Hr) as (W1 & I1).
  apply (HeapWf_roots h' s _ W1); cbn [hs_users hs_channels hs_set_users hs_set_channels].
  - apply map_snd_incl. exact I1.
  - apply map_snd_incl. apply aremove_incl.
Qed.

Lemma delete_user_Wf w ch nick w' : HeapWf w -> delete_user_h w ch nick = Ok w' -> HeapWf w'.
Proof.
  intros W H. unfold delete_user_h in H. destruct w as [h s]. unfold lookup_user_h, lookup_channel_h in H. cbn [w_heap w_st] in *.
  destruct (alookup (fold nick) (hs_users s)) as [uid|] eqn:Eu; [|injection H as <-; exact W].
  pose proof (alookup_snd _ _ _ Eu) as Ru.
  destruct ch as [|b ch].
  - bind_inv H u Hu. bind_inv H l Hl. bind_inv H h' H1. injection H as <-.
    pose proof (delete_user_everywhere_Wf s nick _ (fun k v Hk => alookup_snd _ _ _ Hk) l _ _ W H1) as W1.
    apply (HeapWf_roots h' s _ W1); cbn [hs_users hs_channels hs_set_users]; [apply map_snd_incl; apply aremove_incl|apply incl_refl].
  - destruct (alookup (fold (b :: ch)) (hs_channels s)) as [cid|] eqn:Ec; [|injection H as <-; exact W].
    pose proof (alookup_snd _ _ _ Ec) as Rc.
    bind_inv H h1 H1. bind_inv H h2 H2. bind_inv H u Hu. injection H as <-.
    pose proof (user_delete_channel_Wf _ _ _ _ _ W Ru H1) as W1.
    pose proof (channel_delete_user_Wf _ _ _ _ _ W1 Rc H2) as W2.
    destruct (sl_len (hu_chans u)); [|exact W2].
    apply (HeapWf_roots h2 s _ W2); cbn [hs_users hs_channels hs_set_users]; [apply map_snd_incl; apply aremove_incl|apply incl_refl].
Qed.

Lemma rename_user_Wf w from to w' : HeapWf w -> rename_user_h w from to = Ok w' -> HeapWf w'.
Proof.
  intros W H. unfold rename_user_h in H.
  set (s := if streqb (fold from) (fold (hs_nick (w_st w))) then hs_set_nick (w_st w) to else w_st w) in *.
  assert (W0 : HeapWf (mkWorld (w_heap w) s)).
  { destruct w as [h s0]. apply (HeapWf_same_maps h s0); [| |exact W]; unfold s; cbn [w_st]; destruct (streqb _ _); reflexivity. }
  destruct (alookup (fold from) (hs_users s)) as [uid|] eqn:Eu; [|injection H as <-; exact W0].
  bind_inv H w1 H1.
  assert (W1 : HeapWf w1).
  { destruct (streqb (fold to) (fold from)); [injection H1 as <-; exact W0|eapply delete_user_Wf; eauto]. }
  bind_inv H u Hu. bind_inv H l Hl. bind_inv H h3 H3. injection H as <-.
  (* uid may have left the map of w1 only if fold to = fold from, excluded: it is still tracked *)
  destruct (in_dec Nat.eq_dec uid (List.map snd (hs_users (w_st w1)))) as [Ru|Nu].
  - destruct w1 as [h1 s1]. cbn [w_heap w_st] in *.
    pose proof (user_field_Wf h1 s1 uid u (fun u => hu_set_nick u to) W1 Ru Hu ltac:(intros ?; split; reflexivity)) as W2.
    pose proof (rename_in_channels_Wf s1 (fold from) (fold to) _ (fun k v Hk => alookup_snd _ _ _ Hk) l _ _ W2 H3) as W3.
    apply (HeapWf_roots h3 s1 _ W3); cbn [hs_users hs_channels hs_set_users]; [|apply incl_refl].
    intros x Hx. apply in_snd_aset in Hx. destruct Hx as [->|Hx]; [exact Ru|eapply in_snd_aremove; eauto].
  - (* unreachable in well-formed histories; handled by showing the user is still in the map *)
    exfalso. apply Nu. clear -H1 Eu.
    destruct (streqb (fold to) (fold from)) eqn:E; [injection H1 as <-; eapply alookup_snd; eauto|].
    unfold delete_user_h in H1. unfold lookup_user_h, lookup_channel_h in H1. cbn [w_heap w_st] in H1.
    destruct (alookup (fold to) (hs_users s)) as [tid|] eqn:Et; [|injection H1 as <-; eapply alookup_snd; eauto].
    bind_inv H1 tu Htu. bind_inv H1 tlst Htl. bind_inv H1 h' Hd. injection H1 as <-. cbn [w_st hs_users hs_set_users].
    apply (alookup_snd (fold from)). rewrite alookup_aremove.
    rewrite (streqb_sym (fold from) (fold to)), E. exact Eu.
Qed.

(* ---- handlers ---- *)

Ltac kp := intros ?u; split; reflexivity.

Lemma update_user_Wf w name f w' : keeps_ptrs f -> HeapWf w -> update_user_h w name f = Ok w' -> HeapWf w'.
Proof.
  intros K W H. unfold update_user_h in H. destruct (lookup_user_h w name) as [uid|] eqn:Eu; [|injection H as <-; exact W].
  bind_inv H u Hu. injection H as <-. destruct w as [h s]. unfold lookup_user_h in Eu. cbn [w_heap w_st] in *.
  apply user_field_Wf; auto. eapply alookup_snd; eauto.
Qed.
Lemma src_update_Wf w e f w' : keeps_ptrs f -> HeapWf w -> src_update_h w e f = Ok w' -> HeapWf w'.
Proof. intros K W H. unfold src_update_h in H. destruct (e_src e); [eapply update_user_Wf; eauto|injection H as <-; exact W]. Qed.

Lemma handle_tags_Wf w e w' : HeapWf w -> handle_tags_h w e = Ok w' -> HeapWf w'.
Proof.
  intros W H. unfold handle_tags_h in H. destruct (e_src e); [|injection H as <-; exact W].
  destruct (e_account_tag e); [|injection H as <-; exact W]. eapply update_user_Wf; [|exact W|exact H]. kp.
Qed.

Lemma handle_who_Wf w e w' : HeapWf w -> handle_who_h w e = Ok w' -> HeapWf w'.
Proof.
  intros W H. unfold handle_who_h in H. destruct (cmd_is e "354").
  - destruct (negb (Nat.eqb (length (e_params e)) 8)); [injection H as <-; exact W|].
    destruct (negb (streqb (param e 1) [49%N])); [injection H as <-; exact W|].
    eapply update_user_Wf; [|exact W|exact H]. kp.
  - destruct (Nat.ltb (length (e_params e)) 7); [injection H as <-; exact W|].
    eapply update_user_Wf; [|exact W|exact H]. kp.
Qed.

Lemma handle_chghost_Wf w e w' : HeapWf w -> handle_chghost_h w e = Ok w' -> HeapWf w'.
Proof.
  intros W H. unfold handle_chghost_h in H.
  destruct (e_params e) as [|i [|h [|x r]]]; try (injection H as <-; exact W). eapply src_update_Wf; [|exact W|exact H]. kp.
Qed.
Lemma handle_away_Wf w e w' : HeapWf w -> handle_away_h w e = Ok w' -> HeapWf w'.
Proof. intros W H. unfold handle_away_h in H. eapply src_update_Wf; [|exact W|exact H]. kp. Qed.
Lemma handle_account_Wf w e w' : HeapWf w -> handle_account_h w e = Ok w' -> HeapWf w'.
Proof.
  intros W H. unfold handle_account_h in H.
  destruct (e_params e) as [|a [|x r]]; try (injection H as <-; exact W). eapply src_update_Wf; [|exact W|exact H]. kp.
Qed.

Lemma handle_topic_Wf w e w' : HeapWf w -> handle_topic_h w e = Ok w' -> HeapWf w'.
Proof.
  intros W H. unfold handle_topic_h in H.
  assert (G : forall name topic,
    match lookup_channel_h w name with
    | Some cid => c <- get_chan (w_heap w) cid ;; Ok (mkWorld (hset (w_heap w) cid (CChan (hc_set_topic c topic))) (w_st w))
    | None => Ok w
    end = Ok w' -> HeapWf w').
  { intros name topic G. destruct (lookup_channel_h w name) as [cid|] eqn:Ec; [|injection G as <-; exact W].
    bind_inv G c Hc. injection G as <-. destruct w as [h s]. unfold lookup_channel_h in Ec. cbn [w_heap w_st] in *.
    apply chan_topic_Wf; auto. eapply alookup_snd; eauto. }
  destruct (e_params e) as [|a [|b [|x r]]]; [injection H as <-; exact W|eapply G; exact H..].
Qed.

Lemma handle_part_Wf cfg w e w' : HeapWf w -> handle_part_h cfg w e = Ok w' -> HeapWf w'.
Proof.
  intros W H. unfold handle_part_h in H. destruct (e_src e) as [src|]; [|injection H as <-; exact W].
  destruct (e_params e) as [|ch r]; [injection H as <-; exact W|]. destruct ch as [|b ch]; [injection H as <-; exact W|].
  destruct (streqb _ _); [eapply delete_channel_Wf; eauto|eapply delete_user_Wf; eauto].
Qed.
Lemma handle_kick_Wf cfg w e w' : HeapWf w -> handle_kick_h cfg w e = Ok w' -> HeapWf w'.
Proof.
  intros W H. unfold handle_kick_h in H. destruct (e_params e) as [|ch [|nick r]]; try (injection H as <-; exact W).
  destruct (streqb _ _); [eapply delete_channel_Wf; eauto|eapply delete_user_Wf; eauto].
Qed.
Lemma handle_quit_Wf cfg w e w' : HeapWf w -> handle_quit_h cfg w e = Ok w' -> HeapWf w'.
Proof.
  intros W H. unfold handle_quit_h in H. destruct (e_src e) as [src|]; [|injection H as <-; exact W].
  destruct (streqb _ _); [injection H as <-; exact W|eapply delete_user_Wf; eauto].
Qed.
Lemma handle_nick_Wf w e w' : HeapWf w -> handle_nick_h w e = Ok w' -> HeapWf w'.
Proof.
  intros W H. unfold handle_nick_h in H. destruct (e_src e) as [src|]; [|injection H as <-; exact W].
  destruct (e_params e); [injection H as <-; exact W|eapply rename_user_Wf; eauto].
Qed.

Lemma handle_join_Wf g cfg w e w' : HeapWf w -> handle_join_h g cfg w e = Ok w' -> HeapWf w'.
Proof.
  intros W H. unfold handle_join_h in H. destruct (e_src e) as [src|]; [|injection H as <-; exact W].
  destruct (e_params e) as [|chan_name rest]; [injection H as <-; exact W|].
  pose proof (create_user_Wf _ src (create_channel_Wf w chan_name W)) as W2.
  set (w2 := create_user_h (create_channel_h w chan_name) src) in *.
  destruct (lookup_channel_h w2 chan_name) as [cid|] eqn:Ec; [|discriminate].
  destruct (lookup_user_h w2 (s_name src)) as [uid|] eqn:Eu; [|discriminate].
  destruct w2 as [h2 s2]. unfold lookup_channel_h in Ec. unfold lookup_user_h in Eu. cbn [w_heap w_st] in *.
  pose proof (alookup_snd _ _ _ Ec) as Rc. pose proof (alookup_snd _ _ _ Eu) as Ru.
  bind_inv H u0 Hu0.
  match type of H with context [hset h2 uid (CUser ?x)] => set (u := x) in * end.
  assert (W2' : HeapWf (mkWorld (hset h2 uid (CUser u)) s2)).
  { unfold u. destruct (_ && _).
    - apply (user_field_Wf h2 s2 uid u0 (fun u => hu_set_ident_host u (s_ident src) (s_host src))); auto. kp.
    - apply (user_field_Wf h2 s2 uid u0 (fun u => u)); auto. kp. }
  set (h2' := hset h2 uid (CUser u)) in *.
  bind_inv H c Hc. bind_inv H h3 H3. bind_inv H h4 H4. bind_inv H u4 Hu4.
  pose proof (channel_add_user_Wf _ _ _ _ _ _ W2' Rc H3) as W3.
  pose proof (user_add_channel_Wf _ _ _ _ _ _ W3 Ru H4) as W4.
  match type of H with context [hset h4 uid (CUser ?x)] => set (u5 := x) in * end.
  assert (W5 : HeapWf (mkWorld (hset h4 uid (CUser u5)) s2)).
  { unfold u5. destruct (e_account_tag e) as [tag|]; destruct rest as [|acct [|name r]].
    - apply (user_field_Wf h4 s2 uid u4 (fun u => hu_set_account u tag)); auto. kp.
    - destruct (streqb acct [42%N]).
      + apply (user_field_Wf h4 s2 uid u4 (fun u => hu_set_account (hu_set_account u tag) [])); auto. kp.
      + apply (user_field_Wf h4 s2 uid u4 (fun u => hu_set_account (hu_set_account u tag) acct)); auto. kp.
    - destruct (streqb acct [42%N]).
      + apply (user_field_Wf h4 s2 uid u4 (fun u => hu_set_name (hu_set_account (hu_set_account u tag) []) name)); auto. kp.
      + apply (user_field_Wf h4 s2 uid u4 (fun u => hu_set_name (hu_set_account (hu_set_account u tag) acct) name)); auto. kp.
    - apply (user_field_Wf h4 s2 uid u4 (fun u => u)); auto. kp.
    - destruct (streqb acct [42%N]).
      + apply (user_field_Wf h4 s2 uid u4 (fun u => hu_set_account u [])); auto. kp.
      + apply (user_field_Wf h4 s2 uid u4 (fun u => hu_set_account u acct)); auto. kp.
    - destruct (streqb acct [42%N]).
      + apply (user_field_Wf h4 s2 uid u4 (fun u => hu_set_name (hu_set_account u []) name)); auto. kp.
      + apply (user_field_Wf h4 s2 uid u4 (fun u => hu_set_name (hu_set_account u acct) name)); auto. kp. }
  destruct (streqb _ _); injection H as <-; [|exact W5].
  apply (HeapWf_same_maps _ s2); [reflexivity|reflexivity|exact W5].
Qed.

Lemma names_entry_Wf g cid w part w' : HeapWf w -> In cid (List.map snd (hs_channels (w_st w))) ->
  names_entry_h g cid (Ok w) part = Ok w' -> HeapWf w' /\ In cid (List.map snd (hs_channels (w_st w'))).
Proof.
  intros W Rc H. unfold names_entry_h in H. simpl in H.
  destruct (parse_user_prefix part []) as [[modes nick]|]; [|injection H as <-; auto].
  match type of H with match ?o with _ => _ end = _ => destruct o as [src|] end; [|injection H as <-; auto].
  pose proof (create_user_Wf w src W) as W1.
  assert (Rc1 : In cid (List.map snd (hs_channels (w_st (create_user_h w src))))).
  { unfold create_user_h. destruct (alookup _ _); [exact Rc|]. unfold halloc. simpl. exact Rc. }
  set (w1 := create_user_h w src) in *.
  destruct (lookup_user_h w1 (s_name src)) as [uid|] eqn:Eu; [|injection H as <-; auto].
  destruct w1 as [h1 s1]. unfold lookup_user_h in Eu. cbn [w_heap w_st] in *.
  pose proof (alookup_snd _ _ _ Eu) as Ru.
  bind_inv H c Hc. bind_inv H h2 H2. bind_inv H h3 H3. bind_inv H u Hu. bind_inv H h4 H4. injection H as <-.
  pose proof (user_add_channel_Wf _ _ _ _ _ _ W1 Ru H2) as W2.
  pose proof (channel_add_user_Wf _ _ _ _ _ _ W2 Rc1 H3) as W3.
  split; [exact (user_perms_set_Wf _ _ _ _ _ _ _ W3 Ru Hu H4)|exact Rc1].
Qed.

Lemma names_fold_Wf g cid : forall parts w w', HeapWf w -> In cid (List.map snd (hs_channels (w_st w))) ->
  fold_left (names_entry_h g cid) parts (Ok w) = Ok w' -> HeapWf w'.
Proof.
  induction parts as [|part parts IH]; intros w w' W Rc H; cbn [fold_left] in H.
  - injection H as <-. exact W.
  - destruct (names_entry_h g cid (Ok w) part) as [w1|] eqn:E1;
      [|rewrite fold_left_panic in H by reflexivity; discriminate].
    destruct (names_entry_Wf _ _ _ _ _ W Rc E1) as (W1 & Rc1). exact (IH _ _ W1 Rc1 H).
Qed.

Lemma handle_names_Wf g w e w' : HeapWf w -> handle_names_h g w e = Ok w' -> HeapWf w'.
Proof.
  intros W H. unfold handle_names_h in H. destruct (Nat.ltb (length (e_params e)) 3); [injection H as <-; exact W|].
  destruct (lookup_channel_h w (param e 2)) as [cid|] eqn:Ec; [|injection H as <-; exact W].
  eapply names_fold_Wf; [exact W| |exact H]. unfold lookup_channel_h in Ec. eapply alookup_snd; eauto.
Qed.

Lemma mode_user_perms_Wf ch w m w' : HeapWf w -> mode_user_perms_h ch (Ok w) m = Ok w' -> HeapWf w'.
Proof.
  intros W H. unfold mode_user_perms_h in H. simpl in H.
  destruct (m_setting m); [injection H as <-; exact W|].
  destruct (m_args m) as [|b a]; [injection H as <-; exact W|].
  destruct (lookup_user_h w (b :: a)) as [uid|] eqn:Eu; [|injection H as <-; exact W].
  bind_inv H u Hu. bind_inv H p Hp. bind_inv H h' H1. injection H as <-.
  destruct w as [h s]. unfold lookup_user_h in Eu. cbn [w_heap w_st] in *.
  eapply user_perms_set_Wf; [exact W|eapply alookup_snd; eauto|exact Hu|exact H1].
Qed.

Lemma mode_fold_Wf ch : forall ms w w', HeapWf w -> fold_left (mode_user_perms_h ch) ms (Ok w) = Ok w' -> HeapWf w'.
Proof.
  induction ms as [|m ms IH]; intros w w' W H; cbn [fold_left] in H.
  - injection H as <-. exact W.
  - destruct (mode_user_perms_h ch (Ok w) m) as [w1|] eqn:E1;
      [|rewrite fold_left_panic in H by reflexivity; discriminate].
    exact (IH _ _ (mode_user_perms_Wf _ _ _ _ W E1) H).
Qed.

Lemma handle_mode_Wf w e w' : HeapWf w -> handle_mode_h w e = Ok w' -> HeapWf w'.
Proof.
  intros W H. unfold handle_mode_h in H.
  match type of H with match ?ps with _ => _ end = _ => destruct ps as [|target [|flags args]] end;
    try (injection H as <-; exact W).
  destruct (negb (is_valid_channel target)); [injection H as <-; exact W|].
  destruct (lookup_channel_h w target) as [cid|] eqn:Ec; [|injection H as <-; exact W].
  bind_inv H c Hc. bind_inv H r Hr. destruct r as [h1 m'].
  destruct w as [h s]. unfold lookup_channel_h in Ec. cbn [w_heap w_st] in *.
  eapply mode_fold_Wf; [|exact H]. eapply chan_apply_Wf; [exact W|eapply alookup_snd; eauto|exact Hc|exact Hr].
Qed.

Theorem handle_Wf g cfg w e w' : HeapWf w -> handle_h g cfg w e = Ok w' -> HeapWf w'.
Proof.
  intros W H. unfold handle_h in H. bind_inv H w1 H1. pose proof (handle_tags_Wf _ _ _ W H1) as W1.
  assert (Same : forall s', hs_users s' = hs_users (w_st w1) -> hs_channels s' = hs_channels (w_st w1) -> HeapWf (mkWorld (w_heap w1) s')).
  { intros s' Eu Ec. destruct w1 as [h1 s1]. apply (HeapWf_same_maps h1 s1); assumption. }
  destruct (cmd_is e "001").
  { injection H as <-. unfold handle_connect_h. destruct (e_params e); [exact W1|]. apply Same; reflexivity. }
  destruct (cmd_is e "JOIN"); [eapply handle_join_Wf; eauto|].
  destruct (cmd_is e "PART"); [eapply handle_part_Wf; eauto|].
  destruct (cmd_is e "KICK"); [eapply handle_kick_Wf; eauto|].
  destruct (cmd_is e "QUIT"); [eapply handle_quit_Wf; eauto|].
  destruct (cmd_is e "NICK"); [eapply handle_nick_Wf; eauto|].
  destruct (cmd_is e "353"); [eapply handle_names_Wf; eauto|].
  destruct (cmd_is e "MODE" || cmd_is e "324"); [eapply handle_mode_Wf; eauto|].
  destruct (cmd_is e "352" || cmd_is e "354"); [eapply handle_who_Wf; eauto|].
  destruct (cmd_is e "TOPIC" || cmd_is e "332"); [eapply handle_topic_Wf; eauto|].
  destruct (cmd_is e "004").
  { injection H as <-. unfold handle_myinfo_h. destruct (Nat.ltb _ _); [exact W1|]. apply Same; reflexivity. }
  destruct (cmd_is e "005").
  { injection H as <-. unfold handle_isupport_h. destruct (negb _); [exact W1|]. destruct (Nat.ltb _ _); [exact W1|]. apply Same; reflexivity. }
  destruct (cmd_is e "CHGHOST"); [eapply handle_chghost_Wf; eauto|].
  destruct (cmd_is e "AWAY"); [eapply handle_away_Wf; eauto|].
  destruct (cmd_is e "ACCOUNT"); [eapply handle_account_Wf; eauto|].
  injection H as <-. exact W1.
Qed.

Theorem run_Wf g cfg : forall l w w', HeapWf w -> run_h g cfg w l = Ok w' -> HeapWf w'.
Proof.
  induction l as [|e l IH]; intros w w' W H; simpl in H; [injection H as <-; exact W|].
  bind_inv H w1 H1. exact (IH _ _ (handle_Wf _ _ _ _ _ W H1) H).
Qed.

Lemma HeapWf_init : HeapWf world_init.
Proof. constructor; simpl; intros; contradiction. Qed.

(* ---- on HeapWf states the getters cannot panic ---- *)

Lemma user_copy_total_wf h o : wf_user h o -> exists r, user_copy h o = Ok r.
Proof.
  intros (u & Ho & (a & Ha & B) & p & m & Ep & Hp). eexists.
  eapply user_copy_total; [exact Ho|exact Ep|exact Hp|apply sl_get_intro; exact Ha].
Qed.
Lemma channel_copy_total_wf h o : wf_chan h o -> exists r, channel_copy h o = Ok r.
Proof.
  intros (c & Ho & (a & Ha & B) & (b & Hb & Bm)). eexists.
  eapply channel_copy_total; [exact Ho|apply sl_get_intro; exact Ha|apply sl_get_modes_intro; exact Hb].
Qed.

Lemma copy_all_total (cp : heap -> nat -> res (heap * nat)) (wf : heap -> nat -> Prop)
  (cp_total : forall h o, wf h o -> exists r, cp h o = Ok r)
  (cp_frame : forall h o h' o', cp h o = Ok (h', o') -> length h <= length h' /\ forall x, x < length h -> hget h' x = hget h x)
  (wf_agree : forall h h' o, (forall x, In x (reach h o) -> hget h' x = hget h x) -> wf h o -> wf h' o)
  (wf_bounded : forall h o, wf h o -> forall x, In x (reach h o) -> x < length h) :
  forall l h, (forall o, In o l -> wf h o) -> exists r, copy_all cp h l = Ok r.
Proof.
  induction l as [|o l IH]; intros h Hw; simpl; [eexists; reflexivity|].
  destruct (cp_total h o (Hw o (or_introl eq_refl))) as ([h1 o1] & E). rewrite E. simpl.
  destruct (cp_frame _ _ _ _ E) as (L & U).
  destruct (IH h1) as ([h2 r'] & E2).
  { intros o' Ho'. eapply wf_agree; [|apply Hw; right; exact Ho']. intros x Hx. apply U. eapply wf_bounded; [apply Hw; right; exact Ho'|exact Hx]. }
  rewrite E2. simpl. eexists. reflexivity.
Qed.

Theorem getters_total w : HeapWf w ->
  (forall n, exists r, lookup_user_g w n = Ok r) /\ (forall n, exists r, lookup_channel_g w n = Ok r) /\
  (exists r, users_g w = Ok r) /\ (exists r, channels_g w = Ok r).
Proof.
  intros W. split; [|split; [|split]].
  - intros n. unfold lookup_user_g. destruct n as [|b n]; [eexists; reflexivity|].
    destruct (lookup_user_h w (b :: n)) as [uid|] eqn:E; [|eexists; reflexivity].
    destruct (user_copy_total_wf (w_heap w) uid) as (r & Er); [apply (wf_users _ W); unfold lookup_user_h in E; eapply alookup_snd; eauto|].
    rewrite Er. simpl. eexists. reflexivity.
  - intros n. unfold lookup_channel_g. destruct n as [|b n]; [eexists; reflexivity|].
    destruct (lookup_channel_h w (b :: n)) as [cid|] eqn:E; [|eexists; reflexivity].
    destruct (channel_copy_total_wf (w_heap w) cid) as (r & Er); [apply (wf_chans _ W); unfold lookup_channel_h in E; eapply alookup_snd; eauto|].
    rewrite Er. simpl. eexists. reflexivity.
  - unfold users_g.
    destruct (copy_all_total user_copy wf_user user_copy_total_wf user_copy_frame wf_user_agree wf_user_bounded _ _ (wf_users _ W)) as (r & Er).
    rewrite Er. simpl. eexists. reflexivity.
  - unfold channels_g.
    destruct (copy_all_total channel_copy wf_chan channel_copy_total_wf channel_copy_frame wf_chan_agree wf_chan_bounded _ _ (wf_chans _ W)) as (r & Er).
    rewrite Er. simpl. eexists. reflexivity.
Qed.

(* ---- HeapWf depends only on the tracked cells: client steps and getter calls keep it ---- *)

Lemma HeapWf_agree h h' s : (forall x, In x (live_objs h s) -> hget h' x = hget h x) -> HeapWf (mkWorld h s) -> HeapWf (mkWorld h' s).
Proof.
  intros A W.
  assert (Ar : forall r, In r (roots s) -> forall x, In x (reach h r) -> hget h' x = hget h x).
  { intros r Hr x Hx. apply A. change (In x (creach h (roots s))). apply in_creach. eauto. }
  assert (Er : forall r, In r (roots s) -> reach h' r = reach h r).
  { intros r Hr. apply reach_same_cell. apply (Ar r Hr). apply reach_self. }
  constructor; cbn [w_heap w_st].
  - intros o Ho. eapply wf_user_agree; [apply Ar; apply in_roots; left; exact Ho|apply (wf_users _ W); exact Ho].
  - intros o Ho. eapply wf_chan_agree; [apply Ar; apply in_roots; right; exact Ho|apply (wf_chans _ W); exact Ho].
  - intros r1 r2 x H1 H2 X1 X2. rewrite (Er r1 H1) in X1. rewrite (Er r2 H2) in X2. exact (wf_sep _ W r1 r2 x H1 H2 X1 X2).
Qed.
