(* C05, widened: one received event through the tracked-state handlers, the SASL and CAP
   handlers and the CTCP stage never panics and keeps the invariant. *)
Require Import Bytes AMap Names State OrderLemmas AMapLemmas StateInv StateHandlers ClientStep.
Require Ctcp Sasl Cap StsState.
From Coq Require Import Lia.

(* ---- checked indexing ---- *)

Lemma c05_index_byte_lt b : forall l i, index_byte b l = Some i -> (i < length l)%nat.
Proof.
  induction l as [|x l IH]; simpl; intros i H; [discriminate|].
  destruct (N.eqb x b); [injection H as <-; lia|].
  destruct (index_byte b l) as [j|]; [|discriminate]. simpl in H. injection H as <-.
  specialize (IH j eq_refl). lia.
Qed.

Lemma c05_at_ok (s : str) i : (i < length s)%nat -> exists b, at_ s i = Ok b.
Proof.
  intros H. unfold at_. destruct (nth_error s i) eqn:E; [eauto|].
  apply nth_error_None in E. lia.
Qed.

Lemma c05_slice_ok (s : str) i j : (i <= j)%nat -> (j <= length s)%nat -> exists r, slice s i j = Ok r.
Proof.
  intros H1 H2. unfold slice.
  assert (E : (Nat.leb i j && Nat.leb j (length s))%bool = true).
  { apply andb_true_intro. split; apply Nat.leb_le; assumption. }
  rewrite E. eauto.
Qed.

Lemma c05_slice_from_ok (s : str) i : (i <= length s)%nat -> exists r, slice_from s i = Ok r /\ length r = (length s - i)%nat.
Proof.
  intros H. unfold slice_from. apply Nat.leb_le in H. rewrite H. eexists. split; [reflexivity|]. apply skipn_length.
Qed.

(* ---- SASL ---- *)

Lemma c05_sasl_chunk_loop_ok : forall fuel auth, (length auth < fuel)%nat -> exists cs, Sasl.sasl_chunk_loop fuel auth = Ok cs.
Proof.
  induction fuel as [|f IH]; intros auth H; [lia|]. simpl.
  destruct (Nat.ltb Sasl.sasl_chunk_size (length auth)) eqn:E1.
  - apply Nat.ltb_lt in E1. unfold Sasl.sasl_chunk_size in *.
    destruct (c05_slice_ok auth 0 400) as (c & Hc); [lia|lia|]. rewrite Hc. cbn [rbind].
    destruct (c05_slice_from_ok auth 400) as (rest & Hr & Hlen); [lia|]. rewrite Hr. cbn [rbind].
    destruct (IH rest) as (tl & Htl); [lia|]. rewrite Htl. cbn [rbind]. eauto.
  - apply Nat.ltb_ge in E1. apply Nat.leb_le in E1. rewrite E1. eauto.
Qed.

Lemma c05_handle_sasl_ok sasl e : exists o, Sasl.handle_sasl sasl e = Ok o.
Proof.
  unfold Sasl.handle_sasl. destruct (_ || _)%bool; [eauto|]. destruct sasl as [m|]; [|eauto].
  destruct (Sasl.mech_encode m (Sasl.ev_params e)) as [|b auth] eqn:E; [eauto|].
  unfold Sasl.sasl_chunks. destruct (c05_sasl_chunk_loop_ok (S (length (b :: auth))) (b :: auth)) as (cs & H); [lia|].
  rewrite H. cbn [rbind]. eauto.
Qed.

Lemma sasl_stage_ok cfg e : exists o, sasl_stage cfg e = Ok o.
Proof.
  unfold sasl_stage. destruct (is_sasl_cmd e); [apply c05_handle_sasl_ok|]. destruct (is_sasl_error_cmd e); eauto.
Qed.

(* ---- CTCP ---- *)

Lemma c05_decode_ctcp_ok e : exists d, Ctcp.decode_ctcp e = Ok d.
Proof.
  unfold Ctcp.decode_ctcp. destruct (Nat.eqb (length (Ctcp.ev_params e)) 2) eqn:E2; cbn [negb]; [|eauto].
  apply Nat.eqb_eq in E2. unfold Ctcp.nth_param.
  destruct (nth_error (Ctcp.ev_params e) 1) as [p1|] eqn:E1; [|apply nth_error_None in E1; lia]. cbn [rbind].
  destruct (Nat.ltb (length p1) 3) eqn:E3; [eauto|]. apply Nat.ltb_ge in E3.
  destruct (_ && _)%bool; [eauto|].
  destruct (c05_at_ok p1 0) as (c0 & H0); [lia|]. rewrite H0. cbn [rbind].
  destruct (c05_at_ok p1 (length p1 - 1)) as (cl & Hl); [lia|]. rewrite Hl. cbn [rbind].
  destruct (_ || _)%bool; [eauto|].
  destruct (c05_slice_ok p1 1 (length p1 - 1)) as (text & Ht); [lia|lia|]. rewrite Ht. cbn [rbind].
  destruct (index_byte Ctcp.event_space text) as [s|] eqn:Ei.
  - apply c05_index_byte_lt in Ei. destruct (Nat.eqb s 0); [eauto|]. destruct (negb _); [eauto|].
    destruct (c05_slice_ok text 0 s) as (cmd & Hc); [lia|lia|]. rewrite Hc. cbn [rbind].
    destruct (c05_slice_from_ok text (S s)) as (txt & Hx & _); [lia|]. rewrite Hx. cbn [rbind]. eauto.
  - destruct (forallb _ _); eauto.
Qed.

Lemma c05_send_reply_ok target b r msg : exists e, Ctcp.send_ctcp_reply target (b :: r) msg = Ok e.
Proof. unfold Ctcp.send_ctcp_reply, Ctcp.encode_ctcp_raw. cbn [app]. eauto. Qed.

Lemma c05_one_reply_ok target b r msg : exists o, Ctcp.one (Ctcp.send_ctcp_reply target (b :: r) msg) = Ok o.
Proof. unfold Ctcp.one. destruct (c05_send_reply_ok target b r msg) as (e & H). rewrite H. cbn [rbind]. eauto. Qed.

Lemma c05_replier_ok body c : (forall name, exists o, body name c = Ok o) -> exists o, Ctcp.replier body c = Ok o.
Proof. intros H. unfold Ctcp.replier. destruct (Ctcp.c_reply c); [eauto|]. destruct (Ctcp.c_source c); [apply H|eauto]. Qed.

Lemma c05_default_handlers_ok v k h c : Ctcp.connected v = true ->
  Ctcp.lookup k (Ctcp.default_table v) = Some h -> exists o, h c = Ok o.
Proof.
  intros Hconn. unfold Ctcp.default_table. cbn [Ctcp.lookup].
  repeat match goal with |- context [if ?b then _ else _] => destruct b end; intros H; try discriminate; injection H as <-.
  - apply c05_replier_ok. intros name. apply c05_one_reply_ok.
  - apply c05_replier_ok. intros name. apply c05_one_reply_ok.
  - apply c05_replier_ok. intros name. destruct (Ctcp.cfg_version v); apply c05_one_reply_ok.
  - apply c05_replier_ok. intros name. apply c05_one_reply_ok.
  - apply c05_replier_ok. intros name. apply c05_one_reply_ok.
  - apply c05_replier_ok. intros name. rewrite ?Hconn. cbn [negb]. apply c05_one_reply_ok.
Qed.

Lemma c05_ctcp_call_ok v c : Ctcp.connected v = true -> exists o, Ctcp.ctcp_call (Ctcp.default_table v) c = Ok o.
Proof.
  intros Hconn. unfold Ctcp.ctcp_call.
  assert (W : Ctcp.lookup Ctcp.ctcp_wildcard (Ctcp.default_table v) = None) by reflexivity.
  rewrite W. cbn [rbind].
  destruct (Ctcp.lookup (Ctcp.c_command c) (Ctcp.default_table v)) as [h|] eqn:El.
  - destruct (c05_default_handlers_ok v _ h c Hconn El) as (o & Ho). rewrite Ho. cbn [rbind]. eauto.
  - destruct (streqb _ _); [eauto|]. destruct (Ctcp.c_source c) as [name|]; [|eauto].
    destruct (_ && _)%bool; [|eauto].
    destruct (c05_send_reply_ok (Ctcp.source_id name) 69 (tl Ctcp.CTCP_ERRMSG) Ctcp.errmsg_text) as (e & He).
    change (69 :: tl Ctcp.CTCP_ERRMSG) with Ctcp.CTCP_ERRMSG in He. rewrite He. cbn [rbind]. eauto.
Qed.

Lemma c05_ctcp_stage_ok v e : Ctcp.connected v = true -> exists o, Ctcp.ctcp_stage (Ctcp.default_table v) e = Ok o.
Proof.
  intros Hconn. unfold Ctcp.ctcp_stage. destruct (c05_decode_ctcp_ok e) as (d & Hd). rewrite Hd. cbn [rbind].
  destruct d as [c|]; [apply c05_ctcp_call_ok; exact Hconn|eauto].
Qed.

(* ---- one event through the whole client ---- *)

Theorem client_step_ok cfg cs e : Inv (cs_state cs) -> Ctcp.connected (cc_env cfg) = true ->
  exists cs' o, client_step cfg cs e = Ok (cs', o) /\ Inv (cs_state cs').
Proof.
  intros I Hconn. unfold client_step.
  destruct (handle_inv (cc_state cfg) (cs_state cs) e I) as (s' & o1 & H1 & I1). rewrite H1. cbn [rbind].
  destruct (sasl_stage_ok cfg e) as (o2 & H2). rewrite H2. cbn [rbind].
  destruct (c05_ctcp_stage_ok (cc_env cfg) (to_ctcp_event e) Hconn) as (o4 & H4). rewrite H4. cbn [rbind].
  do 2 eexists. split; [reflexivity|]. exact I1.
Qed.

Theorem client_step_no_panic cfg cs e : Inv (cs_state cs) -> Ctcp.connected (cc_env cfg) = true -> client_step cfg cs e <> Panic.
Proof. intros I Hc. destruct (client_step_ok cfg cs e I Hc) as (cs' & o & H & _). rewrite H. discriminate. Qed.

Theorem client_run_ok cfg : Ctcp.connected (cc_env cfg) = true -> forall h cs, Inv (cs_state cs) ->
  exists cs' o, client_run cfg cs h = Ok (cs', o) /\ Inv (cs_state cs').
Proof.
  intros Hconn. induction h as [|e h IH]; intros cs I; simpl; [eauto|].
  destruct (client_step_ok cfg cs e I Hconn) as (cs1 & o1 & H1 & I1). rewrite H1.
  destruct (IH cs1 I1) as (cs2 & o2 & H2 & I2). rewrite H2. eauto.
Qed.

Theorem client_all_histories cfg sts h : Ctcp.connected (cc_env cfg) = true ->
  exists cs o, client_run cfg (client_init sts) h = Ok (cs, o) /\ Inv (cs_state cs).
Proof. intros Hconn. apply client_run_ok; [exact Hconn|]. exact inv_init. Qed.

(* ---- non-vacuity: a connected configuration with SASL PLAIN, and a history that goes
   through every stage (state handlers, CTCP with and without source, CAP LS, SASL) ---- *)

Definition cex_env : Ctcp.env :=
  Ctcp.mk_env [] (bs "Real Name") (bs "go") (bs "os") (bs "arch") (bs "now") (bs "0s") true.
Definition cex_cfg : client_cfg :=
  mkClientCfg (mkConfig (bs "me") (bs "user"))
    (Some (Sasl.mkMech (bs "PLAIN") (Sasl.sasl_plain_encode (bs "acct") (bs "secret"))))
    cex_env
    (Cap.mkCfg (Some (bs "PLAIN")) false false false [] true None [] (bs "me") (bs "user") (bs "Real Name"))
    (fun l => l) false 0%Z.
Definition cex_history : list event := [
  mkEvent (ex_src "srv") None (bs "001") [bs "me"; bs "welcome"];
  mkEvent (ex_src "me") None (bs "JOIN") [bs "#chan"];
  mkEvent None None (bs "PRIVMSG") [bs "me"; 1 :: bs "VERSION" ++ [1]];        (* CTCP without a source *)
  mkEvent (ex_src "zed") None (bs "PRIVMSG") [bs "me"; 1 :: bs "PING 42" ++ [1]];
  mkEvent None None (bs "CAP") [bs "*"; bs "LS"; bs "sasl multi-prefix"];
  mkEvent None None (bs "AUTHENTICATE") [bs "+"];
  mkEvent (ex_src "srv") None (bs "904") [bs "me"; bs "failed"]
].

Example client_example :
  Ctcp.connected (cc_env cex_cfg) = true /\
  exists cs o, client_run cex_cfg (client_init StsState.sts_init) cex_history = Ok (cs, o) /\
    Inv (cs_state cs) /\
    List.map (fun x => match x with CSend _ => 1 | CSasl _ => 2 | CCap _ => 3 | CCtcp _ => 4 end) o = [1; 1; 4; 3; 2; 2] /\
    client_disconnects cex_cfg (client_init StsState.sts_init) cex_history = Ok true.
Proof.
  split; [reflexivity|].
  destruct (client_all_histories cex_cfg StsState.sts_init cex_history eq_refl) as (cs & o & H & I).
  exists cs, o. split; [exact H|]. split; [exact I|].
  vm_compute in H. injection H as <- <-. split; vm_compute; reflexivity.
Qed.
