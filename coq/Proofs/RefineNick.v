(* C04 simulation: NICK (renames, including case-only renames and our own). *)
Require Import Bytes AMap SMap Names State StateGetters NetRef.
Require Import OrderLemmas AMapLemmas SMapLemmas NamesProofs StateInv StateHandlers NetRefLemmas StateRefine RefineSimple RefineJoin RefineLeave.
From Coq Require Import Lia ZifyBool ZifyN ZifyNat.

Lemma mem_str_renamed n from tof c : NoDup (c_users c) -> (tof <> from -> ~ In tof (c_users c)) ->
  mem_str n (renamed_users from tof c) =
  (streqb n tof && mem_str from (c_users c)) || (mem_str n (c_users c) && negb (streqb n from)).
Proof.
  intros Hnd Hto. unfold renamed_users. destruct (mem_str from (c_users c)) eqn:Em.
  - apply mem_str_in in Em. rewrite andb_true_r.
    assert (Hiff : In n (sort_strs (replace_first from tof (c_users c))) <-> n = tof \/ (In n (c_users c) /\ n <> from)).
    { rewrite sort_strs_in. apply replace_first_in; assumption. }
    destruct (mem_str n (sort_strs (replace_first from tof (c_users c)))) eqn:E.
    + apply mem_str_in in E. apply Hiff in E. destruct E as [->|[E1 E2]].
      * rewrite streqb_refl. reflexivity.
      * apply mem_str_in in E1. apply streqb_neq in E2. rewrite E1, E2. simpl. symmetry. apply orb_true_r.
    + apply mem_str_false in E. symmetry. apply orb_false_iff. split.
      * apply streqb_neq. intros ->. apply E, Hiff. left; reflexivity.
      * destruct (mem_str n (c_users c)) eqn:E1; [|reflexivity]. destruct (streqb n from) eqn:E2; [reflexivity|].
        exfalso. apply E, Hiff. right. apply mem_str_in in E1. apply streqb_neq in E2. tauto.
  - rewrite andb_false_r. simpl. destruct (mem_str n (c_users c)) eqn:E1; [|reflexivity].
    destruct (streqb n from) eqn:E2; [|reflexivity]. apply streqb_eq in E2. subst n. congruence.
Qed.

Section Nick.
Variable cfg : config.
Variables (s : state) (r : ref).
Hypothesis (I : Inv s) (F : Fresh s) (S : Sim s r) (W : RWf r).

Lemma rename_user_sim old new :
  (streqb (key new) (key old) || (negb (tracked_user r new) && negb (is_me r new))) = true ->
  exists s', rename_user s (fold old) new = Ok s' /\ Fresh s' /\ (Inv s' -> Sim s' (ref_gc (ref_nick r old new))).
Proof.
  intros Hcond. unfold rename_user. rewrite fold_idem. set (kold := fold old). set (knew := fold new).
  change (key new) with knew in Hcond. change (key old) with kold in Hcond.
  set (sN := if streqb kold (fold (st_nick s)) then set_nick s new else s).
  assert (EN : st_users sN = st_users s /\ st_channels sN = st_channels s /\ st_opts sN = st_opts s /\
               st_ident sN = st_ident s /\ st_host sN = st_host s /\ st_motd sN = st_motd s /\
               st_nick sN = if streqb kold (fold (st_nick s)) then new else st_nick s).
  { unfold sN. destruct (streqb kold (fold (st_nick s))); repeat split. }
  destruct EN as (EU & EC & EO & EI & EH & EM & ENk).
  assert (Hme : is_me r old = streqb kold (fold (st_nick s))) by (unfold is_me; rewrite (sim_me _ _ S); reflexivity).
  unfold ref_nick. rewrite Hme. change (key old) with kold. change (key new) with knew.
  set (r1 := if streqb kold (fold (st_nick s)) then r_set_me r new else r).
  assert (R1 : r_users r1 = r_users r /\ r_chans r1 = r_chans r /\ r_opts r1 = r_opts r /\ r_ident r1 = r_ident r /\
               r_host r1 = r_host r /\ r_motd r1 = r_motd r /\ r_me r1 = st_nick sN).
  { unfold r1. rewrite ENk. destruct (streqb kold (fold (st_nick s))); repeat split; apply S. }
  destruct R1 as (RU & RC & RO & RI & RH & RM & RN).
  assert (W1 : RWf r1) by (eapply rwf_scalar; [exact RC|exact RU|exact RO|exact W]).
  assert (S1 : Sim sN r1).
  { apply (sim_scalars s r S); try assumption; [rewrite RI, EI|rewrite RH, EH|rewrite RM, EM]; apply S. }
  assert (FN : Fresh sN) by (eapply fresh_same; eassumption).
  rewrite EU. rewrite RU. rewrite (sim_users _ _ S kold).
  destruct (alookup kold (st_users s)) as [u|] eqn:Eu; cbn [option_map].
  2:{ exists sN. split; [reflexivity|]. split; [exact FN|]. intros I'. apply sim_gc_of_sim; assumption. }
  (* nobody is overwritten: the new nick is unused, or the same user in another spelling *)
  assert (Hnew : knew = kold \/ alookup knew (st_users s) = None).
  { apply orb_prop in Hcond. destruct Hcond as [H|H]; [left; apply streqb_eq; exact H|right].
    apply andb_prop in H. destruct H as [H _]. apply negb_true_iff in H. unfold tracked_user in H. change (key new) with knew in H.
    rewrite (sim_users _ _ S) in H. destruct (alookup knew (st_users s)); [discriminate|reflexivity]. }
  assert (Hs1 : (if streqb knew kold then Ok sN else delete_user sN [] new) = Ok sN).
  { destruct (streqb knew kold) eqn:E; [reflexivity|]. destruct Hnew as [H|H]; [rewrite H, streqb_refl in E; discriminate|].
    unfold delete_user, lookup_user. fold knew. rewrite EU, H. reflexivity. }
  rewrite Hs1. cbn [rbind]. rewrite EU, EC.
  destruct (ric_spec kold knew (u_chans u) (st_channels s)) as (chans' & Hrun & Hspec).
  { apply ssorted_nodup, (inv_ul I _ _ Eu). }
  { intros cn Hcn. destruct (inv_uc I _ _ _ Eu Hcn) as (c & Hc & _). congruence. }
  rewrite Hrun. cbn [rbind]. eexists; split; [reflexivity|].
  assert (LC : forall k, alookup k chans' = option_map (fun c => c_set_users c (renamed_users kold knew c)) (alookup k (st_channels s))).
  { intros k. rewrite Hspec. destruct (mem_str k (u_chans u)) eqn:Em; [reflexivity|].
    destruct (alookup k (st_channels s)) as [c|] eqn:Ec; [|reflexivity]. simpl. f_equal.
    unfold renamed_users. destruct (mem_str kold (c_users c)) eqn:Emo; [|destruct c; reflexivity].
    exfalso. apply mem_str_in in Emo. destruct (inv_cu I _ _ _ Ec Emo) as (u0 & Hu0 & Hk). rewrite Eu in Hu0. injection Hu0 as <-.
    apply mem_str_false in Em. contradiction. }
  split.
  - intros k c'. unfold chan_modes, user_prefixes. sproj. rewrite EO, LC.
    destruct (alookup k (st_channels s)) as [c|] eqn:Ec; [|discriminate]. simpl. intros H; injection H as <-. apply (F _ _ Ec).
  - intros I'.
    assert (KU : ksorted (sm_del kold (r_users r))) by apply ksorted_sm_del, (wf_users _ W).
    assert (Wn : RWf (r_set_chans (r_set_users r1 (sm_set knew (ru_set_nick (abs_user u) new) (sm_del kold (r_users r))))
                        (sm_map (fun _ c => rename_member kold knew c) (r_chans r1)))).
    { pose proof (rwf_nick r old new W) as Wn. unfold ref_nick in Wn. rewrite Hme in Wn. fold r1 in Wn.
      change (key old) with kold in Wn. change (key new) with knew in Wn. rewrite RU, (sim_users _ _ S kold), Eu in Wn. exact Wn. }
    apply sim_gc; try assumption; rproj; try (rewrite ?RI, ?RH, ?RM, ?EI, ?EH, ?EM; apply S); try exact RN.
    + (* channels *)
      intros k. rewrite LC, alookup_sm_map, RC. pose proof (sim_chans _ _ S k) as H. unfold opt_rel in *.
      destruct (alookup k (st_channels s)) as [c|] eqn:Ec; destruct (alookup k (r_chans r)) as [rc|] eqn:Er; try contradiction; [|exact Logic.I].
      cbn [option_map]. destruct H as [A B C D].
      assert (NDc : NoDup (c_users c)) by apply ssorted_nodup, (inv_cl I _ _ Ec).
      assert (Hto : knew <> kold -> ~ In knew (c_users c)).
      { intros Hne Hin. destruct Hnew as [Hn|Hn]; [congruence|]. destruct (inv_cu I _ _ _ Ec Hin) as (u0 & Hu0 & _). congruence. }
      assert (PERM : forall n, n <> kold -> n <> knew -> abs_perm (set_channels (set_users sN (aset knew (u_set_nick u new) (aremove kold (st_users s)))) chans') k n = abs_perm s k n).
      { intros n H1 H2. unfold abs_perm. sproj. rewrite alookup_aset. apply streqb_neq in H2. rewrite H2.
        rewrite alookup_aremove. apply streqb_neq in H1. rewrite H1. reflexivity. }
      assert (PNEW : abs_perm (set_channels (set_users sN (aset knew (u_set_nick u new) (aremove kold (st_users s)))) chans') k knew = abs_perm s k kold).
      { unfold abs_perm. sproj. rewrite alookup_aset_eq, Eu. reflexivity. }
      unfold rename_member. pose proof (D kold) as Dold.
      destruct (mem_str kold (c_users c)) eqn:Emo.
      * rewrite Dold. constructor; cbn [rc_name rc_topic rc_modes rc_members rc_set_members c_name c_topic c_users c_modes c_set_users]; try assumption.
        intros n. rewrite alookup_sm_set by apply ksorted_sm_del, (wf_members _ W _ _ Er).
        rewrite alookup_sm_del by apply (wf_members _ W _ _ Er).
        rewrite (mem_str_renamed n kold knew c NDc Hto), Emo, andb_true_r.
        destruct (streqb n knew) eqn:En.
        -- apply streqb_eq in En. subst n. cbn [orb]. rewrite PNEW. reflexivity.
        -- cbn [orb]. destruct (streqb n kold) eqn:Eo; [rewrite andb_false_r; reflexivity|]. rewrite andb_true_r, D.
           destruct (mem_str n (c_users c)); [|reflexivity]. f_equal. symmetry. apply PERM; apply streqb_neq; assumption.
      * rewrite Dold. constructor; cbn [rc_name rc_topic rc_modes rc_members rc_set_members c_name c_topic c_users c_modes c_set_users]; try assumption.
        intros n. rewrite (mem_str_renamed n kold knew c NDc Hto), Emo, andb_false_r. cbn [orb]. rewrite D.
        destruct (mem_str n (c_users c)) eqn:Em; [|reflexivity].
        destruct (streqb n kold) eqn:Eo; [apply streqb_eq in Eo; subst n; congruence|]. cbn [negb andb]. f_equal. symmetry.
        apply PERM; [apply streqb_neq; exact Eo|]. intros ->. apply mem_str_in in Em.
        destruct (list_eq_dec N.eq_dec knew kold) as [Heq|Hne]; [rewrite Heq, streqb_refl in Eo; discriminate|]. apply (Hto Hne Em).
    + (* users *)
      intros k u0. rewrite alookup_aset, alookup_aremove. rewrite alookup_sm_set by exact KU. rewrite alookup_sm_del by apply (wf_users _ W).
      destruct (streqb k knew); [intros H; injection H as <-; reflexivity|].
      destruct (streqb k kold); [discriminate|]. intros H. rewrite (sim_users _ _ S), H. reflexivity.
    + intros k. rewrite RO, EO. apply S.
Qed.

End Nick.

Section NickCmd.
Variable cfg : config.
Variables (s : state) (r : ref) (e : event).
Hypothesis (I : Inv s) (F : Fresh s) (S : Sim s r) (W : RWf r).

Lemma step_NICK : e_cmd e = c_NICK -> cmd_ok r e = true -> step_ok cfg s r e.
Proof.
  intros Hc Hok.
  assert (Hh : handle_cmd cfg s e = (s' <- handle_nick s e ;; Ok (s', []))) by (unfold handle_cmd, cmd_is; rewrite Hc; reduce_cmd c_NICK; reflexivity).
  assert (Hr : ref_cmd r e = match e_src e, e_params e with Some src, _ :: _ => ref_nick r (s_name src) (last_of e) | _, _ => r end)
    by (unfold ref_cmd, cmdb; rewrite Hc; reduce_cmd c_NICK; reflexivity).
  unfold cmd_ok, cmdb in Hok. rewrite Hc in Hok. reduce_cmd_in c_NICK Hok.
  apply andb_prop in Hok. destruct Hok as [_ Hok].
  unfold handle_nick in Hh. destruct (e_src e) as [src|]; [|discriminate]. destruct (e_params e) as [|p0 ps] eqn:Ep; [discriminate|].
  apply andb_prop in Hok. destruct Hok as [_ Hcond].
  destruct (rename_user_sim s r I F S W (s_name src) (last_of e) Hcond) as (s' & H1 & H2 & H3).
  exists s', []. rewrite Hh, Hr. unfold last_param. unfold last_of in H1. rewrite Ep in *. rewrite H1. split; [reflexivity|]. split; [exact H2|exact H3].
Qed.

End NickCmd.
