(* C04 simulation: MODE and RPL_CHANNELMODEIS (324): the server's CHANMODES classes and
   PREFIX modes as the implementation froze them when the channel was created are those the
   reference model reads from the server options; the stored mode list and the members'
   privilege flags follow the reference model's left-to-right fold. *)
Require Import Bytes AMap SMap Names State StateGetters NetRef.
Require Import OrderLemmas AMapLemmas SMapLemmas NamesProofs StateInv StateHandlers NetRefLemmas StateRefine RefineSimple RefineJoin RefineLeave RefineNames.
From Coq Require Import Lia ZifyBool ZifyN ZifyNat.

(* ---------- CHANMODES / PREFIX ---------- *)

Lemma splitn_piece : forall s n cur i, (i < n)%nat ->
  nth i (splitn_comma n s cur) [] = match i with O => rev cur ++ piece 0 s | Datatypes.S _ => piece i s end.
Proof.
  induction s as [|b r IH]; intros n cur i Hi.
  - simpl. destruct i as [|j]; simpl; [rewrite app_nil_r; reflexivity|destruct j; reflexivity].
  - destruct n as [|n']; [lia|]. simpl. destruct (b =? 44) eqn:E.
    + destruct i as [|j]; simpl; [rewrite app_nil_r; reflexivity|].
      rewrite IH by lia. destruct j; reflexivity.
    + rewrite IH by lia. destruct i as [|j]; [|reflexivity]. simpl. rewrite <- app_assoc. reflexivity.
Qed.

Lemma forallb_ext' {A} (f g : A -> bool) l : (forall x, f x = g x) -> forallb f l = forallb g l.
Proof. intros H. induction l as [|a l IH]; simpl; [reflexivity|]. rewrite H, IH. reflexivity. Qed.

Lemma valid_chanmode_wf v : is_valid_channel_mode v = chanmodes_wf v.
Proof.
  unfold is_valid_channel_mode, chanmodes_wf. destruct v as [|b v]; [reflexivity|]. cbn [is_nil negb andb].
  apply forallb_ext'. intros x. unfold is_alpha. rewrite orb_assoc. reflexivity.
Qed.

Lemma count_prefix_spec : forall r passed k p,
  count_prefix r passed k p =
  if passed then (k, (p + count_not 41 r)%nat) else ((k + length (before 41 r))%nat, (p + count_not 41 (after 41 r))%nat).
Proof.
  induction r as [|b r IH]; intros passed k p; simpl.
  - destruct passed; unfold count_not; simpl; f_equal; lia.
  - unfold count_not in *. simpl. destruct (b =? 41) eqn:E; simpl.
    + rewrite IH. destruct passed; simpl; f_equal; lia.
    + destruct passed; rewrite IH; simpl; f_equal; lia.
Qed.

Lemma valid_prefix_wf v : is_valid_user_prefix v = prefix_wf v.
Proof.
  unfold is_valid_user_prefix, prefix_wf. destruct v as [|b r]; [reflexivity|].
  destruct (N.eq_dec b 40) as [->|Hne].
  - rewrite count_prefix_spec. simpl. reflexivity.
  - destruct b as [|p]; [reflexivity|]. do 6 (destruct p as [p|p|]; try reflexivity). congruence.
Qed.

Lemma before_length_all c : forall r, memb c r = false -> before c r = r /\ after c r = [].
Proof.
  induction r as [|b r IH]; simpl; [split; reflexivity|]. destruct (b =? c); simpl; [discriminate|].
  intros H. destruct (IH H) as [A B]. rewrite A, B. split; reflexivity.
Qed.

Lemma prefix_modes_eq v : is_valid_user_prefix v = true -> fst (parse_prefixes v) = before 41 (tl v).
Proof.
  intros Hv. unfold parse_prefixes. rewrite Hv. simpl negb. cbv iota.
  rewrite valid_prefix_wf in Hv. unfold prefix_wf in Hv. destruct v as [|b r]; [discriminate|].
  destruct (N.eq_dec b 40) as [->|Hne].
  2:{ exfalso. destruct b as [|p]; [discriminate|]. do 6 (destruct p as [p|p|]; try discriminate). congruence. }
  simpl tl. simpl index_byte. destruct (memb 41 r) eqn:Em.
  - destruct (memb_index 41 _ Em) as [j Hj]. rewrite Hj. simpl. destruct (memb_firstn_before 41 _ _ Hj) as (A & _ & _).
    rewrite A. replace (j - 0)%nat with j by lia. reflexivity.
  - rewrite (index_byte_none _ _ Em). simpl. destruct (before_length_all 41 r Em) as [A B]. rewrite A, B in Hv. rewrite A.
    unfold count_not in Hv. simpl in Hv. apply PeanoNat.Nat.eqb_eq in Hv. destruct r; [reflexivity|discriminate].
Qed.

Section Classes.
Variables (s : state) (r : ref).
Hypothesis (S : Sim s r).

Lemma chan_modes_ref : chan_modes s = ref_chanmodes r.
Proof.
  unfold chan_modes, ref_chanmodes. change k_CHANMODES with opt_CHANMODES. rewrite (sim_opts _ _ S).
  destruct (alookup opt_CHANMODES (st_opts s)) as [v|]; [|reflexivity]. rewrite valid_chanmode_wf. reflexivity.
Qed.

Lemma prefix_modes_ref : fst (parse_prefixes (user_prefixes s)) = ref_prefix_modes r.
Proof.
  unfold user_prefixes, ref_prefix_modes. change k_PREFIX with opt_PREFIX. rewrite (sim_opts _ _ S).
  destruct (alookup opt_PREFIX (st_opts s)) as [v|].
  - rewrite <- valid_prefix_wf. destruct (is_valid_user_prefix v) eqn:E; [apply prefix_modes_eq, E|reflexivity].
  - reflexivity.
Qed.

Lemma chan_modes_nonempty : chan_modes s <> [].
Proof.
  unfold chan_modes. destruct (alookup opt_CHANMODES (st_opts s)) as [v|]; [|discriminate].
  destruct (is_valid_channel_mode v) eqn:E; [|discriminate]. destruct v; [discriminate|discriminate].
Qed.
End Classes.

Definition class_ok (cmo : cmodes) (cm pm : str) : Prop :=
  cm_raw cmo <> [] /\ cm_list cmo = piece 0 cm /\ cm_args cmo = piece 1 cm /\ cm_setargs cmo = piece 2 cm /\ cm_prefixes cmo = pm.

Lemma fresh_class_ok s r k c : Fresh s -> Sim s r -> alookup k (st_channels s) = Some c ->
  class_ok (c_modes c) (ref_chanmodes r) (ref_prefix_modes r).
Proof.
  intros F S Ec. pose proof (F _ _ Ec) as H. unfold classes_of, new_cmodes in H. cbn [cm_raw cm_list cm_args cm_setargs cm_noargs cm_prefixes] in H.
  injection H as H1 H2 H3 H4 _ H6. unfold class_ok. rewrite H1, H2, H3, H4, H6.
  rewrite !splitn_piece by lia. simpl rev. simpl app. rewrite (chan_modes_ref s r S), (prefix_modes_ref s r S).
  split; [rewrite <- (chan_modes_ref s r S); apply chan_modes_nonempty|]. repeat split.
Qed.

Lemma has_arg_class cmo cm pm : class_ok cmo cm pm -> forall add x,
  has_arg cmo add x =
  match mode_class cm pm x with
  | MList => (true, false)
  | MArg => (true, true)
  | MSetArg => if add then (true, true) else (false, true)
  | MPrefix => (true, false)
  | MFlag => (false, true)
  end.
Proof.
  intros (H0 & H1 & H2 & H3 & H4) add x. unfold has_arg, mode_class. rewrite H1, H2, H3, H4.
  destruct (cm_raw cmo); [congruence|].
  destruct (memb x (piece 0 cm)); [reflexivity|]. destruct (memb x (piece 1 cm)); [reflexivity|].
  destruct (memb x (piece 2 cm)); [reflexivity|]. destruct (memb x pm); reflexivity.
Qed.

(* ---------- the stored mode list ---------- *)

Definition nm (m : cmode) : N * str := (m_name m, m_args m).

Lemma apply_one_set l m : m_setting m = true -> m_add m = true ->
  List.map nm (apply_one l m) = mode_set (m_name m) (m_args m) (List.map nm l).
Proof.
  intros Hs Ha. unfold apply_one. rewrite Hs, Ha. simpl negb. cbv iota.
  induction l as [|x l IH]; simpl; [reflexivity|].
  destruct (m_name x =? m_name m) eqn:E; simpl; [reflexivity|].
  destruct (replace_mode m l) as [l'|]; simpl in *; rewrite IH; reflexivity.
Qed.

Lemma filter_notin x (l : list (N * str)) : ~ In x (List.map fst l) -> List.filter (fun yb => negb (fst yb =? x)) l = l.
Proof.
  induction l as [|[y b] l IH]; simpl; [reflexivity|]. intros H. destruct (y =? x) eqn:E.
  - exfalso. apply H. left. lia.
  - simpl. rewrite IH; [reflexivity|]. intros Hin; apply H; right; exact Hin.
Qed.

Lemma map_fst_nm l : List.map fst (List.map nm l) = List.map m_name l.
Proof. rewrite map_map. reflexivity. Qed.

Lemma apply_one_unset l m : m_setting m = true -> m_add m = false -> NoDup (List.map m_name l) ->
  List.map nm (apply_one l m) = mode_unset (m_name m) (List.map nm l).
Proof.
  intros Hs Ha. unfold apply_one. rewrite Hs, Ha. simpl negb. cbv iota. unfold mode_unset.
  induction l as [|x l IH]; simpl; [reflexivity|]. intros Hnd. inversion Hnd as [|? ? Hx Hl]; subst.
  destruct (m_name x =? m_name m) eqn:E; simpl.
  - assert (m_name x = m_name m) by lia. rewrite filter_notin; [reflexivity|]. rewrite map_fst_nm, <- H. exact Hx.
  - rewrite IH by exact Hl. reflexivity.
Qed.

Lemma apply_one_nodup l m : NoDup (List.map m_name l) -> NoDup (List.map m_name (apply_one l m)).
Proof.
  intros Hnd. destruct (m_setting m) eqn:Hs; [|unfold apply_one; rewrite Hs; exact Hnd].
  rewrite <- map_fst_nm. destruct (m_add m) eqn:Ha.
  - rewrite apply_one_set by assumption. apply mode_set_nodup. rewrite map_fst_nm. exact Hnd.
  - rewrite apply_one_unset by assumption. apply mode_unset_nodup. rewrite map_fst_nm. exact Hnd.
Qed.

Lemma walk_modes cmo cm pm : class_ok cmo cm pm -> forall flags args add l rc,
  rc_modes rc = List.map nm l -> NoDup (List.map m_name l) ->
  rc_modes (mode_walk cm pm flags args add rc) = List.map nm (fold_left apply_one (parse_modes cmo flags args add) l).
Proof.
  intros Hcl. induction flags as [|f fs IH]; intros args add l rc Hrc Hnd; simpl; [exact Hrc|].
  destruct (f =? 43); [apply IH; assumption|]. destruct (f =? 45); [apply IH; assumption|].
  rewrite (has_arg_class _ _ _ Hcl).
  assert (STEP : forall m rc' args', m_name m = f -> m_setting m = true ->
            rc_modes rc' = (if m_add m then mode_set f (m_args m) (rc_modes rc) else mode_unset f (rc_modes rc)) ->
            rc_modes (mode_walk cm pm fs args' add rc') =
            List.map nm (fold_left apply_one (parse_modes cmo fs args' add) (apply_one l m))).
  { intros m rc' args' Hn Hs Hrc'. apply IH; [|apply apply_one_nodup, Hnd]. rewrite Hrc', Hrc. subst f.
    destruct (m_add m) eqn:Ha; [rewrite apply_one_set by assumption|rewrite apply_one_unset by assumption]; reflexivity. }
  assert (SKIP : forall m rc' args', m_setting m = false -> rc_modes rc' = rc_modes rc ->
            rc_modes (mode_walk cm pm fs args' add rc') =
            List.map nm (fold_left apply_one (parse_modes cmo fs args' add) (apply_one l m))).
  { intros m rc' args' Hs Hrc'. apply IH; [|apply apply_one_nodup, Hnd]. rewrite Hrc', Hrc. unfold apply_one. rewrite Hs. reflexivity. }
  destruct (mode_class cm pm f).
  - (* list *) destruct args as [|a args']; cbn [fold_left tl hd]; apply SKIP; reflexivity.
  - (* always an argument *) destruct args as [|a args']; cbn [fold_left tl hd]; apply STEP; try reflexivity; destruct add; reflexivity.
  - (* argument when set *) destruct add.
    + destruct args as [|a args']; cbn [fold_left tl hd]; apply STEP; reflexivity.
    + cbn [fold_left]. apply STEP; reflexivity.
  - (* member privilege *) destruct args as [|a args']; cbn [fold_left tl hd]; apply SKIP; reflexivity.
  - (* flag *) cbn [fold_left]. apply STEP; try reflexivity. destruct add; reflexivity.
Qed.

(* ---------- the members' privilege flags ---------- *)

Lemma perms_set_from_mode_letter p m : perms_set_from_mode p m = perm_set_letter (m_name m) (m_add m) p.
Proof.
  destruct m as [on n st ar]. unfold perms_set_from_mode, perm_set_letter. destruct p as [q a o h v].
  cbn [m_add m_name p_owner p_admin p_op p_halfop p_voice]. cbv zeta.
  destruct (n =? 113) eqn:E1; [assert (n = 113) by lia; subst n; reflexivity|].
  destruct (n =? 97) eqn:E2; [assert (n = 97) by lia; subst n; reflexivity|].
  destruct (n =? 111) eqn:E3; [assert (n = 111) by lia; subst n; reflexivity|].
  destruct (n =? 104) eqn:E4; [assert (n = 104) by lia; subst n; reflexivity|].
  destruct (n =? 118) eqn:E5; [assert (n = 118) by lia; subst n; reflexivity|].
  reflexivity.
Qed.

Lemma update_user_absent s n f : alookup (fold n) (st_users s) = None -> update_user s n f = s.
Proof. intros H. unfold update_user, lookup_user. rewrite H. reflexivity. Qed.

Definition perm_update (cname : str) (m : cmode) (u : user) : user :=
  u_set_perms u (aset (fold cname) (perms_set_from_mode (perms_lookup u cname) m) (u_perms u)).

(* frame of the privilege updates: only st_users changes, only in the privileges for this channel *)
Lemma perms_fold_frame cname : forall ms s,
  let sF := fold_left (mode_user_perms cname) ms s in
  st_channels sF = st_channels s /\ st_opts sF = st_opts s /\ st_nick sF = st_nick s /\ st_ident sF = st_ident s /\
  st_host sF = st_host s /\ st_motd sF = st_motd s /\
  (forall k, match alookup k (st_users sF), alookup k (st_users s) with
             | Some u', Some u => abs_user u' = abs_user u /\ forall k', k' <> fold cname -> alookup k' (u_perms u') = alookup k' (u_perms u)
             | None, None => True
             | _, _ => False
             end).
Proof.
  induction ms as [|m ms IH]; intros s; simpl.
  - repeat split; try reflexivity. intros k. destruct (alookup k (st_users s)); [split; reflexivity|exact Logic.I].
  - set (s1 := mode_user_perms cname s m).
    assert (H1 : st_channels s1 = st_channels s /\ st_opts s1 = st_opts s /\ st_nick s1 = st_nick s /\ st_ident s1 = st_ident s /\
                 st_host s1 = st_host s /\ st_motd s1 = st_motd s /\
                 (forall k, match alookup k (st_users s1), alookup k (st_users s) with
                            | Some u', Some u => abs_user u' = abs_user u /\ forall k', k' <> fold cname -> alookup k' (u_perms u') = alookup k' (u_perms u)
                            | None, None => True | _, _ => False end)).
    { unfold s1, mode_user_perms. destruct (m_setting m).
      { repeat split; try reflexivity. intros k. destruct (alookup k (st_users s)); [split; reflexivity|exact Logic.I]. }
      destruct (m_args m) as [|a0 a].
      { repeat split; try reflexivity. intros k. destruct (alookup k (st_users s)); [split; reflexivity|exact Logic.I]. }
      destruct (update_user_fields s (a0 :: a) (perm_update cname m)) as (E1 & E2 & E3 & E4 & E5 & E6).
      fold (perm_update cname m). repeat split; try assumption. intros k. rewrite update_user_lookup.
      destruct (streqb k (fold (a0 :: a))); destruct (alookup k (st_users s)) as [u|]; cbn [option_map]; try exact Logic.I; try (split; reflexivity).
      split; [reflexivity|]. intros k' Hk'. unfold perm_update. cbn [u_perms u_set_perms]. rewrite alookup_aset. apply streqb_neq in Hk'. rewrite Hk'. reflexivity. }
    destruct H1 as (A1 & A2 & A3 & A4 & A5 & A6 & A7). destruct (IH s1) as (B1 & B2 & B3 & B4 & B5 & B6 & B7).
    repeat split; try congruence. intros k. specialize (A7 k). specialize (B7 k).
    destruct (alookup k (st_users (fold_left (mode_user_perms cname) ms s1))) as [u2|]; destruct (alookup k (st_users s1)) as [u1|];
      destruct (alookup k (st_users s)) as [u|]; try contradiction; try exact Logic.I.
    destruct A7 as [A7 A8]. destruct B7 as [B7 B8]. split; [congruence|]. intros k' Hk'. rewrite B8, A8 by exact Hk'. reflexivity.
Qed.

Section Walk.
Variables (r : ref) (target : str).
Variables (cmo : cmodes) (cm pm : str).
Hypothesis Hcl : class_ok cmo cm pm.
Variables (cname kc : str) (cu : list str).
Hypothesis Hkc : fold cname = kc.

Definition members_ok (s : state) (rc : rchan) : Prop :=
  forall n, alookup n (rc_members rc) = if mem_str n cu then Some (abs_perm s kc n) else None.
Definition users_like (s : state) : Prop :=
  (forall k, alookup k (st_users s) = None <-> alookup k (r_users r) = None) /\
  (forall n, mem_str n cu = true -> alookup n (st_users s) <> None).

Lemma users_like_update s n f : users_like s -> users_like (update_user s n f).
Proof.
  intros [K U]. split.
  - intros k. rewrite update_user_lookup, <- K. destruct (streqb k (fold n)); [|tauto]. destruct (alookup k (st_users s)); simpl; split; congruence.
  - intros n0 Hn. rewrite update_user_lookup. specialize (U n0 Hn). destruct (streqb n0 (fold n)); [|exact U].
    destruct (alookup n0 (st_users s)); simpl; congruence.
Qed.

Lemma walk_members only_set : forall flags args add s rc,
  ok_modes r target cm pm only_set flags args add = true ->
  users_like s -> members_ok s rc ->
  members_ok (fold_left (mode_user_perms cname) (parse_modes cmo flags args add) s) (mode_walk cm pm flags args add rc).
Proof.
  induction flags as [|f fs IH]; intros args add s rc Hok UL P; simpl; [exact P|].
  simpl in Hok. destruct (f =? 43); [apply IH; assumption|].
  destruct (f =? 45). { apply andb_prop in Hok. destruct Hok as [_ Hok]. apply IH; assumption. }
  apply andb_prop in Hok. destruct Hok as [_ Hok].
  rewrite (has_arg_class _ _ _ Hcl).
  assert (SETTING : forall m rc' args', m_setting m = true -> rc_members rc' = rc_members rc ->
            ok_modes r target cm pm only_set fs args' add = true ->
            members_ok (fold_left (mode_user_perms cname) (parse_modes cmo fs args' add) (mode_user_perms cname s m)) (mode_walk cm pm fs args' add rc')).
  { intros m rc' args' Hs Hrc' Hok'. unfold mode_user_perms at 2. rewrite Hs. apply IH; [exact Hok'|exact UL|].
    intros n. rewrite Hrc'. apply P. }
  destruct (mode_class cm pm f) eqn:Ecl.
  - (* list mode: its argument is a mask, not a user we track *)
    apply andb_prop in Hok. destruct Hok as [Hok Hok']. apply andb_prop in Hok. destruct Hok as [Hok Hun]. apply andb_prop in Hok. destruct Hok as [_ Hne].
    destruct args as [|a args']; [discriminate|]. cbn [fold_left tl hd] in *.
    apply negb_true_iff in Hun. unfold tracked_user in Hun. change (key a) with (fold a) in Hun.
    assert (Hab : alookup (fold a) (st_users s) = None).
    { apply (proj1 UL). destruct (alookup (fold a) (r_users r)); [discriminate|reflexivity]. }
    assert (Es : mode_user_perms cname s (mkCMode add f false a) = s).
    { unfold mode_user_perms. cbn [m_setting m_args]. destruct a; [reflexivity|]. apply update_user_absent, Hab. }
    rewrite Es. apply IH; assumption.
  - destruct args as [|a args']; cbn [fold_left tl hd] in *; apply andb_prop in Hok; destruct Hok as [_ Hok]; apply SETTING; try reflexivity; try assumption; destruct add; reflexivity.
  - destruct add.
    + destruct args as [|a args']; cbn [fold_left tl hd] in *; apply andb_prop in Hok; destruct Hok as [_ Hok]; apply SETTING; try reflexivity; assumption.
    + cbn [fold_left]. apply SETTING; try reflexivity; assumption.
  - (* a member's privilege *)
    apply andb_prop in Hok. destruct Hok as [Hok Hok']. apply andb_prop in Hok. destruct Hok as [Hok _]. apply andb_prop in Hok. destruct Hok as [Hok Hne'].
    apply andb_prop in Hok. destruct Hok as [_ Hne].
    destruct args as [|a args']; [discriminate|]. cbn [fold_left tl hd] in *. destruct a as [|a0 a]; [discriminate|].
    set (m := mkCMode add f false (a0 :: a)).
    assert (Es : mode_user_perms cname s m = update_user s (a0 :: a) (perm_update cname m)) by reflexivity.
    rewrite Es. apply IH; [exact Hok'|apply users_like_update, UL|].
    intros n. unfold rc_member_perm. cbn [rc_members rc_set_members]. rewrite alookup_sm_adjust. change (key (a0 :: a)) with (fold (a0 :: a)).
    unfold abs_perm. rewrite update_user_lookup. rewrite (P n).
    destruct (streqb n (fold (a0 :: a))) eqn:En; [|reflexivity].
    destruct (mem_str n cu) eqn:Em; [|reflexivity]. cbn [option_map]. f_equal.
    pose proof (proj2 UL n Em) as Hex. unfold abs_perm. destruct (alookup n (st_users s)) as [u|]; [|congruence]. cbn [option_map].
    unfold perm_update. cbn [u_perms u_set_perms]. rewrite Hkc, alookup_aset_eq. rewrite perms_set_from_mode_letter. unfold perms_lookup. rewrite Hkc. reflexivity.
  - cbn [fold_left]. apply SETTING; try reflexivity; try assumption. destruct add; reflexivity.
Qed.

End Walk.

Lemma mode_walk_name_topic cm pm : forall flags args add rc,
  rc_name (mode_walk cm pm flags args add rc) = rc_name rc /\ rc_topic (mode_walk cm pm flags args add rc) = rc_topic rc.
Proof.
  induction flags as [|f fs IH]; intros args add rc; simpl; [split; reflexivity|].
  destruct (f =? 43); [apply IH|]. destruct (f =? 45); [apply IH|].
  destruct (mode_class cm pm f); try destruct add;
    match goal with |- context [mode_walk cm pm fs ?a ?b ?c] => destruct (IH a b c) as [H1 H2]; rewrite H1, H2; split; reflexivity end.
Qed.

Section ModeCmd.
Variable cfg : config.
Variables (s : state) (r : ref) (e : event).
Hypothesis (I : Inv s) (F : Fresh s) (S : Sim s r) (W : RWf r).

Lemma mode_core target flags args only_set :
  (if tracked_chan r target then is_valid_channel target && ok_modes r target (ref_chanmodes r) (ref_prefix_modes r) only_set flags args true else true) = true ->
  exists s',
    (if negb (is_valid_channel target) then s else
     match lookup_channel s target with
     | None => s
     | Some c =>
         let ms := parse_modes (c_modes c) flags args true in
         let c' := c_set_modes c (apply_modes (c_modes c) ms) in
         let s1 := set_channels s (aset (fold target) c' (st_channels s)) in
         fold_left (mode_user_perms (c_name c)) ms s1
     end) = s' /\ Fresh s' /\ (Inv s' -> Sim s' (ref_gc (ref_mode r target flags args))).
Proof.
  intros Hok. set (kc := fold target). unfold lookup_channel. fold kc.
  pose proof (sim_chans _ _ S kc) as HS. unfold opt_rel in HS. unfold tracked_chan in Hok. change (key target) with kc in Hok.
  assert (NOOP : alookup kc (r_chans r) = None -> Sim s (ref_gc (ref_mode r target flags args))).
  { intros Hn. unfold ref_mode, upd_chan. change (key target) with kc. rewrite sm_adjust_absent by exact Hn.
    replace (r_set_chans r (r_chans r)) with r by (destruct r; reflexivity). apply sim_gc_of_sim; assumption. }
  destruct (alookup kc (st_channels s)) as [c|] eqn:Ec; destruct (alookup kc (r_chans r)) as [rc|] eqn:Er; try contradiction.
  2:{ exists s. split; [destruct (negb (is_valid_channel target)); reflexivity|]. split; [exact F|]. intros _. apply NOOP. reflexivity. }
  cbn [is_some] in Hok. apply andb_prop in Hok. destruct Hok as [Hv Hok]. rewrite Hv. cbn [negb]. cbv zeta.
  set (ms := parse_modes (c_modes c) flags args true).
  set (c' := c_set_modes c (apply_modes (c_modes c) ms)).
  set (s1 := set_channels s (aset kc c' (st_channels s))).
  set (sF := fold_left (mode_user_perms (c_name c)) ms s1).
  exists sF. split; [reflexivity|].
  assert (Hck : fold (c_name c) = kc) by apply (inv_ckey I _ _ Ec).
  destruct (perms_fold_frame (c_name c) ms s1) as (A1 & A2 & A3 & A4 & A5 & A6 & A7). fold sF in A1, A2, A3, A4, A5, A6, A7. rewrite Hck in A7.
  assert (Hcl : class_ok (c_modes c) (ref_chanmodes r) (ref_prefix_modes r)) by (eapply fresh_class_ok; eassumption).
  split.
  - intros k c0. rewrite A1. unfold chan_modes, user_prefixes. rewrite A2. unfold s1. sproj. rewrite alookup_aset.
    destruct (streqb k kc); [|apply F]. intros H; injection H as <-. apply (F _ _ Ec).
  - intros I'. destruct HS as [SA SB SC SD].
    assert (Hmodes : rc_modes (mode_walk (ref_chanmodes r) (ref_prefix_modes r) flags args true rc) = amodes c').
    { unfold amodes, c'. cbn [c_modes c_set_modes cm_modes apply_modes cm_set_modes].
      apply (walk_modes _ _ _ Hcl); [exact SC|]. rewrite <- map_fst_nm. unfold amodes in SC. fold nm in SC. rewrite <- SC. apply (wf_modes _ W _ _ Er). }
    assert (UL : users_like r (c_users c) s1).
    { split.
      - intros k. unfold s1. sproj. rewrite (sim_users _ _ S). destruct (alookup k (st_users s)); simpl; split; congruence.
      - intros n Hn. unfold s1. sproj. apply mem_str_in in Hn. destruct (inv_cu I _ _ _ Ec Hn) as (u & Hu & _). congruence. }
    assert (P1 : members_ok kc (c_users c) s1 rc).
    { intros n. rewrite SD. destruct (mem_str n (c_users c)); [|reflexivity]. reflexivity. }
    pose proof (walk_members r target (c_modes c) _ _ Hcl (c_name c) kc (c_users c) Hck only_set flags args true s1 rc Hok UL P1) as PF.
    fold ms in PF. fold sF in PF.
    apply sim_gc; try assumption.
    + apply rwf_upd_chan; [|exact W]. intros c0. apply mode_walk_cwf.
    + unfold ref_mode. rproj. rewrite A3. apply S.
    + unfold ref_mode. rproj. rewrite A4. apply S.
    + unfold ref_mode. rproj. rewrite A5. apply S.
    + unfold ref_mode. rproj. rewrite A6. apply S.
    + intros k. unfold ref_mode. rproj. rewrite A1. unfold s1. sproj. rewrite alookup_aset, alookup_sm_adjust. change (key target) with kc.
      destruct (streqb k kc) eqn:Ek.
      * apply streqb_eq in Ek. subst k. rewrite Er. cbn [option_map].
        destruct (mode_walk_name_topic (ref_chanmodes r) (ref_prefix_modes r) flags args true rc) as [N1 N2].
        constructor; [rewrite N1; exact SA|rewrite N2; exact SB|exact Hmodes|]. intros n. apply PF.
      * pose proof (sim_chans _ _ S k) as H. unfold opt_rel in *.
        destruct (alookup k (st_channels s)) as [c0|]; destruct (alookup k (r_chans r)) as [rc0|]; try contradiction; [|exact Logic.I].
        destruct H as [B1 B2 B3 B4]. constructor; try assumption. intros n. rewrite B4. destruct (mem_str n (c_users c0)); [|reflexivity]. f_equal.
        unfold abs_perm. specialize (A7 n). unfold s1 in A7. sproj.
        destruct (alookup n (st_users sF)) as [u'|]; destruct (alookup n (st_users s)) as [u|]; try contradiction; [|reflexivity].
        destruct A7 as [_ A8]. rewrite A8; [reflexivity|]. intros ->. rewrite streqb_refl in Ek. discriminate.
    + intros k u' Hu'. unfold ref_mode. rproj. specialize (A7 k). rewrite Hu' in A7. unfold s1 in A7. sproj.
      destruct (alookup k (st_users s)) as [u|] eqn:Eu; [|contradiction]. destruct A7 as [A7 _]. rewrite (sim_users _ _ S), Eu, A7. reflexivity.
    + intros k. unfold ref_mode. rproj. rewrite A2. apply S.
Qed.

Lemma step_MODE : e_cmd e = c_MODE -> cmd_ok r e = true -> step_ok cfg s r e.
Proof.
  intros Hc Hok.
  assert (Hh : handle_cmd cfg s e = Ok (handle_mode s e, [])) by (unfold handle_cmd, cmd_is; rewrite Hc; reduce_cmd c_MODE; reflexivity).
  assert (Hr : ref_cmd r e = match e_params e with target :: flags :: args => ref_mode r target flags args | _ => r end)
    by (unfold ref_cmd, cmdb; rewrite Hc; reduce_cmd c_MODE; reflexivity).
  unfold cmd_ok, cmdb in Hok. rewrite Hc in Hok. reduce_cmd_in c_MODE Hok.
  apply andb_prop in Hok. destruct Hok as [_ Hok].
  unfold handle_mode, cmd_is in Hh. rewrite Hc in Hh. reduce_cmd_in c_MODE Hh.
  destruct (e_params e) as [|target [|flags args]]; try discriminate.
  cbn [andb] in Hh. cbv beta iota zeta in Hh.
  destruct (mode_core target flags args false Hok) as (s' & H1 & H2 & H3). cbv zeta in H1.
  exists s', []. rewrite Hh, Hr. rewrite H1. split; [reflexivity|]. split; [exact H2|exact H3].
Qed.

Lemma step_324 : e_cmd e = c_324 -> cmd_ok r e = true -> step_ok cfg s r e.
Proof.
  intros Hc Hok.
  assert (Hh : handle_cmd cfg s e = Ok (handle_mode s e, [])) by (unfold handle_cmd, cmd_is; rewrite Hc; reduce_cmd c_324; reflexivity).
  assert (Hr : ref_cmd r e = match e_params e with _ :: target :: flags :: args => ref_mode r target flags args | _ => r end)
    by (unfold ref_cmd, cmdb; rewrite Hc; reduce_cmd c_324; reflexivity).
  unfold cmd_ok, cmdb in Hok. rewrite Hc in Hok. reduce_cmd_in c_324 Hok.
  apply andb_prop in Hok. destruct Hok as [_ Hok].
  unfold handle_mode, cmd_is in Hh. rewrite Hc in Hh. reduce_cmd_in c_324 Hh.
  destruct (e_params e) as [|p0 [|target [|flags args]]]; try discriminate.
  cbn [length Nat.ltb Nat.leb andb tl] in Hh. cbv beta iota zeta in Hh.
  destruct (mode_core target flags args true Hok) as (s' & H1 & H2 & H3). cbv zeta in H1.
  exists s', []. rewrite Hh, Hr. rewrite H1. split; [reflexivity|]. split; [exact H2|exact H3].
Qed.

End ModeCmd.
