(* C18 — proofs about Model/CmdHandler.v against Spec/CmdSpec.v. *)
Require Import Bytes Utf8 Names GoLower Ctcp WireOut CmdHandler CmdSpec FormatLemmas NamesProofs.
From Coq Require Import Lia ZifyBool ZifyN ZifyNat.

(* ---- the name class --------------------------------------------------- *)

Lemma name_byte_ok_iff b : name_byte_ok b = true <-> name_char b.
Proof. unfold name_byte_ok, name_char, is_lower, is_digit. lia. Qed.

Lemma forallb_name_chars n : forallb name_byte_ok n = true <-> Forall name_char n.
Proof.
  rewrite forallb_forall, Forall_forall.
  split; intros H x Hx; apply name_byte_ok_iff; auto.
Qed.

Lemma valid_name_iff s : valid_name s = true <-> name_ok s.
Proof.
  unfold valid_name, name_ok. rewrite !andb_true_iff, forallb_name_chars.
  rewrite !Nat.leb_le. tauto.
Qed.

Lemma lower1_name_char b : name_char b -> lower1 b = b.
Proof. unfold name_char, lower1, is_upper. intros H. destruct ((65 <=? b) && (b <=? 90)) eqn:E; lia. Qed.

Lemma to_lower_name n : Forall name_char n -> to_lower_ascii n = n.
Proof.
  unfold to_lower_ascii. induction 1 as [|b n Hb Hn IH]; simpl; [reflexivity|].
  now rewrite lower1_name_char, IH.
Qed.

Lemma name_char_not_space b : name_char b -> b <> 32.
Proof. unfold name_char. lia. Qed.
Lemma name_char_not_lf b : name_char b -> b <> 10.
Proof. unfold name_char. lia. Qed.

(* ---- span_name -------------------------------------------------------- *)

Definition stops (rest : str) : Prop :=
  match rest with [] => True | c :: _ => name_byte_ok c = false end.

Lemma span_name_spec s n rest :
  span_name s = (n, rest) -> s = n ++ rest /\ Forall name_char n /\ stops rest.
Proof.
  revert n rest; induction s as [|b s IH]; intros n rest; simpl.
  - intros [= <- <-]. repeat split; constructor.
  - destruct (name_byte_ok b) eqn:Hb.
    + destruct (span_name s) as [n1 t1] eqn:Hs. intros [= <- <-].
      destruct (IH n1 t1 eq_refl) as (-> & Hn & Hst).
      repeat split; auto. constructor; auto. now apply name_byte_ok_iff.
    + intros [= <- <-]. repeat split; [constructor | exact Hb].
Qed.

Lemma span_name_app n rest :
  Forall name_char n -> stops rest -> span_name (n ++ rest) = (n, rest).
Proof.
  intros Hn Hst. induction Hn as [|b n Hb Hn IH]; cbn [app span_name].
  - destruct rest as [|c r]; [reflexivity|]. cbn [stops] in Hst. cbn [span_name]. now rewrite Hst.
  - apply name_byte_ok_iff in Hb. now rewrite Hb, IH.
Qed.

(* ---- the literal prefix ----------------------------------------------- *)

(* strings.HasPrefix + slicing: for every prefix, whatever bytes it is made of *)
Lemma strip_prefix_spec p t r : strip_prefix p t = Some r <-> t = p ++ r.
Proof.
  unfold strip_prefix. split.
  - destruct (prefixb p t) eqn:E; [|discriminate]. apply prefixb_spec in E as [u ->].
    rewrite skipn_app_len. now intros [= ->].
  - intros ->. now rewrite prefixb_app, skipn_app_len.
Qed.

(* ---- cmd_match -------------------------------------------------------- *)

Lemma memb_false_iff c s : memb c s = false <-> ~ In c s.
Proof.
  induction s as [|x s IH]; simpl; [tauto|].
  rewrite orb_false_iff, IH, N.eqb_neq. tauto.
Qed.

Lemma cmd_match_spec prefix text n raw :
  cmd_match prefix text = Some (n, raw) <->
  exists t, strip_prefix prefix text = Some t /\ name_ok n /\ ~ In 10 raw /\
            ((t = n /\ raw = []) \/ t = n ++ 32 :: raw).
Proof.
  unfold cmd_match. split.
  - destruct (strip_prefix prefix text) as [t|]; [|discriminate].
    destruct (span_name t) as [n1 rest] eqn:Hs.
    apply span_name_spec in Hs as (-> & Hn & Hst).
    destruct (Nat.eqb (length n1) 0 || Nat.ltb 20 (length n1)) eqn:El; [discriminate|].
    assert (Hok : name_ok n1) by (unfold name_ok; repeat split; auto; lia).
    destruct rest as [|c r].
    + intros [= <- <-]. exists (n1 ++ []). rewrite app_nil_r.
      split; [reflexivity|]. split; [exact Hok|]. split; [intros []|]. now left.
    + destruct ((c =? 32) && negb (memb 10 r)) eqn:Ec; [|discriminate].
      intros [= <- <-]. apply andb_true_iff in Ec as [Ec Em].
      apply N.eqb_eq in Ec as ->. apply negb_true_iff, memb_false_iff in Em.
      exists (n1 ++ 32 :: r).
      split; [reflexivity|]. split; [exact Hok|]. split; [exact Em|]. now right.
  - intros (t & -> & (Hl1 & Hl2 & Hn) & Hlf & Ht).
    assert (El : Nat.eqb (length n) 0 || Nat.ltb 20 (length n) = false) by lia.
    destruct Ht as [[-> ->] | ->].
    + rewrite <- (app_nil_r n) at 1. rewrite span_name_app; simpl; auto.
      now rewrite El.
    + rewrite span_name_app; auto; [|reflexivity]. rewrite El.
      apply memb_false_iff in Hlf. now rewrite N.eqb_refl, Hlf.
Qed.

(* what the statement calls "addressed" is matched, for every prefix *)
Lemma cmd_match_addressed prefix text n raw :
  addresses prefix text n raw -> cmd_match prefix text = Some (n, raw).
Proof.
  intros (Hn & Hlf & Ht). apply cmd_match_spec.
  destruct Ht as [[-> ->] | ->].
  - exists n.
    split; [now apply strip_prefix_spec|]. split; [exact Hn|]. split; [exact Hlf|]. now left.
  - exists (n ++ 32 :: raw).
    split; [now apply strip_prefix_spec|]. split; [exact Hn|]. split; [exact Hlf|]. now right.
Qed.

(* and nothing else is *)
Lemma cmd_match_exact prefix text n raw :
  cmd_match prefix text = Some (n, raw) -> addresses prefix text n raw.
Proof.
  intros Hm. apply cmd_match_spec in Hm as (t & Hm & Hn & Hlf & Ht).
  apply strip_prefix_spec in Hm. subst text. unfold addresses.
  destruct Ht as [[-> ->] | ->]; auto.
Qed.

Lemma cmd_match_iff prefix text n raw :
  cmd_match prefix text = Some (n, raw) <-> addresses prefix text n raw.
Proof. split; [apply cmd_match_exact | apply cmd_match_addressed]. Qed.

(* the decomposition of an addressed text is unique *)
Lemma stops_after_name rest : rest = [] \/ (exists r, rest = 32 :: r) -> stops rest.
Proof. intros [-> | [r ->]]; simpl; auto. Qed.

Lemma addresses_unique prefix text n raw n' raw' :
  addresses prefix text n raw -> addresses prefix text n' raw' -> n = n' /\ raw = raw'.
Proof.
  intros H H'. apply cmd_match_addressed in H, H'. rewrite H in H'. now injection H'.
Qed.

(* ---- split_args: "split on single spaces" ------------------------------ *)

Lemma split_args_nonempty raw : raw <> [] -> split_args raw = split_byte 32 raw.
Proof.
  intros Hne. unfold split_args. pose proof (split_byte_join 32 raw) as J.
  destruct (split_byte 32 raw) as [|[|x q] [|q2 qs]]; try reflexivity.
  simpl in J. congruence.
Qed.

Lemma split_args_spec raw : args_split raw (split_args raw).
Proof.
  split.
  - intros ->. reflexivity.
  - intros Hne. rewrite (split_args_nonempty raw Hne).
    split; [apply split_byte_nonempty|]. split; [apply split_byte_join | apply split_byte_free].
Qed.

Lemma split_byte_single c x : ~ In c x -> split_byte c x = [x].
Proof.
  induction x as [|b x IH]; intros H; [reflexivity|].
  rewrite split_byte_cons. destruct (N.eqb_spec b c) as [->|Hne]; [exfalso; apply H; now left|].
  rewrite IH; [reflexivity|]. intros Hi; apply H; now right.
Qed.

Lemma split_byte_app_sep c x s : ~ In c x -> split_byte c (x ++ c :: s) = x :: split_byte c s.
Proof.
  induction x as [|b x IH]; intros H.
  - simpl app. rewrite split_byte_cons, N.eqb_refl. reflexivity.
  - simpl app. rewrite split_byte_cons.
    destruct (N.eqb_spec b c) as [->|Hne]; [exfalso; apply H; now left|].
    rewrite IH; [reflexivity|]. intros Hi; apply H; now right.
Qed.

Lemma split_byte_of_join c (l : list str) :
  l <> [] -> Forall (fun a => ~ In c a) l -> split_byte c (join [c] l) = l.
Proof.
  induction l as [|x l IH]; [congruence|]. intros _ HF.
  inversion HF as [|? ? Hx Hl]; subst. destruct l as [|y l].
  - simpl. now apply split_byte_single.
  - change (join [c] (x :: y :: l)) with (x ++ c :: join [c] (y :: l)).
    rewrite split_byte_app_sep; auto. rewrite IH; auto. discriminate.
Qed.

(* the statement's reading determines the arguments *)
Lemma args_split_unique raw a b : args_split raw a -> args_split raw b -> a = b.
Proof.
  intros [Ha0 Ha1] [Hb0 Hb1]. destruct raw as [|x raw].
  - rewrite Ha0, Hb0; auto.
  - destruct Ha1 as (Ha & Ja & Fa); [discriminate|]. destruct Hb1 as (Hb & Jb & Fb); [discriminate|].
    rewrite <- (split_byte_of_join 32 a Ha Fa), <- (split_byte_of_join 32 b Hb Fb). congruence.
Qed.

Lemma args_split_eq raw args : args_split raw args -> args = split_args raw.
Proof. intros H. exact (args_split_unique raw _ _ H (split_args_spec raw)). Qed.

Lemma split_byte_length c s : length (split_byte c s) = S (count_byte c s).
Proof.
  induction s as [|x s IH]; [reflexivity|].
  rewrite split_byte_cons. simpl count_byte. pose proof (split_byte_nonempty c s) as NE.
  destruct (x =? c); simpl; [now rewrite IH|].
  destruct (split_byte c s); [contradiction|]. simpl in *. lia.
Qed.

(* the number of arguments: one more than the number of spaces of a non-empty remainder *)
Lemma args_count raw args : args_split raw args ->
  length args = match raw with [] => 0%nat | _ => S (count_byte 32 raw) end.
Proof.
  intros H. rewrite (args_split_eq raw args H). destruct raw as [|x r]; [reflexivity|].
  rewrite split_args_nonempty; [|discriminate]. apply split_byte_length.
Qed.

(* ---- Execute ---------------------------------------------------------- *)

Lemma execute_invoke_iff h e c args raw :
  execute h e = Invoke c args raw <->
  exists src n, ev_source e = Some src /\ ev_command e = PRIVMSG /\
    cmd_match (h_prefix h) (last_param e) = Some (n, raw) /\ n <> help_name /\
    tbl_get n (h_cmds h) = Some c /\ args = split_args raw /\
    (c_minargs c <= Z.of_nat (length args))%Z.
Proof.
  unfold execute. split.
  - destruct (ev_source e) as [src|]; [|discriminate].
    destruct (streqb (ev_command e) PRIVMSG) eqn:Ec; [|discriminate]. cbn [negb].
    destruct (cmd_match (h_prefix h) (last_param e)) as [[n r]|] eqn:Em; [|discriminate].
    pose proof Em as Hm. apply cmd_match_spec in Hm as (t & _ & (_ & _ & Hn) & _).
    cbv zeta. rewrite (to_lower_name n Hn).
    destruct (reply_route e src) as [target lead].
    destruct (streqb n help_name) eqn:Eh.
    + destruct (split_args r) as [|a0 rest]; [discriminate|].
      destruct (lower_ascii_img a0);
        [destruct (tbl_get _ _) as [c0|]; [destruct (c_has_help c0)|]|]; discriminate.
    + destruct (tbl_get n (h_cmds h)) as [c0|] eqn:Eg; [|discriminate].
      destruct (Z.of_nat (length (split_args r)) <? c_minargs c0)%Z eqn:Ez; [discriminate|].
      intros [= <- <- <-]. exists src, n. apply streqb_spec in Ec. apply streqb_false in Eh.
      repeat split; auto. lia.
  - intros (src & n & Hs & Hc & Hm & Hh & Hg & -> & Hz).
    rewrite Hs, Hc, streqb_refl. cbn [negb]. rewrite Hm.
    pose proof Hm as Hm'. apply cmd_match_spec in Hm' as (t & _ & (_ & _ & Hn) & _).
    cbv zeta. rewrite (to_lower_name n Hn).
    destruct (reply_route e src) as [target lead].
    apply streqb_false in Hh. rewrite Hh, Hg.
    destruct (Z.of_nat (length (split_args raw)) <? c_minargs c)%Z eqn:Ez; [lia|reflexivity].
Qed.

(* too few arguments: the usage reply, to where ReplyTo routes it *)
Lemma execute_usage h e src n raw c :
  ev_source e = Some src -> ev_command e = PRIVMSG ->
  cmd_match (h_prefix h) (last_param e) = Some (n, raw) -> n <> help_name ->
  tbl_get n (h_cmds h) = Some c ->
  (Z.of_nat (length (split_args raw)) < c_minargs c)%Z ->
  execute h e = Reply (fst (reply_route e src))
                      (snd (reply_route e src) ++ usage_text (h_prefix h) n).
Proof.
  intros Hs Hc Hm Hh Hg Hz. unfold execute.
  rewrite Hs, Hc, streqb_refl. cbn [negb]. rewrite Hm.
  pose proof Hm as Hm'. apply cmd_match_spec in Hm' as (t & _ & (_ & _ & Hn) & _).
  cbv zeta. rewrite (to_lower_name n Hn).
  destruct (reply_route e src) as [target lead].
  apply streqb_false in Hh. rewrite Hh, Hg.
  destruct (Z.of_nat (length (split_args raw)) <? c_minargs c)%Z eqn:Ez; [reflexivity|lia].
Qed.

(* C18_invoke *)
Lemma invoke_addressed h e src n raw c args :
  ev_source e = Some src -> ev_command e = PRIVMSG ->
  addresses (h_prefix h) (last_param e) n raw -> n <> help_name ->
  tbl_get n (h_cmds h) = Some c -> args_split raw args ->
  ((c_minargs c <= Z.of_nat (length args))%Z -> execute h e = Invoke c args raw) /\
  ((Z.of_nat (length args) < c_minargs c)%Z ->
     execute h e = Reply (fst (reply_route e src))
                         (snd (reply_route e src) ++ usage_text (h_prefix h) n) /\
     forall c' a' r', execute h e <> Invoke c' a' r').
Proof.
  intros Hs Hc Ha Hh Hg Hsp. apply cmd_match_addressed in Ha.
  apply args_split_eq in Hsp. subst args. split.
  - intros Hz. apply execute_invoke_iff. exists src, n. repeat split; auto.
  - intros Hz. rewrite (execute_usage h e src n raw c); auto. split; [reflexivity|discriminate].
Qed.

(* C18_nothing_else *)
Lemma invoke_only_addressed h e c args raw :
  execute h e = Invoke c args raw ->
  exists src n, ev_source e = Some src /\ ev_command e = PRIVMSG /\
    addresses (h_prefix h) (last_param e) n raw /\ n <> help_name /\
    tbl_get n (h_cmds h) = Some c /\ args_split raw args /\
    (c_minargs c <= Z.of_nat (length args))%Z.
Proof.
  intros H. apply execute_invoke_iff in H as (src & n & Hs & Hc & Hm & Hh & Hg & -> & Hz).
  exists src, n. apply cmd_match_exact in Hm.
  repeat (split; [assumption|]). split; [apply split_args_spec | assumption].
Qed.

(* corollaries: the near-misses the statement lists *)
Lemma no_source_nothing h e : ev_source e = None -> execute h e = Nothing.
Proof. intros H. unfold execute. now rewrite H. Qed.

Lemma other_command_nothing h e : ev_command e <> PRIVMSG -> execute h e = Nothing.
Proof.
  intros H. unfold execute. destruct (ev_source e); [|reflexivity].
  apply streqb_false in H. now rewrite H.
Qed.

Lemma unmatched_nothing h e :
  cmd_match (h_prefix h) (last_param e) = None -> execute h e = Nothing.
Proof.
  intros H. unfold execute. destruct (ev_source e); [|reflexivity].
  destruct (negb _); [reflexivity|]. now rewrite H.
Qed.

Lemma unknown_name_nothing h e n raw :
  addresses (h_prefix h) (last_param e) n raw -> n <> help_name ->
  tbl_get n (h_cmds h) = None -> execute h e = Nothing.
Proof.
  intros Ha Hh Hg. apply cmd_match_addressed in Ha. unfold execute.
  destruct (ev_source e) as [src|]; [|reflexivity].
  destruct (negb _); [reflexivity|]. rewrite Ha.
  pose proof Ha as Hm'. apply cmd_match_spec in Hm' as (t & _ & (_ & _ & Hn) & _).
  cbv zeta. rewrite (to_lower_name n Hn). destruct (reply_route e src) as [target lead].
  apply streqb_false in Hh. now rewrite Hh, Hg.
Qed.

(* the built-in help never runs a function, registered "help" or not *)
Lemma help_never_invokes h e c args raw :
  execute h e = Invoke c args raw ->
  forall raw', ~ addresses (h_prefix h) (last_param e) help_name raw'.
Proof.
  intros H raw' Ha. apply execute_invoke_iff in H as (src & n & _ & _ & Hm & Hh & _).
  apply cmd_match_addressed in Ha. rewrite Ha in Hm. injection Hm as <- _. now apply Hh.
Qed.

(* a newline anywhere in the text (the prefix itself being free of it): nothing runs *)
Lemma newline_never_invokes h e c args raw :
  In 10 (last_param e) -> ~ In 10 (h_prefix h) -> execute h e <> Invoke c args raw.
Proof.
  intros Hin Hp H. apply invoke_only_addressed in H as (src & n & _ & _ & Ha & _).
  destruct Ha as ((_ & _ & Hn) & Hlf & Ht).
  assert (Hnn : ~ In 10 n).
  { intros Hi. rewrite Forall_forall in Hn. apply Hn in Hi. now apply name_char_not_lf in Hi. }
  destruct Ht as [[Et _] | Et]; rewrite Et in Hin; repeat (apply in_app_or in Hin as [Hin|Hin]; auto).
  destruct Hin as [Hin|Hin]; [discriminate|auto].
Qed.

(* ---- Add -------------------------------------------------------------- *)

Lemma tbl_mem_get k t : tbl_mem k t = true <-> exists c, tbl_get k t = Some c.
Proof.
  unfold tbl_mem. destruct (tbl_get k t) as [c|]; split; try discriminate; eauto.
  intros [c H]; discriminate.
Qed.

Lemma tbl_mem_false k t : tbl_mem k t = false <-> tbl_get k t = None.
Proof. unfold tbl_mem. destruct (tbl_get k t); split; congruence. Qed.

Lemma tbl_get_put k k' c t :
  tbl_get k (tbl_put k' c t) = if streqb k' k then Some c else tbl_get k t.
Proof. reflexivity. Qed.

Lemma existsb_streqb k keys : existsb (fun k' => streqb k' k) keys = true <-> In k keys.
Proof.
  rewrite existsb_exists. split.
  - intros (x & Hx & E). apply streqb_spec in E. now subst.
  - intros H. exists k. split; [assumption | apply streqb_refl].
Qed.

Lemma existsb_streqb' a l : existsb (streqb a) l = true <-> In a l.
Proof.
  rewrite existsb_exists. split.
  - intros (x & Hx & E). apply streqb_spec in E. now subst.
  - intros H. exists a. split; [assumption | apply streqb_refl].
Qed.

Lemma tbl_get_put_all keys c : forall t k,
  tbl_get k (put_all keys c t) =
  if existsb (fun k' => streqb k' k) keys then Some c else tbl_get k t.
Proof.
  induction keys as [|k1 keys IH]; intros t k; [reflexivity|].
  cbn [put_all existsb]. rewrite IH, tbl_get_put.
  destruct (streqb k1 k); destruct (existsb _ keys); reflexivity.
Qed.

(* the table after a successful registration *)
Lemma tbl_get_registered name als c t k :
  tbl_get k (put_all als c (tbl_put name c t)) =
  if existsb (fun k' => streqb k' k) (name :: als) then Some c else tbl_get k t.
Proof.
  rewrite tbl_get_put_all, tbl_get_put. cbn [existsb].
  destruct (streqb name k); destruct (existsb _ als); reflexivity.
Qed.

Lemma alias_clash_false t name als : forall earlier,
  alias_clash t name earlier als = false ->
  (forall a, In a als -> tbl_mem a t = false /\ a <> name /\ ~ In a earlier) /\ NoDup als.
Proof.
  induction als as [|a r IH]; intros earlier H.
  - split; [intros a []|constructor].
  - cbn [alias_clash] in H.
    destruct (tbl_mem a t || streqb a name || existsb (streqb a) earlier) eqn:E; [discriminate|].
    apply orb_false_iff in E as [E E3]. apply orb_false_iff in E as [E1 E2].
    apply streqb_false in E2.
    assert (E3' : ~ In a earlier) by (intros Hi; apply existsb_streqb' in Hi; congruence).
    apply IH in H as [Hall Hnd]. split.
    + intros b [<-|Hb]; [auto|]. destruct (Hall b Hb) as (Hb1 & Hb2 & Hb3).
      repeat split; auto. intros Hi. apply Hb3, in_or_app. now left.
    + constructor; [|assumption]. intros Hi. destruct (Hall a Hi) as (_ & _ & Hb3).
      apply Hb3, in_or_app. right. now left.
Qed.

Lemma alias_clash_true t name als : forall earlier,
  alias_clash t name earlier als = true ->
  (exists a, In a als /\ (tbl_mem a t = true \/ a = name \/ In a earlier)) \/ ~ NoDup als.
Proof.
  induction als as [|a r IH]; intros earlier H; [discriminate|].
  cbn [alias_clash] in H.
  destruct (tbl_mem a t || streqb a name || existsb (streqb a) earlier) eqn:E.
  - left. exists a. split; [now left|].
    apply orb_true_iff in E as [E|E]; [apply orb_true_iff in E as [E|E]|].
    + now left.
    + right; left. now apply streqb_spec.
    + right; right. now apply existsb_streqb'.
  - apply IH in H as [(b & Hb & [Hc|[Hc|Hc]]) | Hnd].
    + left. exists b. split; [now right | now left].
    + left. exists b. split; [now right | right; now left].
    + apply in_app_or in Hc as [Hc|[<-|[]]].
      * left. exists b. split; [now right | right; now right].
      * right. intros Hnd. inversion Hnd; contradiction.
    + right. intros H'. inversion H'; contradiction.
Qed.

Lemma alias_clash_complete t name als : forall earlier,
  (forall a, In a als -> tbl_mem a t = false /\ a <> name /\ ~ In a earlier) -> NoDup als ->
  alias_clash t name earlier als = false.
Proof.
  intros earlier Hall Hnd. destruct (alias_clash t name earlier als) eqn:E; [|reflexivity].
  exfalso. apply alias_clash_true in E as [(a & Ha & Hc) | Hn]; [|contradiction].
  destruct (Hall a Ha) as (H1 & H2 & H3). destruct Hc as [Hc|[Hc|Hc]]; congruence || contradiction.
Qed.

Lemma lower_valid_spec s l :
  lower_valid s = Some l <-> lower_ascii_img s = Some l /\ name_ok l.
Proof.
  unfold lower_valid. destruct (lower_ascii_img s) as [l0|]; [|split; [discriminate|intros [H _]; discriminate]].
  destruct (valid_name l0) eqn:E.
  - apply valid_name_iff in E. split; [intros [= <-]; auto | intros [[= <-] _]; reflexivity].
  - split; [discriminate|]. intros [[= <-] Hn]. apply valid_name_iff in Hn. congruence.
Qed.

Lemma lower_aliases_ok l als : lower_aliases l = Some als -> Forall name_ok als.
Proof.
  revert als; induction l as [|a r IH]; intros als; simpl.
  - intros [= <-]. constructor.
  - destruct (lower_valid a) as [a'|] eqn:Ea; [|discriminate].
    destruct (lower_aliases r) as [r'|]; [|discriminate]. intros [= <-].
    constructor; [|now apply IH]. now apply lower_valid_spec in Ea.
Qed.

(* invalid or duplicate => error, and the table is the one before the call *)
Lemma add_rejects t cmd :
  bad_registration t cmd -> exists err, add t cmd = (t, Some err).
Proof.
  unfold bad_registration, reg_keys, add.
  destruct (lower_valid (c_name cmd)) as [name|]; [|intros _; eauto].
  destruct (lower_aliases (c_aliases cmd)) as [als|]; [|intros _; eauto].
  intros Hbad. destruct (tbl_mem name t) eqn:Em; [eauto|].
  destruct (alias_clash t name [] als) eqn:Ec; [eauto|]. exfalso.
  apply alias_clash_false in Ec as [Hall Hnd]. destruct Hbad as [Hn | (k & [<-|Hk] & Hm)].
  - apply Hn. constructor; [|assumption]. intros Hi. now destruct (Hall name Hi) as (_ & ? & _).
  - congruence.
  - destruct (Hall k Hk) as (? & _). congruence.
Qed.

Lemma add_error_unchanged t cmd t' err : add t cmd = (t', Some err) -> t' = t.
Proof.
  unfold add. destruct (lower_valid _); [|now intros [= <-]].
  destruct (lower_aliases _); [|now intros [= <-]].
  destruct (tbl_mem _ t); [now intros [= <-]|].
  destruct (alias_clash _ _ _ _); [now intros [= <-]|discriminate].
Qed.

(* neither invalid nor duplicate => registered: every claimed key now addresses the
   command, every other key is as before *)
Lemma add_accepts t cmd name als :
  reg_keys cmd = Some (name :: als) -> ~ bad_registration t cmd ->
  add t cmd = (put_all als (stored cmd name als) (tbl_put name (stored cmd name als) t), None).
Proof.
  unfold bad_registration, reg_keys, add.
  destruct (lower_valid (c_name cmd)) as [name0|]; [|discriminate].
  destruct (lower_aliases (c_aliases cmd)) as [als0|]; [|discriminate].
  intros [= -> ->] Hgood.
  destruct (tbl_mem name t) eqn:Em.
  { exfalso. apply Hgood. right. exists name. split; [now left|assumption]. }
  destruct (alias_clash t name [] als) eqn:Ec; [|reflexivity].
  exfalso. apply Hgood. apply alias_clash_true in Ec as [(a & Ha & [Hc|[Hc|[]]]) | Hn].
  - right. exists a. split; [now right|assumption].
  - left. subst a. intros Hnd. inversion Hnd; contradiction.
  - left. intros Hnd. inversion Hnd; contradiction.
Qed.

Lemma add_accepts_lookup t cmd name als :
  reg_keys cmd = Some (name :: als) -> ~ bad_registration t cmd ->
  snd (add t cmd) = None /\
  forall k, tbl_get k (fst (add t cmd)) =
            if existsb (fun k' => streqb k' k) (name :: als) then Some (stored cmd name als)
            else tbl_get k t.
Proof.
  intros Hk Hg. rewrite (add_accepts t cmd name als Hk Hg).
  split; [reflexivity|]. intros k. apply tbl_get_registered.
Qed.

Lemma add_ok_inv t cmd t' :
  add t cmd = (t', None) ->
  exists name als, reg_keys cmd = Some (name :: als) /\ ~ bad_registration t cmd /\
    t' = put_all als (stored cmd name als) (tbl_put name (stored cmd name als) t).
Proof.
  unfold bad_registration, reg_keys, add.
  destruct (lower_valid (c_name cmd)) as [name|]; [|discriminate].
  destruct (lower_aliases (c_aliases cmd)) as [als|]; [|discriminate].
  destruct (tbl_mem name t) eqn:Em; [discriminate|].
  destruct (alias_clash t name [] als) eqn:Ec; [discriminate|].
  intros [= <-]. exists name, als. split; [reflexivity|]. split; [|reflexivity].
  apply alias_clash_false in Ec as [Hall Hnd]. intros [Hn | (k & [<-|Hk] & Hm)].
  - apply Hn. constructor; [|assumption]. intros Hi. now destruct (Hall name Hi) as (_ & ? & _).
  - congruence.
  - destruct (Hall k Hk) as (? & _). congruence.
Qed.

(* C18_add_rejects, both readings at once: bad => error; error => table unchanged *)
Lemma add_rejects_full t cmd :
  (bad_registration t cmd -> exists err, add t cmd = (t, Some err)) /\
  (forall t' err, add t cmd = (t', Some err) -> t' = t /\ bad_registration t cmd).
Proof.
  split; [apply add_rejects|]. intros t' err H. split; [eapply add_error_unchanged; eauto|].
  unfold bad_registration. destruct (reg_keys cmd) as [[|name als]|] eqn:Ek; auto.
  - unfold reg_keys in Ek. destruct (lower_valid _); [destruct (lower_aliases _)|]; discriminate.
  - unfold reg_keys in Ek. unfold add in H.
    destruct (lower_valid (c_name cmd)) as [name0|]; [|discriminate].
    destruct (lower_aliases (c_aliases cmd)) as [als0|]; [|discriminate].
    injection Ek as -> ->.
    destruct (tbl_mem name t) eqn:Em.
    { right. exists name. split; [now left|assumption]. }
    destruct (alias_clash t name [] als) eqn:Ec; [|discriminate].
    apply alias_clash_true in Ec as [(a & Ha & [Hc|[Hc|[]]]) | Hn].
    + right. exists a. split; [now right|assumption].
    + left. subst a. intros Hnd. inversion Hnd; contradiction.
    + left. intros Hnd. inversion Hnd; contradiction.
Qed.

(* what is invocable after Add, in one equation per outcome *)
Lemma add_lookup t cmd k :
  tbl_get k (fst (add t cmd)) =
  match snd (add t cmd), reg_keys cmd with
  | None, Some (name :: als) =>
      if existsb (fun k' => streqb k' k) (name :: als) then Some (stored cmd name als)
      else tbl_get k t
  | _, _ => tbl_get k t
  end.
Proof.
  destruct (add t cmd) as [t' [err|]] eqn:E; cbn [fst snd].
  - apply add_error_unchanged in E. now subst.
  - apply add_ok_inv in E as (name & als & -> & _ & ->). apply tbl_get_registered.
Qed.

(* a key that addresses a command keeps addressing it: registrations never overwrite *)
Lemma add_preserves t cmd k c :
  tbl_get k t = Some c -> tbl_get k (fst (add t cmd)) = Some c.
Proof.
  intros Hg. destruct (add t cmd) as [t' [err|]] eqn:E; cbn [fst].
  - apply add_error_unchanged in E. now subst.
  - apply add_ok_inv in E as (name & als & Hk & Hgood & ->).
    rewrite tbl_get_registered. destruct (existsb _ (name :: als)) eqn:Ex; [|assumption].
    exfalso. apply Hgood. unfold bad_registration. rewrite Hk. right. exists k.
    split; [now apply existsb_streqb | apply tbl_mem_get; eauto].
Qed.

(* every table Add can build: keys are valid names, each key is the name or an alias of
   the command it addresses, MinArgs is not negative *)
Definition table_wf (t : cmd_table) : Prop :=
  forall k c, tbl_get k t = Some c ->
    name_ok k /\ (k = c_name c \/ In k (c_aliases c)) /\ (0 <= c_minargs c)%Z /\
    name_ok (c_name c) /\ Forall name_ok (c_aliases c) /\
    tbl_get (c_name c) t = Some c /\ (forall a, In a (c_aliases c) -> tbl_get a t = Some c).

Lemma reachable_wf t : reachable t -> table_wf t.
Proof.
  induction 1 as [|t cmd Hr IH]; [intros k c H; discriminate|].
  destruct (add t cmd) as [t' [err|]] eqn:E; cbn [fst].
  - apply add_error_unchanged in E. now subst.
  - pose proof E as E'. apply add_ok_inv in E' as (name & als & Hk & Hgood & ->).
    assert (Hname : name_ok name /\ Forall name_ok als).
    { unfold reg_keys in Hk. destruct (lower_valid (c_name cmd)) as [n0|] eqn:E1; [|discriminate].
      destruct (lower_aliases (c_aliases cmd)) as [a0|] eqn:E2; [|discriminate].
      injection Hk as -> ->. split; [now apply lower_valid_spec in E1 | now apply lower_aliases_ok in E2]. }
    destruct Hname as [Hn Ha].
    assert (Hfresh : forall k, In k (name :: als) -> tbl_get k t = None).
    { intros k Hi. destruct (tbl_get k t) eqn:G; [|reflexivity]. exfalso. apply Hgood.
      unfold bad_registration. rewrite Hk. right. exists k. split; [assumption|]. apply tbl_mem_get; eauto. }
    intros k c. rewrite tbl_get_registered.
    destruct (existsb _ (name :: als)) eqn:Ex.
    + intros [= <-]. apply existsb_streqb in Ex. cbn [stored c_name c_aliases c_minargs].
      split; [destruct Ex as [<-|Ex]; [assumption | rewrite Forall_forall in Ha; auto]|].
      split; [destruct Ex as [<-|Ex]; auto|].
      split; [destruct (c_minargs cmd <? 0)%Z eqn:Ez; lia|].
      split; [assumption|]. split; [assumption|]. split.
      * rewrite tbl_get_registered. cbn [existsb]. now rewrite streqb_refl.
      * intros a Hi. rewrite tbl_get_registered.
        assert (X : existsb (fun k' => streqb k' a) (name :: als) = true)
          by (apply existsb_streqb; now right). now rewrite X.
    + intros G. destruct (IH k c G) as (H1 & H2 & H3 & H4 & H5 & H6 & H7).
      repeat (split; [assumption|]). split.
      * rewrite tbl_get_registered.
        destruct (existsb (fun k' => streqb k' (c_name c)) (name :: als)) eqn:Ex2; [|exact H6].
        apply existsb_streqb in Ex2. apply Hfresh in Ex2. congruence.
      * intros a Hi. rewrite tbl_get_registered.
        destruct (existsb (fun k' => streqb k' a) (name :: als)) eqn:Ex2; [|exact (H7 a Hi)].
        apply existsb_streqb in Ex2. apply Hfresh in Ex2. rewrite (H7 a Hi) in Ex2. discriminate.
Qed.

(* ---- the built-in help --------------------------------------------------- *)

Lemma help_name_ok : name_ok help_name.
Proof. apply valid_name_iff. reflexivity. Qed.

(* the outcome of an addressed "help", for every prefix: never an invocation, always one
   reply, routed like every reply *)
Lemma help_outcome h e src raw :
  ev_source e = Some src -> ev_command e = PRIVMSG ->
  addresses (h_prefix h) (last_param e) help_name raw ->
  execute h e =
    let target := fst (reply_route e src) in
    let lead := snd (reply_route e src) in
    match split_args raw with
    | [] => ReplyHelp HelpGeneric target lead
    | a0 :: _ =>
      match match lower_ascii_img a0 with Some k => tbl_get k (h_cmds h) | None => None end with
      | None => ReplyHelp HelpUnknown target lead
      | Some c => if c_has_help c then ReplyHelp (HelpText c) target lead
                  else ReplyHelp HelpNoDoc target lead
      end
    end.
Proof.
  intros Hs Hc Ha. apply cmd_match_addressed in Ha. unfold execute.
  rewrite Hs, Hc, streqb_refl. cbn [negb]. rewrite Ha. cbv zeta.
  destruct help_name_ok as (_ & _ & Hn). rewrite (to_lower_name _ Hn), streqb_refl.
  destruct (reply_route e src) as [target lead]. reflexivity.
Qed.

(* "help" alone *)
Lemma help_generic h e src :
  ev_source e = Some src -> ev_command e = PRIVMSG ->
  addresses (h_prefix h) (last_param e) help_name [] ->
  execute h e = ReplyHelp HelpGeneric (fst (reply_route e src)) (snd (reply_route e src)).
Proof. intros Hs Hc Ha. now rewrite (help_outcome h e src [] Hs Hc Ha). Qed.

(* "help k ...": the documentation of the command that k addresses *)
Lemma help_of_registered h e src raw a0 rest k c :
  ev_source e = Some src -> ev_command e = PRIVMSG ->
  addresses (h_prefix h) (last_param e) help_name raw ->
  args_split raw (a0 :: rest) -> lower_ascii_img a0 = Some k -> tbl_get k (h_cmds h) = Some c ->
  execute h e = ReplyHelp (if c_has_help c then HelpText c else HelpNoDoc)
                          (fst (reply_route e src)) (snd (reply_route e src)).
Proof.
  intros Hs Hc Ha Hsp Hl Hg. rewrite (help_outcome h e src raw Hs Hc Ha). cbv zeta.
  apply args_split_eq in Hsp. rewrite <- Hsp, Hl, Hg. now destruct (c_has_help c).
Qed.

Lemma help_of_unknown h e src raw a0 rest :
  ev_source e = Some src -> ev_command e = PRIVMSG ->
  addresses (h_prefix h) (last_param e) help_name raw ->
  args_split raw (a0 :: rest) ->
  (forall k, lower_ascii_img a0 = Some k -> tbl_get k (h_cmds h) = None) ->
  execute h e = ReplyHelp HelpUnknown (fst (reply_route e src)) (snd (reply_route e src)).
Proof.
  intros Hs Hc Ha Hsp Hno. rewrite (help_outcome h e src raw Hs Hc Ha). cbv zeta.
  apply args_split_eq in Hsp. rewrite <- Hsp.
  destruct (lower_ascii_img a0) as [k|]; [|reflexivity]. now rewrite (Hno k eq_refl).
Qed.

(* lower-casing a valid name changes nothing (strings.ToLower on an ASCII lower-case word) *)
Lemma lower_ascii_img_name n : Forall name_char n -> lower_ascii_img n = Some n.
Proof.
  induction 1 as [|b n Hb Hn IH]; [reflexivity|].
  cbn [lower_ascii_img]. assert (Hlt : (b <? 128) = true) by (unfold name_char in Hb; lia).
  rewrite Hlt, IH. cbn [option_map]. now rewrite lower1_name_char.
Qed.

(* the usage reply points at the built-in help of the same command: the text it quotes,
   sent back as it is, is answered with that command's documentation *)
Lemma usage_suggestion_addresses_help prefix n :
  name_ok n -> addresses prefix (prefix ++ usage_c ++ n) help_name n.
Proof.
  intros Hn. split; [exact help_name_ok|]. split.
  - intros Hi. destruct Hn as (_ & _ & Hn). rewrite Forall_forall in Hn.
    apply Hn in Hi. now apply name_char_not_lf in Hi.
  - right. reflexivity.
Qed.

Lemma usage_then_help h e src n c :
  ev_source e = Some src -> ev_command e = PRIVMSG ->
  name_ok n -> tbl_get n (h_cmds h) = Some c ->
  last_param e = h_prefix h ++ usage_c ++ n ->
  execute h e = ReplyHelp (if c_has_help c then HelpText c else HelpNoDoc)
                          (fst (reply_route e src)) (snd (reply_route e src)).
Proof.
  intros Hs Hc Hn Hg Ht.
  assert (Hsp : args_split n [n]).
  { destruct Hn as (Hl & _ & Hch). split.
    - intros ->. simpl in Hl. lia.
    - intros _. split; [discriminate|]. split; [reflexivity|]. constructor; [|constructor].
      intros Hi. rewrite Forall_forall in Hch. apply Hch in Hi. now apply name_char_not_space in Hi. }
  apply (help_of_registered h e src n n [] n c); auto.
  - rewrite Ht. now apply usage_suggestion_addresses_help.
  - apply lower_ascii_img_name. now destruct Hn as (_ & _ & ?).
Qed.

(* ---- reply routing (Commands.ReplyTo) ---------------------------------- *)

Lemma reply_route_channel e src p0 ps :
  ev_params e = p0 :: ps -> is_valid_channel p0 = true ->
  reply_route e src = (p0, src ++ [44; 32]).
Proof. intros Hp Hc. unfold reply_route. now rewrite Hp, Hc. Qed.

Lemma reply_route_private e src :
  (forall p0 ps, ev_params e = p0 :: ps -> is_valid_channel p0 = false) ->
  reply_route e src = (src, []).
Proof.
  intros H. unfold reply_route. destruct (ev_params e) as [|p0 ps]; [reflexivity|].
  now rewrite (H p0 ps eq_refl).
Qed.

(* ---- lower-casing, as far as ASCII goes ---------------------------------- *)

Lemma lower_ascii_img_ascii s : is_ascii s = true -> lower_ascii_img s = Some (to_lower_ascii s).
Proof.
  unfold is_ascii, to_lower_ascii. induction s as [|b s IH]; [reflexivity|].
  cbn [forallb map lower_ascii_img]. intros H. apply andb_true_iff in H as [Hb Hs].
  rewrite Hb, (IH Hs). reflexivity.
Qed.

(* ---- the usage reply on the wire (ASCII case) ----------------------------- *)

Lemma to_valid_aux_ascii repl s : forall inrun,
  is_ascii s = true -> to_valid_aux repl s 0 inrun = s.
Proof.
  unfold is_ascii. induction s as [|b s IH]; intros inrun H; [reflexivity|].
  cbn [forallb] in H. apply andb_true_iff in H as [Hb Hs].
  cbn [to_valid_aux]. unfold rune_size. rewrite Hb. cbn [Nat.sub]. now rewrite IH.
Qed.

Lemma strip_crlf_clean s : ~ In 10 s -> ~ In 13 s -> strip_crlf s = s.
Proof.
  unfold strip_crlf. induction s as [|b s IH]; intros H10 H13; [reflexivity|].
  cbn [filter]. assert (b <> 10 /\ b <> 13) as [Hb1 Hb2].
  { split; intros ->; [apply H10 | apply H13]; now left. }
  assert (E : negb ((b =? 10) || (b =? 13)) = true) by lia. rewrite E, IH; auto.
  - intros Hi; apply H10; now right.
  - intros Hi; apply H13; now right.
Qed.

Lemma clean_app a b : clean a -> clean b -> clean (a ++ b).
Proof.
  unfold clean, is_ascii. intros (A1 & A2 & A3) (B1 & B2 & B3). rewrite forallb_app, A1, B1.
  repeat split; auto; intros Hi; apply in_app_or in Hi as [Hi|Hi]; auto.
Qed.

Lemma clean_by_computation s :
  is_ascii s && negb (memb 10 s) && negb (memb 13 s) = true -> clean s.
Proof.
  intros H. apply andb_true_iff in H as [H H3]. apply andb_true_iff in H as [H1 H2].
  apply negb_true_iff, memb_false_iff in H2, H3. now repeat split.
Qed.

Lemma wire2_clean command p0 p1 :
  clean command -> clean p0 -> clean p1 ->
  wire2 command p0 p1 =
  command ++ [32] ++ p0 ++ [32] ++ (if needs_colon p1 then [58] else []) ++ p1.
Proof.
  intros Hc H0 H1. unfold wire2, to_valid_utf8.
  assert (Hall : clean (command ++ [32] ++ p0 ++ [32] ++ (if needs_colon p1 then [58] else []) ++ p1)).
  { repeat apply clean_app; auto; try (apply clean_by_computation; reflexivity).
    destruct (needs_colon p1); apply clean_by_computation; reflexivity. }
  destruct Hall as (A & B & C). rewrite to_valid_aux_ascii; auto. now apply strip_crlf_clean.
Qed.

Lemma name_ok_clean n : name_ok n -> clean n.
Proof.
  intros (_ & _ & Hn). unfold clean, is_ascii. rewrite forallb_forall. rewrite Forall_forall in Hn.
  repeat split.
  - intros b Hb. apply Hn in Hb. unfold name_char in Hb. lia.
  - intros Hi. apply Hn in Hi. unfold name_char in Hi. lia.
  - intros Hi. apply Hn in Hi. unfold name_char in Hi. lia.
Qed.

(* what is written for the usage reply when prefix, sender and target are plain ASCII
   without CR/LF: one line, the text behind a colon *)
Lemma usage_reply_wire prefix n target lead :
  clean prefix -> clean target -> clean lead -> name_ok n ->
  wire2 PRIVMSG target (lead ++ usage_text prefix n) =
  PRIVMSG ++ [32] ++ target ++ [32; 58] ++ lead ++ usage_text prefix n.
Proof.
  intros Hp Ht Hl Hn. apply name_ok_clean in Hn.
  assert (Hu : clean (lead ++ usage_text prefix n)).
  { unfold usage_text. repeat apply clean_app; auto; apply clean_by_computation; reflexivity. }
  rewrite wire2_clean; auto; [|apply clean_by_computation; reflexivity].
  assert (Hc : needs_colon (lead ++ usage_text prefix n) = true).
  { unfold needs_colon. apply orb_true_iff. left. apply memb_In. apply in_or_app. right.
    unfold usage_text. apply in_or_app. left. vm_compute. tauto. }
  rewrite Hc. reflexivity.
Qed.

(* ---- the U+FFFD prefix (repaired in cd20b6b: it used to match any invalid byte) ---- *)

Definition fffd : str := [239; 191; 189].
Definition fffd_handler : cmd_handler :=
  mk_handler fffd (fst (add [] (mk_command 0 (bs "ping") [] false 0))).
Definition fffd_event (text : str) : event :=
  mk_event (Some (bs "nick")) PRIVMSG [bs "bot"; text].

Example ex_fffd_prefix :
  execute fffd_handler (fffd_event (255 :: bs "ping")) = Nothing /\
  execute fffd_handler (fffd_event (128 :: bs "ping")) = Nothing /\
  execute fffd_handler (fffd_event (fffd ++ bs "ping")) =
    Invoke (stored (mk_command 0 (bs "ping") [] false 0) (bs "ping") []) [] [].
Proof. vm_compute. repeat split. Qed.

(* ---- registrations and invocations together ------------------------------ *)

(* after a successful Add on a table Add built, each claimed key, addressed with enough
   arguments, runs the command just registered *)
Lemma registered_then_invoked t cmd name als prefix e src k raw args :
  reg_keys cmd = Some (name :: als) -> ~ bad_registration t cmd ->
  In k (name :: als) -> k <> help_name ->
  ev_source e = Some src -> ev_command e = PRIVMSG ->
  addresses prefix (last_param e) k raw -> args_split raw args ->
  (c_minargs (stored cmd name als) <= Z.of_nat (length args))%Z ->
  execute (mk_handler prefix (fst (add t cmd))) e = Invoke (stored cmd name als) args raw.
Proof.
  intros Hk Hgood Hin Hh Hs Hc Ha Hsp Hz.
  apply (invoke_addressed (mk_handler prefix (fst (add t cmd))) e src k raw); auto.
  cbn [h_cmds]. rewrite add_lookup, (add_accepts t cmd name als Hk Hgood). cbn [snd]. rewrite Hk.
  assert (X : existsb (fun k' => streqb k' k) (name :: als) = true) by now apply existsb_streqb.
  now rewrite X.
Qed.

(* and a rejected Add changes nothing that can be invoked *)
Lemma rejected_changes_nothing t cmd prefix e :
  bad_registration t cmd ->
  execute (mk_handler prefix (fst (add t cmd))) e = execute (mk_handler prefix t) e.
Proof. intros Hb. apply add_rejects in Hb as [err ->]. reflexivity. Qed.

(* ---- sequences of messages ------------------------------------------------ *)

Lemma execute_seq_nth h es i :
  nth_error (execute_seq h es) i = option_map (execute h) (nth_error es i).
Proof.
  unfold execute_seq. revert i; induction es as [|e es IH]; intros [|i]; simpl; auto.
Qed.

Lemma execute_seq_length h es : length (execute_seq h es) = length es.
Proof. unfold execute_seq. apply map_length. Qed.

(* the i-th message of a sequence is treated as if it were alone: C18_invoke and
   C18_nothing_else hold message by message *)
Lemma execute_seq_invoke_iff h es i c args raw :
  nth_error (execute_seq h es) i = Some (Invoke c args raw) <->
  exists e src n, nth_error es i = Some e /\ ev_source e = Some src /\ ev_command e = PRIVMSG /\
    addresses (h_prefix h) (last_param e) n raw /\ n <> help_name /\
    tbl_get n (h_cmds h) = Some c /\ args_split raw args /\
    (c_minargs c <= Z.of_nat (length args))%Z.
Proof.
  rewrite execute_seq_nth. split.
  - destruct (nth_error es i) as [e|]; [|discriminate]. cbn [option_map]. intros [= H].
    apply invoke_only_addressed in H as (src & n & H). exists e, src, n. tauto.
  - intros (e & src & n & -> & Hs & Hc & Ha & Hh & Hg & Hsp & Hz). cbn [option_map]. f_equal.
    now apply (invoke_addressed h e src n raw c args).
Qed.

(* ---- examples: the hypotheses are satisfiable -------------------------- *)

Definition ex_prefix : str := Eval vm_compute in bs "$^".
Definition ex_cmd : command :=
  mk_command 7 (bs "Ping") [bs "p"] true 2.
Definition ex_table : cmd_table := fst (add [] ex_cmd).
Definition ex_handler : cmd_handler := mk_handler ex_prefix ex_table.
Definition ex_stored : command := stored ex_cmd (bs "ping") [bs "p"].
Definition ex_event (text : str) : event := mk_event (Some (bs "nick")) PRIVMSG [bs "#chan"; text].

(* prefix made of regex metacharacters, alias, double space: three arguments, the middle
   one empty *)
Lemma addresses_by_computation prefix text n raw :
  valid_name n = true -> memb 10 raw = false ->
  (streqb text (prefix ++ n) && streqb raw [] || streqb text (prefix ++ n ++ 32 :: raw)) = true ->
  addresses prefix text n raw.
Proof.
  intros Hn Hr Ht. split; [now apply valid_name_iff|]. split; [now apply memb_false_iff|].
  apply orb_true_iff in Ht as [Ht|Ht].
  - apply andb_true_iff in Ht as [H1 H2]. apply streqb_spec in H1, H2. now left.
  - apply streqb_spec in Ht. now right.
Qed.

Lemma args_split_by_computation raw args :
  streqb (join [32] args) raw && negb (existsb (memb 32) args) &&
  (match raw, args with [], [] => true | _ :: _, _ :: _ => true | _, _ => false end) = true ->
  args_split raw args.
Proof.
  intros H. apply andb_true_iff in H as [H H3]. apply andb_true_iff in H as [H1 H2].
  apply streqb_spec in H1. apply negb_true_iff in H2. split.
  - intros ->. destruct args; [reflexivity|discriminate].
  - intros Hne. split; [destruct raw, args; congruence|]. split; [assumption|].
    apply Forall_forall. intros a Ha Hi. apply memb_In in Hi.
    assert (existsb (memb 32) args = true) by (apply existsb_exists; now exists a). congruence.
Qed.

Example ex_invoke :
  let e := ex_event (bs "$^p a  b") in
  ev_source e = Some (bs "nick") /\ ev_command e = PRIVMSG /\
  addresses (h_prefix ex_handler) (last_param e) (bs "p") (bs "a  b") /\
  bs "p" <> help_name /\ tbl_get (bs "p") (h_cmds ex_handler) = Some ex_stored /\
  args_split (bs "a  b") [bs "a"; []; bs "b"] /\
  (c_minargs ex_stored <= 3)%Z /\
  execute ex_handler e = Invoke ex_stored [bs "a"; []; bs "b"] (bs "a  b").
Proof.
  cbv zeta. split; [reflexivity|]. split; [reflexivity|].
  split; [apply addresses_by_computation; reflexivity|].
  split; [discriminate|]. split; [reflexivity|].
  split; [apply args_split_by_computation; reflexivity|].
  split; [vm_compute; discriminate | reflexivity].
Qed.

(* one argument where two are required: usage reply, nothing runs *)
Example ex_usage :
  let e := ex_event (bs "$^ping a") in
  addresses (h_prefix ex_handler) (last_param e) (bs "ping") (bs "a") /\
  args_split (bs "a") [bs "a"] /\ (1 < c_minargs ex_stored)%Z /\
  execute ex_handler e =
    Reply (bs "#chan") (bs "nick, " ++ usage_text ex_prefix (bs "ping")).
Proof.
  cbv zeta. split; [apply addresses_by_computation; reflexivity|].
  split; [apply args_split_by_computation; reflexivity|].
  split; reflexivity.
Qed.

(* near-misses: nothing runs *)
Example ex_near_misses :
  execute ex_handler (ex_event (bs "!ping a b")) = Nothing /\          (* other prefix *)
  execute ex_handler (ex_event (bs "^ping a b")) = Nothing /\          (* part of the prefix *)
  execute ex_handler (ex_event (bs "ping a b")) = Nothing /\           (* "$^" as a regex would match this *)
  execute ex_handler (ex_event (bs "$^Ping a b")) = Nothing /\         (* upper case *)
  execute ex_handler (ex_event (bs "$^pong a b")) = Nothing /\         (* unknown name *)
  execute ex_handler (ex_event (bs "$^pin a b")) = Nothing /\
  execute ex_handler (ex_event (bs "$^pingx a b")) = Nothing /\
  execute ex_handler (ex_event (bs "$^ping" ++ [10])) = Nothing /\     (* `$` is not before a final newline *)
  execute ex_handler (ex_event (bs "$^ping a b" ++ [10])) = Nothing /\
  execute ex_handler (ex_event (bs "$^ping a" ++ [10] ++ bs "b c")) = Nothing /\
  execute ex_handler (ex_event (bs " $^ping a b")) = Nothing /\
  execute ex_handler (mk_event None PRIVMSG [bs "#chan"; bs "$^ping a b"]) = Nothing /\
  execute ex_handler (mk_event (Some (bs "nick")) NOTICE [bs "#chan"; bs "$^ping a b"]) = Nothing /\
  execute ex_handler (mk_event (Some (bs "nick")) PRIVMSG []) = Nothing.
Proof. vm_compute. repeat split. Qed.

(* registrations: a duplicate alias (after lower-casing: "P" clashes with "p"), an invalid
   alias, a name that is its own alias, and one that is accepted; U+212A lower-cases to k *)
Example ex_add :
  let dup := mk_command 8 (bs "pong") [bs "x"; bs "P"] false 0 in
  let inval := mk_command 9 (bs "pong") [bs "bad alias"] false 0 in
  let self := mk_command 10 (bs "self") [bs "SELF"] false 0 in
  let long := mk_command 11 (bs "abcdefghij0123456789x") [] false 0 in
  let good := mk_command 12 [226; 132; 170] [bs "q-1"; bs "_"] false (-3) in
  bad_registration ex_table dup /\ add ex_table dup = (ex_table, Some ErrDupAlias) /\
  bad_registration ex_table inval /\ add ex_table inval = (ex_table, Some ErrInvalidAlias) /\
  bad_registration ex_table self /\ add ex_table self = (ex_table, Some ErrDupAlias) /\
  bad_registration ex_table long /\ add ex_table long = (ex_table, Some ErrInvalidName) /\
  bad_registration ex_table ex_cmd /\ add ex_table ex_cmd = (ex_table, Some ErrDupName) /\
  reg_keys good = Some [bs "k"; bs "q-1"; bs "_"] /\ ~ bad_registration ex_table good /\
  snd (add ex_table good) = None /\
  tbl_get (bs "_") (fst (add ex_table good)) = Some (stored good (bs "k") [bs "q-1"; bs "_"]) /\
  c_minargs (stored good (bs "k") [bs "q-1"; bs "_"]) = 0%Z /\
  tbl_get (bs "p") (fst (add ex_table good)) = Some ex_stored.
Proof.
  cbv zeta.
  split. { right. exists (bs "p"). split; [right; right; now left | reflexivity]. }
  split; [reflexivity|].
  split. { exact I. }
  split; [reflexivity|].
  split. { left. intros H. inversion H as [|? ? Hn _]. apply Hn. now left. }
  split; [reflexivity|].
  split. { exact I. }
  split; [reflexivity|].
  split. { right. exists (bs "ping"). split; [now left | reflexivity]. }
  split; [reflexivity|].
  split; [reflexivity|].
  split.
  { intros [Hn | (k & Hk & Hm)].
    - apply Hn. repeat constructor; simpl; intuition discriminate.
    - destruct Hk as [<-|[<-|[<-|[]]]]; vm_compute in Hm; discriminate. }
  repeat split; reflexivity.
Qed.

(* odd prefixes: empty, a newline, invalid UTF-8, one that looks like an invocation *)
Example ex_odd_prefixes :
  execute (mk_handler [] ex_table) (ex_event (bs "p a b")) =
    Invoke ex_stored [bs "a"; bs "b"] (bs "a b") /\
  execute (mk_handler [] ex_table) (ex_event (bs " p a b")) = Nothing /\
  execute (mk_handler [10] ex_table) (ex_event (10 :: bs "p a b")) =
    Invoke ex_stored [bs "a"; bs "b"] (bs "a b") /\
  execute (mk_handler [255; 33] ex_table) (ex_event (255 :: bs "!p a b")) =
    Invoke ex_stored [bs "a"; bs "b"] (bs "a b") /\
  execute (mk_handler [255; 33] ex_table) (ex_event (fffd ++ bs "!p a b")) = Nothing /\
  execute (mk_handler (bs "ping ") ex_table) (ex_event (bs "ping ping a b")) =
    Invoke ex_stored [bs "a"; bs "b"] (bs "a b") /\
  execute (mk_handler (bs "ping ") ex_table) (ex_event (bs "ping a b")) = Nothing.
Proof. vm_compute. repeat split. Qed.
