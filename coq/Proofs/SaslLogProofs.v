(* Proofs for C09, part 3: passwords and SASL payloads never reach Config.Debug or
   Config.Out.  (1) The loggers of outgoing events are functions of the redacted event: for
   a Sensitive event they do not depend on the parameters.  (2) Session-level
   non-interference: two configurations that differ only in their secrets (server
   password, WEBIRC fields, mechanism responses of equal length) produce the same log,
   record by record, the same Connect result and the same negotiation state, for every
   history of server events -- which can only be true if every event built from a secret
   is Sensitive and no handler copies a secret into an injected ERROR.
   StripRaw and the tail of Event.Pretty are arbitrary functions throughout. *)
Require Import Bytes Utf8 Base64 CapLib Sasl SaslSpec FormatLemmas Base64Lemmas SaslProofs SaslFailClosed.
From Coq Require Import Lia.

Section LogProofs.
  Variable strip_raw : str -> str.
  Variable pretty_rest : event -> option str.

  (* ---- (1) the loggers ------------------------------------------------------------ *)

  Lemma pretty_sensitive e : ev_sensitive e = true -> pretty pretty_rest e = None.
  Proof. intros H. unfold pretty. rewrite H. reflexivity. Qed.

  Lemma out_log_sensitive e : ev_sensitive e = true -> out_log strip_raw pretty_rest e = [].
  Proof. intros H. unfold out_log. rewrite (pretty_sensitive e H). reflexivity. Qed.

  Lemma debug_log_sensitive dropped e :
    ev_sensitive e = true ->
    debug_log strip_raw dropped e =
      (if dropped then t_dropping else t_gt) ++ t_extra ++ ev_cmd e ++ t_rparen.
  Proof. intros H. unfold debug_log. rewrite H. reflexivity. Qed.

  (* non-interference of the send-path loggers in the parameters of a Sensitive event *)
  Theorem loggers_ignore_sensitive_params e ps dropped :
    ev_sensitive e = true ->
    debug_log strip_raw dropped (with_params e ps) = debug_log strip_raw dropped e /\
    out_log strip_raw pretty_rest (with_params e ps) = out_log strip_raw pretty_rest e /\
    out_log strip_raw pretty_rest e = [].
  Proof.
    intros H.
    assert (H' : ev_sensitive (with_params e ps) = true) by exact H.
    split; [|split].
    - rewrite (debug_log_sensitive dropped _ H'), (debug_log_sensitive dropped _ H). reflexivity.
    - rewrite (out_log_sensitive _ H'), (out_log_sensitive _ H). reflexivity.
    - exact (out_log_sensitive _ H).
  Qed.

  Lemma redact_sensitive e : ev_sensitive e = true -> redact e = with_params e [].
  Proof. intros H. unfold redact. rewrite H. reflexivity. Qed.
  Lemma redact_plain e : ev_sensitive e = false -> redact e = e.
  Proof. intros H. unfold redact. rewrite H. reflexivity. Qed.

  Lemma write_log_redact e :
    write_log strip_raw pretty_rest e = write_log strip_raw pretty_rest (redact e).
  Proof.
    destruct (ev_sensitive e) eqn:H.
    - rewrite (redact_sensitive e H). unfold write_log.
      destruct (loggers_ignore_sensitive_params e [] false H) as [H1 [H2 _]].
      rewrite H1, H2. reflexivity.
    - rewrite (redact_plain e H). reflexivity.
  Qed.

  Lemma output_log_redact o :
    output_log strip_raw pretty_rest o = output_log strip_raw pretty_rest (redact_out o).
  Proof. destruct o as [e|t]; [exact (write_log_redact e) | reflexivity]. Qed.

  Lemma map_output_log_redact o1 o2 :
    List.map redact_out o1 = List.map redact_out o2 ->
    List.map (output_log strip_raw pretty_rest) o1 = List.map (output_log strip_raw pretty_rest) o2.
  Proof.
    intros H.
    assert (E : forall o, List.map (output_log strip_raw pretty_rest) o =
                          List.map (output_log strip_raw pretty_rest) (List.map redact_out o)).
    { intros o. rewrite map_map. apply map_ext. intros x. apply output_log_redact. }
    rewrite (E o1), (E o2), H. reflexivity.
  Qed.

  (* ---- (2a) every event built from a secret is Sensitive ------------------------------ *)

  Lemma secret_events_sensitive :
    (forall pw, ev_sensitive (pass_event pw) = true) /\
    (forall w, ev_sensitive (webirc_event w) = true) /\
    (forall u p, ev_sensitive (oper_event u p) = true) /\
    (forall p, ev_sensitive (chunk_event (Payload p)) = true).
  Proof. repeat split. Qed.

  (* Cmd.Oper: the log does not depend on the user name or the password *)
  Theorem oper_log_constant u p u' p' :
    write_log strip_raw pretty_rest (oper_event u p) = write_log strip_raw pretty_rest (oper_event u' p').
  Proof. rewrite (write_log_redact (oper_event u p)), (write_log_redact (oper_event u' p')). reflexivity. Qed.

  (* ---- (2b) registration ---------------------------------------------------------------- *)

  Lemma registration_redact c1 c2 :
    cfg_low_eq c1 c2 ->
    List.map redact (registration_writes c1) = List.map redact (registration_writes c2).
  Proof.
    intros [_ Hp Hw Ht Hn Hu Hna _]. unfold registration_writes.
    rewrite Hp, Hw, Ht, Hn, Hu, Hna. rewrite !map_app. f_equal; [|f_equal].
    - destruct (is_nil (w_password (cfg_webirc c2))); reflexivity.
    - destruct (is_nil (cfg_server_pass c2)); reflexivity.
  Qed.

  Theorem registration_log_ni c1 c2 :
    cfg_low_eq c1 c2 ->
    registration_log strip_raw pretty_rest c1 = registration_log strip_raw pretty_rest c2.
  Proof.
    intros H. unfold registration_log.
    assert (E : forall l, List.map (write_log strip_raw pretty_rest) l =
                          List.map (write_log strip_raw pretty_rest) (List.map redact l)).
    { intros l. rewrite map_map. apply map_ext. intros x. apply write_log_redact. }
    rewrite (E (registration_writes c1)), (E (registration_writes c2)), (registration_redact c1 c2 H).
    reflexivity.
  Qed.

End LogProofs.

(* ---- (2c) the handlers (no logger involved) -------------------------------------------- *)

  Lemma chunks_redact r1 cs1 :
    chunked r1 cs1 -> forall r2 cs2, chunked r2 cs2 -> length r1 = length r2 ->
    List.map (fun ch => redact_out (Write (chunk_event ch))) cs1 =
    List.map (fun ch => redact_out (Write (chunk_event ch))) cs2.
  Proof.
    induction 1 as [r H|r H|c rest cs Hc Hne Hch IH]; intros r2 cs2 H2 Hl.
    - inversion H2 as [r' H'|r' H'|c' rest' cs' Hc' Hne' Hch']; subst; try lia; [reflexivity|].
      apply chunked_nonempty in Hch'. rewrite app_length in Hl. lia.
    - inversion H2 as [r' H'|r' H'|c' rest' cs' Hc' Hne' Hch']; subst; try lia; [reflexivity|].
      apply chunked_nonempty in Hch'. rewrite app_length in Hl. lia.
    - pose proof (chunked_nonempty _ _ Hch) as Hpos. rewrite app_length in Hl.
      inversion H2 as [r' H'|r' H'|c' rest' cs' Hc' Hne' Hch']; subst; try lia.
      rewrite app_length in Hl. cbn [List.map]. f_equal. apply (IH _ _ Hch'). lia.
  Qed.

  Lemma map_redact_chunks cs :
    List.map redact_out (List.map (fun ch => Write (chunk_event ch)) cs) =
    List.map (fun ch => redact_out (Write (chunk_event ch))) cs.
  Proof. apply map_map. Qed.

  Lemma handle_sasl_ni s1 s2 e :
    sasl_low_eq s1 s2 ->
    exists o1 o2, handle_sasl s1 e = Ok o1 /\ handle_sasl s2 e = Ok o2 /\
      List.map redact_out o1 = List.map redact_out o2 /\ first_inject o1 = first_inject o2.
  Proof.
    intros Hs. unfold handle_sasl.
    destruct (streqb (ev_cmd e) n903 || streqb (ev_cmd e) n907).
    { eexists _, _. repeat split. }
    destruct s1 as [m1|], s2 as [m2|]; cbn [sasl_low_eq] in Hs; try contradiction.
    2: { eexists _, _. repeat split. }
    destruct Hs as [Hm Hl]. specialize (Hl (ev_params e)).
    destruct (mech_encode m1 (ev_params e)) as [|a1 r1] eqn:E1;
      destruct (mech_encode m2 (ev_params e)) as [|a2 r2] eqn:E2; cbn [length] in Hl; try lia.
    - rewrite Hm. eexists _, _. repeat split.
    - destruct (sasl_chunks_spec (a1 :: r1)) as [cs1 [H1 Hc1]]; [discriminate|].
      destruct (sasl_chunks_spec (a2 :: r2)) as [cs2 [H2 Hc2]]; [discriminate|].
      rewrite H1, H2. cbn [rbind]. eexists _, _.
      split; [reflexivity|]. split; [reflexivity|]. split.
      + rewrite !map_redact_chunks. apply (chunks_redact _ _ Hc1 _ _ Hc2). exact Hl.
      + rewrite !first_inject_chunks. reflexivity.
  Qed.

  Lemma handle_sasl_error_ni s1 s2 e :
    sasl_low_eq s1 s2 -> handle_sasl_error s1 e = handle_sasl_error s2 e.
  Proof.
    intros Hs. destruct s1 as [m1|], s2 as [m2|]; cbn [sasl_low_eq] in Hs; try contradiction; reflexivity.
  Qed.

  Lemma cap_cfg_of_low_eq c1 c2 : cfg_low_eq c1 c2 -> cap_cfg_of c1 = cap_cfg_of c2.
Proof.
  intros [Hs _ _ Ht Hn Hu Hna _]. unfold cap_cfg_of. rewrite Ht, Hn, Hu, Hna.
  destruct (cfg_sasl c1) as [m1|], (cfg_sasl c2) as [m2|]; cbn [sasl_low_eq] in Hs; try contradiction.
  - destruct Hs as [Hm _]. cbn [option_map]. rewrite Hm. reflexivity.
  - reflexivity.
Qed.

Lemma handle_cap_ni c1 c2 ns e :
  cfg_low_eq c1 c2 -> handle_cap c1 ns e = handle_cap c2 ns e.
Proof.
  intros Hc. unfold handle_cap. rewrite (cap_cfg_of_low_eq c1 c2 Hc), (le_ord c1 c2 Hc). reflexivity.
Qed.

Lemma run_handlers_ni c1 c2 ns e :
    cfg_low_eq c1 c2 ->
    exists ns' o1 o2, run_handlers c1 ns e = Ok (ns', o1) /\ run_handlers c2 ns e = Ok (ns', o2) /\
      List.map redact_out o1 = List.map redact_out o2 /\ first_inject o1 = first_inject o2.
  Proof.
    intros Hc. pose proof Hc as [Hs _ _ Ht _ _ _ _]. unfold run_handlers. rewrite Ht.
    destruct (negb (cfg_tracking c2) || ev_echo e). { eexists _, _, _. repeat split. }
    destruct (streqb (ev_cmd e) c_AUTHENTICATE || streqb (ev_cmd e) n903).
    { destruct (handle_sasl_ni _ _ e Hs) as [o1 [o2 [H1 [H2 [Hr Hi]]]]]. rewrite H1, H2. cbn [rbind].
      eexists _, _, _. split; [reflexivity|]. split; [reflexivity|]. split; assumption. }
    destruct (is_sasl_error_numeric (ev_cmd e)).
    { rewrite (handle_sasl_error_ni _ _ e Hs). eexists _, _, _. repeat split. }
    destruct (streqb (ev_cmd e) c_CAP).
    { rewrite (handle_cap_ni c1 c2 ns e Hc). destruct (handle_cap c2 ns e) as [ns' o].
      eexists _, _, _. repeat split. }
    eexists _, _, _. repeat split.
  Qed.

  Lemma exec_loop_iter_ni c1 c2 ns e :
    cfg_low_eq c1 c2 ->
    exists ns' o1 o2 ret, exec_loop_iter c1 ns e = Ok (ns', o1, ret) /\
      exec_loop_iter c2 ns e = Ok (ns', o2, ret) /\
      List.map redact_out o1 = List.map redact_out o2 /\ first_inject o1 = first_inject o2.
  Proof.
    intros Hc. destruct (run_handlers_ni c1 c2 ns e Hc) as [ns' [o1 [o2 [H1 [H2 [Hr Hi]]]]]].
    unfold exec_loop_iter. rewrite H1, H2. cbn [rbind fst snd].
    eexists _, _, _, _. split; [reflexivity|]. split; [reflexivity|]. split; assumption.
  Qed.

  Lemma feed_ni c1 c2 cn e :
    cfg_low_eq c1 c2 ->
    exists cn' o1 o2, feed c1 cn e = Ok (cn', o1) /\ feed c2 cn e = Ok (cn', o2) /\
      List.map redact_out o1 = List.map redact_out o2.
  Proof.
    intros Hc. unfold feed. destruct (cn_returned cn). { eexists _, _, _. repeat split. }
    destruct (exec_loop_iter_ni c1 c2 (cn_ns cn) e Hc) as [ns1 [o1 [o2 [ret [H1 [H2 [Hr Hi]]]]]]].
    rewrite H1, H2. cbn [rbind]. destruct ret as [t|].
    { eexists _, _, _. split; [reflexivity|]. split; [reflexivity|]. exact Hr. }
    rewrite <- Hi. destruct (first_inject o1) as [t|].
    2: { eexists _, _, _. split; [reflexivity|]. split; [reflexivity|]. exact Hr. }
    destruct (exec_loop_iter_ni c1 c2 ns1 (error_event t) Hc) as [ns2 [p1 [p2 [ret2 [G1 [G2 [Gr _]]]]]]].
    rewrite G1, G2. cbn [rbind].
    eexists _, _, _. split; [reflexivity|]. split; [reflexivity|].
    rewrite !map_app, Hr, Gr. reflexivity.
  Qed.

  (* ---- (2d) sessions ---------------------------------------------------------------------- *)

  (* same Connect result, same negotiation state, same outputs up to redaction *)
  Theorem run_ni c1 c2 h : forall cn,
    cfg_low_eq c1 c2 ->
    exists cn' o1 o2, run c1 cn h = Ok (cn', o1) /\ run c2 cn h = Ok (cn', o2) /\
      List.map redact_out o1 = List.map redact_out o2.
  Proof.
    induction h as [|e h IH]; intros cn Hc. { eexists _, _, _. repeat split. }
    destruct (feed_ni c1 c2 cn e Hc) as [cn1 [o1 [o2 [H1 [H2 Hr]]]]].
    destruct (IH cn1 Hc) as [cn' [p1 [p2 [G1 [G2 Gr]]]]].
    exists cn', (o1 ++ p1), (o2 ++ p2).
    split; [exact (run_cons _ _ _ _ _ _ _ _ H1 G1)|]. split; [exact (run_cons _ _ _ _ _ _ _ _ H2 G2)|].
    rewrite !map_app, Hr, Gr. reflexivity.
  Qed.

(* the log itself, record by record *)
Section SessionLogNI.
  Variable strip_raw : str -> str.
  Variable pretty_rest : event -> option str.

  Theorem session_log_ni c1 c2 h : forall cn,
    cfg_low_eq c1 c2 ->
    session_log strip_raw pretty_rest c1 cn h = session_log strip_raw pretty_rest c2 cn h.
  Proof.
    induction h as [|e h IH]; intros cn Hc; [reflexivity|].
    cbn [session_log].
    destruct (feed_ni c1 c2 cn e Hc) as [cn1 [o1 [o2 [H1 [H2 Hr]]]]].
    rewrite H1, H2, (IH cn1 Hc). f_equal.
    destruct (cn_returned cn); [reflexivity|]. f_equal. exact (map_output_log_redact strip_raw pretty_rest _ _ Hr).
  Qed.
End SessionLogNI.

(* ---- low-equivalence is inhabited by configurations with different secrets ------------------ *)

Lemma plain_low_eq meth u1 p1 u2 p2 :
  length u1 = length u2 -> length p1 = length p2 ->
  mech_low_eq (mkMech meth (sasl_plain_encode u1 p1)) (mkMech meth (sasl_plain_encode u2 p2)).
Proof.
  intros Hu Hp. split; [reflexivity|]. intros ps. cbn [mech_encode]. unfold sasl_plain_encode.
  destruct (params_is_plus ps); [|reflexivity].
  unfold plain_encode. rewrite !base64_encode_length.
  assert (E : forall u p : str, length (u ++ [0] ++ u ++ [0] ++ p) = (length u + (1 + (length u + (1 + length p))))%nat).
  { intros u p. rewrite !app_length. reflexivity. }
  rewrite !E, Hu, Hp. reflexivity.
Qed.

Lemma fixed_low_eq meth r1 r2 :
  length r1 = length r2 -> mech_low_eq (mkMech meth (fun _ => r1)) (mkMech meth (fun _ => r2)).
Proof. intros H. split; [reflexivity|]. intros ps. exact H. Qed.

Definition ni_cfg (u p spass wpass : str) : config :=
  mkCfg (Some (mkMech (bs "PLAIN") (sasl_plain_encode u p))) spass
        (mkWebirc wpass (bs "gw") (bs "host") (bs "192.0.2.7")) true (bs "me") (bs "user") (bs "name") sort_strs.

Example low_eq_example :
  cfg_low_eq (ni_cfg (bs "jilles") (bs "sesame") (bs "hunter2") (bs "w1"))
             (ni_cfg (bs "alyssa") (bs "123456") (bs "correct horse") (bs "another")).
Proof.
  constructor; try reflexivity. cbn [cfg_sasl ni_cfg sasl_low_eq].
  apply plain_low_eq; reflexivity.
Qed.

(* the two runs really do put different bytes on the wire, and really do log the same *)
Definition id_strip (s : str) : str := s.
Definition no_pretty (e : event) : option str := None.
Example ni_example :
  let c1 := ni_cfg (bs "jilles") (bs "sesame") (bs "hunter2") (bs "w1") in
  let c2 := ni_cfg (bs "alyssa") (bs "123456") (bs "correct horse") (bs "another") in
  let h := [ex_ls; ex_ack; ex_plus; ex_num n904] in
  registration_writes c1 <> registration_writes c2 /\
  run c1 conn_init h <> run c2 conn_init h /\
  registration_log id_strip no_pretty c1 = registration_log id_strip no_pretty c2 /\
  session_log id_strip no_pretty c1 conn_init h = session_log id_strip no_pretty c2 conn_init h /\
  length (session_log id_strip no_pretty c1 conn_init h) = 8%nat.
Proof. cbv zeta. repeat split; try (vm_compute; discriminate); vm_compute; reflexivity. Qed.

(* the Sensitive flag is what does it: the same events without it are logged in full *)
Example unflagged_event_is_logged :
  debug_log id_strip false (plain_ev c_PASS [bs "hunter2"]) = bs "> PASS hunter2" /\
  debug_log id_strip false (pass_event (bs "hunter2")) =
    bs ">%!(EXTRA string= %s ***redacted***, string=PASS)" /\
  out_log id_strip (fun e => Some (ev_last e)) (plain_ev c_PASS [bs "hunter2"]) = [bs "hunter2"] /\
  out_log id_strip (fun e => Some (ev_last e)) (pass_event (bs "hunter2")) = [].
Proof. vm_compute. repeat split. Qed.

(* ---- mechanisms that keep state: the same non-interference, step lists compared pairwise -- *)

Definition steps_low_eq (s1 s2 : list (sasl_mech * event)) : Prop :=
  Forall2 (fun x y => snd x = snd y /\ mech_low_eq (fst x) (fst y)) s1 s2.

Lemma set_sasl_low_eq c1 c2 m1 m2 :
  cfg_low_eq c1 c2 -> mech_low_eq m1 m2 -> cfg_low_eq (set_sasl c1 m1) (set_sasl c2 m2).
Proof.
  intros [_ Hp Hw Ht Hn Hu Hna Ho] Hm. constructor; cbn [set_sasl cfg_sasl cfg_server_pass cfg_webirc
    cfg_tracking cfg_nick cfg_user cfg_name cfg_ord sasl_low_eq]; assumption.
Qed.

Section SessionLogStatefulNI.
  Variable strip_raw : str -> str.
  Variable pretty_rest : event -> option str.

  Theorem session_log_stateful_ni c1 c2 s1 : forall s2 cn,
    cfg_low_eq c1 c2 -> steps_low_eq s1 s2 ->
    session_log_stateful strip_raw pretty_rest c1 cn s1 =
    session_log_stateful strip_raw pretty_rest c2 cn s2.
  Proof.
    induction s1 as [|[m1 e1] s1 IH]; intros s2 cn Hc Hs; inversion Hs as [|x y l1 l2 [He Hm] Hrest]; subst.
    - reflexivity.
    - destruct y as [m2 e2]. cbn [fst snd] in He, Hm. subst e2. cbn [session_log_stateful].
      destruct (feed_ni (set_sasl c1 m1) (set_sasl c2 m2) cn e1 (set_sasl_low_eq c1 c2 m1 m2 Hc Hm))
        as [cn1 [o1 [o2 [H1 [H2 Hr]]]]].
      rewrite H1, H2, (IH l2 cn1 Hc Hrest). f_equal.
      destruct (cn_returned cn); [reflexivity|]. f_equal.
      exact (map_output_log_redact strip_raw pretty_rest _ _ Hr).
  Qed.
End SessionLogStatefulNI.

Example steps_low_eq_example :
  steps_low_eq
    [(mkMech (bs "X") (fun _ => bs "c2VjcmV0MQ=="), ex_plus); (mkMech (bs "X") (fun _ => []), ex_plus)]
    [(mkMech (bs "X") (fun _ => bs "b3RoZXJzZWM="), ex_plus); (mkMech (bs "X") (fun _ => []), ex_plus)].
Proof. repeat constructor; intros; reflexivity. Qed.
