(* C02: every line of the grammar parses to the structure the grammar assigns. *)
From Coq Require Import Lia ZifyBool ZifyN ZifyNat.
Require Import Bytes Utf8 AMap WireOut GoUpper Tags Event Grammar.
Require Import OrderLemmas AMapLemmas CodecLemmas ParseNF TagsProofs LineProofs.

Arguments N.eqb : simpl never.
Arguments N.leb : simpl never.
Arguments N.ltb : simpl never.

(* ---- strings.ToUpper on ASCII ---------------------------------------------------------- *)

Lemma go_to_upper_ascii s : is_ascii s = true -> go_to_upper s = to_upper_ascii s.
Proof.
  unfold go_to_upper, to_upper_ascii, is_ascii.
  induction s as [|b r IH]; intros H; [reflexivity|].
  cbn [forallb] in H. apply Bool.andb_true_iff in H. destruct H as [Hb Hr].
  cbn [go_to_upper_aux map]. rewrite Hb. rewrite (IH Hr). reflexivity.
Qed.

(* ---- escaped values contain none of the five escapable bytes ---------------------------- *)

Definition esc_free (b : N) : bool :=
  negb (b =? 59) && negb (b =? 32) && negb (b =? 13) && negb (b =? 10).

Lemma tag_escape1_free b : forallb esc_free (tag_escape1 b) = true.
Proof.
  unfold tag_escape1.
  destruct (b =? 59) eqn:E59; [reflexivity|].
  destruct (b =? 32) eqn:E32; [reflexivity|].
  destruct (b =? 92) eqn:E92; [reflexivity|].
  destruct (b =? 13) eqn:E13; [reflexivity|].
  destruct (b =? 10) eqn:E10; [reflexivity|].
  cbn [forallb]. unfold esc_free. rewrite E59, E32, E13, E10. reflexivity.
Qed.

Lemma tag_escape_free v : forallb esc_free (tag_escape v) = true.
Proof.
  unfold tag_escape. induction v as [|b v IH]; [reflexivity|].
  cbn [flat_map]. rewrite forallb_app, tag_escape1_free, IH. reflexivity.
Qed.

Lemma tag_escape_notin v c : esc_free c = false -> ~ In c (tag_escape v).
Proof. intros Hc. eapply forallb_notin; [exact Hc|apply tag_escape_free]. Qed.

(* ---- from the grammar's classes to the scanner-level conditions ------------------------- *)

Definition towire (kv : str * option str) : str * option str :=
  (fst kv, option_map tag_escape (snd kv)).

Lemma forallb_impl {A} (f g : A -> bool) l :
  (forall x, f x = true -> g x = true) -> forallb f l = true -> forallb g l = true.
Proof. intros H. rewrite !forallb_forall. intros Hf x Hx. apply H, Hf, Hx. Qed.

Lemma key_byte_tag_key_byte b : key_byte b = true -> tag_key_byte b = true.
Proof.
  unfold key_byte, tag_key_byte, is_alpha, is_digit. intros H.
  repeat (apply Bool.orb_true_iff in H; destruct H as [H|H]); try (rewrite H; rewrite ?Bool.orb_true_r; reflexivity).
  - apply Bool.andb_true_iff in H. destruct H as [H1 H2].
    assert (E : ((45 <=? b) && (b <=? 57))%bool = true) by lia. rewrite E, ?Bool.orb_true_r. reflexivity.
  - apply N.eqb_eq in H. subst. reflexivity.
  - apply N.eqb_eq in H. subst. reflexivity.
  - apply N.eqb_eq in H. subst. reflexivity.
Qed.

Lemma wf_key_valid_tag k : wf_key k = true -> valid_tag k = true.
Proof.
  destruct k as [|c r]; [discriminate|]. unfold wf_key, valid_tag.
  destruct (c =? 43) eqn:E.
  - destruct r as [|d r']; [discriminate|]. intros H. cbn [length Nat.leb andb].
    eapply forallb_impl; [apply key_byte_tag_key_byte|exact H].
  - rewrite Bool.andb_false_r. intros H. eapply forallb_impl; [apply key_byte_tag_key_byte|exact H].
Qed.

Lemma wf_tag_tag_ok kv : wf_tag kv = true -> tag_ok (towire kv) = true.
Proof.
  destruct kv as [k ov]. unfold wf_tag, tag_ok, towire. cbn [fst snd]. intros H.
  apply Bool.andb_true_iff in H. destruct H as [Hk _].
  rewrite (wf_key_valid_tag _ Hk). destruct ov as [v|]; [|reflexivity]. cbn [option_map andb].
  assert (H59 : memb 59 (tag_escape v) = false) by (apply memb_false, tag_escape_notin; reflexivity).
  assert (H32 : memb 32 (tag_escape v) = false) by (apply memb_false, tag_escape_notin; reflexivity).
  rewrite H59, H32. reflexivity.
Qed.

Lemma name_byte_sname b : name_byte b = true -> sname_byte b = true.
Proof.
  unfold name_byte, sname_byte, middle_byte. intros H.
  repeat (apply Bool.andb_true_iff in H; destruct H as [H ?]).
  repeat (apply Bool.andb_true_iff; split); assumption.
Qed.

Lemma user_byte_suser b : user_byte b = true -> suser_byte b = true.
Proof.
  unfold user_byte, suser_byte, middle_byte. intros H.
  repeat (apply Bool.andb_true_iff in H; destruct H as [H ?]).
  repeat (apply Bool.andb_true_iff; split); assumption.
Qed.

Lemma wf_src_ok s : wf_src s = true -> src_ok s = true.
Proof.
  destruct s as [[n u] h]. unfold wf_src, src_ok. intros H.
  repeat (apply Bool.andb_true_iff in H; destruct H as [H ?]).
  repeat (apply Bool.andb_true_iff; split).
  - assumption.
  - eapply forallb_impl; [apply name_byte_sname|eassumption].
  - destruct u as [u|]; [|reflexivity].
    match goal with Hu : (nonempty u && _)%bool = true |- _ => apply Bool.andb_true_iff in Hu; destruct Hu as [Hu1 Hu2] end.
    rewrite Hu1. eapply forallb_impl; [apply user_byte_suser|eassumption].
  - destruct h as [h|]; [|reflexivity].
    match goal with Hh : (nonempty h && _)%bool = true |- _ => apply Bool.andb_true_iff in Hh; destruct Hh as [Hh1 Hh2] end.
    rewrite Hh1. eapply forallb_impl; [apply name_byte_sname|eassumption].
Qed.

Definition alnum (b : N) : bool := is_alpha b || is_digit b.

Lemma wf_cmd_alnum c : wf_cmd c = true -> (2 <= length c)%nat /\ forallb alnum c = true.
Proof.
  unfold wf_cmd. intros H. apply Bool.orb_true_iff in H. destruct H as [H|H];
    apply Bool.andb_true_iff in H; destruct H as [H1 H2].
  - split; [lia|]. eapply forallb_impl; [|exact H2]. intros x Hx. unfold alnum. rewrite Hx. reflexivity.
  - split; [lia|]. eapply forallb_impl; [|exact H2]. intros x Hx. unfold alnum. rewrite Hx. apply Bool.orb_true_r.
Qed.

Lemma alnum_facts b : alnum b = true ->
  (b <? 128) = true /\ b <> 58 /\ b <> 64 /\ b <> 32 /\ clean b = true.
Proof.
  unfold alnum, is_alpha, is_upper, is_lower, is_digit, clean, is_crlf. intros H.
  assert (Hr : (65 <= b <= 90 \/ 97 <= b <= 122 \/ 48 <= b <= 57)%N) by lia.
  repeat split; try lia.
Qed.

Lemma wf_cmd_ok c : wf_cmd c = true ->
  cmd_ok c = true /\ is_ascii c = true /\ (2 <= length c)%nat /\ forallb clean c = true.
Proof.
  intros H. destruct (wf_cmd_alnum c H) as [Hlen Hall].
  assert (H32 : ~ In 32 c).
  { intros Hin. rewrite forallb_forall in Hall. apply Hall in Hin. apply alnum_facts in Hin. tauto. }
  repeat split.
  - destruct c as [|x r]; [simpl in Hlen; lia|]. unfold cmd_ok.
    cbn [forallb] in Hall. apply Bool.andb_true_iff in Hall. destruct Hall as [Hx _].
    apply alnum_facts in Hx. destruct Hx as (_ & H58 & H64 & _).
    apply N.eqb_neq in H58, H64. rewrite H58, H64. cbn [negb andb].
    apply Bool.negb_true_iff, memb_false. exact H32.
  - unfold is_ascii. eapply forallb_impl; [|exact Hall]. intros x Hx. apply alnum_facts in Hx. tauto.
  - exact Hlen.
  - eapply forallb_impl; [|exact Hall]. intros x Hx. apply alnum_facts in Hx. tauto.
Qed.

Lemma middle_byte_facts b : middle_byte b = true -> b <> 32 /\ clean b = true.
Proof.
  unfold middle_byte, is_nul_cr_lf, clean, is_crlf. intros H. split; lia.
Qed.

Lemma wf_middle_ok m : wf_middle m = true -> middle_ok m = true /\ forallb clean m = true.
Proof.
  destruct m as [|c r]; [discriminate|]. unfold wf_middle, middle_ok. intros H.
  apply Bool.andb_true_iff in H. destruct H as [H1 H2]. rewrite H1. cbn [andb]. split.
  - apply Bool.negb_true_iff, memb_false. intros Hin.
    rewrite forallb_forall in H2. apply H2 in Hin. apply middle_byte_facts in Hin. tauto.
  - eapply forallb_impl; [|exact H2]. intros x Hx. apply middle_byte_facts in Hx. tauto.
Qed.

Lemma trailing_byte_clean x : trailing_byte x = true -> clean x = true.
Proof. unfold trailing_byte, is_nul_cr_lf, clean, is_crlf. intros Hx. lia. Qed.

(* ---- CR/LF-freedom of a rendered line ---------------------------------------------------- *)

Lemma clean_spaces n : forallb clean (spaces n) = true.
Proof. induction n; [reflexivity|]. cbn [spaces repeat forallb]. exact IHn. Qed.

Lemma clean_join sep l : forallb clean sep = true -> forallb (forallb clean) l = true ->
  forallb clean (join sep l) = true.
Proof.
  intros Hs. induction l as [|x l IH]; intros H; [reflexivity|].
  cbn [forallb] in H. apply Bool.andb_true_iff in H. destruct H as [Hx Hl].
  destruct l as [|y r]; [exact Hx|].
  change (join sep (x :: y :: r)) with (x ++ sep ++ join sep (y :: r)).
  rewrite !forallb_app, Hx, Hs, (IH Hl). reflexivity.
Qed.

Lemma key_or_plus_clean b : key_or_plus b = true -> clean b = true.
Proof.
  unfold key_or_plus, tag_key_byte, is_upper, is_lower, clean, is_crlf. intros H. lia.
Qed.

Lemma esc_free_clean b : esc_free b = true -> clean b = true.
Proof. unfold esc_free, clean, is_crlf. intros H. lia. Qed.

Lemma clean_wire_tag kv : wf_tag kv = true -> forallb clean (wire_tag (towire kv)) = true.
Proof.
  intros H. pose proof (wf_tag_tag_ok kv H) as Hok.
  destruct kv as [k ov]. unfold wire_tag, towire, tag_ok in *. cbn [fst snd] in *.
  apply Bool.andb_true_iff in Hok. destruct Hok as [Hk _].
  destruct (valid_tag_bytes k Hk) as [_ Hkb].
  rewrite forallb_app. apply Bool.andb_true_iff. split.
  - eapply forallb_impl; [apply key_or_plus_clean|exact Hkb].
  - destruct ov as [v|]; [|reflexivity]. cbn [option_map forallb]. change (clean 61) with true. cbn [andb].
    eapply forallb_impl; [apply esc_free_clean|apply tag_escape_free].
Qed.

Lemma clean_src s : wf_src s = true -> forallb clean (src_text s) = true.
Proof.
  destruct s as [[n u] h]. unfold wf_src, src_text. intros H.
  repeat (apply Bool.andb_true_iff in H; destruct H as [H ?]).
  assert (Hmb : forall x, middle_byte x = true -> clean x = true) by (intros x Hx; apply middle_byte_facts in Hx; tauto).
  assert (Hnb : forall x, name_byte x = true -> clean x = true).
  { intros x Hx. unfold name_byte in Hx. apply Bool.andb_true_iff in Hx. destruct Hx as [Hx _].
    apply Bool.andb_true_iff in Hx. destruct Hx as [Hx _]. apply Hmb. exact Hx. }
  assert (Hub : forall x, user_byte x = true -> clean x = true).
  { intros x Hx. unfold user_byte in Hx. apply Bool.andb_true_iff in Hx. destruct Hx as [Hx _]. apply Hmb. exact Hx. }
  rewrite !forallb_app. repeat (apply Bool.andb_true_iff; split).
  - eapply forallb_impl; [exact Hnb|eassumption].
  - destruct u as [u|]; [|reflexivity].
    match goal with Hu : (nonempty u && _)%bool = true |- _ => apply Bool.andb_true_iff in Hu; destruct Hu as [_ Hu] end.
    cbn [forallb]. change (clean 33) with true. cbn [andb]. eapply forallb_impl; [exact Hub|eassumption].
  - destruct h as [h|]; [|reflexivity].
    match goal with Hh : (nonempty h && _)%bool = true |- _ => apply Bool.andb_true_iff in Hh; destruct Hh as [_ Hh] end.
    cbn [forallb]. change (clean 64) with true. cbn [andb]. eapply forallb_impl; [exact Hnb|eassumption].
Qed.

Lemma clean_middles ms : forallb (fun nm => wf_middle (snd nm)) ms = true ->
  forallb clean (render_middles ms) = true.
Proof.
  induction ms as [|[k m] ms IH]; intros H; [reflexivity|].
  cbn [forallb snd] in H. apply Bool.andb_true_iff in H. destruct H as [Hm Hms].
  cbn [render_middles flat_map fst snd]. rewrite !forallb_app.
  rewrite clean_spaces. destruct (wf_middle_ok _ Hm) as [_ Hc]. rewrite Hc. cbn [andb]. exact (IH Hms).
Qed.

(* ---- tags: the fold and the specification ------------------------------------------------ *)

Lemma tags_fold_towire l : forall t, tags_fold (List.map towire l) t =
  fold_left (fun m kv => aset (fst kv) (match snd kv with Some v => tag_escape v | None => [] end) m) l t.
Proof.
  induction l as [|[k ov] l IH]; intros t; [reflexivity|].
  cbn [map]. unfold tags_fold in *. cbn [fold_left]. rewrite IH.
  unfold towire, wire_val. cbn [fst snd]. destruct ov; reflexivity.
Qed.

Lemma alookup_tags_fold l : forall (t : tagmap) k,
  alookup k (fold_left (fun m kv => aset (fst kv) (match snd kv with Some v => tag_escape v | None => [] end) m) l t) =
  match spec_tag_value l k with
  | Some x => Some (tag_escape x)
  | None => alookup k t
  end.
Proof.
  induction l as [|[k' ov] l IH]; intros t k; [reflexivity|].
  cbn [fold_left spec_tag_value fst snd]. rewrite IH.
  destruct (spec_tag_value l k); [reflexivity|].
  rewrite alookup_aset. destruct (streqb k k'); [|reflexivity].
  destruct ov; reflexivity.
Qed.

(* Get on the parsed tags = the grammar's value of the key: last occurrence, unescaped *)
Lemma meaning_tags_get l k : tags_get (Some (meaning_tags l)) k = spec_tag_value l k.
Proof.
  unfold tags_get, meaning_tags. rewrite alookup_tags_fold.
  destruct (spec_tag_value l k); cbn [option_map alookup]; [rewrite tag_unescape_escape|]; reflexivity.
Qed.

(* ---- C02_grammar --------------------------------------------------------------------------- *)

Lemma render_body a :
  render a = body_of (option_map (List.map towire) (a_tags a)) (a_src a) (a_cmd a)
                     (a_middles a) (a_trailing a) (a_tail a) ++ a_eol a.
Proof.
  unfold render, body_of, rest_part, tags_part, src_part. rewrite <- !app_assoc.
  f_equal; [|f_equal].
  - destruct (a_tags a) as [l|]; [|reflexivity]. cbn [option_map]. unfold render_tags, tags_text.
    rewrite map_map. f_equal. f_equal. f_equal. apply map_ext. intros [k ov]. unfold render_tag, wire_tag, towire.
    cbn [fst snd]. destruct ov; reflexivity.
  - destruct (a_src a) as [[[n u] h]|]; [|reflexivity]. unfold render_src, src_text. cbn [app].
    rewrite <- !app_assoc. reflexivity.
Qed.

Theorem grammar_parse : forall a, wf_ast a -> parse_event (render a) = Ok (Some (meaning a)).
Proof.
  intros a Hwf. unfold wf_ast, wf_astb in Hwf.
  repeat (apply Bool.andb_true_iff in Hwf; destruct Hwf as [Hwf ?]).
  rename Hwf into Htags.
  match goal with H : forallb is_crlf _ = true |- _ => rename H into Heol end.
  match goal with H : wf_cmd _ = true |- _ => rename H into Hcmd end.
  match goal with H : forallb (fun nm => wf_middle (snd nm)) _ = true |- _ => rename H into Hmids end.
  match goal with H : match a_src a with _ => _ end = true |- _ => rename H into Hsrc end.
  match goal with H : match a_trailing a with _ => _ end = true |- _ => rename H into Htr end.
  destruct (wf_cmd_ok _ Hcmd) as (Hcok & Hascii & Hclen & Hcclean).
  rewrite parse_event_is_nf, render_body. f_equal.
  assert (Hmok : forallb (fun nm => middle_ok (snd nm)) (a_middles a) = true).
  { eapply forallb_impl; [|exact Hmids]. intros x Hx. apply wf_middle_ok in Hx. tauto. }
  rewrite parse_line.
  - unfold meaning, meaning_params, params_of. f_equal. f_equal.
    + destruct (a_tags a) as [l|]; [|reflexivity]. cbn [option_map]. f_equal.
      rewrite tags_fold_towire. reflexivity.
    + apply go_to_upper_ascii. exact Hascii.
  - (* tags_ok *)
    destruct (a_tags a) as [[|kv l]|]; [discriminate| |reflexivity].
    cbn [option_map]. unfold tags_ok. change (List.map towire (kv :: l)) with (towire kv :: List.map towire l).
    cbv iota. change (towire kv :: List.map towire l) with (List.map towire (kv :: l)).
    rewrite forallb_forall. intros x Hx. apply in_map_iff in Hx. destruct Hx as [y [<- Hy]].
    apply wf_tag_tag_ok. rewrite forallb_forall in Htags. apply Htags. exact Hy.
  - destruct (a_src a) as [s|]; [apply wf_src_ok; exact Hsrc|reflexivity].
  - exact Hcok.
  - exact Hmok.
  - (* clean *)
    unfold body_of, rest_part, tags_part, src_part. rewrite !forallb_app.
    repeat (apply Bool.andb_true_iff; split).
    + destruct (a_tags a) as [l|]; [|reflexivity]. cbn [option_map forallb]. change (clean 64) with true. cbn [andb].
      rewrite forallb_app. cbn [forallb]. change (clean 32) with true. rewrite Bool.andb_true_r.
      unfold tags_text. apply clean_join; [reflexivity|].
      rewrite forallb_forall. intros p Hp. apply in_map_iff in Hp. destruct Hp as [w [<- Hw]].
      apply in_map_iff in Hw. destruct Hw as [kv [<- Hkv]]. apply clean_wire_tag.
      destruct l as [|kv0 l0]; [destruct Hkv|]. rewrite forallb_forall in Htags. apply Htags. exact Hkv.
    + destruct (a_src a) as [s|]; [|reflexivity]. cbn [forallb]. change (clean 58) with true. cbn [andb].
      rewrite forallb_app. cbn [forallb]. change (clean 32) with true. rewrite Bool.andb_true_r.
      apply clean_src. exact Hsrc.
    + exact Hcclean.
    + apply clean_middles. exact Hmids.
    + destruct (a_trailing a) as [[n t]|]; cbn [render_trailing]; [|apply clean_spaces].
      apply Bool.andb_true_iff in Htr. destruct Htr as [Ht _].
      rewrite forallb_app, clean_spaces. cbn [forallb andb]. change (clean 58) with true. cbn [andb].
      eapply forallb_impl; [|exact Ht]. exact trailing_byte_clean.
  - unfold body_of, rest_part. rewrite !app_length. clear - Hclen. lia.
  - exact Heol.
Qed.

(* The hypothesis is satisfiable: tags with a duplicate key and all five escapes, full
   source, two middles separated by several spaces, a trailing with an embedded " :". *)
Example grammar_example :
  let a := mkAst (Some [(bs "a", Some (bs "1")); (bs "+b/c", None); (bs "a", Some [59; 32; 92; 13; 10])])
                 (Some (bs "nick", Some (bs "u!v"), Some (bs "host")))
                 (bs "privmsg") [(0%nat, bs "#c"); (2%nat, [97; 9; 98; 58])] (Some (1%nat, bs "x :y"))
                 0 [13; 10] in
  wf_ast a /\ parse_event (render a) = Ok (Some (meaning a)) /\
  we_params (meaning a) = [bs "#c"; [97; 9; 98; 58]; bs "x :y"] /\
  tags_get (we_tags (meaning a)) (bs "a") = Some [59; 32; 92; 13; 10].
Proof. vm_compute. repeat split; reflexivity. Qed.

(* ---- server-time ----------------------------------------------------------------------------- *)

Section ServerTime.
  Variable T : Type.
  Variable parse_time : str -> option T.   (* time.Parse(capServerTimeFormat, .) *)

  Definition ast_time (a : ast) : option str :=
    match a_tags a with Some l => spec_tag_value l tag_time | None => None end.

  Lemma server_time_meaning a : server_time_raw (meaning a) = ast_time a.
  Proof.
    unfold server_time_raw, ast_time, meaning. cbn [we_tags].
    destruct (a_tags a) as [l|]; [|reflexivity]. cbn [option_map]. apply meaning_tags_get.
  Qed.

  Theorem grammar_server_time : forall a, wf_ast a ->
    exists e, parse_event (render a) = Ok (Some e) /\
      (forall v t, ast_time a = Some v -> parse_time v = Some t ->
         event_timestamp parse_time e = FromServer t) /\
      (forall v, ast_time a = Some v -> parse_time v = None -> event_timestamp parse_time e = LocalNow) /\
      (ast_time a = None -> event_timestamp parse_time e = LocalNow).
  Proof.
    intros a Hwf. exists (meaning a). split; [apply grammar_parse; exact Hwf|].
    unfold event_timestamp. rewrite server_time_meaning.
    repeat split.
    - intros v t -> ->. reflexivity.
    - intros v -> ->. reflexivity.
    - intros ->. reflexivity.
  Qed.
End ServerTime.

(* ---- outside the grammar: a RUN of SPACE after the prefix or the tag section -------------------
   RFC 1459's <SPACE> is one or more spaces; RFC 2812 and IRCv3 have a single one there and
   Spec/Grammar.v follows them.  What the parser does with a run (candidate finding
   space-run-after-prefix): the command comes out empty and the real command becomes a
   parameter. *)
Example space_run_after_prefix :
  parse_event (bs ":nick  PRIVMSG #c :x")
  = Ok (Some (mkWEvent None (Some (mkWSource (bs "nick") [] [])) [] [bs "PRIVMSG"; bs "#c"; bs "x"]))
  /\ parse_event (bs "@a=b  :nick PRIVMSG #c :x")
  = Ok (Some (mkWEvent (Some [(bs "a", bs "b")]) None [] [bs "nick PRIVMSG #c :x"])).
Proof. vm_compute. split; reflexivity. Qed.
