(* The Copy methods (state.go User.Copy / Channel.Copy, modes.go CModes.Copy /
   UserPerms.Copy): what they allocate, that nothing existing is written, that the copy
   has the value of the original and reaches only what was allocated for it. *)
Require Import Bytes AMap Names State Heap HeapLemmas.
From Coq Require Import Lia.
Local Open Scope nat_scope.

(* invert `x <- r ;; k = Ok _` naming the result and the equation *)
Ltac bind_inv H x Hx :=
  match type of H with
  | rbind ?r _ = Ok _ => destruct r as [x|] eqn:Hx; simpl in H; [|discriminate H]
  end.

Lemma sl_get_app h l s r : sl_get (h ++ l) s = Ok r -> sl_arr s < length h -> sl_get h s = Ok r.
Proof. unfold sl_get, get_strs. intros H L. rewrite hget_app_old in H by exact L. exact H. Qed.

Lemma sl_get_app_old h l s : sl_arr s < length h -> sl_get (h ++ l) s = sl_get h s.
Proof. unfold sl_get, get_strs. intros L. rewrite hget_app_old by exact L. reflexivity. Qed.
Lemma sl_get_modes_app_old h l s : sl_arr s < length h -> sl_get_modes (h ++ l) s = sl_get_modes h s.
Proof. unfold sl_get_modes, get_modes. intros L. rewrite hget_app_old by exact L. reflexivity. Qed.

Lemma sl_get_ok_lt h s r : sl_get h s = Ok r -> sl_arr s < length h.
Proof. unfold sl_get. intros H. bind_inv H a Ha. apply get_strs_ok in Ha. eapply hget_some_lt; eauto. Qed.
Lemma sl_get_modes_ok_lt h s r : sl_get_modes h s = Ok r -> sl_arr s < length h.
Proof. unfold sl_get_modes. intros H. bind_inv H a Ha. apply get_modes_ok in Ha. eapply hget_some_lt; eauto. Qed.

(* ---- User.Copy ---- *)

Definition user_copy_cells (h : heap) (u : huser) (m : amap perms) (l : list str) : list cell :=
  [CPerms m; CStrs l;
   CUser (hu_set_chans (hu_set_perms u (Some (length h))) (mkSlice (S (length h)) 0 (length l) (length l)))].

Lemma user_copy_spec h o h' o' :
  user_copy h o = Ok (h', o') ->
  exists u p m l,
    hget h o = Some (CUser u) /\ hu_perms u = Some p /\ hget h p = Some (CPerms m) /\
    sl_get h (hu_chans u) = Ok l /\
    h' = h ++ user_copy_cells h u m l /\ o' = S (S (length h)).
Proof.
  unfold user_copy. intros H. bind_inv H u Hu. apply get_user_ok in Hu.
  bind_inv H pc Hpc. destruct pc as [h1 p'].
  unfold userperms_copy in Hpc. destruct (hu_perms u) as [p|] eqn:Ep; [|discriminate].
  bind_inv Hpc m Hm. apply get_perms_ok in Hm. unfold halloc in Hpc. injection Hpc as <- <-.
  bind_inv H l Hl.
  assert (Harr : sl_arr (hu_chans u) < length h).
  { pose proof (sl_get_ok_lt _ _ _ Hl) as L. rewrite app_length in L. simpl in L.
    assert (sl_arr (hu_chans u) <> length h).
    { intros E. unfold sl_get, get_strs in Hl. rewrite E, hget_app_new in Hl. discriminate. }
    lia. }
  rewrite sl_get_app_old in Hl by exact Harr.
  unfold halloc in H. simpl in H. injection H as <- <-.
  exists u, p, m, l. repeat split; auto.
  - unfold user_copy_cells. rewrite <- !app_assoc. simpl. rewrite !app_length. simpl.
    replace (length h + 1) with (S (length h)) by lia. reflexivity.
  - rewrite !app_length. simpl. lia.
Qed.

(* the converse: on a heap where the reads succeed, Copy succeeds *)
Lemma user_copy_total h o u p m l :
  hget h o = Some (CUser u) -> hu_perms u = Some p -> hget h p = Some (CPerms m) ->
  sl_get h (hu_chans u) = Ok l ->
  user_copy h o = Ok (h ++ user_copy_cells h u m l, S (S (length h))).
Proof.
  intros Ho Ep Hp Hl. unfold user_copy. apply get_user_ok in Ho. rewrite Ho. simpl.
  unfold userperms_copy. rewrite Ep. apply get_perms_ok in Hp. rewrite Hp. simpl.
  rewrite sl_get_app_old by (eapply sl_get_ok_lt; eauto). rewrite Hl. simpl.
  unfold halloc, user_copy_cells. rewrite <- !app_assoc. simpl. rewrite !app_length. simpl.
  replace (length h + 1) with (S (length h)) by lia. replace (length h + 2) with (S (S (length h))) by lia.
  reflexivity.
Qed.

(* ---- Channel.Copy ---- *)

Definition channel_copy_cells (h : heap) (c : hchan) (l : list str) (ms : list cmode) : list cell :=
  [CStrs l; CModes ms;
   CChan (hc_set_modes (hc_set_users c (mkSlice (length h) 0 (length l) (length l)))
            (hm_set_modes (hc_modes c) (mkSlice (S (length h)) 0 (length ms) (length ms))))].

Lemma channel_copy_spec h o h' o' :
  channel_copy h o = Ok (h', o') ->
  exists c l ms,
    hget h o = Some (CChan c) /\ sl_get h (hc_users c) = Ok l /\ sl_get_modes h (hm_modes (hc_modes c)) = Ok ms /\
    h' = h ++ channel_copy_cells h c l ms /\ o' = S (S (length h)).
Proof.
  unfold channel_copy. intros H. bind_inv H c Hc. apply get_chan_ok in Hc.
  bind_inv H l Hl. unfold halloc in H. simpl in H.
  bind_inv H mc Hmc. destruct mc as [h2 m'].
  unfold cmodes_copy in Hmc. bind_inv Hmc ms Hms.
  assert (Harr : sl_arr (hm_modes (hc_modes c)) < length h).
  { pose proof (sl_get_modes_ok_lt _ _ _ Hms) as L. rewrite app_length in L. simpl in L.
    assert (sl_arr (hm_modes (hc_modes c)) <> length h).
    { intros E. unfold sl_get_modes, get_modes in Hms. rewrite E, hget_app_new in Hms. discriminate. }
    lia. }
  rewrite sl_get_modes_app_old in Hms by exact Harr.
  unfold halloc in Hmc. simpl in Hmc. injection Hmc as <- <-.
  unfold halloc in H. simpl in H. injection H as <- <-.
  exists c, l, ms. repeat split; auto.
  - unfold channel_copy_cells. rewrite <- !app_assoc. simpl. rewrite !app_length. simpl.
    replace (length h + 1) with (S (length h)) by lia. reflexivity.
  - rewrite !app_length. simpl. lia.
Qed.

Lemma channel_copy_total h o c l ms :
  hget h o = Some (CChan c) -> sl_get h (hc_users c) = Ok l -> sl_get_modes h (hm_modes (hc_modes c)) = Ok ms ->
  channel_copy h o = Ok (h ++ channel_copy_cells h c l ms, S (S (length h))).
Proof.
  intros Ho Hl Hm. unfold channel_copy. apply get_chan_ok in Ho. rewrite Ho. simpl. rewrite Hl. simpl.
  unfold cmodes_copy. rewrite sl_get_modes_app_old by (eapply sl_get_modes_ok_lt; eauto). rewrite Hm. simpl.
  unfold halloc, channel_copy_cells. rewrite <- !app_assoc. simpl. rewrite !app_length. simpl.
  replace (length h + 1) with (S (length h)) by lia. replace (length h + 2) with (S (S (length h))) by lia.
  reflexivity.
Qed.

(* ---- consequences ---- *)

(* nothing that existed is written *)
Lemma user_copy_frame h o h' o' : user_copy h o = Ok (h', o') ->
  length h <= length h' /\ forall x, x < length h -> hget h' x = hget h x.
Proof.
  intros H. apply user_copy_spec in H. destruct H as (u & p & m & l & _ & _ & _ & _ & -> & _).
  split; [rewrite app_length; lia|]. intros x L. apply hget_app_old. exact L.
Qed.
Lemma channel_copy_frame h o h' o' : channel_copy h o = Ok (h', o') ->
  length h <= length h' /\ forall x, x < length h -> hget h' x = hget h x.
Proof.
  intros H. apply channel_copy_spec in H. destruct H as (c & l & ms & _ & _ & _ & -> & _).
  split; [rewrite app_length; lia|]. intros x L. apply hget_app_old. exact L.
Qed.

Lemma hget_app3_0 h a b c : hget (h ++ [a; b; c]) (length h) = Some a.
Proof. unfold hget. rewrite nth_error_app2 by lia. rewrite Nat.sub_diag. reflexivity. Qed.
Lemma hget_app3_1 h a b c : hget (h ++ [a; b; c]) (S (length h)) = Some b.
Proof. unfold hget. rewrite nth_error_app2 by lia. replace (S (length h) - length h) with 1 by lia. reflexivity. Qed.
Lemma hget_app3_2 h a b c : hget (h ++ [a; b; c]) (S (S (length h))) = Some c.
Proof. unfold hget. rewrite nth_error_app2 by lia. replace (S (S (length h)) - length h) with 2 by lia. reflexivity. Qed.

(* everything reachable from the copy was allocated by the copy *)
Lemma user_copy_fresh h o h' o' : user_copy h o = Ok (h', o') ->
  forall x, In x (reach h' o') -> length h <= x < length h'.
Proof.
  intros H. apply user_copy_spec in H. destruct H as (u & p & m & l & _ & _ & _ & _ & -> & ->).
  intros x Hx. unfold reach in Hx. unfold user_copy_cells in Hx. rewrite hget_app3_2 in Hx. simpl in Hx.
  rewrite app_length. simpl. intuition lia.
Qed.
Lemma channel_copy_fresh h o h' o' : channel_copy h o = Ok (h', o') ->
  forall x, In x (reach h' o') -> length h <= x < length h'.
Proof.
  intros H. apply channel_copy_spec in H. destruct H as (c & l & ms & _ & _ & _ & -> & ->).
  intros x Hx. unfold reach in Hx. unfold channel_copy_cells in Hx. rewrite hget_app3_2 in Hx. simpl in Hx.
  rewrite app_length. simpl. intuition lia.
Qed.

(* how a deep value is computed *)
Lemma user_value_some h o u l p m :
  hget h o = Some (CUser u) -> sl_get h (hu_chans u) = Ok l -> hu_perms u = Some p -> hget h p = Some (CPerms m) ->
  user_value h o = Some (mkVUser (hu_nick u) (hu_ident u) (hu_host u) l (Some m) (hu_name u) (hu_account u) (hu_away u)).
Proof.
  intros Ho Hl Ep Hp. unfold user_value. apply get_user_ok in Ho. rewrite Ho, Hl, Ep.
  apply get_perms_ok in Hp. rewrite Hp. reflexivity.
Qed.
Lemma chan_value_some h o c l ms :
  hget h o = Some (CChan c) -> sl_get h (hc_users c) = Ok l -> sl_get_modes h (hm_modes (hc_modes c)) = Ok ms ->
  chan_value h o = Some (mkVChan (hc_name c) (hc_topic c) l (hm_cfg (hc_modes c)) ms).
Proof.
  intros Ho Hl Hm. unfold chan_value. apply get_chan_ok in Ho. rewrite Ho, Hl, Hm. reflexivity.
Qed.

Lemma sl_get_intro h s a : hget h (sl_arr s) = Some (CStrs a) -> sl_get h s = Ok (seg a s).
Proof. intros H. unfold sl_get. apply get_strs_ok in H. rewrite H. reflexivity. Qed.
Lemma sl_get_modes_intro h s a : hget h (sl_arr s) = Some (CModes a) -> sl_get_modes h s = Ok (seg a s).
Proof. intros H. unfold sl_get_modes. apply get_modes_ok in H. rewrite H. reflexivity. Qed.

(* the copy has the value of the original *)
Lemma user_copy_value h o h' o' : user_copy h o = Ok (h', o') ->
  user_value h' o' = user_value h o /\ user_value h o <> None.
Proof.
  intros H. apply user_copy_spec in H. destruct H as (u & p & m & l & Ho & Ep & Hp & Hl & -> & ->).
  rewrite (user_value_some _ _ _ _ _ _ Ho Hl Ep Hp). split; [|discriminate].
  unfold user_copy_cells.
  erewrite user_value_some; [| apply hget_app3_2 | simpl; erewrite sl_get_intro by apply hget_app3_1; rewrite seg_full'; reflexivity
                            | simpl; reflexivity | apply hget_app3_0 ].
  reflexivity.
Qed.
Lemma channel_copy_value h o h' o' : channel_copy h o = Ok (h', o') ->
  chan_value h' o' = chan_value h o /\ chan_value h o <> None.
Proof.
  intros H. apply channel_copy_spec in H. destruct H as (c & l & ms & Ho & Hl & Hm & -> & ->).
  rewrite (chan_value_some _ _ _ _ _ Ho Hl Hm). split; [|discriminate].
  unfold channel_copy_cells.
  erewrite chan_value_some; [| apply hget_app3_2 | simpl; erewrite sl_get_intro by apply hget_app3_0; rewrite seg_full'; reflexivity
                            | simpl; erewrite sl_get_modes_intro by apply hget_app3_1; rewrite seg_full'; reflexivity ].
  reflexivity.
Qed.

(* the two facts together, as stated in Properties/C13.v *)
Lemma user_copy_fresh_frame h o h' o' : user_copy h o = Ok (h', o') ->
  (forall x, x < length h -> hget h' x = hget h x) /\
  (forall x, In x (reach h' o') -> length h <= x < length h').
Proof. intros H. split; [apply (user_copy_frame _ _ _ _ H)|exact (user_copy_fresh _ _ _ _ H)]. Qed.
Lemma channel_copy_fresh_frame h o h' o' : channel_copy h o = Ok (h', o') ->
  (forall x, x < length h -> hget h' x = hget h x) /\
  (forall x, In x (reach h' o') -> length h <= x < length h').
Proof. intros H. split; [apply (channel_copy_frame _ _ _ _ H)|exact (channel_copy_fresh _ _ _ _ H)]. Qed.
