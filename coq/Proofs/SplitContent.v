(* C11_content: for plain text the pieces are a layout of the words (Spec/SplitSpec.v). *)
Require Import Bytes Utf8 WireOut Ctcp State Split SplitSpec SplitUtf8 SplitProofs.
From Coq Require Import Lia ZifyBool ZifyN ZifyNat.
Local Open Scope nat_scope.

(* ------------------------------------------------------------------ *)
(* plain words leave the code tracking alone                           *)
(* ------------------------------------------------------------------ *)

Definition plain (s : str) : Prop := Forall (fun b => is_code b = false) s.

Lemma last_color_aux_plain s : forall skip acc, plain s -> last_color_aux s skip acc = acc.
Proof.
  induction s as [|b r IH]; intros skip acc Hp; cbn [last_color_aux]; [reflexivity|].
  inversion Hp as [|? ? Hb Hr]; subst.
  destruct skip as [|k]; [|apply IH; exact Hr].
  assert ((b =? 3)%N = false).
  { unfold is_code in Hb. repeat (apply orb_false_iff in Hb; destruct Hb as [Hb ?]). assumption. }
  rewrite H. apply IH; exact Hr.
Qed.

Lemma filter_code_plain s : plain s -> filter is_code s = [].
Proof.
  induction s as [|b r IH]; intros Hp; [reflexivity|]. inversion Hp as [|? ? Hb Hr]; subst.
  cbn [filter]. rewrite Hb. apply IH; exact Hr.
Qed.

Lemma track_word_plain word : plain word -> track_word [] [] word = ([], []).
Proof.
  intros Hp. unfold track_word, last_color. rewrite last_color_aux_plain by exact Hp.
  rewrite filter_code_plain by exact Hp. reflexivity.
Qed.

Lemma prefix_of_nil w : prefix_of [] [] w = [].
Proof. unfold prefix_of. destruct (w <? Zlen ([] ++ []) + 4)%Z; reflexivity. Qed.

(* ------------------------------------------------------------------ *)
(* spelling with a remainder                                           *)
(* ------------------------------------------------------------------ *)

Fixpoint spell2 (toks : list token) (pending : str) : list str * str :=
  match toks with
  | [] => ([], pending)
  | (c, true) :: r => spell2 r (pending ++ c)
  | (c, false) :: r => let '(ws, q) := spell2 r [] in ((pending ++ c) :: ws, q)
  end.

Lemma spell2_app a : forall b p,
  spell2 (a ++ b) p =
  let '(ws1, q) := spell2 a p in let '(ws2, q2) := spell2 b q in (ws1 ++ ws2, q2).
Proof.
  induction a as [|[c f] r IH]; intros b p; cbn [app spell2].
  - destruct (spell2 b p); reflexivity.
  - destruct f.
    + apply IH.
    + rewrite IH. destruct (spell2 r []) as [ws1 q]. destruct (spell2 b q) as [ws2 q2]. reflexivity.
Qed.

Lemma spell_spell2 toks : forall p ws, spell2 toks p = (ws, []) -> spell toks p = Some ws.
Proof.
  induction toks as [|[c f] r IH]; intros p ws H; cbn [spell spell2] in *.
  - inversion H; subst. reflexivity.
  - destruct f; [apply IH; exact H|].
    destruct (spell2 r []) as [ws1 q] eqn:E. inversion H; subst.
    rewrite (IH [] ws1 E). reflexivity.
Qed.

Lemma spell2_snoc toks t ws pre : spell2 toks [] = (ws, pre) ->
  spell2 (toks ++ [t]) [] = if snd t then (ws, pre ++ fst t) else (ws ++ [pre ++ fst t], []).
Proof.
  intros H. rewrite spell2_app, H. destruct t as [c f]. cbn [spell2 fst snd].
  destruct f; [rewrite app_nil_r; reflexivity|reflexivity].
Qed.

(* ------------------------------------------------------------------ *)
(* the line state as groups of tokens                                  *)
(* ------------------------------------------------------------------ *)

Definition wf_group (g : list token) : Prop :=
  g <> [] /\ Forall (fun t => fst t <> []) g /\ cont_only_last g.

Definition is_nil {A} (l : list A) : bool := match l with [] => true | _ => false end.

Record rep (st : lst) (G : list (list token)) (g : list token) : Prop := {
  rep_out : l_out st = List.map render G;
  rep_cur : l_cur st = render g;
  rep_has : l_has st = negb (is_nil g);
  rep_G : Forall wf_group G;
  rep_g : Forall (fun t => fst t <> [] /\ snd t = false) g
}.

Lemma join_snoc_gen sep (l : list str) c : l <> [] -> join sep (l ++ [c]) = join sep l ++ sep ++ c.
Proof.
  induction l as [|x r IH]; intros Hne; [congruence|].
  destruct r as [|y r'].
  - reflexivity.
  - change ((x :: y :: r') ++ [c]) with (x :: ((y :: r') ++ [c])).
    rewrite join_cons_ne by (destruct r'; discriminate).
    rewrite IH by discriminate. rewrite (join_cons_ne sep x (y :: r')) by discriminate.
    rewrite <- !app_assoc. reflexivity.
Qed.

Lemma render_snoc g t : render (g ++ [t]) = render g ++ (if is_nil g then [] else [32%N]) ++ fst t.
Proof.
  unfold render. rewrite map_app. cbn [List.map]. destruct g as [|t0 g'].
  - reflexivity.
  - cbn [is_nil]. apply join_snoc_gen. discriminate.
Qed.

Lemma cont_only_last_snoc g t : Forall (fun t => fst t <> [] /\ snd t = false) g -> cont_only_last (g ++ [t]).
Proof.
  induction g as [|[c f] r IH]; intros H; [destruct t; exact I|].
  inversion H as [|? ? [_ Hf] Hr]; subst. cbn [snd] in Hf. subst f.
  change (((c, false) :: r) ++ [t]) with ((c, false) :: (r ++ [t])).
  specialize (IH Hr). remember (r ++ [t]) as l eqn:El. destruct l as [|x y]; [destruct r; discriminate|].
  change (cont_only_last ((c, false) :: x :: y)) with (false = false /\ cont_only_last (x :: y)).
  split; [reflexivity|exact IH].
Qed.

Lemma wf_group_snoc g t : Forall (fun t => fst t <> [] /\ snd t = false) g -> fst t <> [] -> wf_group (g ++ [t]).
Proof.
  intros Hg Ht. repeat split.
  - destruct g; discriminate.
  - apply Forall_app. split; [|constructor; [exact Ht|constructor]].
    eapply Forall_impl; [|exact Hg]. intros a [Ha _]. exact Ha.
  - apply cont_only_last_snoc. exact Hg.
Qed.

Lemma wf_group_plain g : g <> [] -> Forall (fun t => fst t <> [] /\ snd t = false) g -> wf_group g.
Proof.
  intros Hne Hg. destruct (@exists_last _ g Hne) as (g0 & t & ->).
  apply Forall_app in Hg. destruct Hg as [Hg0 Ht]. inversion Ht as [|? ? [Ht1 _] _]; subst.
  apply wf_group_snoc; assumption.
Qed.

Lemma concat_snoc {A} (G : list (list A)) g : concat (G ++ [g]) = concat G ++ g.
Proof. rewrite concat_app. cbn [concat]. rewrite app_nil_r. reflexivity. Qed.

Lemma rep_flush st G g : rep st G g -> g <> [] -> rep (flush [] st) (G ++ [g]) [].
Proof.
  intros [Ro Rc Rh RG Rg] Hne. constructor; cbn [flush l_out l_cur l_has].
  - rewrite map_app, Ro, Rc. reflexivity.
  - reflexivity.
  - reflexivity.
  - apply Forall_app. split; [exact RG|]. constructor; [|constructor]. apply wf_group_plain; assumption.
  - constructor.
Qed.

Lemma rep_add st G g c : rep st G g -> c <> [] -> rep (add c st) G (g ++ [(c, false)]).
Proof.
  intros [Ro Rc Rh RG Rg] Hc. constructor; cbn [add l_out l_cur l_has].
  - exact Ro.
  - rewrite render_snoc, Rc, Rh. cbn [fst]. destruct g; reflexivity.
  - destruct g; reflexivity.
  - exact RG.
  - apply Forall_app. split; [exact Rg|]. constructor; [split; [exact Hc|reflexivity]|constructor].
Qed.

(* adding a chunk and flushing at once; the chunk may be continued *)
Lemma rep_add_flush st G g c f : rep st G g -> c <> [] ->
  rep (flush [] (add c st)) (G ++ [g ++ [(c, f)]]) [].
Proof.
  intros [Ro Rc Rh RG Rg] Hc. constructor; cbn [flush add l_out l_cur l_has].
  - rewrite map_app, Ro. cbn [List.map]. rewrite render_snoc, Rc, Rh. cbn [fst]. destruct g; reflexivity.
  - reflexivity.
  - reflexivity.
  - apply Forall_app. split; [exact RG|]. constructor; [|constructor]. apply wf_group_snoc; [exact Rg|exact Hc].
  - constructor.
Qed.

(* ------------------------------------------------------------------ *)
(* place lays one word out                                             *)
(* ------------------------------------------------------------------ *)

Lemma place_layout fuel : forall w word st st' G g ws pre,
  place fuel [] w word st = Ok st' -> word <> [] ->
  rep st G g -> spell2 (concat G ++ g) [] = (ws, pre) -> (pre <> [] -> g = []) ->
  exists G' g', rep st' G' g' /\ spell2 (concat G' ++ g') [] = (ws ++ [pre ++ word], []).
Proof.
  induction fuel as [|f IH]; intros w word st st' G g ws pre H Hne Hrep Hsp Hpre.
  { destruct word; [congruence|cbn [place] in H; discriminate]. }
  destruct word as [|b r]; [congruence|]. set (word := b :: r) in *.
  unfold place in H; fold place in H. subst word; cbv beta iota in H; set (word := b :: r) in *.
  destruct (Zlen word <=? room_of w st)%Z eqn:Efit.
  - inversion H; subst st'. exists G, (g ++ [(word, false)]). split; [apply rep_add; assumption|].
    rewrite app_assoc. exact (spell2_snoc _ (word, false) ws pre Hsp).
  - destruct (l_has st && ((Zlen [] + Zlen word <=? w)%Z || (room_of w st <? 4)%Z)) eqn:Eflush.
    + apply andb_true_iff in Eflush. destruct Eflush as [Es _].
      assert (Hg : g <> []). { intros ->. rewrite (rep_has _ _ _ Hrep) in Es. discriminate. }
      eapply (IH w word (flush [] st) st' (G ++ [g]) [] ws pre); [exact H|exact Hne|exact (rep_flush _ _ _ Hrep Hg)| |intros _; reflexivity].
      rewrite concat_snoc, app_nil_r. exact Hsp.
    + set (n := cut_len (length word) word 0 (room_of w st) (l_has st)) in *.
      assert (Hn1 : 1 <= n).
      { assert (Hc : l_has st = false \/ (4 <= room_of w st)%Z).
        { destruct (l_has st); [right|left; reflexivity]. cbn [andb] in Eflush.
          apply orb_false_iff in Eflush. lia. }
        pose proof (cut_len_first (length word) word (room_of w st) (l_has st) Hne ltac:(subst word; cbn [length]; lia) Hc) as Hf.
        destruct (first_rune_width_bounds word Hne) as [[H1 _] _]. subst n. lia. }
      unfold slice_to, slice_from in H.
      destruct (Nat.leb n (length word)) eqn:En; [|discriminate]. cbn [rbind] in H.
      apply Nat.leb_le in En.
      assert (Hhead : firstn n word <> []).
      { intros E0. assert (length (firstn n word) = 0) by (rewrite E0; reflexivity). rewrite firstn_length in H0. lia. }
      assert (Hg : pre <> [] -> g = []) by exact Hpre.
      destruct (skipn n word) as [|tb tr] eqn:Etail.
      * (* the whole word went onto this line *)
        cbn [place] in H. destruct f; inversion H; subst st'.
        -- exists (G ++ [g ++ [(firstn n word, false)]]), []. split; [apply rep_add_flush; assumption|].
           rewrite concat_snoc, app_nil_r, app_assoc.
           pose proof (spell2_snoc _ (firstn n word, false) ws pre Hsp) as X. cbn [snd fst] in X.
           rewrite <- (firstn_skipn n word) at 2. rewrite Etail, app_nil_r. exact X.
        -- exists (G ++ [g ++ [(firstn n word, false)]]), []. split; [apply rep_add_flush; assumption|].
           rewrite concat_snoc, app_nil_r, app_assoc.
           pose proof (spell2_snoc _ (firstn n word, false) ws pre Hsp) as X. cbn [snd fst] in X.
           rewrite <- (firstn_skipn n word) at 2. rewrite Etail, app_nil_r. exact X.
      * rewrite <- Etail in *.
        destruct (IH w (skipn n word) _ st' (G ++ [g ++ [(firstn n word, true)]]) [] ws (pre ++ firstn n word) H) as (G' & g' & R' & S').
        -- rewrite Etail. discriminate.
        -- apply rep_add_flush; assumption.
        -- rewrite concat_snoc, app_nil_r, app_assoc.
           exact (spell2_snoc _ (firstn n word, true) ws pre Hsp).
        -- intros _. reflexivity.
        -- exists G', g'. split; [exact R'|]. rewrite S'. rewrite <- app_assoc, firstn_skipn. reflexivity.
Qed.

(* ------------------------------------------------------------------ *)
(* the word loop                                                       *)
(* ------------------------------------------------------------------ *)

Definition nonempty_words (ws : list str) : list str := filter (fun x => negb (is_nil x)) ws.

Definition lay_inv (st : sst) (ws : list str) : Prop :=
  s_codes st = [] /\ s_lastc st = [] /\
  exists G g, rep (s_l st) G g /\ spell2 (concat G ++ g) [] = (ws, []).

Lemma step_layout w st word st' ws : plain word ->
  step w (Ok st) word = Ok st' -> lay_inv st ws ->
  lay_inv st' (ws ++ nonempty_words [word]).
Proof.
  intros Hp H (Hc & Hl & G & g & Hrep & Hsp). unfold step in H; cbn [rbind] in H.
  destruct word as [|b r].
  - cbn [nonempty_words filter is_nil negb]. rewrite app_nil_r.
    destruct (l_has (s_l st)) eqn:Es; inversion H; subst st'; [|repeat split; eauto].
    cbn [s_codes s_lastc s_l]. repeat split; [exact Hc|exact Hl|].
    rewrite Hc, Hl, prefix_of_nil.
    assert (Hg : g <> []). { intros ->. rewrite (rep_has _ _ _ Hrep) in Es. discriminate. }
    exists (G ++ [g]), []. split; [apply rep_flush; assumption|].
    rewrite concat_snoc, app_nil_r. exact Hsp.
  - rewrite Hc, Hl in H. rewrite (track_word_plain _ Hp) in H. rewrite prefix_of_nil in H.
    destruct (place (2 * length (b :: r) + 2) [] w (b :: r) (s_l st)) as [l|] eqn:Ep; cbn [rbind] in H; [|discriminate].
    inversion H; subst st'. cbn [s_codes s_lastc s_l].
    destruct (place_layout _ _ _ _ _ G g ws [] Ep ltac:(discriminate) Hrep Hsp ltac:(congruence)) as (G' & g' & R' & S').
    repeat split; try reflexivity. exists G', g'. split; [exact R'|exact S'].
Qed.

Lemma nonempty_words_app a b : nonempty_words (a ++ b) = nonempty_words a ++ nonempty_words b.
Proof. apply filter_app. Qed.

Lemma fold_step_layout w words : forall st st' ws, Forall plain words ->
  fold_left (step w) words (Ok st) = Ok st' -> lay_inv st ws ->
  lay_inv st' (ws ++ nonempty_words words).
Proof.
  induction words as [|x r IH]; intros st st' ws Hp H Hi; cbn [fold_left] in H.
  - inversion H; subst. cbn. rewrite app_nil_r. exact Hi.
  - inversion Hp as [|? ? Hx Hr]; subst.
    destruct (step_ok w st x) as [st1 H1]. rewrite H1 in H.
    change (x :: r) with ([x] ++ r). rewrite nonempty_words_app, app_assoc.
    eapply IH; [exact Hr|exact H|]. eapply step_layout; eassumption.
Qed.

Lemma lay_inv_init : lay_inv sst_init [].
Proof.
  repeat split. exists [], []. split; [|reflexivity].
  constructor; cbn; try reflexivity; constructor.
Qed.

(* the pieces before the final ToValidUTF8 pass are a layout of the words *)
Theorem raw_layout w words st : Forall plain words ->
  fold_left (step w) words (Ok sst_init) = Ok st ->
  layout (nonempty_words words) (finish (s_l st)).
Proof.
  intros Hp H.
  destruct (fold_step_layout w words sst_init st [] Hp H lay_inv_init) as (_ & _ & G & g & Hrep & Hsp).
  cbn [app] in Hsp. destruct Hrep as [Ro Rc Rh RG Rg].
  unfold layout, finish. rewrite Rh. destruct g as [|t g'].
  - cbn [is_nil negb]. exists G. split; [exact Ro|]. split.
    + exact RG.
    + apply spell_spell2. rewrite app_nil_r in Hsp. exact Hsp.
  - cbn [is_nil negb]. exists (G ++ [t :: g']). split; [rewrite map_app, Ro, Rc; reflexivity|]. split.
    + apply Forall_app. split; [exact RG|]. constructor; [|constructor]. apply wf_group_plain; [discriminate|exact Rg].
    + apply spell_spell2. rewrite concat_snoc. exact Hsp.
Qed.

(* ------------------------------------------------------------------ *)
(* C11_content                                                         *)
(* ------------------------------------------------------------------ *)
Require Import SplitWords SplitValid.

(* the words of a text: TrimSpace, split at TAB/VT/FF/SPACE/NEL/NBSP, then at line breaks *)
Definition msg_words (text : str) : list str :=
  nonempty_words (split_words (to_valid_utf8 qmark text)).

Lemma plain_words text : plain text -> Forall plain (split_words (to_valid_utf8 qmark text)).
Proof.
  intros Hp. apply Forall_forall. intros w0 Hw. apply Forall_forall. intros x Hx.
  pose proof (split_words_In x _ _ Hw Hx) as H.
  apply to_valid_aux_In in H. destruct H as [H|H].
  - exact (proj1 (Forall_forall _ _) Hp x H).
  - destruct H as [<-|[]]. reflexivity.
Qed.

Theorem split_message_content text w ps : plain text ->
  split_message text w = Ok ps -> layout (msg_words text) ps.
Proof.
  intros Hp H. rewrite split_message_raw in H. unfold split_raw in H.
  destruct (fold_left (step w) (split_words (to_valid_utf8 qmark text)) (Ok sst_init)) as [st|] eqn:E;
    cbn [rbind] in H; [|discriminate].
  inversion H; subst ps. eapply raw_layout; [apply plain_words; exact Hp|exact E].
Qed.

Lemma render_nonempty g : g <> [] -> Forall (fun t => fst t <> []) g -> render g <> [].
Proof.
  intros Hne Hg. destruct g as [|[c f] r]; [congruence|]. inversion Hg as [|? ? Hc _]; subst. cbn [fst] in Hc.
  unfold render. destruct r as [|t r']; cbn [List.map fst join]; [exact Hc|].
  destruct c; [congruence|discriminate].
Qed.

Lemma layout_nonempty ws ps : layout ws ps -> Forall (fun p => p <> []) ps.
Proof.
  intros (G & -> & HG & _). apply Forall_forall. intros p Hp. apply in_map_iff in Hp.
  destruct Hp as (g & <- & Hg). destruct (proj1 (Forall_forall _ _) HG g Hg) as (H1 & H2 & _).
  apply render_nonempty; assumption.
Qed.

(* nothing at all is sent for a text without words *)
Lemma layout_nil ps : layout [] ps -> ps = [].
Proof.
  intros (G & -> & HG & Hs). destruct G as [|g G']; [reflexivity|]. exfalso.
  destruct (Forall_inv HG) as (Hne & Hc & _). destruct g as [|[c f] r]; [exfalso; apply Hne; reflexivity|].
  pose proof (Forall_inv Hc) as Hc0. cbn [fst] in Hc0.
  cbn [concat app spell] in Hs. destruct f.
  - (* a continued first chunk: pending is non-empty for ever *)
    assert (G : forall toks p, p <> [] -> spell toks p <> Some []).
    { induction toks as [|[c' f'] r' IH]; intros p Hp; cbn [spell]; [destruct p; congruence|].
      destruct f'; [apply IH; destruct p; [congruence|discriminate]|].
      destruct (spell r' []); discriminate. }
    apply (G (r ++ concat G') ([] ++ c)); [exact Hc0|exact Hs].
  - destruct (spell (r ++ concat G') []); discriminate.
Qed.

Example msg_words_example :
  msg_words (bs "  hello   wide world") = [bs "hello"; bs "wide"; bs "world"] /\
  split_message (bs "  hello   wide world") 10 = Ok [bs "hello wide"; bs "world"] /\
  split_message (bs "abcdefghijkl mn") 5 = Ok [bs "abcde"; bs "fghij"; bs "kl mn"].
Proof. vm_compute. repeat split. Qed.

(* ------------------------------------------------------------------ *)
(* what is written for a source-less, tag-less PRIVMSG/NOTICE          *)
(* (Commands.Message / Notice / Action)                                *)
(* ------------------------------------------------------------------ *)

Theorem send_fits_wire st e es :
  se_tagov e = 0 -> se_source e = None -> se_params e <> [] -> is_msg_cmd (se_command e) = true ->
  send st e = Ok es -> (cmd_target_len e <= max_event_length st)%Z ->
  Forall (fun p =>
    (Z.of_nat (length (event_bytes p)) <= max_event_length st)%Z \/
    ((max_event_length st - cmd_target_len e < 4)%Z /\
     (Z.of_nat (length (event_bytes p)) <= cmd_target_len e + 4)%Z)) es.
Proof.
  intros Ht Hs Hne Hm H Hc. unfold send in H.
  pose proof (event_split_fits _ _ _ H Hne Hm Hc) as Hf.
  assert (Hframe : Forall (fun p => se_tagov p = 0 /\ se_source p = None) es).
  { destruct (event_split_shape _ _ _ H) as [->|(_ & _ & text & wrap & w & pieces & _ & _ & Hsf & _)].
    - constructor; [split; assumption|constructor].
    - eapply Forall_impl; [|exact Hsf]. intros p (_ & Hsrc & Htag & _). rewrite Hsrc, Htag. split; assumption. }
  apply Forall_forall. intros p Hp.
  pose proof (proj1 (Forall_forall _ _) Hf p Hp) as Hfp.
  destruct (proj1 (Forall_forall _ _) Hframe p Hp) as [Hpt Hps].
  pose proof (event_bytes_length p Hpt) as Hb. unfold len_opts in Hb. rewrite Hps in Hb.
  unfold event_fits in Hfp. destruct Hfp as [Hfp|[Hw Hfp]]; [left; lia|right; lia].
Qed.

(* ------------------------------------------------------------------ *)
(* Send with Config.GlobalFormat: Fmt only rewrites the last parameter  *)
(* ------------------------------------------------------------------ *)

Lemma global_format_frame e :
  se_tagov (global_format e) = se_tagov e /\ se_source (global_format e) = se_source e /\
  se_command (global_format e) = se_command e /\
  (se_params e <> [] -> se_params (global_format e) <> []) /\
  length (se_params (global_format e)) = length (se_params e) /\
  removelast (se_params (global_format e)) = removelast (se_params e).
Proof.
  unfold global_format. destruct (se_params e) as [|p ps] eqn:Ep; [rewrite Ep; repeat split; auto|].
  destruct (last (p :: ps) []); [rewrite Ep; repeat split; auto; discriminate|].
  destruct (is_msg_cmd (se_command e) || streqb (se_command e) TOPIC); [|rewrite Ep; repeat split; auto; discriminate].
  unfold with_params; cbn [se_tagov se_source se_command se_params].
  rewrite set_last_snoc by discriminate. rewrite removelast_snoc. repeat split.
  - intros _. destruct (removelast (p :: ps)); discriminate.
  - rewrite app_length. cbn [length].
    pose proof (@app_removelast_last _ (p :: ps) [] ltac:(discriminate)) as E.
    apply (f_equal (@length str)) in E. rewrite app_length in E. cbn [length] in E. cbn [length]. lia.
Qed.

(* every line written is within the limit of the FORMATTED message's command and target *)
Theorem send_gf_fits_wire st e es :
  se_tagov e = 0 -> se_source e = None -> se_params e <> [] -> is_msg_cmd (se_command e) = true ->
  send_gf st e = Ok es -> (cmd_target_len (global_format e) <= max_event_length st)%Z ->
  Forall (fun p =>
    (Z.of_nat (length (event_bytes p)) <= max_event_length st)%Z \/
    ((max_event_length st - cmd_target_len (global_format e) < 4)%Z /\
     (Z.of_nat (length (event_bytes p)) <= cmd_target_len (global_format e) + 4)%Z)) es.
Proof.
  intros Ht Hs Hne Hm H Hc. destruct (global_format_frame e) as (F1 & F2 & F3 & F4 & _).
  apply (send_fits_wire st (global_format e) es); try assumption.
  - rewrite F1. exact Ht.
  - rewrite F2. exact Hs.
  - apply F4. exact Hne.
  - rewrite F3. exact Hm.
Qed.

(* the pieces are those of the FORMATTED event: split as the CTCP it has become *)
Theorem send_gf_shape st e es : send_gf st e = Ok es ->
  let f := global_format e in
  es = [f] \/
  (se_params f <> [] /\ is_msg_cmd (se_command f) = true /\
   exists text wrap w pieces,
     split_message text w = Ok pieces /\
     es = List.map (fun q => with_params f (set_last (se_params f) (wrap q))) pieces /\
     Forall (same_frame f) es /\
     match ctcp_of f with
     | Some c => text = Ctcp.c_text c /\ wrap = ctcp_wrap (Ctcp.c_command c) /\ w = (max_event_length st - cmd_target_len f)%Z
     | None => text = last (se_params f) [] /\ wrap = (fun q => q) /\ w = (max_event_length st - cmd_target_len f)%Z
     end).
Proof. intros H. apply (event_split_shape _ _ _ H). Qed.

Example send_gf_ctcp_example :
  let e := message (bs "#c") (bs "{ctcp}ACTION aaa bbb{ctcp}") in
  ctcp_of e = None /\ ctcp_of (global_format e) <> None /\
  event_split (global_format e) 26 = Ok [action (bs "#c") (bs "aaa"); action (bs "#c") (bs "bbb")].
Proof. vm_compute. repeat split; discriminate. Qed.
