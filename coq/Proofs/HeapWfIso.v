(* Isolation together with the strong invariant HeapWf, over every interleaving. *)
Require Import Bytes AMap Names State Heap HeapLemmas HeapSpec HeapFrame HeapCopy HeapLive HeapHandlers HeapClient HeapIso HeapGetters HeapTheorems HeapWf HeapWfHandlers HeapExamples.
From Coq Require Import Lia.
Local Open Scope nat_scope.

Lemma HeapWf_old_cells h h' s : HeapWf (mkWorld h s) -> (forall x, x < length h -> hget h' x = hget h x) -> HeapWf (mkWorld h' s).
Proof.
  intros W U. apply (HeapWf_agree h h' s); [|exact W]. intros x Hx. apply U. apply (HeapWf_HeapInv _ W). exact Hx.
Qed.

Lemma step_wf g cfg x y : step g cfg x y -> Isolated (fst x) (snd x) -> HeapWf (fst x) -> HeapWf (fst y).
Proof.
  intros S Iso W. destruct S as [w K e w' H|w K h' K' H|w K n h' r H|w K n h' r H|w K h' l H|w K h' l H]; simpl in *.
  - eapply handle_Wf; eauto.
  - destruct w as [h s]. apply (HeapWf_agree h h' s); [|exact W]. apply (client_step_iso _ _ _ _ Iso H).
  - destruct w as [h s]. destruct r as [o'|].
    + apply (HeapWf_old_cells h h' s W). apply (lookup_user_disjoint _ _ _ _ (iso_inv _ _ Iso) H).
    + assert (h' = h); [|subst; exact W]. unfold lookup_user_g in H. destruct n as [|b n]; [injection H as <-; reflexivity|].
      destruct (lookup_user_h _ _); [bind_inv H r Hr; discriminate|injection H as <-; reflexivity].
  - destruct w as [h s]. destruct r as [o'|].
    + apply (HeapWf_old_cells h h' s W). apply (lookup_channel_disjoint _ _ _ _ (iso_inv _ _ Iso) H).
    + assert (h' = h); [|subst; exact W]. unfold lookup_channel_g in H. destruct n as [|b n]; [injection H as <-; reflexivity|].
      destruct (lookup_channel_h _ _); [bind_inv H r Hr; discriminate|injection H as <-; reflexivity].
  - destruct w as [h s]. apply (HeapWf_old_cells h h' s W). apply (users_elementwise _ _ _ (iso_inv _ _ Iso) H).
  - destruct w as [h s]. apply (HeapWf_old_cells h h' s W). apply (channels_elementwise _ _ _ (iso_inv _ _ Iso) H).
Qed.

Theorem isolation_wf_invariant g cfg x y : steps g cfg x y ->
  Isolated (fst x) (snd x) /\ HeapWf (fst x) -> Isolated (fst y) (snd y) /\ HeapWf (fst y).
Proof.
  induction 1 as [|x y z S _ IH]; intros [Iso W]; [auto|]. apply IH. split; [eapply step_isolated; eauto|eapply step_wf; eauto].
Qed.

Corollary reachable_isolated_wf g cfg w K : steps g cfg (world_init, []) (w, K) -> Isolated w K /\ HeapWf w.
Proof. intros H. apply (isolation_wf_invariant _ _ _ _ H). split; [exact isolated_init|exact HeapWf_init]. Qed.

(* non-vacuity: the example state of HeapExamples.v satisfies the strong invariant too *)
Example ex_wf : HeapWf ex_world1 /\ Isolated ex_world1 [ex_o].
Proof. destruct (reachable_isolated_wf _ _ _ _ ex_reachable) as [I W]. split; assumption. Qed.
