(* A grammar line is valid UTF-8 exactly when its fields are: fields are delimited by ASCII
   bytes.  (Direction used by C01_parse_stable: line valid -> fields valid.) *)
From Coq Require Import Lia ZifyBool ZifyN ZifyNat.
Require Import Bytes Utf8 AMap WireOut GoUpper Tags Event Grammar CodecSpec.
Require Import OrderLemmas AMapLemmas CodecLemmas Utf8Lemmas Utf8Split ParseNF TagsProofs LineProofs GrammarProofs RoundTrip StableProofs.

Arguments N.eqb : simpl never.
Arguments N.leb : simpl never.
Arguments N.ltb : simpl never.

Definition ahead (s : str) : Prop := match s with [] => True | y :: _ => (y <? 128) = true end.

Lemma V1 f s : valid_utf8 (f ++ s) = true -> ahead s -> valid_utf8 f = true /\ valid_utf8 s = true.
Proof.
  destruct s as [|y s']; intros H Ha.
  - rewrite app_nil_r in H. split; [exact H|reflexivity].
  - apply valid_utf8_split; assumption.
Qed.

Lemma Vspaces n s : valid_utf8 (spaces n ++ s) = true -> valid_utf8 s = true.
Proof.
  induction n as [|n IH]; [intros H; exact H|]. cbn [spaces repeat app]. intros H.
  apply IH. eapply valid_utf8_tail_ascii; [|exact H]. reflexivity.
Qed.

Lemma ahead_app_l a b : a <> [] -> ahead a -> ahead (a ++ b).
Proof. destruct a; [congruence|]. intros _ H. exact H. Qed.

Lemma Vjoin pieces : forall s, valid_utf8 (join semi pieces ++ s) = true -> ahead s ->
  (forall p, In p pieces -> valid_utf8 p = true) /\ valid_utf8 s = true.
Proof.
  induction pieces as [|x l IH]; intros s H Ha.
  - cbn [join app] in H. split; [intros p []|exact H].
  - destruct l as [|y r].
    + cbn [join] in H. destruct (V1 _ _ H Ha) as [H1 H2]. split; [|exact H2].
      intros p [<-|[]]. exact H1.
    + change (join semi (x :: y :: r)) with (x ++ semi ++ join semi (y :: r)) in H.
      rewrite <- !app_assoc in H. change (semi ++ join semi (y :: r) ++ s) with (59 :: join semi (y :: r) ++ s) in H.
      destruct (valid_utf8_mid _ 59 _ eq_refl H) as [H1 H2].
      destruct (IH s H2 Ha) as [H3 H4]. split; [|exact H4].
      intros p [<-|Hp]; [exact H1|apply H3; exact Hp].
Qed.

Lemma ahead_crlf eol : forallb is_crlf eol = true -> ahead eol.
Proof.
  destruct eol as [|c e]; [intros _; exact I|]. cbn [forallb]. intros H.
  apply Bool.andb_true_iff in H. destruct H as [Hc _]. unfold is_crlf in Hc. unfold ahead. lia.
Qed.

Lemma ahead_params ms tr tail eol : forallb is_crlf eol = true ->
  ahead (render_middles ms ++ render_trailing tr tail ++ eol).
Proof.
  intros He. destruct ms as [|[k m] ms]; [|cbn; reflexivity].
  cbn [render_middles flat_map app]. destruct tr as [[n t]|]; cbn [render_trailing]; [reflexivity|].
  destruct tail; [|reflexivity]. cbn [spaces repeat app]. apply ahead_crlf. exact He.
Qed.

Lemma Vmiddles ms : forall rest, ahead rest ->
  (forall k m r, ahead (spaces (S k) ++ m ++ r)) ->
  valid_utf8 (render_middles ms ++ rest) = true ->
  forallb (fun nm => valid_utf8 (snd nm)) ms = true /\ valid_utf8 rest = true.
Proof.
  induction ms as [|[k m] ms IH]; intros rest Ha _ H; [split; [reflexivity|exact H]|].
  cbn [render_middles flat_map fst snd] in H. rewrite <- !app_assoc in H.
  apply Vspaces in H.
  assert (Hah : ahead (flat_map (fun nm : nat * str => spaces (S (fst nm)) ++ snd nm) ms ++ rest)).
  { destruct ms as [|[k2 m2] ms2]; [exact Ha|cbn; reflexivity]. }
  destruct (V1 _ _ H Hah) as [H1 H2].
  destruct (IH rest Ha ltac:(intros; cbn; reflexivity) H2) as [H3 H4].
  split; [|exact H4]. cbn [forallb snd]. rewrite H1, H3. reflexivity.
Qed.

Theorem render_valid_fields : forall a, wf_ast a -> valid_utf8 (render a) = true -> ast_utf8 a = true.
Proof.
  intros a Hwf H. unfold wf_ast, wf_astb in Hwf.
  repeat (apply Bool.andb_true_iff in Hwf; destruct Hwf as [Hwf ?]).
  match goal with X : forallb is_crlf _ = true |- _ => rename X into Heol end.
  match goal with X : wf_cmd _ = true |- _ => rename X into Hcmd end.
  match goal with X : match a_src a with _ => _ end = true |- _ => rename X into Hsrc end.
  destruct (wf_cmd_ok _ Hcmd) as (Hcok & Hascii & Hclen & _).
  destruct (cmd_ok_spec _ Hcok) as (c0 & cr & Hc & _).
  assert (Hc0 : (c0 <? 128) = true).
  { unfold is_ascii in Hascii. rewrite Hc in Hascii. cbn [forallb] in Hascii. apply Bool.andb_true_iff in Hascii. tauto. }
  unfold render in H.
  set (P := render_middles (a_middles a) ++ render_trailing (a_trailing a) (a_tail a) ++ a_eol a) in *.
  assert (HaP : ahead P) by (apply ahead_params; exact Heol).
  set (R2 := a_cmd a ++ P) in *.
  assert (HaR2 : ahead R2) by (unfold R2; rewrite Hc; exact Hc0).
  set (R1 := (match a_src a with Some s => render_src s | None => [] end) ++ R2) in *.
  assert (HaR1 : ahead R1).
  { unfold R1. destruct (a_src a) as [[[n u] h]|]; [cbn; reflexivity|exact HaR2]. }
  (* tags *)
  assert (HT : (match a_tags a with
                | Some l => forallb (fun kv => match snd kv with Some v => valid_utf8 (tag_escape v) | None => true end) l
                | None => true end) = true /\ valid_utf8 R1 = true).
  { destruct (a_tags a) as [l|]; [|split; [reflexivity|exact H]].
    unfold render_tags in H. cbn [app] in H. apply (valid_utf8_tail_ascii 64) in H; [|reflexivity].
    rewrite <- app_assoc in H. cbn [app] in H.
    destruct (Vjoin _ _ H ltac:(reflexivity)) as [Hp HR].
    apply (valid_utf8_tail_ascii 32) in HR; [|reflexivity]. split; [|exact HR].
    rewrite forallb_forall. intros [k ov] Hin. cbn [snd]. destruct ov as [v|]; [|reflexivity].
    specialize (Hp (render_tag (k, Some v)) (in_map _ _ _ Hin)). unfold render_tag in Hp. cbn [fst snd] in Hp.
    destruct (valid_utf8_mid _ 61 _ eq_refl Hp) as [_ Hv]. exact Hv. }
  destruct HT as [HT HR1].
  (* source *)
  assert (HS : (match a_src a with
                | Some (n, u, h) => valid_utf8 n && (match u with Some u => valid_utf8 u | None => true end)
                                    && (match h with Some h => valid_utf8 h | None => true end)
                | None => true end) = true /\ valid_utf8 R2 = true).
  { unfold R1 in HR1. destruct (a_src a) as [[[n u] h]|]; [|split; [reflexivity|exact HR1]].
    unfold render_src in HR1. cbn [app] in HR1. apply (valid_utf8_tail_ascii 58) in HR1; [|reflexivity].
    rewrite <- !app_assoc in HR1. cbn [app] in HR1.
    destruct u as [u|]; destruct h as [h|]; cbn [app] in HR1.
    - destruct (valid_utf8_mid _ 33 _ eq_refl HR1) as [Hn Ha1].
      destruct (valid_utf8_mid _ 64 _ eq_refl Ha1) as [Hu Ha2].
      destruct (valid_utf8_mid _ 32 _ eq_refl Ha2) as [Hh Ha3].
      rewrite Hn, Hu, Hh. split; [reflexivity|exact Ha3].
    - destruct (valid_utf8_mid _ 33 _ eq_refl HR1) as [Hn Ha1].
      destruct (valid_utf8_mid _ 32 _ eq_refl Ha1) as [Hu Ha3].
      rewrite Hn, Hu. split; [reflexivity|exact Ha3].
    - destruct (valid_utf8_mid _ 64 _ eq_refl HR1) as [Hn Ha1].
      destruct (valid_utf8_mid _ 32 _ eq_refl Ha1) as [Hh Ha3].
      rewrite Hn, Hh. split; [reflexivity|exact Ha3].
    - destruct (valid_utf8_mid _ 32 _ eq_refl HR1) as [Hn Ha3].
      rewrite Hn. split; [reflexivity|exact Ha3]. }
  destruct HS as [HS HR2].
  (* command, middles, trailing *)
  unfold R2 in HR2. destruct (V1 _ _ HR2 HaP) as [_ HP]. unfold P in HP.
  assert (HaT : ahead (render_trailing (a_trailing a) (a_tail a) ++ a_eol a)).
  { pose proof (ahead_params [] (a_trailing a) (a_tail a) (a_eol a) Heol) as X. exact X. }
  destruct (Vmiddles _ _ HaT ltac:(intros; cbn; reflexivity) HP) as [HM HTR].
  assert (HTr : (match a_trailing a with Some (_, t) => valid_utf8 t | None => true end) = true).
  { destruct (a_trailing a) as [[n t]|]; [|reflexivity]. cbn [render_trailing] in HTR.
    rewrite <- app_assoc in HTR. apply Vspaces in HTR. cbn [app] in HTR.
    apply (valid_utf8_tail_ascii 58) in HTR; [|reflexivity].
    assert (Hae : ahead (a_eol a)) by (apply ahead_crlf; exact Heol).
    destruct (V1 _ _ HTR Hae) as [Ht _]. exact Ht. }
  unfold ast_utf8. rewrite HT, HS, HM, HTr. reflexivity.
Qed.

(* C01_parse_stable with the hypothesis on the line itself *)
Theorem parse_stable_line : forall a, wf_ast a -> valid_utf8 (render a) = true -> ast_tags_fit a = true ->
  exists e e', parse_event (render a) = Ok (Some e) /\
               parse_event (event_bytes e) = Ok (Some e') /\ wevent_equiv e' e.
Proof.
  intros a Hwf Hv Hfit. apply parse_stable; [exact Hwf|apply render_valid_fields; assumption|exact Hfit].
Qed.
