(* Generic frame theory for one agent working on the store: from a starting heap h0 of
   length n0 where it could reach L0, an agent that only writes objects it can reach or
   has allocated since, and only stores pointers to such objects, (1) leaves every other
   old object untouched and (2) can afterwards reach only L0 and new objects.
   Used twice: for the library (handlers; roots = the tracked state) and for the client
   (writes through snapshots; roots = the handles it holds). *)
Require Import Bytes AMap Names State Heap HeapLemmas HeapSpec.
From Coq Require Import Lia.
Local Open Scope nat_scope.

Lemma in_creach h K o : In o (creach h K) <-> exists r, In r K /\ In o (reach h r).
Proof. unfold creach. apply in_flat_map. Qed.

Lemma creach_self h K r : In r K -> In r (creach h K).
Proof. intros H. apply in_creach. exists r. split; [exact H|apply reach_self]. Qed.

Section Agent.
  Variables (n0 : nat) (L0 : list nat) (h0 : heap).

  Definition allowed (o : nat) : Prop := In o L0 \/ n0 <= o.
  (* usable now: allowed and allocated *)
  Definition okp (h : heap) (o : nat) : Prop := allowed o /\ o < length h.

  Record Fr (h : heap) (R : list nat) : Prop := {
    fr_len : n0 <= length h;
    fr_frame : forall o, o < n0 -> ~ In o L0 -> hget h o = hget h0 o;
    fr_reach : forall o, In o (creach h R) -> okp h o
  }.

  Lemma okp_mono h h' o : okp h o -> length h <= length h' -> okp h' o.
  Proof. intros [A B] L. split; [exact A|lia]. Qed.

  Lemma okp_fresh h o : n0 <= length h -> o = length h -> forall c, okp (h ++ [c]) o.
  Proof. intros L -> c. split; [right; exact L|rewrite app_length; simpl; lia]. Qed.

  Lemma Fr_root h R r : Fr h R -> In r R -> okp h r.
  Proof. intros F H. apply (fr_reach _ _ F). apply creach_self. exact H. Qed.

  Lemma Fr_ptr h R r c p : Fr h R -> In r R -> hget h r = Some c -> In p (ptrs c) -> okp h p.
  Proof. intros F Hr Hc Hp. apply (fr_reach _ _ F). apply in_creach. exists r. split; [exact Hr|]. eapply reach_ptr; eauto. Qed.

  (* allocation *)
  Lemma Fr_alloc h R c : Fr h R -> Fr (h ++ [c]) R.
  Proof.
    intros F. constructor.
    - rewrite app_length. pose proof (fr_len _ _ F). lia.
    - intros o Lo No. rewrite hget_app_old by (pose proof (fr_len _ _ F); lia). apply (fr_frame _ _ F); assumption.
    - intros o Ho. apply in_creach in Ho. destruct Ho as (r & Hr & Ho).
      assert (Lr : r < length h) by (apply (Fr_root _ _ _ F Hr)).
      assert (E : reach (h ++ [c]) r = reach h r) by (apply reach_same_cell; apply hget_app_old; exact Lr).
      rewrite E in Ho. eapply okp_mono; [apply (fr_reach _ _ F); apply in_creach; eauto|rewrite app_length; lia].
  Qed.

  (* a write to a usable object, storing only usable pointers *)
  Lemma Fr_hset h R o c : Fr h R -> okp h o -> (forall p, In p (ptrs c) -> okp h p) -> Fr (hset h o c) R.
  Proof.
    intros F [Ao Lo] Hp. constructor.
    - rewrite hset_length. apply (fr_len _ _ F).
    - intros o' Lo' No'. rewrite hget_hset_neq; [apply (fr_frame _ _ F); assumption|].
      intros ->. destruct Ao as [A|A]; [contradiction|lia].
    - intros x Hx. apply in_creach in Hx. destruct Hx as (r & Hr & Hx).
      unfold okp. rewrite hset_length.
      destruct (Nat.eq_dec r o) as [->|Ne].
      + apply reach_inv in Hx. destruct Hx as [->|(c' & Hc' & Hx)]; [split; assumption|].
        rewrite hget_hset_eq in Hc' by exact Lo. injection Hc' as <-. apply Hp. exact Hx.
      + assert (E : reach (hset h o c) r = reach h r) by (apply reach_same_cell; apply hget_hset_neq; congruence).
        rewrite E in Hx. apply (fr_reach _ _ F). apply in_creach. eauto.
  Qed.

  (* a write that keeps the pointers of the cell (contents of an array or map, string
     fields of a struct) *)
  Lemma Fr_hset_same_ptrs h R o c c0 : Fr h R -> okp h o -> hget h o = Some c0 -> ptrs c = ptrs c0 ->
    (forall r, In r R -> reach (hset h o c) r = reach h r) /\ Fr (hset h o c) R.
  Proof.
    intros F Ho Hc0 E.
    assert (Hreach : forall r, reach (hset h o c) r = reach h r).
    { intros r. unfold reach. destruct (Nat.eq_dec r o) as [->|Ne].
      - rewrite hget_hset_eq by apply Ho. rewrite Hc0, E. reflexivity.
      - rewrite hget_hset_neq by congruence. reflexivity. }
    split; [intros; apply Hreach|].
    destruct Ho as [Ao Lo]. constructor.
    - rewrite hset_length. apply (fr_len _ _ F).
    - intros o' Lo' No'. rewrite hget_hset_neq; [apply (fr_frame _ _ F); assumption|].
      intros ->. destruct Ao as [A|A]; [contradiction|lia].
    - intros x Hx. apply in_creach in Hx. destruct Hx as (r & Hr & Hx). rewrite Hreach in Hx.
      unfold okp. rewrite hset_length. apply (fr_reach _ _ F). apply in_creach. eauto.
  Qed.

  (* the handle set may change to anything made of old handles and usable objects whose
     reach is usable *)
  Lemma Fr_roots h R R' : Fr h R ->
    (forall r, In r R' -> In r R \/ (forall x, In x (reach h r) -> okp h x)) -> Fr h R'.
  Proof.
    intros F H. constructor; [apply (fr_len _ _ F)|apply (fr_frame _ _ F)|].
    intros x Hx. apply in_creach in Hx. destruct Hx as (r & Hr & Hx).
    destruct (H r Hr) as [Hin|Hok]; [apply (fr_reach _ _ F); apply in_creach; eauto|apply Hok; exact Hx].
  Qed.

  Lemma Fr_roots_incl h R R' : Fr h R -> incl R' R -> Fr h R'.
  Proof. intros F H. eapply Fr_roots; [exact F|]. intros r Hr. left. apply H. exact Hr. Qed.
End Agent.

(* starting point *)
Lemma Fr_init h R : bounded h (creach h R) -> Fr (length h) (creach h R) h h R.
Proof.
  intros B. constructor; [lia|reflexivity|].
  intros o Ho. split; [left; exact Ho|apply B; exact Ho].
Qed.

(* what the agent's invariant gives the OTHER party: every old object outside L0 is untouched *)
Lemma Fr_untouched n0 L0 h0 h R : Fr n0 L0 h0 h R -> forall o, o < n0 -> ~ In o L0 -> hget h o = hget h0 o.
Proof. intros F. apply (fr_frame _ _ _ _ _ F). Qed.

(* values depend only on the reachable cells *)
Lemma user_value_agree h h' o : (forall x, In x (reach h o) -> hget h' x = hget h x) -> user_value h' o = user_value h o.
Proof.
  intros A. unfold user_value, get_user. rewrite (A o (reach_self _ _)).
  destruct (hget h o) as [[| | |u| |pl]|] eqn:Ho; try reflexivity.
  unfold sl_get, get_strs. rewrite (A (sl_arr (hu_chans u))) by (eapply reach_ptr; [exact Ho|simpl; auto]).
  destruct (hget h (sl_arr (hu_chans u))) as [[a| | | | |pl]|]; simpl; try reflexivity.
  destruct (hu_perms u) as [p|] eqn:Ep; [|reflexivity].
  unfold get_perms. rewrite (A p) by (eapply reach_ptr; [exact Ho|simpl; rewrite Ep; simpl; auto]). reflexivity.
Qed.

Lemma chan_value_agree h h' o : (forall x, In x (reach h o) -> hget h' x = hget h x) -> chan_value h' o = chan_value h o.
Proof.
  intros A. unfold chan_value, get_chan. rewrite (A o (reach_self _ _)).
  destruct (hget h o) as [[| | | |c|pl]|] eqn:Ho; try reflexivity.
  unfold sl_get, get_strs, sl_get_modes, get_modes.
  rewrite (A (sl_arr (hc_users c))) by (eapply reach_ptr; [exact Ho|simpl; auto]).
  rewrite (A (sl_arr (hm_modes (hc_modes c)))) by (eapply reach_ptr; [exact Ho|simpl; auto]).
  reflexivity.
Qed.

Lemma reach_agree h h' o : hget h' o = hget h o -> reach h' o = reach h o.
Proof. apply reach_same_cell. Qed.

Lemma creach_agree h h' K : (forall r, In r K -> hget h' r = hget h r) -> creach h' K = creach h K.
Proof.
  intros A. unfold creach. induction K as [|r K IH]; cbn [flat_map]; [reflexivity|].
  rewrite (reach_agree h h' r) by (apply A; left; reflexivity). f_equal. apply IH. intros r' Hr'. apply A. right. exact Hr'.
Qed.
