(* C07 — termination: an explicit measure that every transition decreases, progress in
   stimulated states, and the bounded "every schedule reaches Returned" theorem. *)
Require Import Bytes Lifecycle LifecycleSteps LifecycleInv.
From Coq Require Import List Bool Arith Lia.
Import ListNotations.

Definition w_cpc (c : cpc_t) : nat :=
  match c with
  | CIdle => 0 | CRet _ => 1 | CClear => 2 | CDiscEv => 3 | CTeardown => 4 | CClosedEv => 5 | CWait => 6
  | CReg r => 7 + 3 * length r
  | CStart r _ => 17 + 3 * length r
  end.
Definition w_xpc (x : xpc_t) : nat :=
  match x with XDone => 0 | XDrain => 1 | XSel => 2 | XRan _ _ => 3 | XRun _ _ => 4 end.
Definition w_rpc (r : rpc_t) : nat := match r with RDone => 0 | RDec => 2 | RTop => 3 | RRecv _ => 8 end.
Definition w_spc (x : spc_t) : nat := match x with SDone => 0 | SQuit => 1 | SSel => 2 end.
Definition w_ppc (x : ppc_t) : nat := match x with PDone => 0 | PSel => 1 end.
Definition w_close (x : close_t) : nat := match x with KNone => 0 | KDone => 1 | KCalled => 2 end.
Definition w_bool (b : bool) : nat := if b then 1 else 0.

(* queued work (budget of the environment, lines in flight, queued events and output)
   + the distance of every actor from its end *)
Definition measure (s : state) : nat :=
  18 * budget s + 7 * length (inbuf s) + 4 * length (rx s) + 2 * length (tx s) + length (outbuf s)
  + w_cpc (cpc s) + w_xpc (xpc s) + w_rpc (rpc s) + w_spc (spc s) + w_ppc (ppc s) + w_close (close_st s)
  + w_bool (linger s) + w_bool (negb (peer_eof s)).

Lemma w_xpc_le x : w_xpc x <= 4. Proof. destruct x; simpl; lia. Qed.
Lemma w_rpc_le x : w_rpc x <= 8. Proof. destruct x; simpl; lia. Qed.
Lemma w_spc_le x : w_spc x <= 2. Proof. destruct x; simpl; lia. Qed.
Lemma w_ppc_le x : w_ppc x <= 1. Proof. destruct x; simpl; lia. Qed.
Lemma w_bool_le x : w_bool x <= 1. Proof. destruct x; simpl; lia. Qed.

Lemma measure_dec s l s' : tstep s l s' -> measure s' < measure s.
Proof.
  intros H.
  pose proof (w_xpc_le (xpc s)). pose proof (w_rpc_le (rpc s)). pose proof (w_spc_le (spc s)).
  pose proof (w_ppc_le (ppc s)). pose proof (w_bool_le (linger s)). pose proof (w_bool_le (negb (peer_eof s))).
  destruct H; try (pose proof (removelast_shorter (inbuf s) ltac:(assumption)));
    unfold measure, group_err, spent, fresh_conn, enq, cap in *; split_ifs; norm_step;
    repeat match goal with E : ?x = _ |- context [?x] => rewrite E end;
    repeat match goal with E : ?x = _, H : context [?x] |- _ => rewrite E in H end;
    try (lia);
    try (destruct (inbuf s); cbn [tl length] in * );
    rewrite ?app_length; cbn [length w_cpc w_xpc w_rpc w_spc w_ppc w_close w_bool negb] in *;
    try lia.
Qed.

Lemma step_measure_dec s l s' : step s l s' -> measure s' < measure s.
Proof. intros H. apply measure_dec with (l := l). apply step_tstep. exact H. Qed.

(* ---- terminating stimuli ---- *)
Definition returned (s : state) : bool := match cpc s with CRet _ => true | _ => false end.

Definition close_called (s : state) : bool := match close_st s with KCalled => true | _ => false end.
Definition quit_written (s : state) : bool := match spc s with SQuit => true | _ => false end.
Definition error_dequeued (s : state) : bool :=
  match xpc s with XRun (EvError _) false | XRan (EvError _) false => true | _ => false end.

(* a terminating stimulus has occurred on the current connection:
   the group context is cancelled (Close() took effect, a loop returned an error - write
   error, read error / peer EOF seen, parse error, ping timeout -, or the QUIT path closed),
   Close() has been called, the QUIT has been written, the peer has closed its end, an
   ERROR has been dequeued by the normal branch of execLoop - or, earlier still, an ERROR sits
   in the receive queue or a QUIT in the send queue *)
Definition is_error (e : event) : bool := match e with EvError _ => true | EvMsg _ => false end.
Definition error_queued (s : state) : bool := existsb is_error (rx s).
Definition quit_queued (s : state) : bool := existsb o_quit (tx s).

Definition stimulated (s : state) : bool :=
  cancelled s || close_called s || quit_written s || peer_closed s || error_dequeued s
  || error_queued s || quit_queued s.

(* ... and Connect is on its way out: registering/waiting with a stimulus, or past Wait *)
Definition ending (s : state) : bool := (prewait s && stimulated s) || postwait s.

Ltac tcase H :=
  destruct H; unfold group_err, spent, fresh_conn in *; split_ifs; norm_step.

Lemma cancelled_mono s l s' : tstep s l s' -> live s = true -> cancelled s = true -> cancelled s' = true.
Proof. intros H L C. unfold live in L. tcase H; try rewrite C; auto; try congruence; rewrite H in L; discriminate. Qed.

Lemma peer_closed_mono s l s' : tstep s l s' -> live s = true -> peer_closed s = true -> peer_closed s' = true.
Proof. intros H L C. unfold live in L. tcase H; try rewrite C; auto; try congruence; rewrite H in L; discriminate. Qed.

Lemma close_called_step s l s' : tstep s l s' -> live s = true -> close_called s = true ->
  close_called s' = true \/ cancelled s' = true.
Proof.
  intros H L C. unfold live in L. unfold close_called in *.
  tcase H; auto; try (rewrite H in L; discriminate);
    match goal with E : close_st s = _ |- _ => rewrite E in C; discriminate end.
Qed.

Lemma quit_written_step s l s' : tstep s l s' -> live s = true -> quit_written s = true ->
  quit_written s' = true \/ cancelled s' = true.
Proof.
  intros H L C. unfold live in L. unfold quit_written in *.
  tcase H; auto; try (rewrite H in L; discriminate);
    match goal with E : spc s = _ |- _ => rewrite E in C; discriminate end.
Qed.

Lemma error_dequeued_step s l s' : Inv s -> tstep s l s' -> prewait s = true -> error_dequeued s = true ->
  error_dequeued s' = true \/ cancelled s' = true.
Proof.
  intros I H L C. unfold prewait in L. unfold error_dequeued in *. unfold Inv in I.
  tcase H; auto; try (rewrite H in L; discriminate);
    try (match goal with E : xpc s = _ |- _ => rewrite E in C; try discriminate end); auto.
  - destruct e; discriminate.
  - (* t_x_end_error with an error already recorded: the group is cancelled already *)
    destruct (cpc s); try discriminate; right; destruct I as (_&_&_&_&_&_&I); apply I; assumption.
Qed.

Lemma error_queued_step s l s' : Inv s -> tstep s l s' -> prewait s = true -> error_queued s = true ->
  error_queued s' = true \/ error_dequeued s' = true \/ cancelled s' = true.
Proof.
  intros I H L C. unfold prewait in L. unfold error_queued, error_dequeued in *. unfold Inv in I.
  tcase H; auto; try (rewrite H in L; discriminate);
    try (match goal with E : rx s = _ |- _ => rewrite E in C; cbn [existsb] in C end);
    try (rewrite existsb_app, C; auto; fail).
  - (* dequeued by the normal branch *)
    destruct e; cbn [is_error] in *; auto.
  - (* dequeued by the drain branch: the group is cancelled *)
    right. right. destruct (cpc s); try discriminate; destruct I as (_&_&_&Id&_); apply Id;
      unfold drainmode; rewrite H; reflexivity.
Qed.

Lemma quit_queued_step s l s' : Inv s -> tstep s l s' -> prewait s = true -> quit_queued s = true ->
  quit_queued s' = true \/ quit_written s' = true \/ cancelled s' = true.
Proof.
  intros I H L C. unfold prewait in L. unfold quit_queued, quit_written in *. unfold Inv in I.
  tcase H; unfold enq; split_ifs; auto; try (rewrite H in L; discriminate);
    try (match goal with E : tx s = _ |- _ => rewrite E in C; cbn [existsb] in C end);
    try (rewrite existsb_app, C; auto; fail);
    try (match goal with E : o_quit _ = false |- _ => rewrite E in C; cbn [orb] in C; auto end);
    (* a failed write with an error already recorded: the group is cancelled already *)
    try (right; right; destruct (cpc s); try discriminate; destruct I as (_&_&_&_&_&_&I); apply I; assumption).
Qed.

Lemma phase_step s l s' : tstep s l s' ->
  (prewait s = true -> prewait s' = true \/ postwait s' = true) /\
  (postwait s = true -> returned s = false -> postwait s' = true).
Proof.
  intros H. unfold prewait, postwait, returned.
  tcase H; try (match goal with E : cpc s = _ |- _ => rewrite E end); cbn; auto;
    split; intros; try discriminate; auto.
Qed.

Lemma prewait_live s : prewait s = true -> live s = true.
Proof. unfold prewait, live. destruct (cpc s); intros; try discriminate; reflexivity. Qed.

Lemma ending_step s l s' : Inv s -> tstep s l s' -> ending s = true -> returned s = false -> ending s' = true.
Proof.
  intros I H E R. unfold ending in *. apply orb_true_iff in E. destruct E as [E|E].
  - apply andb_prop in E. destruct E as [Pw St].
    destruct (phase_step s l s' H) as [Hp _]. destruct (Hp Pw) as [Hp'|Hp']; [|rewrite Hp'; apply orb_true_r].
    rewrite Hp'. simpl.
    pose proof (prewait_live s Pw) as Lv.
    unfold stimulated in *.
    repeat rewrite orb_true_iff in St. destruct St as [[[[[[St|St]|St]|St]|St]|St]|St].
    + rewrite (cancelled_mono s l s' H Lv St). reflexivity.
    + destruct (close_called_step s l s' H Lv St) as [X|X]; rewrite X; repeat rewrite orb_true_r; reflexivity.
    + destruct (quit_written_step s l s' H Lv St) as [X|X]; rewrite X; repeat rewrite orb_true_r; reflexivity.
    + rewrite (peer_closed_mono s l s' H Lv St). repeat rewrite orb_true_r. reflexivity.
    + destruct (error_dequeued_step s l s' I H Pw St) as [X|X]; rewrite X; repeat rewrite orb_true_r; reflexivity.
    + destruct (error_queued_step s l s' I H Pw St) as [X|[X|X]]; rewrite X; repeat rewrite orb_true_r; reflexivity.
    + destruct (quit_queued_step s l s' I H Pw St) as [X|[X|X]]; rewrite X; repeat rewrite orb_true_r; reflexivity.
  - destruct (phase_step s l s' H) as [_ Hp]. rewrite (Hp E R). apply orb_true_r.
Qed.

(* ---- progress: in an ending, not yet returned state some library goroutine can step ---- *)
Lemma sys_ne_connect s : step_connect s <> [] -> sys_next s <> [].
Proof. unfold sys_next, sys_next_gen, sys_core. intros H E. repeat (apply app_eq_nil in E; destruct E as [E ?]). tauto. Qed.
Lemma sys_ne_exec s : step_exec s <> [] -> sys_next s <> [].
Proof.
  unfold sys_next, sys_next_gen, sys_core. intros H E. apply app_eq_nil in E. destruct E as [E _].
  repeat (apply app_eq_nil in E; destruct E as [? E]); tauto.
Qed.
Lemma sys_ne_read s : step_read s <> [] -> sys_next s <> [].
Proof.
  unfold sys_next, sys_next_gen, sys_core. intros H E. apply app_eq_nil in E. destruct E as [E _].
  repeat (apply app_eq_nil in E; destruct E as [? E]); tauto.
Qed.
Lemma sys_ne_send s : step_send s <> [] -> sys_next s <> [].
Proof.
  unfold sys_next, sys_next_gen, sys_core. intros H E. apply app_eq_nil in E. destruct E as [E _].
  repeat (apply app_eq_nil in E; destruct E as [? E]); tauto.
Qed.
Lemma sys_ne_ping s : step_ping s <> [] -> sys_next s <> [].
Proof.
  unfold sys_next, sys_next_gen, sys_core. intros H E. apply app_eq_nil in E. destruct E as [E _].
  repeat (apply app_eq_nil in E; destruct E as [? E]); tauto.
Qed.
Lemma sys_ne_app s : step_app s <> [] -> sys_next s <> [].
Proof.
  unfold sys_next, sys_next_gen, sys_core. intros H E. apply app_eq_nil in E. destruct E as [E _].
  repeat (apply app_eq_nil in E; destruct E as [? E]); tauto.
Qed.

Lemma connect_en s :
  match cpc s with CIdle => False | CWait => loops_done s = true | _ => True end -> step_connect s <> [].
Proof.
  unfold step_connect. destruct (cpc s) as [| |[|o r]| | | | | |]; intros H; try discriminate; try contradiction.
  rewrite H. discriminate.
Qed.

Lemma exec_en s : xpc s <> XDone -> (xpc s = XSel -> cancelled s = true \/ rx s <> []) -> step_exec s <> [].
Proof.
  unfold step_exec. destruct (xpc s) eqn:E; intros H1 H2; try discriminate; try congruence.
  - destruct (H2 eq_refl) as [C|C].
    + rewrite C. intros X. apply app_eq_nil in X. destruct X; discriminate.
    + destruct (rx s); [congruence|]. discriminate.
  - destruct (rx s); discriminate.
Qed.

Lemma read_en s : rpc s <> RDone ->
  (rpc s = RDec -> cancelled s = true \/ inbuf s <> [] \/ peer_closed s || sock_closed s = true) ->
  step_read s <> [].
Proof.
  unfold step_read, step_read_gen. destruct (rpc s) eqn:E; intros H1 H2; try discriminate; try congruence.
  - destruct (H2 eq_refl) as [C|[C|C]].
    + rewrite C. discriminate.
    + destruct (inbuf s) as [|[e|x] r]; [congruence| |]; intros X; apply app_eq_nil in X; destruct X; discriminate.
    + rewrite C. destruct (inbuf s) as [|[e|x] r]; intros X; apply app_eq_nil in X; destruct X; discriminate.
  - destruct (length (rx s) <? cap); discriminate.
Qed.

Lemma send_en s : spc s <> SDone -> (spc s = SSel -> cancelled s = true \/ tx s <> []) -> step_send s <> [].
Proof.
  unfold step_send. destruct (spc s) eqn:E; intros H1 H2; try discriminate; try congruence.
  destruct (H2 eq_refl) as [C|C].
  - rewrite C. intros X. apply app_eq_nil in X. destruct X; discriminate.
  - destruct (tx s); [congruence|]. discriminate.
Qed.

Lemma ping_en s : ppc s = PSel -> cancelled s = true -> step_ping s <> [].
Proof. unfold step_ping. intros -> ->. discriminate. Qed.

Lemma app_en s : close_st s = KCalled -> step_app s <> [].
Proof. unfold step_app. intros ->. discriminate. Qed.

Lemma loops_not_done s : loops_done s = false ->
  xpc s <> XDone \/ rpc s <> RDone \/ spc s <> SDone \/ ppc s = PSel.
Proof.
  unfold loops_done. destruct (xpc s); try (left; discriminate).
  destruct (rpc s); try (right; left; discriminate).
  destruct (spc s); try (right; right; left; discriminate).
  destruct (ppc s); [right; right; right; reflexivity|discriminate].
Qed.

Lemma progress s : Inv s -> ending s = true -> returned s = false -> sys_next s <> [].
Proof.
  intros I E R. unfold ending, prewait, postwait, returned in *. unfold Inv in I.
  destruct (cpc s) eqn:C; simpl in E; try discriminate;
    try (apply sys_ne_connect, connect_en; rewrite C; exact Logic.I).
  (* CWait *)
  rewrite orb_false_r in E.
  destruct (loops_done s) eqn:L; [apply sys_ne_connect, connect_en; rewrite C; exact L|].
  destruct I as (_&_&_&Id&Ir&Is&_).
  assert (Hc : cancelled s = true -> sys_next s <> []).
  { intros Cc. destruct (loops_not_done s L) as [X|[X|[X|X]]].
    - apply sys_ne_exec, exec_en; auto.
    - apply sys_ne_read, read_en; auto.
    - apply sys_ne_send, send_en; auto.
    - apply sys_ne_ping, ping_en; auto. }
  unfold stimulated in E. repeat rewrite orb_true_iff in E. destruct E as [[[[[[E|E]|E]|E]|E]|E]|E].
  - apply Hc. exact E.
  - apply sys_ne_app, app_en. unfold close_called in E. destruct (close_st s); try discriminate. reflexivity.
  - apply sys_ne_send, send_en; unfold quit_written in E; destruct (spc s); try discriminate.
  - destruct (rpc s) eqn:Rp.
    + apply sys_ne_read, read_en; rewrite Rp; try discriminate.
    + apply sys_ne_read, read_en; rewrite Rp; try discriminate. intros _.
      destruct (inbuf s); [right; right; rewrite E; reflexivity|right; left; discriminate].
    + apply sys_ne_read, read_en; rewrite Rp; try discriminate.
    + apply Hc. apply Ir. reflexivity.
  - apply sys_ne_exec, exec_en; unfold error_dequeued in E; destruct (xpc s); try discriminate.
  - (* an ERROR is queued *)
    unfold error_queued in E. destruct (xpc s) eqn:X.
    + apply sys_ne_exec, exec_en; rewrite X; try discriminate. intros _. right.
      destruct (rx s); [discriminate|discriminate].
    + apply sys_ne_exec, exec_en; rewrite X; discriminate.
    + apply sys_ne_exec, exec_en; rewrite X; discriminate.
    + apply Hc. apply Id. unfold drainmode. rewrite X. reflexivity.
    + apply Hc. apply Id. unfold drainmode. rewrite X. reflexivity.
  - (* a QUIT is queued *)
    unfold quit_queued in E. destruct (spc s) eqn:X.
    + apply sys_ne_send, send_en; rewrite X; try discriminate. intros _. right.
      destruct (tx s); [discriminate|discriminate].
    + apply sys_ne_send, send_en; rewrite X; discriminate.
    + apply Hc. apply Is. reflexivity.
Qed.

(* ---- the bounded-termination statement ---- *)
(* every schedule from s reaches P within n steps, and never blocks before (some goroutine of
   the library can always move; the steps considered include every environment action) *)
Inductive all_paths (P : state -> Prop) : nat -> state -> Prop :=
| ap_here n s : P s -> all_paths P n s
| ap_step n s : sys_next s <> [] -> (forall l s', step s l s' -> all_paths P n s') -> all_paths P (S n) s.

Lemma terminates_aux n : forall s, measure s <= n -> Inv s -> ending s = true ->
  all_paths (fun s => returned s = true) n s.
Proof.
  induction n as [|n IH]; intros s Hm I E.
  - destruct (returned s) eqn:R; [apply ap_here; exact R|].
    exfalso. pose proof (progress s I E R) as Hp.
    destruct (sys_next s) as [|[l s'] r] eqn:Sn; [congruence|].
    assert (Hs : step s l s') by (left; rewrite Sn; left; reflexivity).
    apply step_measure_dec in Hs. lia.
  - destruct (returned s) eqn:R; [apply ap_here; exact R|].
    apply ap_step; [apply progress; assumption|].
    intros l s' Hs. apply IH.
    + apply step_measure_dec in Hs. lia.
    + eapply Inv_step; [exact I|apply step_tstep; exact Hs].
    + eapply ending_step; [exact I|apply step_tstep; exact Hs|exact E|exact R].
Qed.

Theorem terminates b tr s : exec b tr s -> ending s = true ->
  all_paths (fun s => returned s = true) (measure s) s.
Proof. intros H E. apply terminates_aux; [lia|eapply Inv_exec; exact H|exact E]. Qed.

(* The hypotheses are satisfiable, e.g. right after Close() was called during registration. *)
Definition ex_regs : list out := [mkOut false []].
Definition ex_s1 : state :=
  Eval vm_compute in match env_step (LConnCall ex_regs false) (init 10) with Some s => s | None => init 0 end.
Definition ex_s2 : state := Eval vm_compute in fresh_conn ex_regs false ex_s1.
Definition ex_s3 : state :=
  Eval vm_compute in match env_step LCloseCall ex_s2 with Some s => s | None => init 0 end.

Example terminates_example :
  exists tr s, exec 10 tr s /\ ending s = true /\ returned s = false.
Proof.
  exists [LConnCall ex_regs false; LCloseCall], ex_s3. split; [|split; reflexivity].
  apply (ex_vis 10 [LConnCall ex_regs false] ex_s2 LCloseCall ex_s3); [|discriminate|right; reflexivity].
  apply (ex_tau 10 [LConnCall ex_regs false] ex_s1 ex_s2); [|left; left; reflexivity].
  apply (ex_vis 10 [] (init 10) (LConnCall ex_regs false) ex_s1); [apply ex_init|discriminate|right; reflexivity].
Qed.
