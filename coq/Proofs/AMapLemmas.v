Require Import Bytes AMap OrderLemmas.

Section L.
  Context {V : Type}.
  Implicit Types (m : amap V) (k : str) (v : V).

  Lemma alookup_aremove_eq k m : alookup k (aremove k m) = None.
  Proof. induction m as [|[k' v'] m IH]; simpl; [reflexivity|]. destruct (streqb k k') eqn:E; [exact IH|]. simpl. rewrite E. exact IH. Qed.

  Lemma alookup_aremove_neq k k' m : k <> k' -> alookup k' (aremove k m) = alookup k' m.
  Proof.
    intros Hne. induction m as [|[k2 v2] m IH]; simpl; [reflexivity|].
    destruct (streqb k k2) eqn:E.
    - apply streqb_eq in E. subst k2. assert (streqb k' k = false) by (apply streqb_neq; congruence).
      rewrite H. exact IH.
    - simpl. destruct (streqb k' k2); [reflexivity|exact IH].
  Qed.

  Lemma alookup_aset_eq k v m : alookup k (aset k v m) = Some v.
  Proof. unfold aset. simpl. rewrite streqb_refl. reflexivity. Qed.

  Lemma alookup_aset_neq k k' v m : k <> k' -> alookup k' (aset k v m) = alookup k' m.
  Proof. intros Hne. unfold aset. simpl. assert (streqb k' k = false) by (apply streqb_neq; congruence).
    rewrite H. apply alookup_aremove_neq. exact Hne. Qed.

  Lemma alookup_aset k k' v m : alookup k' (aset k v m) = if streqb k' k then Some v else alookup k' m.
  Proof. destruct (streqb k' k) eqn:E; [apply streqb_eq in E; subst; apply alookup_aset_eq|].
    apply streqb_neq in E. apply alookup_aset_neq. congruence. Qed.

  Lemma alookup_aremove k k' m : alookup k' (aremove k m) = if streqb k' k then None else alookup k' m.
  Proof. destruct (streqb k' k) eqn:E; [apply streqb_eq in E; subst; apply alookup_aremove_eq|].
    apply streqb_neq in E. apply alookup_aremove_neq. congruence. Qed.
End L.
