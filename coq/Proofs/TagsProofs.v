(* Lemmas about Model/Tags.v: the escape table, Get/Set. *)
From Coq Require Import Lia ZifyBool ZifyN ZifyNat.
Require Import Bytes AMap Tags.

Arguments N.eqb : simpl never.
Arguments N.leb : simpl never.

(* ---- tag_unescape (tag_escape v) = v for every byte list ---------------------------- *)

Lemma tag_unescape_escape1 : forall b rest,
  tag_unescape (tag_escape1 b ++ rest) = b :: tag_unescape rest.
Proof.
  intros b rest. unfold tag_escape1.
  destruct (b =? 59) eqn:E59; [apply N.eqb_eq in E59; subst; reflexivity|].
  destruct (b =? 32) eqn:E32; [apply N.eqb_eq in E32; subst; reflexivity|].
  destruct (b =? 92) eqn:E92; [apply N.eqb_eq in E92; subst; reflexivity|].
  destruct (b =? 13) eqn:E13; [apply N.eqb_eq in E13; subst; reflexivity|].
  destruct (b =? 10) eqn:E10; [apply N.eqb_eq in E10; subst; reflexivity|].
  cbn [app tag_unescape]. rewrite E92. reflexivity.
Qed.

Lemma tag_unescape_escape : forall v, tag_unescape (tag_escape v) = v.
Proof.
  induction v as [|b v IH]; [reflexivity|].
  unfold tag_escape in *. cbn [flat_map].
  rewrite tag_unescape_escape1, IH. reflexivity.
Qed.

(* ---- Get after Set ------------------------------------------------------------------- *)
Require Import OrderLemmas AMapLemmas.

(* A Set that reports success stores the value: Get returns exactly the value given to
   Set, every other key is unchanged -- for every receiver (a nil Tags is refused). *)
Lemma tags_get_set : forall (t : wtags) k v t',
  tags_set t k v = Some t' ->
  tags_get t' k = Some v /\ (forall k', k' <> k -> tags_get t' k' = tags_get t k').
Proof.
  intros t k v t' H. unfold tags_set in H. destruct t as [m|]; [|discriminate].
  destruct (negb (valid_tag k)); [discriminate|].
  destruct (Nat.ltb 0 (length (tag_escape v)) && negb (valid_tag_value (tag_escape v)))%bool; [discriminate|].
  destruct (Nat.ltb max_tag_length _); [discriminate|].
  inversion H; subst t'. split.
  - cbn [tags_get]. rewrite alookup_aset_eq. cbn [option_map]. rewrite tag_unescape_escape. reflexivity.
  - intros k' Hne. cbn [tags_get]. rewrite alookup_aset_neq by congruence. reflexivity.
Qed.

(* The hypothesis is satisfiable: all five escapable characters in one value. *)
Example tags_set_example :
  exists t', tags_set (Some []) (bs "+draft/k") [59; 32; 92; 13; 10; 120] = Some t'.
Proof. vm_compute. eexists; reflexivity. Qed.

(* Set on a nil Tags is an error: it never reports success while losing the value. *)
Lemma tags_set_nil_error : forall k v, tags_set None k v = None.
Proof. reflexivity. Qed.
