(* Lemmas about Model/Tags.v: the escape table, Get/Set. *)
From Coq Require Import Lia ZifyBool ZifyN ZifyNat.
Require Import Bytes AMap Tags.

Arguments N.eqb : simpl never.
Arguments N.leb : simpl never.

(* ---- tag_unescape (tag_escape v) = v for every byte list ---------------------------- *)

Lemma tag_unescape_escape1 : forall b rest,
  tag_unescape (tag_escape1 b ++ rest) = b :: tag_unescape rest.
Proof.
  intros b rest. unfold tag_escape1.
  destruct (b =? 59) eqn:E59; [apply N.eqb_eq in E59; subst; reflexivity|].
  destruct (b =? 32) eqn:E32; [apply N.eqb_eq in E32; subst; reflexivity|].
  destruct (b =? 92) eqn:E92; [apply N.eqb_eq in E92; subst; reflexivity|].
  destruct (b =? 13) eqn:E13; [apply N.eqb_eq in E13; subst; reflexivity|].
  destruct (b =? 10) eqn:E10; [apply N.eqb_eq in E10; subst; reflexivity|].
  cbn [app tag_unescape]. rewrite E92. reflexivity.
Qed.

Lemma tag_unescape_escape : forall v, tag_unescape (tag_escape v) = v.
Proof.
  induction v as [|b v IH]; [reflexivity|].
  unfold tag_escape in *. cbn [flat_map].
  rewrite tag_unescape_escape1, IH. reflexivity.
Qed.
