(* Proofs for C09, part 6.
   (A) Write faults: the error that ends sendLoop, the cleanup line internalConnect prints
       for it and the value Connect returns do not depend on the event being written; the
       Debug lines caused by a Sensitive event whose write fails do not depend on its
       parameters.
   (B) PLAIN is a stateless mechanism: every Encode call answers with base64 of the fields
       as they are at that call, whatever was asked or configured before; in a sequence of
       exchanges (run_stateful) each challenge is answered with the chunks of the current
       credential. *)
Require Import Bytes Utf8 Base64 CapLib StsState Sasl SaslSpec FormatLemmas Base64Lemmas.
Require Import SaslProofs SaslFailClosed SaslLogProofs SaslStateful.
From Coq Require Import Lia.

(* ---- (A) ----------------------------------------------------------------------------- *)

Theorem send_error_independent_of_event fault e e' :
  send_loop_error fault e = send_loop_error fault e'.
Proof. reflexivity. Qed.

Theorem write_fault_result_is_io_error w e : write_fault_result w e = Some w.
Proof. reflexivity. Qed.

Theorem write_fault_ni strip_raw w e ps :
  ev_sensitive e = true ->
  write_fault_log strip_raw w (with_params e ps) = write_fault_log strip_raw w e /\
  write_fault_result w (with_params e ps) = write_fault_result w e /\
  write_fault_log strip_raw w e =
    [t_gt ++ t_extra ++ ev_cmd e ++ t_rparen; t_cleanup ++ w].
Proof.
  intros H. unfold write_fault_log, write_fault_result, send_loop_error, cleanup_log.
  assert (H' : ev_sensitive (with_params e ps) = true) by exact H.
  rewrite (debug_log_sensitive strip_raw false _ H'), (debug_log_sensitive strip_raw false _ H).
  repeat split.
Qed.

(* every secret-bearing event of the model: a write fault on it logs a constant *)
Theorem secret_write_fault_constant strip_raw w :
  (forall pw pw', write_fault_log strip_raw w (pass_event pw) = write_fault_log strip_raw w (pass_event pw')) /\
  (forall x x', write_fault_log strip_raw w (webirc_event x) = write_fault_log strip_raw w (webirc_event x')) /\
  (forall u p u' p', write_fault_log strip_raw w (oper_event u p) = write_fault_log strip_raw w (oper_event u' p')) /\
  (forall c c', write_fault_log strip_raw w (chunk_event (Payload c)) =
                write_fault_log strip_raw w (chunk_event (Payload c'))).
Proof. repeat split. Qed.

Example write_fault_example :
  write_fault_log id_strip (bs "write: broken pipe") (pass_event (bs "hunter2hunter2")) =
    [bs ">%!(EXTRA string= %s ***redacted***, string=PASS)";
     bs "received error, beginning cleanup: write: broken pipe"] /\
  write_fault_result (bs "write: broken pipe") (pass_event (bs "hunter2hunter2")) = Some (bs "write: broken pipe").
Proof. vm_compute. split; reflexivity. Qed.

(* ---- (B) ----------------------------------------------------------------------------- *)

(* one SASLPlain value, a sequence of (user, password, challenge parameters) as they are
   at each Encode call *)
Definition plain_calls (l : list (str * str * list str)) : list str :=
  List.map (fun x => sasl_plain_encode (fst (fst x)) (snd (fst x)) (snd x)) l.

Theorem plain_calls_current_fields l :
  Forall2 (fun x r =>
             (snd x = [c_plus] ->
              r = plain_encode (fst (fst x)) (snd (fst x)) /\
              (bytes_ok (fst (fst x)) -> bytes_ok (snd (fst x)) ->
               base64_decode r = Some (fst (fst x) ++ 0 :: fst (fst x) ++ 0 :: snd (fst x)))) /\
             (snd x <> [c_plus] -> r = []))
          l (plain_calls l).
Proof.
  induction l as [|[[u p] ps] l IH]; cbn [plain_calls List.map]; constructor; [|exact IH].
  cbn [fst snd]. split.
  - intros ->. split; [apply sasl_plain_on_plus|]. intros Hu Hp. rewrite sasl_plain_on_plus.
    exact (plain_decodes u p Hu Hp).
  - intros H. exact (sasl_plain_declines u p ps H).
Qed.

(* the i-th answer does not depend on the other calls *)
Theorem plain_calls_no_memory pre post pre' post' x :
  nth (length pre) (plain_calls (pre ++ x :: post)) [] =
  nth (length pre') (plain_calls (pre' ++ x :: post')) [].
Proof.
  unfold plain_calls. rewrite !map_app. cbn [List.map].
  rewrite !app_nth2 by (rewrite map_length; lia). rewrite !map_length, !Nat.sub_diag. reflexivity.
Qed.

Definition chunks_of (r : str) : list chunk :=
  match sasl_chunks r with Ok cs => cs | Panic => [] end.

Lemma chunks_of_chunked r : r <> [] -> chunked r (chunks_of r).
Proof.
  intros H. unfold chunks_of. destruct (sasl_chunks_spec r H) as [cs [-> Hc]]. exact Hc.
Qed.

Definition challenge_plus (e : event) : Prop :=
  ev_echo e = false /\ ev_cmd e = c_AUTHENTICATE /\ ev_params e = [c_plus].

(* one exchange: the client answers the challenge with the chunks of the CURRENT
   credential, from any negotiation state, and stays open *)
Theorem plain_step_delivers c ns u p e :
  cfg_tracking c = true -> challenge_plus e ->
  feed (set_sasl c (plain_mech u p)) (mkConn ns None) e =
    Ok (mkConn ns None,
        List.map (fun ch => Write (chunk_event ch)) (chunks_of (plain_encode u p))).
Proof.
  intros Ht [Hecho [Hcmd Hps]].
  assert (Henc : mech_encode (plain_mech u p) (ev_params e) = plain_encode u p).
  { rewrite Hps. reflexivity. }
  assert (Hne : mech_encode (plain_mech u p) (ev_params e) <> []).
  { rewrite Henc. apply plain_encode_nonempty. }
  assert (Hch : chunked (mech_encode (plain_mech u p) (ev_params e)) (chunks_of (plain_encode u p))).
  { rewrite Henc. apply chunks_of_chunked. apply plain_encode_nonempty. }
  unfold feed. cbn [cn_returned cn_ns].
  rewrite (eli_respond (plain_mech u p) (set_sasl c (plain_mech u p)) eq_refl Ht ns e _ Hecho Hcmd Hne Hch).
  cbn [rbind]. rewrite first_inject_chunks. reflexivity.
Qed.

(* a sequence of exchanges on one mechanism value whose fields the application changes in
   between: exchange i delivers credential i *)
Theorem plain_sequence_delivers c :
  cfg_tracking c = true ->
  forall (steps : list (str * str * event)) ns,
  Forall (fun x => challenge_plus (snd x)) steps ->
  exists outs,
    run_stateful c (mkConn ns None)
      (List.map (fun x => (plain_mech (fst (fst x)) (snd (fst x)), snd x)) steps) =
      Ok (mkConn ns None, outs) /\
    writes_of outs =
      flat_map (fun x => List.map chunk_event (chunks_of (plain_encode (fst (fst x)) (snd (fst x))))) steps.
Proof.
  intros Ht steps. induction steps as [|[[u p] e] steps IH]; intros ns Hall.
  - exists []. split; reflexivity.
  - inversion Hall as [|? ? He Hall']; subst. cbn [snd] in He.
    destruct (IH ns Hall') as [o2 [Hr Hw]].
    eexists. cbn [List.map fst snd]. split.
    + exact (rs_cons _ _ _ _ _ _ _ _ _ (plain_step_delivers c ns u p e Ht He) Hr).
    + rewrite writes_of_app, writes_of_chunks, Hw. reflexivity.
Qed.

Example plain_sequence_example :
  plain_calls [(bs "alice", bs "one", [bs "+"]); (bs "alice", bs "two", [bs "+"]);
               (bs "bob", bs "two", [bs "x"]); (bs "bob", bs "two", [bs "+"])] =
    [bs "YWxpY2UAYWxpY2UAb25l"; bs "YWxpY2UAYWxpY2UAdHdv"; []; bs "Ym9iAGJvYgB0d28="].
Proof. vm_compute. reflexivity. Qed.
